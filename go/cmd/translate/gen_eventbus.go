package main

// G7 for the event bus (C15): the lock regions and the dispatch structure of
// spine/events.go, and the sites in package spine that put the local device on
// the core level of the bus — the facts the hand-written models Spine.Bus
// (Events.lean), its lock refinement (EventsLock.lean) and the connection model
// (EventsConn.lean) rest on.
//
// The facts are SEMANTIC, not textual: the methods are run through the small
// abstract interpreter of absint.go, which follows calls to helpers of the same
// package (in whatever file they live), runs deferred calls at the end of the
// frame that deferred them, unrolls the loop over the levels and visits an
// abstract handler list holding one core and one application item in both
// orders. A refactoring that extracts or inlines helpers, turns if/else into
// switch, a loop into calls, or renames unexported identifiers leaves them
// unchanged; a change of a lock region, of the dispatch or of the subscription
// sites does not. A fact that cannot be established is emitted as `false` with
// a note, never silently: the theorems of Spine/Props/C15Gen.lean then no
// longer check.

import (
	"fmt"
	"go/ast"
	"path/filepath"
	"strings"
)

func init() { register("eventbus", genEventBus) }

// lockSeq: the lock operations of the main path. Lock operations on exit paths (an early return that releases what it
// holds) are left out; a path that returns while still holding a mutex nothing will release counts as conditional.
func lockSeq(ev []aevent) (seq []string, anyCond bool) {
	for _, e := range ev {
		if e.kind == "lock" {
			seq = append(seq, e.op+":"+e.name)
			anyCond = anyCond || e.cond
		}
		if e.kind == "leak" {
			seq = append(seq, "returns-holding:"+e.name)
			anyCond = true
		}
	}
	return
}

func typeString(e ast.Expr) string {
	switch x := e.(type) {
	case *ast.Ident:
		return x.Name
	case *ast.SelectorExpr:
		return typeString(x.X) + "." + x.Sel.Name
	case *ast.StarExpr:
		return "*" + typeString(x.X)
	case *ast.ArrayType:
		return "[]" + typeString(x.Elt)
	case *ast.MapType:
		return "map[" + typeString(x.Key) + "]" + typeString(x.Value)
	}
	return fmt.Sprintf("%T", e)
}

func genEventBus(outDir string) (string, error) {
	pkg, err := loadPkg(filepath.Join(RepoDir(), "spine"), "verif_hooks")
	if err != nil {
		return "", err
	}
	var notes []string
	note := func(format string, a ...any) { notes = append(notes, fmt.Sprintf(format, a...)) }

	// ---- the state of the bus: two mutexes and the handler list (names are free)
	mutexes := map[string]bool{}
	listField, levelField := "", ""
	stateOK := false
	// the bus is the value of the package variable Events; its type, fields and helpers may have any (unexported) name
	busType := "events"
	if t, ok := pkg.varType["Events"]; ok {
		busType = strings.TrimPrefix(typeString(t), "*")
	}
	peersField := "remoteDevices"
	if st := pkg.structs["DeviceLocal"]; st != nil {
		for _, fl := range st.Fields.List {
			if typeString(fl.Type) == "map[string]api.DeviceRemoteInterface" && len(fl.Names) == 1 {
				peersField = fl.Names[0].Name
			}
		}
	}
	if st := pkg.structs[busType]; st == nil {
		note("type of the bus (%s) not found", busType)
	} else {
		var other []string
		for _, fl := range st.Fields.List {
			t := typeString(fl.Type)
			names := []string{}
			for _, n := range fl.Names {
				names = append(names, n.Name)
			}
			if len(names) == 0 {
				other = append(other, "embedded "+t)
			}
			for _, n := range names {
				switch {
				case t == "sync.Mutex" || t == "sync.RWMutex":
					mutexes[n] = true
				case strings.HasPrefix(t, "[]") && listField == "":
					listField = n
					if it := pkg.structs[strings.TrimPrefix(t, "[]")]; it != nil {
						for _, f := range it.Fields.List {
							if typeString(f.Type) == "api.EventHandlerLevel" && len(f.Names) == 1 {
								levelField = f.Names[0].Name
							}
						}
					}
				default:
					other = append(other, n+" "+t)
				}
			}
		}
		stateOK = len(mutexes) == 2 && listField != "" && len(other) == 0
		if !stateOK {
			note("type of the bus: expected exactly two mutex fields and the handler list, found mutexes=%d list=%q other=%v", len(mutexes), listField, other)
		}
	}
	mk := func(order int) *interp {
		in := newInterp(pkg, mutexes, listField, order)
		in.levelField = levelField
		in.peersField = peersField
		return in
	}

	// ---- subscribe / unsubscribe: one critical section under the list mutex (write lock), released last,
	//      no other lock, no handler invocation, no blocking operation
	listMu := ""
	oneSection := func(name string) bool {
		in := mk(0)
		if !in.run(busType, name, nil) {
			note("method %s of the bus not found", name)
			return false
		}
		seq, _ := lockSeq(in.ev)
		ok := len(seq) == 2 && strings.HasPrefix(seq[0], "Lock:") && seq[1] == "Unlock:"+strings.TrimPrefix(seq[0], "Lock:")
		if ok {
			mu := strings.TrimPrefix(seq[0], "Lock:")
			if listMu == "" {
				listMu = mu
			}
			ok = mu == listMu
			// the unlock is the last thing that happens, the lock the first that touches the bus
			first, last := -1, -1
			for i, e := range in.ev {
				if e.kind == "lock" {
					if first < 0 {
						first = i
					}
					last = i
				}
			}
			for i, e := range in.ev {
				switch e.kind {
				case "deliver", "block":
					ok = false
				case "other":
					ok = false
					note("%s: call the generator cannot account for: %s", name, e.name)
				case "hread", "hwrite":
					if i < first || i > last {
						ok = false
					}
				}
			}
			if in.ev[first].cond || in.ev[last].cond {
				ok = false
			}
		}
		if !ok {
			note("%s is not exactly one critical section under the list mutex (lock operations: %v)", name, seq)
		}
		return ok
	}
	subscribeOnlyMu := oneSection("subscribe")
	unsubscribeOnlyMu := oneSection("unsubscribe")
	handleMu := ""
	for m := range mutexes {
		if m != listMu {
			handleMu = m
		}
	}
	// the exported Subscribe / Unsubscribe are subscribe / unsubscribe at application level and nothing else
	delegates := func(name, to string) bool {
		in := mk(0)
		if !in.run(busType, name, nil) {
			return false
		}
		n, ok := 0, true
		depth0 := true
		for _, e := range in.ev {
			if e.kind == "inline" && e.name == to && depth0 {
				n++
				ok = ok && e.level == in.levelConst[1] && !e.cond
				depth0 = false
			}
		}
		seq, _ := lockSeq(in.ev)
		if n != 1 || !ok || len(seq) != 2 {
			note("events.%s is not %s at application level and nothing else", name, to)
			return false
		}
		return true
	}
	exportedDelegate := delegates("Subscribe", "subscribe")
	exportedDelegate = delegates("Unsubscribe", "unsubscribe") && exportedDelegate

	// ---- Publish, interpreted twice (abstract list [core, application] and [application, core])
	muReleased, fourOps, spans, snapshot, coreSync, appAsync, coreFirst, blocksOnly := true, true, true, true, true, true, true, true
	for order := 0; order < 2; order++ {
		in := mk(order)
		if !in.run(busType, "Publish", nil) {
			note("method events.Publish not found")
			muReleased, fourOps, spans, snapshot, coreSync, appAsync, coreFirst, blocksOnly = false, false, false, false, false, false, false, false
			break
		}
		seq, condLock := lockSeq(in.ev)
		// the four lock operations, in this order; the snapshot may be taken under a read lock
		want := []string{"Lock:" + listMu, "Unlock:" + listMu, "Lock:" + handleMu, "Unlock:" + handleMu}
		wantR := []string{"RLock:" + listMu, "RUnlock:" + listMu, "Lock:" + handleMu, "Unlock:" + handleMu}
		same := func(a, b []string) bool { return strings.Join(a, ",") == strings.Join(b, ",") }
		if !(same(seq, want) || same(seq, wantR)) || condLock {
			fourOps = false
			// is at least the release of the list mutex before the acquisition of the dispatch mutex?
			iu, ih := -1, -1
			for i, s := range seq {
				if (s == "Unlock:"+listMu || s == "RUnlock:"+listMu) && iu < 0 {
					iu = i
				}
				if s == "Lock:"+handleMu && ih < 0 {
					ih = i
				}
			}
			if iu < 0 || ih < 0 || iu > ih || condLock {
				muReleased = false
			}
			if order == 0 {
				note("Publish: lock operations are %v (conditional: %v), expected %v", seq, condLock, want)
			}
		}
		// positions
		hl, hu := -1, -1
		for i, e := range in.ev {
			if e.kind == "lock" && e.name == handleMu {
				if e.op == "Lock" && hl < 0 {
					hl = i
				}
				if e.op == "Unlock" {
					hu = i
				}
			}
		}
		var deliveries []aevent
		var dIdx []int
		for i, e := range in.ev {
			switch e.kind {
			case "deliver":
				deliveries = append(deliveries, e)
				dIdx = append(dIdx, i)
				if i < hl || i > hu || hl < 0 {
					spans = false
				}
			case "block":
				blocksOnly = false
				if order == 0 {
					note("Publish: blocking operation %s", e.name)
				}
			case "other":
				blocksOnly = false
				if order == 0 {
					note("Publish: operation the generator cannot account for (possibly blocking): %s", e.name)
				}
			case "hwrite":
				snapshot = false
			case "hread":
				heldList := false
				for _, m := range e.held {
					heldList = heldList || m == listMu
				}
				if !heldList || !(e.op == "len" || e.op == "copysrc" || e.op == "clone") {
					snapshot = false
					if order == 0 {
						note("Publish: the handler list is read outside the list mutex or other than by len / copy / Clone (%s, held %v)", e.op, e.held)
					}
				}
			}
		}
		if hu >= 0 {
			for _, e := range in.ev[hu+1:] {
				if e.kind != "inline" {
					spans = false // something happens after the dispatch mutex is released
				}
			}
		} else {
			spans = false
		}
		// exactly one delivery per abstract item, unconditional, from a copy made under the list mutex
		nCore, nApp, iCore, iApp := 0, 0, -1, -1
		for k, d := range deliveries {
			if d.cond || d.level == "unknown" {
				coreSync, appAsync, coreFirst = false, false, false
				if order == 0 {
					note("Publish: a handler invocation the generator cannot attribute to a level (conditional=%v)", d.cond)
				}
			}
			if d.list == nil || d.list.origin != "snapshot" || !d.list.copiedUnderMu {
				snapshot = false
			}
			switch d.level {
			case in.levelConst[0]:
				nCore++
				iCore = dIdx[k]
				if d.op != "plain" {
					coreSync = false
				}
			case in.levelConst[1]:
				nApp++
				iApp = dIdx[k]
				if d.op != "go" {
					appAsync = false
				}
			}
		}
		if nCore != 1 {
			coreSync = false
		}
		if nApp != 1 {
			appAsync = false
		}
		if nCore != 1 || nApp != 1 || iCore > iApp {
			coreFirst = false
		}
		if len(deliveries) == 0 {
			snapshot = false
		}
	}
	if !muReleased {
		note("Publish: the list mutex is not released before the dispatch mutex is acquired")
	}
	if !spans {
		note("Publish: the handler invocations are not enclosed by the dispatch mutex, released last")
	}
	if !snapshot {
		note("Publish: the handlers are not dispatched from a copy of the list made under the list mutex")
	}
	if !coreSync {
		note("Publish: a core handler is not invoked exactly once, synchronously")
	}
	if !appAsync {
		note("Publish: an application handler is not started exactly once, with `go`")
	}
	if !coreFirst {
		note("Publish: not every core handler is invoked before every application handler (for both orders of the list)")
	}

	// ---- package spine: the local device is put on / taken off the core level
	coreEverySetup, coreUnsubOnlyWhenEmpty, coreSites := false, false, false
	{
		in := mk(0)
		if in.run("DeviceLocal", "SetupRemoteDevice", nil) {
			uncond := 0
			for _, e := range in.ev {
				if e.kind == "coresub" && !e.cond && !e.late {
					uncond++
				}
			}
			coreEverySetup = uncond >= 1
		}
		if !coreEverySetup {
			note("SetupRemoteDevice does not reach `Events.subscribe(core level, the local device)` on every path")
		}
		in = mk(0)
		if in.run("DeviceLocal", "RemoveRemoteDevice", nil) {
			n, guarded := 0, 0
			for _, e := range in.ev {
				if e.kind == "coreunsub" {
					n++
					for _, g := range e.guards {
						if g == "nopeers" {
							guarded++
							break
						}
					}
				}
			}
			coreUnsubOnlyWhenEmpty = n == 1 && guarded == 1
		}
		if !coreUnsubOnlyWhenEmpty {
			note("RemoveRemoteDevice does not unsubscribe the local device exactly once, under `len(remoteDevices) == 0`")
		}
		// every call site of the unexported subscribe / unsubscribe outside events.go lies in SetupRemoteDevice /
		// RemoveRemoteDevice or in a helper that only those two call
		type site struct{ fn, what string }
		var sites []site
		callers := map[string]map[string]bool{} // callee name -> set of caller function keys
		for base, f := range pkg.files {
			if base == "events.go" {
				continue
			}
			for _, d := range f.Decls {
				fd, ok := d.(*ast.FuncDecl)
				if !ok || fd.Body == nil {
					continue
				}
				key := fd.Name.Name
				if rt := recvTypeName(fd); rt != "" {
					key = rt + "." + key
				}
				ast.Inspect(fd.Body, func(n ast.Node) bool {
					c, ok := n.(*ast.CallExpr)
					if !ok {
						return true
					}
					if se, ok := c.Fun.(*ast.SelectorExpr); ok {
						if id, ok := se.X.(*ast.Ident); ok && id.Name == "Events" && (se.Sel.Name == "subscribe" || se.Sel.Name == "unsubscribe") {
							sites = append(sites, site{key, se.Sel.Name})
						}
						if callers[se.Sel.Name] == nil {
							callers[se.Sel.Name] = map[string]bool{}
						}
						callers[se.Sel.Name][key] = true
					}
					if id, ok := c.Fun.(*ast.Ident); ok {
						if callers[id.Name] == nil {
							callers[id.Name] = map[string]bool{}
						}
						callers[id.Name][key] = true
					}
					return true
				})
			}
		}
		nSub, nUnsub := 0, 0
		coreSites = true
		for _, s := range sites {
			owner := map[string]string{"subscribe": "DeviceLocal.SetupRemoteDevice", "unsubscribe": "DeviceLocal.RemoveRemoteDevice"}[s.what]
			if s.what == "subscribe" {
				nSub++
			} else {
				nUnsub++
			}
			if s.fn == owner {
				continue
			}
			short := s.fn[strings.LastIndex(s.fn, ".")+1:]
			cs := callers[short]
			if len(cs) != 1 || !cs[owner] {
				coreSites = false
				note("Events.%s is called in %s, which is not (only) reached from %s", s.what, s.fn, owner)
			}
		}
		if nSub != 1 || nUnsub != 1 {
			coreSites = false
			note("package spine calls Events.subscribe %d times and Events.unsubscribe %d times outside events.go (expected 1 and 1)", nSub, nUnsub)
		}
	}

	var b strings.Builder
	b.WriteString("/-! GENERATED by go/cmd/translate (generator `eventbus`) from package spine (events.go, device_local*.go) — do not edit.\n")
	b.WriteString("    Facts are computed by abstract interpretation with helpers of the package inlined (go/cmd/translate/absint.go). -/\n")
	b.WriteString("namespace Spine.Generated.EventBus\n\n")
	w := func(doc, name string, v bool) {
		fmt.Fprintf(&b, "/-- %s -/\ndef %s : Bool := %v\n\n", doc, name, v)
	}
	w("running Publish (helpers inlined) releases the list mutex before it acquires the dispatch mutex: a publisher that waits for the dispatch mutex does not hold the list mutex", "muReleasedBeforeMuHandle", muReleased)
	w("the handler invocations of Publish lie between the acquisition and the release of the dispatch mutex, and nothing happens after the release", "muHandleSpansDispatch", spans)
	w("the lock operations of Publish (helpers inlined, deferred calls run at the end of their frame) are exactly: lock list mutex, unlock it, lock dispatch mutex, unlock it — none on a conditional path", "publishFourLockOps", fourOps)
	w("under the list mutex Publish copies the handler list (make+copy or Clone) and every handler it invokes is taken from that copy; the list itself is only read under the mutex, by len / copy / Clone", "snapshotIsCopy", snapshot)
	w("for either order of the list, a core-level item is invoked exactly once, by a plain call", "coreSynchronous", coreSync)
	w("for either order of the list, an application-level item is started exactly once, with `go`", "applicationAsync", appAsync)
	w("for either order of the list, the core-level item is invoked before the application-level item is started", "coreLevelFirst", coreFirst)
	w("subscribe is one critical section under the list mutex: write lock first, unlock last, no other lock, no handler invocation, no blocking or unaccounted call", "subscribeOnlyMu", subscribeOnlyMu)
	w("unsubscribe is one critical section under the list mutex: write lock first, unlock last, no other lock, no handler invocation, no blocking or unaccounted call", "unsubscribeOnlyMu", unsubscribeOnlyMu)
	w("the exported Subscribe / Unsubscribe are subscribe / unsubscribe at application level and nothing else", "exportedDelegate", exportedDelegate)
	w("Publish (helpers inlined) performs nothing but make / len / copy / Clone, the four mutex operations and the handler invocations: no WaitGroup / Cond wait, no channel operation, no select, no call the generator cannot account for — it blocks on nothing but the two mutexes", "publishBlocksOnlyOnTheTwoMutexes", blocksOnly)
	w("the state of the bus is exactly two mutexes and the handler list", "stateIsTwoMutexesAndList", stateOK)
	w("package spine: SetupRemoteDevice reaches `Events.subscribe(core level, the local device)` on every path (directly or through helpers)", "coreSubscribedOnEverySetup", coreEverySetup)
	w("package spine: RemoveRemoteDevice unsubscribes the local device exactly once, on the path guarded by `len(remoteDevices) == 0` (directly or through helpers)", "coreUnsubscribedOnlyWhenNoPeerLeft", coreUnsubOnlyWhenEmpty)
	w("package spine: the unexported Events.subscribe / Events.unsubscribe are called once each outside events.go, in SetupRemoteDevice / RemoveRemoteDevice or a helper only they call", "coreLevelSitesAreThoseTwo", coreSites)
	for _, n := range notes {
		fmt.Fprintf(&b, "-- note: %s\n", n)
	}
	b.WriteString("end Spine.Generated.EventBus\n")
	if err := writeFile(outDir, "EventBus.lean", b.String()); err != nil {
		return "", err
	}
	return fmt.Sprintf("muReleasedBeforeMuHandle=%v muHandleSpansDispatch=%v fourLockOps=%v snapshotIsCopy=%v coreSync=%v appAsync=%v coreFirst=%v subscribeOnlyMu=%v unsubscribeOnlyMu=%v delegate=%v blocksOnlyOnMutexes=%v state=%v coreEverySetup=%v coreUnsubWhenEmpty=%v coreSites=%v notes=%d",
		muReleased, spans, fourOps, snapshot, coreSync, appAsync, coreFirst, subscribeOnlyMu, unsubscribeOnlyMu, exportedDelegate, blocksOnly, stateOK, coreEverySetup, coreUnsubOnlyWhenEmpty, coreSites, len(notes)), nil
}
