package main

// G7 for the event bus (C15): the lock regions and the dispatch structure of
// spine/events.go, and the sites in package spine that put the local device on
// the core level of the bus — the facts the hand-written models Spine.Bus
// (Events.lean), its lock refinement (EventsLock.lean) and the connection model
// (EventsConn.lean) rest on.
//
// The facts are SEMANTIC, not textual: the methods are run through the small
// abstract interpreter of absint.go, which follows calls to helpers of the same
// package (in whatever file they live), runs deferred calls at the end of the
// frame that deferred them, unrolls the loop over the levels and visits an
// abstract handler list holding one core and one application item in both
// orders. A refactoring that extracts or inlines helpers, turns if/else into
// switch, a loop into calls, or renames unexported identifiers leaves them
// unchanged; a change of a lock region, of the dispatch or of the subscription
// sites does not. A fact that cannot be established is emitted as `false` with
// a note, never silently: the theorems of Spine/Props/C15Gen.lean then no
// longer check.
//
// The two mutexes of the bus are identified BY ROLE (held at the accesses to the
// handler list / held at the handler invocations). Further mutexes are tolerated
// only as LEAF LOCKS, further fields only as state confined to the sections of
// one leaf lock: see leafProblems and the text of stateIsTwoMutexesAndList. The
// leaf sections are taken out of the traces before the facts are computed, so
// everything else is judged exactly as it is on a bus without them.

import (
	"fmt"
	"go/ast"
	"path/filepath"
	"sort"
	"strings"
)

func init() { register("eventbus", genEventBus) }

// lockSeq: the lock operations of the main path. Lock operations on exit paths (an early return that releases what it
// holds) are left out; a path that returns while still holding a mutex nothing will release counts as conditional.
func lockSeq(ev []aevent) (seq []string, anyCond bool) {
	for _, e := range ev {
		if e.kind == "lock" {
			seq = append(seq, e.op+":"+e.name)
			anyCond = anyCond || e.cond
		}
		if e.kind == "leak" {
			seq = append(seq, "returns-holding:"+e.name)
			anyCond = true
		}
	}
	return
}

func typeString(e ast.Expr) string {
	switch x := e.(type) {
	case *ast.Ident:
		return x.Name
	case *ast.SelectorExpr:
		return typeString(x.X) + "." + x.Sel.Name
	case *ast.StarExpr:
		return "*" + typeString(x.X)
	case *ast.ArrayType:
		return "[]" + typeString(x.Elt)
	case *ast.MapType:
		return "map[" + typeString(x.Key) + "]" + typeString(x.Value)
	}
	return fmt.Sprintf("%T", e)
}

// busTrace: one bus method run through the interpreter as an entry point (helpers inlined).
type busTrace struct {
	method  string
	order   int
	ev      []aevent
	endHeld map[string]int
	cont    map[pathElem]bool
}

func hasStr(xs []string, x string) bool {
	for _, y := range xs {
		if y == x {
			return true
		}
	}
	return false
}

// stripPath drops the path elements that only say "after an arm that returned": whether that arm released what it
// had to is checked separately (leak events), so the rest of the frame counts as the same path as what precedes it.
func stripPath(p []pathElem, cont map[pathElem]bool) []pathElem {
	var out []pathElem
	for _, e := range p {
		if !cont[e] {
			out = append(out, e)
		}
	}
	return out
}

// leafProblems: why the critical sections of mutex x in this trace are not all LEAF sections (empty: they are).
// A leaf section is a Lock…Unlock (RLock…RUnlock) pair of x that the entry method itself closes on every path —
// the release lies on the same path as the acquisition (or is deferred unconditionally, or is the release of an
// exit path that returns at once), nothing returns holding x, x is not held when the method ends — and while x is
// held nothing is recorded but calls to inlined helpers and accesses to watched fields: no handler invocation, no
// access to the handler list, no lock operation on any mutex, no blocking operation, no `go`, no unaccounted call.
// accessed receives the watched fields touched while x is held.
func leafProblems(tr *busTrace, x string, accessed map[string]bool) (probs []string) {
	bad := func(format string, a ...any) {
		if len(probs) < 4 {
			probs = append(probs, fmt.Sprintf("%s: ", tr.method)+fmt.Sprintf(format, a...))
		}
	}
	var cur *aevent
	for i := range tr.ev {
		e := &tr.ev[i]
		if (e.kind == "lock" || e.kind == "exitlock") && e.name == x {
			if e.async {
				bad("%s of %s inside a go statement", e.op, x)
			}
			switch e.op {
			case "Lock", "RLock":
				if hasStr(e.held, x) || cur != nil {
					bad("%s acquired while it is already held", x)
				}
				cur = e
			default:
				if cur == nil {
					bad("%s released (%s) without a matching acquisition", x, e.op)
					continue
				}
				if (cur.op == "Lock") != (e.op == "Unlock") {
					bad("%s acquired with %s but released with %s", x, cur.op, e.op)
				}
				sl, su := stripPath(cur.path, tr.cont), stripPath(e.path, tr.cont)
				switch {
				case len(sl) == len(su) && pathPrefix(sl, su) && cur.cond == e.cond && cur.kind == e.kind:
					cur = nil // acquired and released on the same path
				case e.kind == "exitlock" && cur.kind == "lock" && len(su) == len(sl)+1 && pathPrefix(sl, su):
					// the release of an exit path; the main path still holds x (the interpreter restores that)
				default:
					bad("%s is not released on the path it was acquired on (a conditional release or acquisition)", x)
					cur = nil
				}
			}
			continue
		}
		if e.kind == "leak" && e.name == x {
			bad("a path returns holding %s", x)
			continue
		}
		if !hasStr(e.held, x) {
			continue
		}
		switch {
		case e.async:
			bad("a go statement while %s is held (%s %s)", x, e.kind, e.name)
		case e.kind == "inline":
		case e.kind == "faccess":
			accessed[e.name] = true
		case e.kind == "lock" || e.kind == "exitlock":
			bad("%s of %s while %s is held", e.op, e.name, x)
		case e.kind == "deliver":
			bad("a handler invocation while %s is held", x)
		case e.kind == "hread" || e.kind == "hwrite":
			bad("the handler list is accessed while %s is held", x)
		case e.kind == "block":
			bad("blocking operation %s while %s is held", e.name, x)
		default:
			bad("%s %s while %s is held", e.kind, e.name, x)
		}
	}
	if cur != nil || tr.endHeld[x] != 0 {
		bad("%s is still held when the method returns", x)
	}
	return
}

func genEventBus(outDir string) (string, error) {
	pkg, err := loadPkg(filepath.Join(RepoDir(), "spine"), "verif_hooks")
	if err != nil {
		return "", err
	}
	var notes []string
	noted := map[string]bool{}
	note := func(format string, a ...any) { // every note once, in the order of first occurrence
		if n := fmt.Sprintf(format, a...); !noted[n] {
			noted[n] = true
			notes = append(notes, n)
		}
	}

	// ---- the fields of the bus: mutexes, the handler list, anything else (names are free)
	mutexes := map[string]bool{}
	var mutexOrder []string
	listField, levelField := "", ""
	var otherFields, embedded []string // otherFields: candidates for EXTRA STATE
	otherType := map[string]string{}
	// the bus is the value of the package variable Events; its type, fields and helpers may have any (unexported) name
	busType := "events"
	if t, ok := pkg.varType["Events"]; ok {
		busType = strings.TrimPrefix(typeString(t), "*")
	}
	peersField := "remoteDevices"
	if st := pkg.structs["DeviceLocal"]; st != nil {
		for _, fl := range st.Fields.List {
			if typeString(fl.Type) == "map[string]api.DeviceRemoteInterface" && len(fl.Names) == 1 {
				peersField = fl.Names[0].Name
			}
		}
	}
	busFound := false
	if st := pkg.structs[busType]; st == nil {
		note("type of the bus (%s) not found", busType)
	} else {
		busFound = true
		itemLevel := func(t string) string { // the level field of the element type of a slice type
			if it := pkg.structs[strings.TrimPrefix(t, "[]")]; it != nil {
				for _, f := range it.Fields.List {
					if typeString(f.Type) == "api.EventHandlerLevel" && len(f.Names) == 1 {
						return f.Names[0].Name
					}
				}
			}
			return ""
		}
		// the handler list: the slice of items that carry a level; failing that the first slice
		for pass := 0; pass < 2 && listField == ""; pass++ {
			for _, fl := range st.Fields.List {
				t := typeString(fl.Type)
				if strings.HasPrefix(t, "[]") && len(fl.Names) > 0 && listField == "" && (pass == 1 || itemLevel(t) != "") {
					listField, levelField = fl.Names[0].Name, itemLevel(t)
				}
			}
		}
		for _, fl := range st.Fields.List {
			t := typeString(fl.Type)
			if len(fl.Names) == 0 {
				embedded = append(embedded, t)
			}
			for _, n := range fl.Names {
				switch {
				case t == "sync.Mutex" || t == "sync.RWMutex":
					mutexes[n.Name] = true
					mutexOrder = append(mutexOrder, n.Name)
				case n.Name == listField:
				default:
					otherFields = append(otherFields, n.Name)
					otherType[n.Name] = t
				}
			}
		}
	}
	watch := map[string]bool{}
	for _, f := range otherFields {
		watch[f] = true
	}
	seen := map[ast.Node]bool{}
	mkPlain := func(order int) *interp {
		in := newInterp(pkg, mutexes, listField, order)
		in.levelField = levelField
		in.peersField = peersField
		return in
	}
	mk := func(order int) *interp { // for the methods of the bus: every access to a field of the receiver is recorded
		in := mkPlain(order)
		in.watch, in.watchSeen, in.contElems = watch, seen, map[pathElem]bool{}
		return in
	}
	levelConst := mkPlain(0).levelConst

	// ---- every method of the bus type, exported or not, run as an entry point, for both orders of the abstract list
	var busMethods []string
	for key := range pkg.funcs {
		if strings.HasPrefix(key, busType+".") {
			busMethods = append(busMethods, strings.TrimPrefix(key, busType+"."))
		}
	}
	sort.Strings(busMethods)
	traces := map[string][]*busTrace{}
	var allTraces []*busTrace
	if busFound {
		for _, m := range busMethods {
			for order := 0; order < 2; order++ {
				in := mk(order)
				if !in.run(busType, m, nil) {
					continue
				}
				tr := &busTrace{method: m, order: order, ev: in.ev, endHeld: in.held, cont: in.contElems}
				traces[m] = append(traces[m], tr)
				allTraces = append(allTraces, tr)
			}
		}
	}

	// ---- the two ROLE mutexes, by what they protect: the list mutex is the one held at the accesses to the handler
	//      list, the dispatch mutex the one held at the handler invocations. (Several candidates — e.g. a mutex that
	//      wraps the whole dispatch besides the dispatch mutex: the one with the tightest sections gets the role,
	//      the other one is then an additional mutex whose sections are not leaf sections.)
	heldCount := map[string]int{}
	for _, tr := range allTraces {
		for _, e := range tr.ev {
			for _, m := range e.held {
				heldCount[m]++
			}
		}
	}
	role := func(what string, is func(e aevent) bool, exclude string) string {
		total, at := 0, map[string]int{}
		for _, tr := range allTraces {
			for _, e := range tr.ev {
				if is(e) {
					total++
					for _, m := range e.held {
						at[m]++
					}
				}
			}
		}
		best := ""
		for _, m := range mutexOrder {
			if at[m] == 0 {
				continue
			}
			if best == "" || at[m] > at[best] || at[m] == at[best] && (heldCount[m] < heldCount[best] || heldCount[m] == heldCount[best] && m < best) {
				best = m
			}
		}
		if best == "" && len(mutexOrder) == 2 && exclude != "" { // two mutexes: the one that has not got the other role
			for _, m := range mutexOrder {
				if m != exclude {
					best = m
				}
			}
		}
		if best == "" {
			note("no mutex of the bus is held at %s: the role cannot be attributed", what)
		}
		return best
	}
	listMu := role("the accesses to the handler list", func(e aevent) bool { return e.kind == "hread" || e.kind == "hwrite" }, "")
	handleMu := role("the handler invocations", func(e aevent) bool { return e.kind == "deliver" }, listMu)
	if listMu == "" && handleMu != "" {
		listMu = role("the accesses to the handler list", func(e aevent) bool { return e.kind == "hread" || e.kind == "hwrite" }, handleMu)
	}
	rolesOK := listMu != "" && handleMu != "" && listMu != handleMu
	if listMu != "" && listMu == handleMu {
		note("one mutex (%s) is held both at the accesses to the handler list and at the handler invocations: there is no separate dispatch mutex", listMu)
		handleMu = ""
	}
	var extras []string // EXTRA mutexes: every mutex field besides the two role mutexes
	for _, m := range mutexOrder {
		if m != listMu && m != handleMu {
			extras = append(extras, m)
		}
	}
	isExtra := func(m string) bool { return hasStr(extras, m) }

	// ---- leaf sections: for every extra mutex, EVERY critical section anywhere in the type must be a leaf section
	//      (a leaf lock can be waited for without risk only because every holder releases it without waiting)
	leaf := map[string]bool{}
	accessedUnder := map[string]map[string]bool{}
	for _, x := range extras {
		leaf[x] = true
		accessedUnder[x] = map[string]bool{}
		reported := map[string]bool{}
		for _, tr := range allTraces {
			for _, p := range leafProblems(tr, x, accessedUnder[x]) {
				leaf[x] = false
				if !reported[p] {
					reported[p] = true
					note("additional mutex %s: not a leaf lock — %s", x, p)
				}
			}
		}
	}
	// EXTRA STATE: a field all of whose accesses (in every method) lie inside sections of one and the same extra mutex
	owner, confined := map[string]string{}, map[string]bool{}
	for _, f := range otherFields {
		confined[f] = true
	}
	for _, tr := range allTraces {
		for _, e := range tr.ev {
			if e.kind != "faccess" {
				continue
			}
			var xs []string
			for _, m := range e.held {
				if isExtra(m) {
					xs = append(xs, m)
				}
			}
			if len(xs) != 1 || e.async || owner[e.name] != "" && owner[e.name] != xs[0] {
				if confined[e.name] {
					note("field %s of the bus is accessed in %s outside the sections of one additional mutex (held: %v)", e.name, tr.method, e.held)
				}
				confined[e.name] = false
				continue
			}
			owner[e.name] = xs[0]
		}
	}
	for _, x := range extras { // a section that touches state which is not confined to it is not a leaf section
		var fs []string
		for f := range accessedUnder[x] {
			fs = append(fs, f)
		}
		sort.Strings(fs)
		for _, f := range fs {
			if !confined[f] && leaf[x] {
				leaf[x] = false
				note("additional mutex %s: not a leaf lock — its sections access field %s, which is also accessed elsewhere", x, f)
			}
		}
	}
	extraStateOK := true
	for _, f := range otherFields {
		if !confined[f] || owner[f] != "" && !leaf[owner[f]] {
			extraStateOK = false
			note("field %s %s of the bus is not state confined to the leaf sections of one additional mutex", f, otherType[f])
		}
	}
	allLeaf := true
	for _, x := range extras {
		allLeaf = allLeaf && leaf[x]
	}
	// every textual access to an extra mutex or to a further field must be one the interpreter has evaluated (and
	// therefore judged): in the methods of the bus every one, elsewhere in the package those on Events or on a
	// parameter of the bus type
	reachOK := true
	if len(extras)+len(otherFields) > 0 {
		interest := map[string]bool{}
		for _, x := range extras {
			interest[x] = true
		}
		for _, f := range otherFields {
			interest[f] = true
		}
		var fileNames []string
		for base := range pkg.files {
			fileNames = append(fileNames, base)
		}
		sort.Strings(fileNames)
		for _, base := range fileNames {
			for _, d := range pkg.files[base].Decls {
				fd, ok := d.(*ast.FuncDecl)
				if !ok || fd.Body == nil {
					continue
				}
				isBus := recvTypeName(fd) == busType
				busIdent := map[string]bool{"Events": true}
				for _, fl := range fd.Type.Params.List {
					if strings.TrimPrefix(typeString(fl.Type), "*") == busType {
						for _, n := range fl.Names {
							busIdent[n.Name] = true
						}
					}
				}
				ast.Inspect(fd.Body, func(n ast.Node) bool {
					se, ok := n.(*ast.SelectorExpr)
					if !ok || !interest[se.Sel.Name] || seen[se] {
						return true
					}
					x := se.X
					for {
						if p, ok := x.(*ast.ParenExpr); ok {
							x = p.X
						} else if u, ok := x.(*ast.UnaryExpr); ok {
							x = u.X
						} else if st, ok := x.(*ast.StarExpr); ok {
							x = st.X
						} else {
							break
						}
					}
					id, _ := x.(*ast.Ident)
					if isBus || id != nil && busIdent[id.Name] {
						reachOK = false
						note("%s: %s is used at a place the interpreter did not reach (%s)", pkg.fset.Position(se.Pos()).String()[len(filepath.Dir(pkg.fset.Position(se.Pos()).Filename))+1:], exprString(se), fd.Name.Name)
					}
					return true
				})
			}
		}
	}
	stateOK := busFound && rolesOK && listField != "" && len(embedded) == 0 && allLeaf && extraStateOK && reachOK
	if busFound && !stateOK {
		note("type of the bus: expected the list mutex, the dispatch mutex, the handler list and besides them only leaf locks with the state they guard; found list mutex=%q dispatch mutex=%q list=%q additional mutexes=%v further fields=%v embedded=%v", listMu, handleMu, listField, extras, otherFields, embedded)
	}

	// the trace of a method with the leaf sections of the (type-wide) leaf locks taken out: their lock operations and
	// everything recorded while one of them is held (by the above only calls to helpers and accesses to their state)
	strip := func(tr *busTrace) []aevent {
		var out []aevent
	next:
		for _, e := range tr.ev {
			if (e.kind == "lock" || e.kind == "exitlock") && leaf[e.name] {
				continue
			}
			for _, m := range e.held {
				if leaf[m] {
					continue next
				}
			}
			out = append(out, e)
		}
		return out
	}
	trace := func(name string, order int) ([]aevent, bool) {
		for _, tr := range traces[name] {
			if tr.order == order {
				return strip(tr), true
			}
		}
		return nil, false
	}

	// ---- subscribe / unsubscribe: one critical section under the list mutex (write lock), released last,
	//      no other lock (leaf sections aside), no handler invocation, no blocking operation
	oneSection := func(name string) bool {
		ev, found := trace(name, 0)
		if !found {
			note("method %s of the bus not found", name)
			return false
		}
		seq, _ := lockSeq(ev)
		ok := listMu != "" && len(seq) == 2 && seq[0] == "Lock:"+listMu && seq[1] == "Unlock:"+listMu
		if ok {
			// the unlock is the last thing that happens, the lock the first that touches the bus
			first, last := -1, -1
			for i, e := range ev {
				if e.kind == "lock" {
					if first < 0 {
						first = i
					}
					last = i
				}
			}
			for i, e := range ev {
				switch e.kind {
				case "deliver", "block":
					ok = false
				case "other":
					ok = false
					note("%s: call the generator cannot account for: %s", name, e.name)
				case "hread", "hwrite":
					if i < first || i > last {
						ok = false
					}
				}
			}
			if ev[first].cond || ev[last].cond {
				ok = false
			}
		}
		if !ok {
			note("%s is not exactly one critical section under the list mutex (lock operations besides leaf sections: %v)", name, seq)
		}
		return ok
	}
	subscribeOnlyMu := oneSection("subscribe")
	unsubscribeOnlyMu := oneSection("unsubscribe")
	// the exported Subscribe / Unsubscribe are subscribe / unsubscribe at application level and nothing else
	delegates := func(name, to string) bool {
		ev, found := trace(name, 0)
		if !found {
			return false
		}
		n, ok := 0, true
		depth0 := true
		for _, e := range ev {
			if e.kind == "inline" && e.name == to && depth0 {
				n++
				ok = ok && e.level == levelConst[1] && !e.cond
				depth0 = false
			}
		}
		seq, _ := lockSeq(ev)
		if n != 1 || !ok || len(seq) != 2 {
			note("events.%s is not %s at application level and nothing else", name, to)
			return false
		}
		return true
	}
	exportedDelegate := delegates("Subscribe", "subscribe")
	exportedDelegate = delegates("Unsubscribe", "unsubscribe") && exportedDelegate

	// ---- Publish, interpreted twice (abstract list [core, application] and [application, core])
	muReleased, fourOps, spans, snapshot, coreSync, appAsync, coreFirst, blocksOnly := true, true, true, true, true, true, true, true
	for order := 0; order < 2; order++ {
		ev, found := trace("Publish", order)
		if !found {
			note("method events.Publish not found")
			muReleased, fourOps, spans, snapshot, coreSync, appAsync, coreFirst, blocksOnly = false, false, false, false, false, false, false, false
			break
		}
		seq, condLock := lockSeq(ev)
		roleCond := false // a lock operation of a ROLE mutex on a conditional path
		for _, e := range ev {
			if (e.kind == "lock" && e.cond || e.kind == "leak") && (e.name == listMu || e.name == handleMu) {
				roleCond = true
			}
		}
		// the four lock operations on the role mutexes, in this order; the snapshot may be taken under a read lock.
		// What is left of the lock operations of other mutexes after the leaf sections were taken out is in seq too.
		want := []string{"Lock:" + listMu, "Unlock:" + listMu, "Lock:" + handleMu, "Unlock:" + handleMu}
		wantR := []string{"RLock:" + listMu, "RUnlock:" + listMu, "Lock:" + handleMu, "Unlock:" + handleMu}
		same := func(a, b []string) bool { return strings.Join(a, ",") == strings.Join(b, ",") }
		if !rolesOK || !(same(seq, want) || same(seq, wantR)) || condLock {
			fourOps = false
			// is at least the release of the list mutex before the acquisition of the dispatch mutex?
			iu, ih := -1, -1
			for i, s := range seq {
				if (s == "Unlock:"+listMu || s == "RUnlock:"+listMu) && iu < 0 {
					iu = i
				}
				if s == "Lock:"+handleMu && ih < 0 {
					ih = i
				}
			}
			if !rolesOK || iu < 0 || ih < 0 || iu > ih || roleCond {
				muReleased = false
			}
			if order == 0 {
				note("Publish: lock operations (leaf sections of additional mutexes aside) are %v (conditional: %v), expected %v", seq, condLock, want)
			}
		}
		// positions
		hl, hu := -1, -1
		for i, e := range ev {
			if e.kind == "lock" && e.name == handleMu {
				if e.op == "Lock" && hl < 0 {
					hl = i
				}
				if e.op == "Unlock" {
					hu = i
				}
			}
			if (e.kind == "lock" || e.kind == "exitlock") && e.name == handleMu && e.op == "Lock" {
				// nothing but the dispatch mutex itself may be held by a publisher that waits for it
				for _, m := range e.held {
					if m == listMu || isExtra(m) {
						muReleased = false
						if order == 0 {
							note("Publish: %s is held when the dispatch mutex is acquired", m)
						}
					}
				}
			}
			if (e.kind == "lock" || e.kind == "exitlock") && e.name != listMu && e.name != handleMu {
				blocksOnly = false
				if order == 0 && (e.op == "Lock" || e.op == "RLock") {
					note("Publish: blocks on %s, which is neither the list mutex nor the dispatch mutex nor a leaf lock", e.name)
				}
			}
		}
		var deliveries []aevent
		var dIdx []int
		for i, e := range ev {
			switch e.kind {
			case "deliver":
				deliveries = append(deliveries, e)
				dIdx = append(dIdx, i)
				if i < hl || i > hu || hl < 0 {
					spans = false
				}
			case "block":
				blocksOnly = false
				if order == 0 {
					note("Publish: blocking operation %s", e.name)
				}
			case "other":
				blocksOnly = false
				if order == 0 {
					note("Publish: operation the generator cannot account for (possibly blocking): %s", e.name)
				}
			case "faccess":
				blocksOnly = false
				if order == 0 {
					note("Publish: field %s of the bus is accessed outside a leaf section", e.name)
				}
			case "hwrite":
				snapshot = false
			case "hread":
				heldList := false
				for _, m := range e.held {
					heldList = heldList || m == listMu
				}
				if !heldList || !(e.op == "len" || e.op == "copysrc" || e.op == "clone") {
					snapshot = false
					if order == 0 {
						note("Publish: the handler list is read outside the list mutex or other than by len / copy / Clone (%s, held %v)", e.op, e.held)
					}
				}
			}
		}
		if hu >= 0 {
			for _, e := range ev[hu+1:] {
				if e.kind != "inline" || e.async {
					spans = false // something besides leaf sections happens after the dispatch mutex is released
				}
			}
		} else {
			spans = false
		}
		// exactly one delivery per abstract item, unconditional, from a copy made under the list mutex
		nCore, nApp, iCore, iApp := 0, 0, -1, -1
		for k, d := range deliveries {
			if d.cond || d.level == "unknown" {
				coreSync, appAsync, coreFirst = false, false, false
				if order == 0 {
					note("Publish: a handler invocation the generator cannot attribute to a level (conditional=%v)", d.cond)
				}
			}
			if d.list == nil || d.list.origin != "snapshot" || !d.list.copiedUnderMu {
				snapshot = false
			}
			switch d.level {
			case levelConst[0]:
				nCore++
				iCore = dIdx[k]
				if d.op != "plain" {
					coreSync = false
				}
			case levelConst[1]:
				nApp++
				iApp = dIdx[k]
				if d.op != "go" {
					appAsync = false
				}
			}
		}
		if nCore != 1 {
			coreSync = false
		}
		if nApp != 1 {
			appAsync = false
		}
		if nCore != 1 || nApp != 1 || iCore > iApp {
			coreFirst = false
		}
		if len(deliveries) == 0 {
			snapshot = false
		}
	}
	if !muReleased {
		note("Publish: the list mutex is not released before the dispatch mutex is acquired (or another mutex is held at that moment)")
	}
	if !spans {
		note("Publish: the handler invocations are not enclosed by the dispatch mutex, with nothing but leaf sections after its release")
	}
	if !snapshot {
		note("Publish: the handlers are not dispatched from a copy of the list made under the list mutex")
	}
	if !coreSync {
		note("Publish: a core handler is not invoked exactly once, synchronously")
	}
	if !appAsync {
		note("Publish: an application handler is not started exactly once, with `go`")
	}
	if !coreFirst {
		note("Publish: not every core handler is invoked before every application handler (for both orders of the list)")
	}

	// ---- package spine: the local device is put on / taken off the core level
	coreEverySetup, coreUnsubOnlyWhenEmpty, coreSites := false, false, false
	{
		in := mkPlain(0)
		if in.run("DeviceLocal", "SetupRemoteDevice", nil) {
			uncond := 0
			for _, e := range in.ev {
				if e.kind == "coresub" && !e.cond && !e.late {
					uncond++
				}
			}
			coreEverySetup = uncond >= 1
		}
		if !coreEverySetup {
			note("SetupRemoteDevice does not reach `Events.subscribe(core level, the local device)` on every path")
		}
		in = mkPlain(0)
		if in.run("DeviceLocal", "RemoveRemoteDevice", nil) {
			n, guarded := 0, 0
			for _, e := range in.ev {
				if e.kind == "coreunsub" {
					n++
					for _, g := range e.guards {
						if g == "nopeers" {
							guarded++
							break
						}
					}
				}
			}
			coreUnsubOnlyWhenEmpty = n == 1 && guarded == 1
		}
		if !coreUnsubOnlyWhenEmpty {
			note("RemoveRemoteDevice does not unsubscribe the local device exactly once, under `len(remoteDevices) == 0`")
		}
		// every call site of the unexported subscribe / unsubscribe outside events.go lies in SetupRemoteDevice /
		// RemoveRemoteDevice or in a helper that only those two call
		type site struct{ fn, what string }
		var sites []site
		callers := map[string]map[string]bool{} // callee name -> set of caller function keys
		for base, f := range pkg.files {
			if base == "events.go" {
				continue
			}
			for _, d := range f.Decls {
				fd, ok := d.(*ast.FuncDecl)
				if !ok || fd.Body == nil {
					continue
				}
				key := fd.Name.Name
				if rt := recvTypeName(fd); rt != "" {
					key = rt + "." + key
				}
				ast.Inspect(fd.Body, func(n ast.Node) bool {
					c, ok := n.(*ast.CallExpr)
					if !ok {
						return true
					}
					if se, ok := c.Fun.(*ast.SelectorExpr); ok {
						if id, ok := se.X.(*ast.Ident); ok && id.Name == "Events" && (se.Sel.Name == "subscribe" || se.Sel.Name == "unsubscribe") {
							sites = append(sites, site{key, se.Sel.Name})
						}
						if callers[se.Sel.Name] == nil {
							callers[se.Sel.Name] = map[string]bool{}
						}
						callers[se.Sel.Name][key] = true
					}
					if id, ok := c.Fun.(*ast.Ident); ok {
						if callers[id.Name] == nil {
							callers[id.Name] = map[string]bool{}
						}
						callers[id.Name][key] = true
					}
					return true
				})
			}
		}
		nSub, nUnsub := 0, 0
		coreSites = true
		for _, s := range sites {
			owner := map[string]string{"subscribe": "DeviceLocal.SetupRemoteDevice", "unsubscribe": "DeviceLocal.RemoveRemoteDevice"}[s.what]
			if s.what == "subscribe" {
				nSub++
			} else {
				nUnsub++
			}
			if s.fn == owner {
				continue
			}
			short := s.fn[strings.LastIndex(s.fn, ".")+1:]
			cs := callers[short]
			if len(cs) != 1 || !cs[owner] {
				coreSites = false
				note("Events.%s is called in %s, which is not (only) reached from %s", s.what, s.fn, owner)
			}
		}
		if nSub != 1 || nUnsub != 1 {
			coreSites = false
			note("package spine calls Events.subscribe %d times and Events.unsubscribe %d times outside events.go (expected 1 and 1)", nSub, nUnsub)
		}
	}

	var b strings.Builder
	b.WriteString("/-! GENERATED by go/cmd/translate (generator `eventbus`) from package spine (events.go, device_local*.go) — do not edit.\n")
	b.WriteString("    Facts are computed by abstract interpretation with helpers of the package inlined (go/cmd/translate/absint.go). -/\n")
	b.WriteString("namespace Spine.Generated.EventBus\n\n")
	w := func(doc, name string, v bool) {
		fmt.Fprintf(&b, "/-- %s -/\ndef %s : Bool := %v\n\n", doc, name, v)
	}
	w("running Publish (helpers inlined) releases the list mutex before it acquires the dispatch mutex: a publisher that waits for the dispatch mutex does not hold the list mutex — nor any additional mutex of the bus. (List mutex = the mutex held at the accesses to the handler list, dispatch mutex = the mutex held at the handler invocations; by role, not by name)", "muReleasedBeforeMuHandle", muReleased)
	w("every handler invocation and every spawn of Publish lies between the acquisition and the release of the dispatch mutex; after the release there is no handler invocation, no access to the handler list, no `go` — nothing but leaf sections of additional mutexes (see stateIsTwoMutexesAndList) and the return", "muHandleSpansDispatch", spans)
	w("the lock operations of Publish (helpers inlined, deferred calls run at the end of their frame) on the list mutex and the dispatch mutex are exactly: lock list mutex, unlock it, lock dispatch mutex, unlock it — none on a conditional path; every other lock operation of Publish belongs to a leaf section of an additional mutex (see stateIsTwoMutexesAndList), inside which no other lock is taken", "publishFourLockOps", fourOps)
	w("under the list mutex Publish copies the handler list (make+copy or Clone) and every handler it invokes is taken from that copy; the list itself is only read under the mutex, by len / copy / Clone", "snapshotIsCopy", snapshot)
	w("for either order of the list, a core-level item is invoked exactly once, by a plain call", "coreSynchronous", coreSync)
	w("for either order of the list, an application-level item is started exactly once, with `go`", "applicationAsync", appAsync)
	w("for either order of the list, the core-level item is invoked before the application-level item is started", "coreLevelFirst", coreFirst)
	w("subscribe is one critical section under the list mutex: write lock first, unlock last, no other lock except leaf sections of additional mutexes (see stateIsTwoMutexesAndList), no handler invocation, no blocking or unaccounted call", "subscribeOnlyMu", subscribeOnlyMu)
	w("unsubscribe is one critical section under the list mutex: write lock first, unlock last, no other lock except leaf sections of additional mutexes (see stateIsTwoMutexesAndList), no handler invocation, no blocking or unaccounted call", "unsubscribeOnlyMu", unsubscribeOnlyMu)
	w("the exported Subscribe / Unsubscribe are subscribe / unsubscribe at application level and nothing else", "exportedDelegate", exportedDelegate)
	w("Publish (helpers inlined) performs nothing but make / len / copy / Clone, the four operations on the list mutex and the dispatch mutex, the handler invocations and leaf sections of additional mutexes: no WaitGroup / Cond wait, no channel operation, no select, no call the generator cannot account for — it blocks on nothing but the two mutexes and leaf locks, which nobody holds for ever: EVERY critical section of such a mutex, in every method of the bus type, was checked to be a leaf section (see stateIsTwoMutexesAndList)", "publishBlocksOnlyOnTheTwoMutexes", blocksOnly)
	w("the state of the bus is the list mutex, the dispatch mutex (two different mutexes) and the handler list; besides them at most (a) LEAF LOCKS: further sync.Mutex / sync.RWMutex fields every critical section of which, in every method of the bus type (exported or not, helpers inlined), is closed on every path by the method that opened it and contains no handler invocation, no access to the handler list, no lock operation on any mutex, no blocking operation, no `go`, no call the generator cannot account for — and (b) fields that are accessed only inside the sections of one such leaf lock (and do not escape from them); no embedded field; no use of these mutexes or fields anywhere in package spine that the interpreter did not reach. (On a bus with exactly two mutexes and the list, (a) and (b) are empty.)", "stateIsTwoMutexesAndList", stateOK)
	w("package spine: SetupRemoteDevice reaches `Events.subscribe(core level, the local device)` on every path (directly or through helpers)", "coreSubscribedOnEverySetup", coreEverySetup)
	w("package spine: RemoveRemoteDevice unsubscribes the local device exactly once, on the path guarded by `len(remoteDevices) == 0` (directly or through helpers)", "coreUnsubscribedOnlyWhenNoPeerLeft", coreUnsubOnlyWhenEmpty)
	w("package spine: the unexported Events.subscribe / Events.unsubscribe are called once each outside events.go, in SetupRemoteDevice / RemoveRemoteDevice or a helper only they call", "coreLevelSitesAreThoseTwo", coreSites)
	if len(extras)+len(otherFields) > 0 { // what was tolerated (or not), by name
		fmt.Fprintf(&b, "-- info: list mutex = %s, dispatch mutex = %s (by role)\n", listMu, handleMu)
		for _, x := range extras {
			var fs []string
			for _, f := range otherFields {
				if owner[f] == x && confined[f] {
					fs = append(fs, f)
				}
			}
			fmt.Fprintf(&b, "-- info: additional mutex %s: leaf lock = %v, state confined to its sections: %v\n", x, leaf[x], fs)
		}
		for _, f := range otherFields {
			if owner[f] == "" && confined[f] {
				fmt.Fprintf(&b, "-- info: field %s %s of the bus is not accessed by any method of the bus\n", f, otherType[f])
			}
		}
	}
	for _, n := range notes {
		fmt.Fprintf(&b, "-- note: %s\n", n)
	}
	b.WriteString("end Spine.Generated.EventBus\n")
	if err := writeFile(outDir, "EventBus.lean", b.String()); err != nil {
		return "", err
	}
	return fmt.Sprintf("muReleasedBeforeMuHandle=%v muHandleSpansDispatch=%v fourLockOps=%v snapshotIsCopy=%v coreSync=%v appAsync=%v coreFirst=%v subscribeOnlyMu=%v unsubscribeOnlyMu=%v delegate=%v blocksOnlyOnMutexes=%v state=%v coreEverySetup=%v coreUnsubWhenEmpty=%v coreSites=%v notes=%d",
		muReleased, spans, fourOps, snapshot, coreSync, appAsync, coreFirst, subscribeOnlyMu, unsubscribeOnlyMu, exportedDelegate, blocksOnly, stateOK, coreEverySetup, coreUnsubOnlyWhenEmpty, coreSites, len(notes)), nil
}
