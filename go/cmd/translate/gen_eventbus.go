package main

// G7 for the event bus (C15): the lock regions and the dispatch structure of
// spine/events.go that the hand-written models Spine.Bus (Events.lean) and
// its lock refinement (EventsLock.lean) rest on, extracted with go/ast.
// A fact that cannot be established is emitted as `false` with a note, never
// silently: the theorems of Spine/Props/C15Gen.lean then no longer check.

import (
	"fmt"
	"go/ast"
	"go/parser"
	"go/token"
	"path/filepath"
	"strings"
)

func init() { register("eventbus", genEventBus) }

// callName returns "r.mu.Lock" for the statement `r.mu.Lock()` (also inside go / defer), "" otherwise.
func stmtCall(s ast.Stmt) (name string, kind string) {
	switch x := s.(type) {
	case *ast.ExprStmt:
		if c, ok := x.X.(*ast.CallExpr); ok {
			return exprString(c.Fun), "call"
		}
	case *ast.DeferStmt:
		return exprString(x.Call.Fun), "defer"
	case *ast.GoStmt:
		return exprString(x.Call.Fun), "go"
	}
	return "", ""
}

// allCalls lists every call in a function body in source order as kind:name.
func allCalls(fd *ast.FuncDecl) []string {
	var out []string
	goCalls := map[*ast.CallExpr]string{}
	ast.Inspect(fd.Body, func(n ast.Node) bool {
		switch x := n.(type) {
		case *ast.GoStmt:
			goCalls[x.Call] = "go"
		case *ast.DeferStmt:
			goCalls[x.Call] = "defer"
		case *ast.CallExpr:
			k := goCalls[x]
			if k == "" {
				k = "call"
			}
			out = append(out, k+":"+exprString(x.Fun))
		}
		return true
	})
	return out
}

func genEventBus(outDir string) (string, error) {
	fset := token.NewFileSet()
	f, err := parser.ParseFile(fset, filepath.Join(RepoDir(), "spine", "events.go"), nil, 0)
	if err != nil {
		return "", err
	}
	var notes []string
	note := func(format string, a ...any) { notes = append(notes, fmt.Sprintf(format, a...)) }

	// ---- Publish: positions of the four lock operations among the top-level statements
	muUnlockBeforeHandleLock, handleSpansDispatch, publishOnlyTwoLocks := false, false, false
	snapshotIsCopy, coreSync, appAsync, coreFirst := false, false, false, false
	if fd := findFunc(f, "events", "Publish"); fd == nil {
		note("method events.Publish not found")
	} else {
		idx := map[string][]int{}
		var loopIdx []int
		for i, st := range fd.Body.List {
			if n, k := stmtCall(st); n != "" {
				idx[k+":"+n] = append(idx[k+":"+n], i)
			}
			if _, ok := st.(*ast.RangeStmt); ok {
				loopIdx = append(loopIdx, i)
			}
		}
		one := func(k string) int {
			if len(idx[k]) == 1 {
				return idx[k][0]
			}
			return -1
		}
		muL, muU, hL, hU := one("call:r.mu.Lock"), one("call:r.mu.Unlock"), one("call:r.muHandle.Lock"), one("call:r.muHandle.Unlock")
		if muL < 0 || muU < 0 || hL < 0 || hU < 0 {
			note("Publish: expected exactly one top-level r.mu.Lock / r.mu.Unlock / r.muHandle.Lock / r.muHandle.Unlock statement each (found at %d %d %d %d)", muL, muU, hL, hU)
		} else {
			muUnlockBeforeHandleLock = muL < muU && muU < hL
			if !muUnlockBeforeHandleLock {
				note("Publish: r.mu is not released before r.muHandle.Lock() (statements %d %d %d)", muL, muU, hL)
			}
			handleSpansDispatch = len(loopIdx) == 1 && hL < loopIdx[0] && loopIdx[0] < hU && hU == len(fd.Body.List)-1
			if !handleSpansDispatch {
				note("Publish: the dispatch loop is not enclosed by r.muHandle.Lock() … r.muHandle.Unlock() as last statement")
			}
		}
		// no other lock operation anywhere in Publish (nested or deferred)
		locks := 0
		for _, c := range allCalls(fd) {
			if strings.HasSuffix(c, ".Lock") || strings.HasSuffix(c, ".Unlock") || strings.HasSuffix(c, ".RLock") || strings.HasSuffix(c, ".RUnlock") {
				locks++
				if strings.HasPrefix(c, "defer:") || strings.HasPrefix(c, "go:") {
					locks += 100
				}
			}
		}
		publishOnlyTwoLocks = locks == 4
		if !publishOnlyTwoLocks {
			note("Publish: lock operations other than the four plain top-level ones")
		}
		// the snapshot: between mu.Lock and mu.Unlock a fresh slice is made and filled by copy(_, r.handlers);
		// the dispatch loop ranges over that slice
		if muL >= 0 && muU > muL {
			var snap string
			copied := false
			for _, st := range fd.Body.List[muL+1 : muU] {
				switch x := st.(type) {
				case *ast.AssignStmt:
					if len(x.Lhs) == 1 && len(x.Rhs) == 1 {
						if c, ok := x.Rhs[0].(*ast.CallExpr); ok && exprString(c.Fun) == "make" {
							snap = exprString(x.Lhs[0])
						}
					}
				case *ast.ExprStmt:
					if c, ok := x.X.(*ast.CallExpr); ok && exprString(c.Fun) == "copy" && len(c.Args) == 2 && exprString(c.Args[0]) == snap && exprString(c.Args[1]) == "r.handlers" {
						copied = true
					}
				}
			}
			rangesOverSnap, mentionsHandlersLater := false, false
			if len(loopIdx) == 1 {
				ast.Inspect(fd.Body.List[loopIdx[0]], func(n ast.Node) bool {
					switch x := n.(type) {
					case *ast.RangeStmt:
						if exprString(x.X) == snap {
							rangesOverSnap = true
						}
					case *ast.SelectorExpr:
						if exprString(x) == "r.handlers" {
							mentionsHandlersLater = true
						}
					}
					return true
				})
			}
			snapshotIsCopy = snap != "" && copied && rangesOverSnap && !mentionsHandlersLater
			if !snapshotIsCopy {
				note("Publish: the handler list is not snapshotted by make+copy under r.mu and dispatched from the copy")
			}
		}
		// dispatch: `if level == api.EventHandlerLevelCore { item.Handler.HandleEvent(payload) } else { go item.Handler.HandleEvent(payload) }`
		ast.Inspect(fd.Body, func(n ast.Node) bool {
			is, ok := n.(*ast.IfStmt)
			if !ok {
				return true
			}
			be, ok := is.Cond.(*ast.BinaryExpr)
			if !ok || be.Op != token.EQL || exprString(be.Y) != "api.EventHandlerLevelCore" {
				return true
			}
			if len(is.Body.List) == 1 {
				if n, k := stmtCall(is.Body.List[0]); k == "call" && strings.HasSuffix(n, ".HandleEvent") {
					coreSync = true
				}
			}
			if eb, ok := is.Else.(*ast.BlockStmt); ok && len(eb.List) == 1 {
				if n, k := stmtCall(eb.List[0]); k == "go" && strings.HasSuffix(n, ".HandleEvent") {
					appAsync = true
				}
			}
			return true
		})
		// exactly two HandleEvent calls in Publish: one plain, one `go`
		plain, async := 0, 0
		for _, c := range allCalls(fd) {
			if strings.HasSuffix(c, ".HandleEvent") {
				if strings.HasPrefix(c, "go:") {
					async++
				} else if strings.HasPrefix(c, "call:") {
					plain++
				}
			}
		}
		if plain != 1 || async != 1 {
			coreSync, appAsync = false, false
			note("Publish: expected one synchronous and one `go` HandleEvent call (found %d, %d)", plain, async)
		}
		if !coreSync {
			note("Publish: core handlers are not called synchronously")
		}
		if !appAsync {
			note("Publish: application handlers are not started with `go`")
		}
		// level order: the composite literal lists Core before Application
		ast.Inspect(fd.Body, func(n ast.Node) bool {
			cl, ok := n.(*ast.CompositeLit)
			if !ok || len(cl.Elts) != 2 {
				return true
			}
			if exprString(cl.Elts[0]) == "api.EventHandlerLevelCore" && exprString(cl.Elts[1]) == "api.EventHandlerLevelApplication" {
				coreFirst = true
			}
			return true
		})
		if !coreFirst {
			note("Publish: handler levels are not processed in the order core, application")
		}
	}

	// ---- subscribe / unsubscribe: one critical section under r.mu, no other lock, no handler call
	onlyMu := func(name string) bool {
		fd := findFunc(f, "events", name)
		if fd == nil || len(fd.Body.List) < 2 {
			note("method events.%s not found", name)
			return false
		}
		n0, k0 := stmtCall(fd.Body.List[0])
		n1, k1 := stmtCall(fd.Body.List[1])
		ok := n0 == "r.mu.Lock" && k0 == "call" && n1 == "r.mu.Unlock" && k1 == "defer"
		locks := 0
		for _, c := range allCalls(fd) {
			if strings.HasSuffix(c, "Lock") || strings.HasSuffix(c, "Unlock") {
				locks++
			}
			if strings.HasSuffix(c, ".HandleEvent") || strings.HasSuffix(c, ".Publish") {
				ok = false
			}
		}
		if !ok || locks != 2 {
			note("%s is not exactly one critical section under r.mu (Lock first, Unlock deferred, no other lock, no callback)", name)
			return false
		}
		return true
	}
	subscribeOnlyMu := onlyMu("subscribe")
	unsubscribeOnlyMu := onlyMu("unsubscribe")
	// the exported Subscribe / Unsubscribe only delegate
	delegates := func(name, to string) bool {
		fd := findFunc(f, "events", name)
		if fd == nil || len(fd.Body.List) != 1 {
			note("method events.%s is not a one-line delegation", name)
			return false
		}
		rs, ok := fd.Body.List[0].(*ast.ReturnStmt)
		if !ok || len(rs.Results) != 1 {
			note("method events.%s is not a one-line delegation", name)
			return false
		}
		c, ok := rs.Results[0].(*ast.CallExpr)
		if !ok || exprString(c.Fun) != "r."+to || len(c.Args) != 2 || exprString(c.Args[0]) != "api.EventHandlerLevelApplication" {
			note("method events.%s does not delegate to %s at application level", name, to)
			return false
		}
		return true
	}
	exportedDelegate := delegates("Subscribe", "subscribe")
	exportedDelegate = delegates("Unsubscribe", "unsubscribe") && exportedDelegate

	var b strings.Builder
	b.WriteString("/-! GENERATED by go/cmd/translate (generator `eventbus`) from spine/events.go — do not edit. -/\n")
	b.WriteString("namespace Spine.Generated.EventBus\n\n")
	w := func(doc, name string, v bool) {
		fmt.Fprintf(&b, "/-- %s -/\ndef %s : Bool := %v\n\n", doc, name, v)
	}
	w("in Publish, `r.mu.Lock()` … `r.mu.Unlock()` come, in this order, before `r.muHandle.Lock()`: a publisher that waits for muHandle does not hold mu", "muReleasedBeforeMuHandle", muUnlockBeforeHandleLock)
	w("in Publish, the only dispatch loop lies between `r.muHandle.Lock()` and `r.muHandle.Unlock()`, the latter being the last statement", "muHandleSpansDispatch", handleSpansDispatch)
	w("Publish contains no lock operation besides those four plain statements (none deferred, none nested)", "publishFourLockOps", publishOnlyTwoLocks)
	w("under mu, Publish makes a fresh slice, fills it with copy(_, r.handlers) and dispatches from that slice only", "snapshotIsCopy", snapshotIsCopy)
	w("a core-level handler is called synchronously (plain call) in Publish", "coreSynchronous", coreSync)
	w("an application-level handler is started with `go` in Publish", "applicationAsync", appAsync)
	w("the levels are processed in the order core, application", "coreLevelFirst", coreFirst)
	w("subscribe is one critical section under mu: Lock first, Unlock deferred, no other lock, no callback", "subscribeOnlyMu", subscribeOnlyMu)
	w("unsubscribe is one critical section under mu: Lock first, Unlock deferred, no other lock, no callback", "unsubscribeOnlyMu", unsubscribeOnlyMu)
	w("the exported Subscribe / Unsubscribe only delegate to subscribe / unsubscribe at application level", "exportedDelegate", exportedDelegate)
	for _, n := range notes {
		fmt.Fprintf(&b, "-- note: %s\n", n)
	}
	b.WriteString("end Spine.Generated.EventBus\n")
	if err := writeFile(outDir, "EventBus.lean", b.String()); err != nil {
		return "", err
	}
	return fmt.Sprintf("muReleasedBeforeMuHandle=%v muHandleSpansDispatch=%v fourLockOps=%v snapshotIsCopy=%v coreSync=%v appAsync=%v coreFirst=%v subscribeOnlyMu=%v unsubscribeOnlyMu=%v delegate=%v notes=%d",
		muUnlockBeforeHandleLock, handleSpansDispatch, publishOnlyTwoLocks, snapshotIsCopy, coreSync, appAsync, coreFirst, subscribeOnlyMu, unsubscribeOnlyMu, exportedDelegate, len(notes)), nil
}
