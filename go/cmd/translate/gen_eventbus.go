package main

// G7 for the event bus (C15): the lock regions and the dispatch structure of
// spine/events.go that the hand-written models Spine.Bus (Events.lean) and
// its lock refinement (EventsLock.lean) rest on, extracted with go/ast.
// A fact that cannot be established is emitted as `false` with a note, never
// silently: the theorems of Spine/Props/C15Gen.lean then no longer check.

import (
	"fmt"
	"go/ast"
	"go/parser"
	"go/token"
	"os"
	"path/filepath"
	"sort"
	"strings"
)

func init() { register("eventbus", genEventBus) }

// callName returns "r.mu.Lock" for the statement `r.mu.Lock()` (also inside go / defer), "" otherwise.
func stmtCall(s ast.Stmt) (name string, kind string) {
	switch x := s.(type) {
	case *ast.ExprStmt:
		if c, ok := x.X.(*ast.CallExpr); ok {
			return exprString(c.Fun), "call"
		}
	case *ast.DeferStmt:
		return exprString(x.Call.Fun), "defer"
	case *ast.GoStmt:
		return exprString(x.Call.Fun), "go"
	}
	return "", ""
}

// allCalls lists every call in a function body in source order as kind:name.
func allCalls(fd *ast.FuncDecl) []string {
	var out []string
	goCalls := map[*ast.CallExpr]string{}
	ast.Inspect(fd.Body, func(n ast.Node) bool {
		switch x := n.(type) {
		case *ast.GoStmt:
			goCalls[x.Call] = "go"
		case *ast.DeferStmt:
			goCalls[x.Call] = "defer"
		case *ast.CallExpr:
			k := goCalls[x]
			if k == "" {
				k = "call"
			}
			out = append(out, k+":"+exprString(x.Fun))
		}
		return true
	})
	return out
}

func genEventBus(outDir string) (string, error) {
	fset := token.NewFileSet()
	f, err := parser.ParseFile(fset, filepath.Join(RepoDir(), "spine", "events.go"), nil, 0)
	if err != nil {
		return "", err
	}
	var notes []string
	note := func(format string, a ...any) { notes = append(notes, fmt.Sprintf(format, a...)) }

	// ---- Publish: positions of the four lock operations among the top-level statements
	muUnlockBeforeHandleLock, handleSpansDispatch, publishOnlyTwoLocks := false, false, false
	snapshotIsCopy, coreSync, appAsync, coreFirst := false, false, false, false
	if fd := findFunc(f, "events", "Publish"); fd == nil {
		note("method events.Publish not found")
	} else {
		idx := map[string][]int{}
		var loopIdx []int
		for i, st := range fd.Body.List {
			if n, k := stmtCall(st); n != "" {
				idx[k+":"+n] = append(idx[k+":"+n], i)
			}
			if _, ok := st.(*ast.RangeStmt); ok {
				loopIdx = append(loopIdx, i)
			}
		}
		one := func(k string) int {
			if len(idx[k]) == 1 {
				return idx[k][0]
			}
			return -1
		}
		muL, muU, hL, hU := one("call:r.mu.Lock"), one("call:r.mu.Unlock"), one("call:r.muHandle.Lock"), one("call:r.muHandle.Unlock")
		if muL < 0 || muU < 0 || hL < 0 || hU < 0 {
			note("Publish: expected exactly one top-level r.mu.Lock / r.mu.Unlock / r.muHandle.Lock / r.muHandle.Unlock statement each (found at %d %d %d %d)", muL, muU, hL, hU)
		} else {
			muUnlockBeforeHandleLock = muL < muU && muU < hL
			if !muUnlockBeforeHandleLock {
				note("Publish: r.mu is not released before r.muHandle.Lock() (statements %d %d %d)", muL, muU, hL)
			}
			handleSpansDispatch = len(loopIdx) == 1 && hL < loopIdx[0] && loopIdx[0] < hU && hU == len(fd.Body.List)-1
			if !handleSpansDispatch {
				note("Publish: the dispatch loop is not enclosed by r.muHandle.Lock() … r.muHandle.Unlock() as last statement")
			}
		}
		// no other lock operation anywhere in Publish (nested or deferred)
		locks := 0
		for _, c := range allCalls(fd) {
			if strings.HasSuffix(c, ".Lock") || strings.HasSuffix(c, ".Unlock") || strings.HasSuffix(c, ".RLock") || strings.HasSuffix(c, ".RUnlock") {
				locks++
				if strings.HasPrefix(c, "defer:") || strings.HasPrefix(c, "go:") {
					locks += 100
				}
			}
		}
		publishOnlyTwoLocks = locks == 4
		if !publishOnlyTwoLocks {
			note("Publish: lock operations other than the four plain top-level ones")
		}
		// the snapshot: between mu.Lock and mu.Unlock a fresh slice is made and filled by copy(_, r.handlers);
		// the dispatch loop ranges over that slice
		if muL >= 0 && muU > muL {
			var snap string
			copied := false
			for _, st := range fd.Body.List[muL+1 : muU] {
				switch x := st.(type) {
				case *ast.AssignStmt:
					if len(x.Lhs) == 1 && len(x.Rhs) == 1 {
						if c, ok := x.Rhs[0].(*ast.CallExpr); ok && exprString(c.Fun) == "make" {
							snap = exprString(x.Lhs[0])
						}
					}
				case *ast.ExprStmt:
					if c, ok := x.X.(*ast.CallExpr); ok && exprString(c.Fun) == "copy" && len(c.Args) == 2 && exprString(c.Args[0]) == snap && exprString(c.Args[1]) == "r.handlers" {
						copied = true
					}
				}
			}
			rangesOverSnap, mentionsHandlersLater := false, false
			if len(loopIdx) == 1 {
				ast.Inspect(fd.Body.List[loopIdx[0]], func(n ast.Node) bool {
					switch x := n.(type) {
					case *ast.RangeStmt:
						if exprString(x.X) == snap {
							rangesOverSnap = true
						}
					case *ast.SelectorExpr:
						if exprString(x) == "r.handlers" {
							mentionsHandlersLater = true
						}
					}
					return true
				})
			}
			snapshotIsCopy = snap != "" && copied && rangesOverSnap && !mentionsHandlersLater
			if !snapshotIsCopy {
				note("Publish: the handler list is not snapshotted by make+copy under r.mu and dispatched from the copy")
			}
		}
		// dispatch: `if level == api.EventHandlerLevelCore { item.Handler.HandleEvent(payload) } else { go item.Handler.HandleEvent(payload) }`
		ast.Inspect(fd.Body, func(n ast.Node) bool {
			is, ok := n.(*ast.IfStmt)
			if !ok {
				return true
			}
			be, ok := is.Cond.(*ast.BinaryExpr)
			if !ok || be.Op != token.EQL || exprString(be.Y) != "api.EventHandlerLevelCore" {
				return true
			}
			if len(is.Body.List) == 1 {
				if n, k := stmtCall(is.Body.List[0]); k == "call" && strings.HasSuffix(n, ".HandleEvent") {
					coreSync = true
				}
			}
			if eb, ok := is.Else.(*ast.BlockStmt); ok && len(eb.List) == 1 {
				if n, k := stmtCall(eb.List[0]); k == "go" && strings.HasSuffix(n, ".HandleEvent") {
					appAsync = true
				}
			}
			return true
		})
		// exactly two HandleEvent calls in Publish: one plain, one `go`
		plain, async := 0, 0
		for _, c := range allCalls(fd) {
			if strings.HasSuffix(c, ".HandleEvent") {
				if strings.HasPrefix(c, "go:") {
					async++
				} else if strings.HasPrefix(c, "call:") {
					plain++
				}
			}
		}
		if plain != 1 || async != 1 {
			coreSync, appAsync = false, false
			note("Publish: expected one synchronous and one `go` HandleEvent call (found %d, %d)", plain, async)
		}
		if !coreSync {
			note("Publish: core handlers are not called synchronously")
		}
		if !appAsync {
			note("Publish: application handlers are not started with `go`")
		}
		// level order: the composite literal lists Core before Application
		ast.Inspect(fd.Body, func(n ast.Node) bool {
			cl, ok := n.(*ast.CompositeLit)
			if !ok || len(cl.Elts) != 2 {
				return true
			}
			if exprString(cl.Elts[0]) == "api.EventHandlerLevelCore" && exprString(cl.Elts[1]) == "api.EventHandlerLevelApplication" {
				coreFirst = true
			}
			return true
		})
		if !coreFirst {
			note("Publish: handler levels are not processed in the order core, application")
		}
	}

	// ---- subscribe / unsubscribe: one critical section under r.mu, no other lock, no handler call
	onlyMu := func(name string) bool {
		fd := findFunc(f, "events", name)
		if fd == nil || len(fd.Body.List) < 2 {
			note("method events.%s not found", name)
			return false
		}
		n0, k0 := stmtCall(fd.Body.List[0])
		n1, k1 := stmtCall(fd.Body.List[1])
		ok := n0 == "r.mu.Lock" && k0 == "call" && n1 == "r.mu.Unlock" && k1 == "defer"
		locks := 0
		for _, c := range allCalls(fd) {
			if strings.HasSuffix(c, "Lock") || strings.HasSuffix(c, "Unlock") {
				locks++
			}
			if strings.HasSuffix(c, ".HandleEvent") || strings.HasSuffix(c, ".Publish") {
				ok = false
			}
		}
		if !ok || locks != 2 {
			note("%s is not exactly one critical section under r.mu (Lock first, Unlock deferred, no other lock, no callback)", name)
			return false
		}
		return true
	}
	subscribeOnlyMu := onlyMu("subscribe")
	unsubscribeOnlyMu := onlyMu("unsubscribe")
	// the exported Subscribe / Unsubscribe only delegate
	delegates := func(name, to string) bool {
		fd := findFunc(f, "events", name)
		if fd == nil || len(fd.Body.List) != 1 {
			note("method events.%s is not a one-line delegation", name)
			return false
		}
		rs, ok := fd.Body.List[0].(*ast.ReturnStmt)
		if !ok || len(rs.Results) != 1 {
			note("method events.%s is not a one-line delegation", name)
			return false
		}
		c, ok := rs.Results[0].(*ast.CallExpr)
		if !ok || exprString(c.Fun) != "r."+to || len(c.Args) != 2 || exprString(c.Args[0]) != "api.EventHandlerLevelApplication" {
			note("method events.%s does not delegate to %s at application level", name, to)
			return false
		}
		return true
	}
	exportedDelegate := delegates("Subscribe", "subscribe")
	exportedDelegate = delegates("Unsubscribe", "unsubscribe") && exportedDelegate

	// ---- Publish blocks on nothing but the two mutexes: every call is on a white list, there is no channel
	//      operation, no select, no function literal, no defer, and the only `go` statement starts HandleEvent
	blocksOnlyOnMutexes := false
	if fd := findFunc(f, "events", "Publish"); fd != nil {
		allowed := map[string]bool{"call:make": true, "call:len": true, "call:copy": true, "call:r.mu.Lock": true, "call:r.mu.Unlock": true,
			"call:r.muHandle.Lock": true, "call:r.muHandle.Unlock": true, "call:item.Handler.HandleEvent": true, "go:item.Handler.HandleEvent": true}
		bad := []string{}
		for _, c := range allCalls(fd) {
			if !allowed[c] {
				bad = append(bad, c)
			}
		}
		ast.Inspect(fd.Body, func(n ast.Node) bool {
			switch x := n.(type) {
			case *ast.UnaryExpr:
				if x.Op == token.ARROW {
					bad = append(bad, "channel receive")
				}
			case *ast.SendStmt:
				bad = append(bad, "channel send")
			case *ast.SelectStmt:
				bad = append(bad, "select")
			case *ast.FuncLit:
				bad = append(bad, "function literal")
			case *ast.DeferStmt:
				bad = append(bad, "defer")
			case *ast.RangeStmt:
				if t, ok := x.X.(*ast.Ident); ok && t.Obj != nil {
					if vs, ok := t.Obj.Decl.(*ast.ValueSpec); ok && vs.Type != nil {
						if _, isChan := vs.Type.(*ast.ChanType); isChan {
							bad = append(bad, "range over channel")
						}
					}
				}
			}
			return true
		})
		blocksOnlyOnMutexes = len(bad) == 0
		if !blocksOnlyOnMutexes {
			note("Publish: operations outside the white list (possible blocking): %s", strings.Join(bad, ", "))
		}
	}
	// ---- the bus's state is the two mutexes and the handler list
	stateIsMutexesAndList := false
	for _, d := range f.Decls {
		gd, ok := d.(*ast.GenDecl)
		if !ok {
			continue
		}
		for _, sp := range gd.Specs {
			ts, ok := sp.(*ast.TypeSpec)
			if !ok || ts.Name.Name != "events" {
				continue
			}
			st, ok := ts.Type.(*ast.StructType)
			if !ok {
				continue
			}
			var fields []string
			for _, fl := range st.Fields.List {
				for _, n := range fl.Names {
					fields = append(fields, n.Name+":"+exprString(fl.Type))
				}
				if len(fl.Names) == 0 {
					fields = append(fields, "embedded:"+exprString(fl.Type))
				}
			}
			sort.Strings(fields)
			got := strings.Join(fields, ",")
			stateIsMutexesAndList = got == "handlers:*ast.ArrayType,mu:sync.Mutex,muHandle:sync.Mutex"
			if !stateIsMutexesAndList {
				note("type events has fields other than mu, muHandle (sync.Mutex) and handlers: %s", got)
			}
		}
	}

	// ---- spine/device_local.go: the local device subscribes itself at core level on EVERY SetupRemoteDevice
	//      (plain top-level statement) and unsubscribes only when no peer is left; no other site touches the core level
	coreEverySetup, coreUnsubOnlyWhenEmpty, coreSites := false, false, false
	if fdl, err := parser.ParseFile(fset, filepath.Join(RepoDir(), "spine", "device_local.go"), nil, 0); err != nil {
		note("spine/device_local.go: %v", err)
	} else {
		isCoreCall := func(e ast.Expr, name string) bool {
			c, ok := e.(*ast.CallExpr)
			return ok && exprString(c.Fun) == "Events."+name && len(c.Args) == 2 && exprString(c.Args[0]) == "api.EventHandlerLevelCore" && exprString(c.Args[1]) == "r"
		}
		if fd := findFunc(fdl, "DeviceLocal", "SetupRemoteDevice"); fd != nil {
			top, anywhere := 0, 0
			for _, st := range fd.Body.List {
				switch x := st.(type) {
				case *ast.AssignStmt:
					if len(x.Rhs) == 1 && isCoreCall(x.Rhs[0], "subscribe") {
						top++
					}
				case *ast.ExprStmt:
					if isCoreCall(x.X, "subscribe") {
						top++
					}
				}
			}
			ast.Inspect(fd.Body, func(n ast.Node) bool {
				if e, ok := n.(ast.Expr); ok && isCoreCall(e, "subscribe") {
					anywhere++
				}
				return true
			})
			coreEverySetup = top == 1 && anywhere == 1
		}
		if !coreEverySetup {
			note("SetupRemoteDevice does not subscribe the local device at core level by one unconditional top-level statement")
		}
		if fd := findFunc(fdl, "DeviceLocal", "RemoveRemoteDevice"); fd != nil {
			guarded, total := 0, 0
			emptyCond := func(e ast.Expr) bool {
				if be, ok := e.(*ast.BinaryExpr); ok && be.Op == token.EQL {
					if c, ok := be.X.(*ast.CallExpr); ok && exprString(c.Fun) == "len" && len(c.Args) == 1 && exprString(c.Args[0]) == "r.remoteDevices" {
						if l, ok := be.Y.(*ast.BasicLit); ok && l.Value == "0" {
							return true
						}
					}
				}
				return false
			}
			flags := map[string]bool{} // identifiers defined as len(r.remoteDevices) == 0
			ast.Inspect(fd.Body, func(n ast.Node) bool {
				if as, ok := n.(*ast.AssignStmt); ok && len(as.Lhs) == 1 && len(as.Rhs) == 1 && emptyCond(as.Rhs[0]) {
					flags[exprString(as.Lhs[0])] = true
				}
				return true
			})
			ast.Inspect(fd.Body, func(n ast.Node) bool {
				if e, ok := n.(ast.Expr); ok && isCoreCall(e, "unsubscribe") {
					total++
				}
				if is, ok := n.(*ast.IfStmt); ok && is.Else == nil && (emptyCond(is.Cond) || flags[exprString(is.Cond)]) {
					ast.Inspect(is.Body, func(m ast.Node) bool {
						if e, ok := m.(ast.Expr); ok && isCoreCall(e, "unsubscribe") {
							guarded++
						}
						return true
					})
				}
				return true
			})
			coreUnsubOnlyWhenEmpty = total == 1 && guarded == 1
		}
		if !coreUnsubOnlyWhenEmpty {
			note("RemoveRemoteDevice does not unsubscribe the local device exactly once, under `len(r.remoteDevices) == 0`")
		}
		// no other site in package spine (tests and the verif hook file aside) calls the unexported subscribe / unsubscribe
		sub, unsub := 0, 0
		files, _ := filepath.Glob(filepath.Join(RepoDir(), "spine", "*.go"))
		for _, fn := range files {
			base := filepath.Base(fn)
			if strings.HasSuffix(base, "_test.go") || strings.HasPrefix(base, "verif_hooks") || base == "events.go" {
				continue
			}
			src, err := os.ReadFile(fn)
			if err != nil {
				continue
			}
			sub += strings.Count(string(src), "Events.subscribe(")
			unsub += strings.Count(string(src), "Events.unsubscribe(")
		}
		coreSites = sub == 1 && unsub == 1
		if !coreSites {
			note("package spine calls Events.subscribe %d times and Events.unsubscribe %d times outside events.go (expected 1 and 1, in device_local.go)", sub, unsub)
		}
	}

	var b strings.Builder
	b.WriteString("/-! GENERATED by go/cmd/translate (generator `eventbus`) from spine/events.go — do not edit. -/\n")
	b.WriteString("namespace Spine.Generated.EventBus\n\n")
	w := func(doc, name string, v bool) {
		fmt.Fprintf(&b, "/-- %s -/\ndef %s : Bool := %v\n\n", doc, name, v)
	}
	w("in Publish, `r.mu.Lock()` … `r.mu.Unlock()` come, in this order, before `r.muHandle.Lock()`: a publisher that waits for muHandle does not hold mu", "muReleasedBeforeMuHandle", muUnlockBeforeHandleLock)
	w("in Publish, the only dispatch loop lies between `r.muHandle.Lock()` and `r.muHandle.Unlock()`, the latter being the last statement", "muHandleSpansDispatch", handleSpansDispatch)
	w("Publish contains no lock operation besides those four plain statements (none deferred, none nested)", "publishFourLockOps", publishOnlyTwoLocks)
	w("under mu, Publish makes a fresh slice, fills it with copy(_, r.handlers) and dispatches from that slice only", "snapshotIsCopy", snapshotIsCopy)
	w("a core-level handler is called synchronously (plain call) in Publish", "coreSynchronous", coreSync)
	w("an application-level handler is started with `go` in Publish", "applicationAsync", appAsync)
	w("the levels are processed in the order core, application", "coreLevelFirst", coreFirst)
	w("subscribe is one critical section under mu: Lock first, Unlock deferred, no other lock, no callback", "subscribeOnlyMu", subscribeOnlyMu)
	w("unsubscribe is one critical section under mu: Lock first, Unlock deferred, no other lock, no callback", "unsubscribeOnlyMu", unsubscribeOnlyMu)
	w("the exported Subscribe / Unsubscribe only delegate to subscribe / unsubscribe at application level", "exportedDelegate", exportedDelegate)
	w("every operation in Publish is on the white list {make, len, copy, the four mutex operations, HandleEvent plain and with `go`}: no WaitGroup / Cond wait, no channel operation, no select, no function literal, no defer — Publish blocks on nothing but mu and muHandle", "publishBlocksOnlyOnTheTwoMutexes", blocksOnlyOnMutexes)
	w("the state of the bus is exactly mu, muHandle (sync.Mutex) and the handler list", "stateIsTwoMutexesAndList", stateIsMutexesAndList)
	w("spine/device_local.go: SetupRemoteDevice subscribes the local device at core level by one unconditional top-level statement (on every call)", "coreSubscribedOnEverySetup", coreEverySetup)
	w("spine/device_local.go: RemoveRemoteDevice unsubscribes the local device exactly once, under `len(r.remoteDevices) == 0`", "coreUnsubscribedOnlyWhenNoPeerLeft", coreUnsubOnlyWhenEmpty)
	w("no other site of package spine calls the unexported Events.subscribe / Events.unsubscribe", "coreLevelSitesAreThoseTwo", coreSites)
	for _, n := range notes {
		fmt.Fprintf(&b, "-- note: %s\n", n)
	}
	b.WriteString("end Spine.Generated.EventBus\n")
	if err := writeFile(outDir, "EventBus.lean", b.String()); err != nil {
		return "", err
	}
	return fmt.Sprintf("muReleasedBeforeMuHandle=%v muHandleSpansDispatch=%v fourLockOps=%v snapshotIsCopy=%v coreSync=%v appAsync=%v coreFirst=%v subscribeOnlyMu=%v unsubscribeOnlyMu=%v delegate=%v notes=%d",
		muUnlockBeforeHandleLock, handleSpansDispatch, publishOnlyTwoLocks, snapshotIsCopy, coreSync, appAsync, coreFirst, subscribeOnlyMu, unsubscribeOnlyMu, exportedDelegate, len(notes)) + fmt.Sprintf(" blocksOnlyOnMutexes=%v state=%v coreEverySetup=%v coreUnsubWhenEmpty=%v coreSites=%v", blocksOnlyOnMutexes, stateIsMutexesAndList, coreEverySetup, coreUnsubOnlyWhenEmpty, coreSites), nil
}
