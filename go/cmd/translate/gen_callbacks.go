package main

// G7 for the response callbacks of FeatureLocal (C14): "the duplicate check and the insertion of
// AddResponseCallback are ONE exclusive critical section of one mutex" and "lookup, invocation
// and removal on delivery are one critical section of the same mutex" - the facts behind the
// event granularity of Spine.CB (a registration is one event, a delivery is one event).
//
// Semantic, not textual: the callback registry is the field of struct FeatureLocal whose type
// is a map with a slice as value (whatever it is called); the registration is the exported
// method AddResponseCallback; the delivery is every other method of FeatureLocal that deletes
// from the registry. Each is flattened by the interpreter of gen_heartbeat.go into a trace of
// lock / unlock / read / write / go / return events with helper methods inlined (four levels),
// deferred and explicit unlocks treated alike.

import (
	"fmt"
	"go/ast"
	"sort"
	"strconv"
	"strings"
)

func init() { register("callbacks", genCallbacks) }

func genCallbacks(outDir string) (string, error) {
	_, files, err := spinePackage()
	if err != nil {
		return "", err
	}
	const typ = "FeatureLocal"
	funcs := map[string]*ast.FuncDecl{}
	for _, f := range files {
		for _, d := range f.Decls {
			if x, ok := d.(*ast.FuncDecl); ok && x.Body != nil {
				funcs[elRecvType(x)+"."+x.Name.Name] = x
			}
		}
	}
	var notes []string
	note := func(f string, a ...any) { notes = append(notes, fmt.Sprintf(f, a...)) }
	registry, mutexes := map[string]bool{}, map[string]bool{}
	for _, f := range files {
		ast.Inspect(f, func(n ast.Node) bool {
			ts, ok := n.(*ast.TypeSpec)
			if !ok || ts.Name.Name != typ {
				return true
			}
			if st, ok := ts.Type.(*ast.StructType); ok {
				for _, fl := range st.Fields.List {
					for _, nm := range fl.Names {
						switch t := fl.Type.(type) {
						case *ast.MapType:
							if _, ok := t.Value.(*ast.ArrayType); ok {
								registry[nm.Name] = true
							}
						case *ast.SelectorExpr:
							if s := exprString(t); s == "sync.Mutex" || s == "sync.RWMutex" {
								mutexes[nm.Name] = true
							}
						}
					}
				}
			}
			return false
		})
	}
	if len(registry) != 1 {
		note("struct %s has %d fields of a map-of-slices type (expected exactly one: the response callback registry)", typ, len(registry))
	}
	trace := func(fd *ast.FuncDecl) []hbEv {
		in := &hbInterp{funcs: funcs, typ: typ, chans: registry, mutexes: mutexes, counters: map[string]bool{}, held: map[string]int{}, epoch: map[string]int{}}
		in.walkFunc(&hbFrame{fd: fd, recv: elRecvName(fd), alias: map[string]string{}})
		return in.trace
	}
	kinds := map[string]bool{"read": true, "write": true, "delete": true, "nilcheck": true, "overwrite": true, "clear": true}
	exclusive := func(tr []hbEv, m string) bool {
		for _, e := range tr {
			if e.kind == "rlock" && e.detail == m {
				return false
			}
		}
		return true
	}

	// registration
	var addTr []hbEv
	addOne, addChecks := false, false
	mAdd := ""
	if fd := funcs[typ+".AddResponseCallback"]; fd == nil {
		note("method %s.AddResponseCallback not found", typ)
	} else {
		addTr = trace(fd)
		var why string
		var n int
		mAdd, n, why = hbSection(addTr, kinds)
		addOne = mAdd != "" && hbCount(addTr, "write") >= 1 && exclusive(addTr, mAdd)
		if !addOne {
			note("AddResponseCallback: the reads of the registry (duplicate check) and the insertion are not in one exclusive critical section (%s; %d accesses)", why, n)
		}
		// a read, then a return (the refusal), then the write
		firstRead, ret, write := -1, -1, -1
		for i, e := range addTr {
			switch {
			case e.kind == "read" && firstRead < 0:
				firstRead = i
			case e.kind == "return" && firstRead >= 0 && ret < 0:
				ret = i
			case e.kind == "write" && write < 0:
				write = i
			}
		}
		addChecks = firstRead >= 0 && ret > firstRead && write > ret
		if !addChecks {
			note("AddResponseCallback: no read of the registry followed by a return (the refusal) before the insertion")
		}
	}

	// delivery: every other method of the struct that takes a lock and whose trace (helpers inlined) removes from
	// the registry; a helper that expects its caller to hold the mutex is judged through its callers
	var delNames []string
	delTraces := map[string][]hbEv{}
	for k, fd := range funcs {
		if !strings.HasPrefix(k, typ+".") || k == typ+".AddResponseCallback" {
			continue
		}
		tr := trace(fd)
		// a root: the method itself (not an inlined callee) takes the lock of a critical section that contains a removal
		root := false
		for i, e := range tr {
			if e.kind != "delete" {
				continue
			}
			for j := i - 1; j >= 0; j-- {
				l := tr[j]
				if (l.kind == "lock" || l.kind == "rlock") && e.held[l.detail] != 0 && l.held[l.detail] == e.held[l.detail] {
					if l.depth == 0 {
						root = true
					}
					break
				}
			}
		}
		if root {
			delNames = append(delNames, k)
			delTraces[k] = tr
		}
	}
	sort.Strings(delNames)
	deliverOne := len(delNames) > 0
	mDel := ""
	var delTr []hbEv
	if len(delNames) == 0 {
		note("no method of %s removes from the callback registry under a lock", typ)
	}
	dk := map[string]bool{"read": true, "write": true, "delete": true, "spawn": true}
	for _, k := range delNames {
		tr := delTraces[k]
		if delTr == nil {
			delTr = tr
		}
		m, n, why := hbSection(tr, dk)
		if m == "" || !exclusive(tr, m) {
			deliverOne = false
			note("%s: lookup, invocation and removal are not in one exclusive critical section (%s; %d events)", k, why, n)
		}
		if mDel == "" {
			mDel = m
		} else if m != mDel {
			deliverOne = false
		}
	}
	sameMutex := mAdd != "" && mAdd == mDel
	if !sameMutex {
		note("registration and delivery do not use one and the same mutex (%q, %q)", mAdd, mDel)
	}

	// WHERE the callbacks run (gen_callbacks_inv.go)
	sites, regKinds := cbInvocationSites(files, typ, funcs, mutexes)
	nResp, nRes := 0, 0
	asyncOrUnlocked, notUnderRegistry := true, true
	respOwn := true
	var siteStrs, underLock []string
	for _, st := range sites {
		siteStrs = append(siteStrs, strconv.Quote(st.String()))
		if st.kind == "response" {
			nResp++
			if !st.own {
				respOwn = false
				note("response callbacks are invoked in %s by a goroutine that serves several of them in a loop (or by the delivering goroutine): a callback that does not return holds up the callbacks after it", st.via)
			}
		} else {
			nRes++
		}
		if !st.spawned && len(st.held) > 0 {
			asyncOrUnlocked = false
			underLock = append(underLock, strconv.Quote(st.String()))
			note("a registered %s callback is invoked directly (not in a goroutine) in %s while %v is held: a callback that calls back into the feature blocks for ever", st.kind, st.via, st.held)
		}
		for _, m := range st.held {
			if !st.spawned && mAdd != "" && m == mAdd {
				notUnderRegistry = false
			}
		}
	}
	hasResp, hasRes := false, false
	for _, k := range regKinds {
		hasResp = hasResp || k == "response"
		hasRes = hasRes || k == "result"
	}
	if !hasResp || !hasRes {
		note("struct %s: callback registries found by type: %v (expected a map of function slices and a function slice)", typ, regKinds)
	}

	show := func(tr []hbEv, m string) string {
		var s []string
		for _, e := range tr {
			t := e.kind
			if e.detail != "" {
				t += " " + e.detail
			}
			if (kinds[e.kind] || e.kind == "spawn") && m != "" {
				t += fmt.Sprintf(" @%s#%d", m, e.held[m])
			}
			s = append(s, strconv.Quote(t))
		}
		return "[" + strings.Join(s, ", ") + "]"
	}
	b2 := func(b bool) string {
		if b {
			return "true"
		}
		return "false"
	}
	var qn []string
	for _, n := range notes {
		qn = append(qn, strconv.Quote(n))
	}
	var sb strings.Builder
	sb.WriteString("/-! GENERATED by go/cmd/translate (generator `callbacks`) from the tree under test - do not edit.\n")
	sb.WriteString("    Critical-section facts of the response callback registry of FeatureLocal, see gen_callbacks.go. -/\n")
	sb.WriteString("namespace Spine.Generated.Callbacks\n\n")
	sb.WriteString("/-- events of AddResponseCallback in source order (helpers inlined); `@m#k` = inside critical section k of mutex m -/\n")
	sb.WriteString("def registerTrace : List String := " + show(addTr, mAdd) + "\n")
	sb.WriteString("/-- methods that remove from the registry: " + strings.Join(delNames, ", ") + " -/\n")
	sb.WriteString("def deliverTrace : List String := " + show(delTr, mDel) + "\n\n")
	sb.WriteString("/-- duplicate check and insertion: ONE exclusive critical section of one mutex -/\n")
	sb.WriteString("def registerOneSection : Bool := " + b2(addOne) + "\n")
	sb.WriteString("/-- the registration reads the registry and can return (refuse) before it inserts -/\n")
	sb.WriteString("def registerChecksFirst : Bool := " + b2(addChecks) + "\n")
	sb.WriteString("/-- lookup, invocation (go) and removal on delivery: one exclusive critical section -/\n")
	sb.WriteString("def deliverOneSection : Bool := " + b2(deliverOne) + "\n")
	sb.WriteString("/-- registration and delivery use one and the same mutex -/\n")
	sb.WriteString("def sameMutex : Bool := " + b2(sameMutex) + "\n")
	sb.WriteString("/-- every invocation of a function value taken from a callback registry (response: the map of function slices,\n    result: the function slice), through locals and helpers: `mode=go` = in a spawned goroutine, `held` = mutexes held -/\n")
	sb.WriteString("def invocationSites : List String := [" + strings.Join(siteStrs, ", ") + "]\n")
	sb.WriteString("def responseInvocationSites : Nat := " + strconv.Itoa(nResp) + "\n")
	sb.WriteString("def resultInvocationSites : Nat := " + strconv.Itoa(nRes) + "\n")
	sb.WriteString("/-- direct invocations while a mutex of the struct is held -/\n")
	sb.WriteString("def invokedUnderLock : List String := [" + strings.Join(underLock, ", ") + "]\n")
	sb.WriteString("/-- every invocation of a registered callback happens in a spawned goroutine OR with no mutex of the struct held -/\n")
	sb.WriteString("def invocationsAsyncOrUnlocked : Bool := " + b2(asyncOrUnlocked) + "\n")
	sb.WriteString("/-- every invocation of a registered RESPONSE callback is performed by a goroutine of its own (a `go` statement on the\n    callback, or a spawned function that reaches the invocation outside every loop): the callbacks waiting for one counter\n    are independent of each other -/\n")
	sb.WriteString("def responseCallbacksOwnGoroutine : Bool := " + b2(respOwn) + "\n")
	sb.WriteString("/-- no callback is invoked directly while the mutex of the registration section is held -/\n")
	sb.WriteString("def noInvocationUnderRegistryMutex : Bool := " + b2(notUnderRegistry) + "\n")
	sb.WriteString("def notes : List String := [" + strings.Join(qn, ", ") + "]\n\n")
	sb.WriteString("end Spine.Generated.Callbacks\n")
	if err := writeFile(outDir, "Callbacks.lean", sb.String()); err != nil {
		return "", err
	}
	return fmt.Sprintf("registry %v, mutex %q: registerOneSection=%v registerChecksFirst=%v deliverOneSection=%v (%s) sameMutex=%v; %d+%d invocation sites, asyncOrUnlocked=%v notUnderRegistryMutex=%v, %d note(s)",
		keysOf(registry), mAdd, addOne, addChecks, deliverOne, strings.Join(delNames, ","), sameMutex, nResp, nRes, asyncOrUnlocked, notUnderRegistry, len(notes)), nil
}

func keysOf(m map[string]bool) []string {
	var s []string
	for k := range m {
		s = append(s, k)
	}
	sort.Strings(s)
	return s
}
