package main

// G7 for the local entity (C07, C20): the critical-section facts behind the
// choice of model member, extracted from the spine package with go/ast.
//
// The facts are semantic, not textual. Each function of interest is flattened
// into a trace of events in source order — lock / unlock of a mutex (with the
// number of the critical section), search of the feature list by type and
// role, creation of a feature, append to the feature list, copy and store of
// function data, return — following calls to functions and methods of the same
// package (on the same receiver, or package-level) up to three levels deep.
// A deferred unlock takes effect at the end of the frame that registered it; a
// branch that ends in a return is interpreted on a copy of the lock state, so
// "unlock before every return" and "defer unlock" are the same thing.
//
//   - the four use-case operations: every DataCopy and SetData of an operation
//     happens inside ONE critical section of a package-level mutex, the same
//     mutex for all four (member "with the lock", Spine.UC.LSt);
//   - GetOrAddFeature: the creation (NewFeatureLocal, append to the feature
//     list) happens under a mutex of the entity, and in that same critical
//     section, before the creation, the feature list is searched by type AND
//     role (a loop, slices.IndexFunc/ContainsFunc, or a helper that does so)
//     with a return in between (member recheck = true of Spine.Feat);
//   - NextFeatureId: every call it makes happens under a mutex of the entity.
//   - wiring of the use-case operations (added in the deepening round): which
//     helper of model.NodeManagementUseCaseDataType each operation applies to
//     the copied data, and that it does so after the copy, before the store and
//     inside the same lock hold. Function literals are followed: a literal
//     passed to a helper (or kept in a local variable) is interpreted where the
//     helper calls its parameter, so `r.update(func(data, addr) { data.X(…) })`
//     and the four written-out cycles yield the same trace. The helper names
//     are those of the methods declared on NodeManagementUseCaseDataType in the
//     model package (exported API), read from the model sources;
//   - HasUseCaseSupport copies, asks the model helper of that name and stores
//     nothing;
//   - every search of the feature list by type and role that GetOrAddFeature
//     performs (first lookup and re-check alike) happens under a mutex of the
//     entity: the model's `lookup` is one event.
//
// A fact that cannot be established is false and a note says why.

import (
	"fmt"
	"go/ast"
	"go/parser"
	"go/token"
	"os"
	"path/filepath"
	"sort"
	"strings"
)

func init() { register("entitylocal", genEntityLocal) }

type elEvent struct {
	kind   string         // lock unlock search create append copy store yield nextid return call
	detail string         // mutex expression / callee
	own    bool           // modify: the address handed to the helper is the receiver's own (see origin)
	held   map[string]int // mutex expression -> number of its critical section, for the mutexes held at this point
	depth  int
}

type elInterp struct {
	funcs   map[string]*ast.FuncDecl // "Recv.Name" or ".Name"
	trace   []elEvent
	held    map[string]int
	epoch   map[string]int
	env     map[string]*elClosure // function literals bound to names visible in the current frame
	modelUC map[string]bool       // methods of model.NodeManagementUseCaseDataType
	ucDecl  map[string]*ast.FuncDecl
	vals    map[string]string // where the value of a name of the current frame comes from (see origin)
	cond    int               // > 0 inside a branch or loop body: an assignment there may or may not happen
}

// ---- where a value comes from (added in round 5): just enough symbolic evaluation to decide whether the address an
// operation hands to the helper of the data type is the receiver's OWN address — a model.FeatureAddressType whose
// Device and Entity are those of the receiver's Address() and whose Feature is not set — through local variables,
// helper methods of the receiver, closure parameters, field-wise construction, & and util.Ptr(*x).
const (
	elRecv     = "recv"         // the receiver of the operation under analysis (also its embedded *Entity)
	elRecvAddr = "recv.address" // its address: the field `address` of the embedded Entity / what Address() returns
	elOwnAddr  = "fa:" + elRecvAddr + ".Device|" + elRecvAddr + ".Entity|"
	elConflict = "?"
)

func elFA(dev, ent, feat string) string { return "fa:" + dev + "|" + ent + "|" + feat }

func (in *elInterp) setVal(name, o string) {
	if name == "_" || in.vals == nil {
		return
	}
	if old, ok := in.vals[name]; ok && in.cond > 0 && old != o {
		o = elConflict // assigned on some paths only: neither value can be relied on
	}
	in.vals[name] = o
}

func (in *elInterp) origin(e ast.Expr, depth int) string {
	if in.vals == nil || e == nil {
		return ""
	}
	switch x := e.(type) {
	case *ast.ParenExpr:
		return in.origin(x.X, depth)
	case *ast.UnaryExpr:
		if x.Op == token.AND {
			return in.origin(x.X, depth)
		}
	case *ast.StarExpr:
		return in.origin(x.X, depth)
	case *ast.Ident:
		return in.vals[x.Name]
	case *ast.SelectorExpr:
		o := in.origin(x.X, depth)
		switch {
		case o == elRecv && x.Sel.Name == "Entity":
			return elRecv
		case o == elRecv && x.Sel.Name == "address":
			return elRecvAddr
		case o == elRecvAddr && (x.Sel.Name == "Device" || x.Sel.Name == "Entity"):
			return elRecvAddr + "." + x.Sel.Name
		case strings.HasPrefix(o, "fa:"):
			parts := strings.SplitN(strings.TrimPrefix(o, "fa:"), "|", 3)
			switch x.Sel.Name {
			case "Device":
				return parts[0]
			case "Entity":
				return parts[1]
			}
		}
	case *ast.CompositeLit:
		if x.Type != nil && strings.HasSuffix(exprString(x.Type), "FeatureAddressType") {
			dev, ent, feat := "", "", ""
			for i, el := range x.Elts {
				if kv, ok := el.(*ast.KeyValueExpr); ok {
					switch exprString(kv.Key) {
					case "Device":
						dev = in.origin(kv.Value, depth)
					case "Entity":
						ent = in.origin(kv.Value, depth)
					default:
						feat = "set"
					}
					continue
				}
				switch i {
				case 0:
					dev = in.origin(el, depth)
				case 1:
					ent = in.origin(el, depth)
				default:
					feat = "set"
				}
			}
			return elFA(dev, ent, feat)
		}
	case *ast.CallExpr:
		if depth > 4 {
			return ""
		}
		switch f := x.Fun.(type) {
		case *ast.SelectorExpr:
			if (exprString(f) == "util.Ptr" || f.Sel.Name == "Ptr") && len(x.Args) == 1 {
				return in.origin(x.Args[0], depth)
			}
			if o := in.origin(f.X, depth); o == elRecv {
				for _, t := range []string{"EntityLocal", "Entity"} {
					if callee := in.funcs[t+"."+f.Sel.Name]; callee != nil && callee.Body != nil {
						return in.originOfCall(callee, x.Args, elRecv, depth)
					}
				}
				if f.Sel.Name == "Address" && len(x.Args) == 0 {
					return elRecvAddr
				}
			}
		case *ast.Ident:
			if callee := in.funcs["."+f.Name]; callee != nil && callee.Body != nil {
				return in.originOfCall(callee, x.Args, "", depth)
			}
		}
	}
	return ""
}

// originOfCall: what a function of the package returns, its parameters bound to where the arguments come from;
// flow-insensitive (assignments in source order, every return must agree)
func (in *elInterp) originOfCall(callee *ast.FuncDecl, args []ast.Expr, recv string, depth int) string {
	nv := map[string]string{}
	if rn := elRecvName(callee); rn != "" {
		nv[rn] = recv
	}
	params := elParamNames(callee)
	for i, a := range args {
		if i < len(params) {
			nv[params[i]] = in.origin(a, depth)
		}
	}
	saved, savedCond := in.vals, in.cond
	in.vals = nv
	res, first := "", true
	for _, top := range callee.Body.List {
		in.cond = 1
		switch top.(type) {
		case *ast.AssignStmt, *ast.DeclStmt, *ast.ReturnStmt:
			in.cond = 0
		}
		ast.Inspect(top, func(n ast.Node) bool {
			switch y := n.(type) {
			case *ast.FuncLit:
				return false
			case *ast.AssignStmt:
				in.bind(y.Lhs, y.Rhs, depth+1)
			case *ast.ValueSpec:
				var lhs []ast.Expr
				for _, nm := range y.Names {
					lhs = append(lhs, nm)
				}
				if len(y.Values) > 0 {
					in.bind(lhs, y.Values, depth+1)
				}
			case *ast.ReturnStmt:
				o := ""
				if len(y.Results) >= 1 {
					o = in.origin(y.Results[0], depth+1)
				}
				if first {
					res, first = o, false
				} else if res != o {
					res = ""
				}
			}
			return true
		})
	}
	in.vals, in.cond = saved, savedCond
	return res
}

// bind records where the assigned names come from; `x.Device = v` / `x.Entity = v` / `x.Feature = v` update the
// address value held by x
func (in *elInterp) bind(lhs, rhs []ast.Expr, depth int) {
	if in.vals == nil {
		return
	}
	for i, l := range lhs {
		o := ""
		if len(lhs) == len(rhs) {
			o = in.origin(rhs[i], depth)
		}
		switch x := l.(type) {
		case *ast.Ident:
			in.setVal(x.Name, o)
		case *ast.SelectorExpr:
			if id, ok := x.X.(*ast.Ident); ok && strings.HasPrefix(in.vals[id.Name], "fa:") {
				parts := strings.SplitN(strings.TrimPrefix(in.vals[id.Name], "fa:"), "|", 3)
				k, v := 2, "set"
				switch x.Sel.Name {
				case "Device":
					k, v = 0, o
				case "Entity":
					k, v = 1, o
				}
				if in.cond > 0 && parts[k] != v {
					v = elConflict
				}
				parts[k] = v
				in.vals[id.Name] = elFA(parts[0], parts[1], parts[2])
			}
		}
	}
}

// addrArgIndex: the position of the FeatureAddressType parameter of a helper of the use-case data type
func (in *elInterp) addrArgIndex(helper string) int {
	fd := in.ucDecl[helper]
	if fd == nil || fd.Type.Params == nil {
		return 0
	}
	i := 0
	for _, f := range fd.Type.Params.List {
		n := len(f.Names)
		if n == 0 {
			n = 1
		}
		if strings.TrimPrefix(exprString(f.Type), "*") == "FeatureAddressType" {
			return i
		}
		i += n
	}
	return 0
}

func (in *elInterp) emitModify(helper string, args []ast.Expr, shift int, depth int) {
	own := false
	if idx := in.addrArgIndex(helper) + shift; idx < len(args) {
		own = in.origin(args[idx], depth) == elOwnAddr
	}
	in.emit("modify", helper, depth)
	in.trace[len(in.trace)-1].own = own
}

// a function literal together with the frame it was written in
type elClosure struct {
	lit    *ast.FuncLit
	fd     *ast.FuncDecl
	env    map[string]*elClosure
	method string // not a literal but a method expression / method value of the use-case data type: (*T).M, data.M
	shift  int    // method expression: the receiver is the first argument
	vals   map[string]string
}

func elMethodShift(e ast.Expr) int {
	for {
		p, ok := e.(*ast.ParenExpr)
		if !ok {
			break
		}
		e = p.X
	}
	if s, ok := e.(*ast.SelectorExpr); ok {
		switch s.X.(type) {
		case *ast.ParenExpr, *ast.SelectorExpr, *ast.StarExpr:
			return 1 // (*model.T).M, model.T.M
		}
	}
	return 0
}

// elMethodValue: the expression is a method expression or method value naming a helper of the use-case data type
// ((*model.NodeManagementUseCaseDataType).M, model.NodeManagementUseCaseDataType.M, data.M — not a call)
func (in *elInterp) elMethodValue(e ast.Expr) string {
	for {
		p, ok := e.(*ast.ParenExpr)
		if !ok {
			break
		}
		e = p.X
	}
	if s, ok := e.(*ast.SelectorExpr); ok && in.modelUC[s.Sel.Name] {
		return s.Sel.Name
	}
	return ""
}

func elParamNames(fd *ast.FuncDecl) []string {
	var out []string
	if fd.Type.Params == nil {
		return out
	}
	for _, f := range fd.Type.Params.List {
		if len(f.Names) == 0 {
			out = append(out, "_")
		}
		for _, n := range f.Names {
			out = append(out, n.Name)
		}
	}
	return out
}

func elRecvType(fd *ast.FuncDecl) string {
	if fd.Recv == nil || len(fd.Recv.List) != 1 {
		return ""
	}
	t := fd.Recv.List[0].Type
	if st, ok := t.(*ast.StarExpr); ok {
		t = st.X
	}
	if ix, ok := t.(*ast.IndexExpr); ok {
		t = ix.X
	}
	if id, ok := t.(*ast.Ident); ok {
		return id.Name
	}
	return ""
}

func elRecvName(fd *ast.FuncDecl) string {
	if fd.Recv == nil || len(fd.Recv.List) != 1 || len(fd.Recv.List[0].Names) != 1 {
		return ""
	}
	return fd.Recv.List[0].Names[0].Name
}

func (in *elInterp) emit(kind, detail string, depth int) {
	h := map[string]int{}
	for k, v := range in.held {
		h[k] = v
	}
	in.trace = append(in.trace, elEvent{kind: kind, detail: detail, held: h, depth: depth})
}

func (in *elInterp) lock(m string, depth int) {
	in.epoch[m]++
	in.held[m] = in.epoch[m]
	in.emit("lock", m, depth)
}

func (in *elInterp) unlock(m string, depth int) {
	delete(in.held, m)
	in.emit("unlock", m, depth)
}

func elTerminates(b *ast.BlockStmt) bool {
	if b == nil || len(b.List) == 0 {
		return false
	}
	switch x := b.List[len(b.List)-1].(type) {
	case *ast.ReturnStmt:
		return true
	case *ast.ExprStmt:
		if c, ok := x.X.(*ast.CallExpr); ok && exprString(c.Fun) == "panic" {
			return true
		}
	}
	return false
}

// elTypeRoleCond: the node compares a .Type() call and a .Role() call for equality, joined by && and without || or !=
func elTypeRoleCond(n ast.Node) bool {
	typ, role, and, bad := false, false, false, false
	ast.Inspect(n, func(x ast.Node) bool {
		be, ok := x.(*ast.BinaryExpr)
		if !ok {
			return true
		}
		switch be.Op {
		case token.LAND:
			and = true
		case token.LOR, token.NEQ:
			bad = true
		case token.EQL:
			for _, side := range []ast.Expr{be.X, be.Y} {
				if c, ok := side.(*ast.CallExpr); ok {
					if s, ok := c.Fun.(*ast.SelectorExpr); ok && len(c.Args) == 0 {
						if s.Sel.Name == "Type" {
							typ = true
						}
						if s.Sel.Name == "Role" {
							role = true
						}
					}
				}
			}
		}
		return true
	})
	return typ && role && and && !bad
}

func elMentionsFeatures(e ast.Expr) bool {
	found := false
	ast.Inspect(e, func(x ast.Node) bool {
		if s, ok := x.(*ast.SelectorExpr); ok && s.Sel.Name == "features" {
			found = true
		}
		return true
	})
	return found
}

func (in *elInterp) walkFunc(fd *ast.FuncDecl, depth int) {
	if fd == nil || fd.Body == nil {
		return
	}
	var defers []string
	in.walkBlock(fd.Body.List, fd, depth, &defers)
	for i := len(defers) - 1; i >= 0; i-- {
		in.unlock(defers[i], depth)
	}
}

func (in *elInterp) branch(b *ast.BlockStmt, fd *ast.FuncDecl, depth int, defers *[]string) {
	if b == nil {
		return
	}
	in.cond++
	defer func() { in.cond-- }()
	if elTerminates(b) {
		saved := map[string]int{}
		for k, v := range in.held {
			saved[k] = v
		}
		in.walkBlock(b.List, fd, depth, defers)
		in.held = saved
		return
	}
	in.walkBlock(b.List, fd, depth, defers)
}

func (in *elInterp) walkBlock(list []ast.Stmt, fd *ast.FuncDecl, depth int, defers *[]string) {
	for _, st := range list {
		in.walkStmt(st, fd, depth, defers)
	}
}

func elUnlockTarget(c *ast.CallExpr) (string, bool) {
	if s, ok := c.Fun.(*ast.SelectorExpr); ok && (s.Sel.Name == "Unlock" || s.Sel.Name == "RUnlock") && len(c.Args) == 0 {
		return exprString(s.X), true
	}
	return "", false
}

func (in *elInterp) walkStmt(st ast.Stmt, fd *ast.FuncDecl, depth int, defers *[]string) {
	switch x := st.(type) {
	case nil:
	case *ast.DeferStmt:
		if m, ok := elUnlockTarget(x.Call); ok {
			*defers = append(*defers, m)
			return
		}
		if fl, ok := x.Call.Fun.(*ast.FuncLit); ok {
			ast.Inspect(fl.Body, func(n ast.Node) bool {
				if c, ok := n.(*ast.CallExpr); ok {
					if m, ok := elUnlockTarget(c); ok {
						*defers = append(*defers, m)
					}
				}
				return true
			})
		}
	case *ast.ExprStmt:
		in.walkExpr(x.X, fd, depth)
	case *ast.AssignStmt:
		for _, r := range x.Rhs {
			in.walkExpr(r, fd, depth)
		}
		for i, l := range x.Lhs {
			if id, ok := l.(*ast.Ident); ok && i < len(x.Rhs) && in.env != nil {
				if fl, ok := x.Rhs[i].(*ast.FuncLit); ok {
					in.env[id.Name] = &elClosure{lit: fl, fd: fd, env: in.env, vals: in.vals}
				} else if _, isCall := x.Rhs[i].(*ast.CallExpr); !isCall {
					if m := in.elMethodValue(x.Rhs[i]); m != "" {
						in.env[id.Name] = &elClosure{method: m, shift: elMethodShift(x.Rhs[i])}
					}
				}
			}
		}
		in.bind(x.Lhs, x.Rhs, depth)
		for _, l := range x.Lhs {
			// a write to the device's list of entities (the field is found by its type, see elTreeFields): the whole
			// field, or one of its elements
			for {
				if ix, ok := l.(*ast.IndexExpr); ok {
					l = ix.X
				} else if pe, ok := l.(*ast.ParenExpr); ok {
					l = pe.X
				} else {
					break
				}
			}
			if s, ok := l.(*ast.SelectorExpr); ok && elTreeFields[s.Sel.Name] {
				in.emit("treewrite", exprString(l), depth)
			}
		}
		for i, l := range x.Lhs {
			if s, ok := l.(*ast.SelectorExpr); ok && s.Sel.Name == "features" && i < len(x.Rhs) {
				if c, ok := x.Rhs[i].(*ast.CallExpr); ok && exprString(c.Fun) == "append" {
					in.emit("append", exprString(l), depth)
				}
			}
		}
	case *ast.IfStmt:
		in.walkStmt(x.Init, fd, depth, defers)
		in.walkExpr(x.Cond, fd, depth)
		in.branch(x.Body, fd, depth, defers)
		switch e := x.Else.(type) {
		case *ast.BlockStmt:
			in.branch(e, fd, depth, defers)
		case *ast.IfStmt:
			in.walkStmt(e, fd, depth, defers)
		}
	case *ast.RangeStmt:
		in.walkExpr(x.X, fd, depth)
		if elMentionsFeatures(x.X) && elTypeRoleCond(x.Body) {
			in.emit("search", "range "+exprString(x.X), depth)
		}
		in.cond++
		in.walkBlock(x.Body.List, fd, depth, defers)
		in.cond--
	case *ast.ForStmt:
		in.walkStmt(x.Init, fd, depth, defers)
		if x.Cond != nil {
			in.walkExpr(x.Cond, fd, depth)
			if elMentionsFeatures(x.Cond) && elTypeRoleCond(x.Body) {
				in.emit("search", "for over features", depth)
			}
		}
		in.cond++
		in.walkBlock(x.Body.List, fd, depth, defers)
		in.walkStmt(x.Post, fd, depth, defers)
		in.cond--
	case *ast.SwitchStmt:
		in.walkStmt(x.Init, fd, depth, defers)
		if x.Tag != nil {
			in.walkExpr(x.Tag, fd, depth)
		}
		for _, cl := range x.Body.List {
			cc := cl.(*ast.CaseClause)
			for _, e := range cc.List {
				in.walkExpr(e, fd, depth)
			}
			in.branch(&ast.BlockStmt{List: cc.Body}, fd, depth, defers)
		}
	case *ast.TypeSwitchStmt:
		for _, cl := range x.Body.List {
			in.branch(&ast.BlockStmt{List: cl.(*ast.CaseClause).Body}, fd, depth, defers)
		}
	case *ast.BlockStmt:
		in.walkBlock(x.List, fd, depth, defers)
	case *ast.ReturnStmt:
		for _, r := range x.Results {
			in.walkExpr(r, fd, depth)
		}
		in.emit("return", "", depth)
	case *ast.DeclStmt:
		ast.Inspect(x, func(n ast.Node) bool {
			if vs, ok := n.(*ast.ValueSpec); ok {
				for _, v := range vs.Values {
					in.walkExpr(v, fd, depth)
				}
				if len(vs.Values) > 0 {
					var lhs []ast.Expr
					for _, nm := range vs.Names {
						lhs = append(lhs, nm)
					}
					in.bind(lhs, vs.Values, depth)
				}
				return false
			}
			return true
		})
	case *ast.LabeledStmt:
		in.walkStmt(x.Stmt, fd, depth, defers)
	case *ast.GoStmt:
		// another goroutine: not part of this trace
	default:
	}
}

// walkExpr visits the calls of an expression (not the bodies of function literals).
func (in *elInterp) walkExpr(e ast.Expr, fd *ast.FuncDecl, depth int) {
	if e == nil {
		return
	}
	ast.Inspect(e, func(n ast.Node) bool {
		switch c := n.(type) {
		case *ast.FuncLit:
			return false
		case *ast.CallExpr:
			// arguments first (they are evaluated before the call)
			for _, a := range c.Args {
				in.walkExpr(a, fd, depth)
			}
			in.call(c, fd, depth)
			if s, ok := c.Fun.(*ast.SelectorExpr); ok {
				in.walkExpr(s.X, fd, depth)
			}
			return false
		}
		return true
	})
}

func (in *elInterp) call(c *ast.CallExpr, fd *ast.FuncDecl, depth int) {
	name := exprString(c.Fun)
	sel, isSel := c.Fun.(*ast.SelectorExpr)
	if isSel && len(c.Args) == 0 {
		switch sel.Sel.Name {
		case "Lock", "RLock":
			in.lock(exprString(sel.X), depth)
			return
		case "Unlock", "RUnlock":
			in.unlock(exprString(sel.X), depth)
			return
		}
	}
	if id, ok := c.Fun.(*ast.Ident); ok {
		if cl := in.env[id.Name]; cl != nil && cl.method != "" {
			in.emitModify(cl.method, c.Args, cl.shift, depth)
			return
		}
		if cl := in.env[id.Name]; cl != nil && depth < 4 {
			// a call of a bound function literal: interpret its body here, in the frame it was written in
			in.emit("call", name, depth)
			saved, savedVals := in.env, in.vals
			nv := map[string]string{}
			for k, v := range cl.vals {
				nv[k] = v
			}
			if cl.lit.Type.Params != nil {
				i := 0
				for _, f := range cl.lit.Type.Params.List {
					for _, nm := range f.Names {
						if i < len(c.Args) {
							nv[nm.Name] = in.origin(c.Args[i], depth)
						}
						i++
					}
					if len(f.Names) == 0 {
						i++
					}
				}
			}
			in.env, in.vals = cl.env, nv
			var defers []string
			in.walkBlock(cl.lit.Body.List, cl.fd, depth+1, &defers)
			for i := len(defers) - 1; i >= 0; i-- {
				in.unlock(defers[i], depth+1)
			}
			in.env, in.vals = saved, savedVals
			return
		}
	}
	if isSel && in.modelUC[sel.Sel.Name] {
		onRecv := false
		if x, ok := sel.X.(*ast.Ident); ok && x.Name == elRecvName(fd) && x.Name != "" {
			for _, t := range []string{elRecvType(fd), "Entity", "Feature", "Device"} {
				if in.funcs[t+"."+sel.Sel.Name] != nil {
					onRecv = true
				}
			}
		}
		if !onRecv {
			in.emitModify(sel.Sel.Name, c.Args, 0, depth)
			return
		}
	}
	switch {
	case name == "NewFeatureLocal":
		in.emit("create", name, depth)
		return
	case name == "verifYield":
		in.emit("yield", "", depth)
		return
	case name == "LocalFeatureDataCopyOfType" || (isSel && (sel.Sel.Name == "DataCopy" || sel.Sel.Name == "DataCopyAny")):
		in.emit("copy", name, depth)
		return
	case isSel && sel.Sel.Name == "SetData":
		in.emit("store", name, depth)
		return
	case isSel && sel.Sel.Name == "NextFeatureId":
		in.emit("nextid", name, depth)
		return
	case strings.HasPrefix(name, "slices.") && len(c.Args) >= 2 && elMentionsFeatures(c.Args[0]):
		if fl, ok := c.Args[1].(*ast.FuncLit); ok && elTypeRoleCond(fl.Body) {
			in.emit("search", name, depth)
			return
		}
	}
	in.emit("call", name, depth)
	if depth >= 3 {
		return
	}
	// follow calls into the same package: package-level functions, and methods called on this frame's receiver
	var callee *ast.FuncDecl
	if id, ok := c.Fun.(*ast.Ident); ok {
		callee = in.funcs["."+id.Name]
	} else if isSel {
		if x, ok := sel.X.(*ast.Ident); ok && x.Name == elRecvName(fd) && x.Name != "" {
			for _, t := range []string{elRecvType(fd), "Entity", "Feature", "Device"} { // the receiver's type, then the embedded bases
				if f := in.funcs[t+"."+sel.Sel.Name]; f != nil {
					callee = f
					break
				}
			}
		}
	}
	if callee != nil && callee != fd {
		newEnv := map[string]*elClosure{}
		newVals := map[string]string{}
		if rn := elRecvName(callee); rn != "" && isSel {
			newVals[rn] = in.origin(sel.X, depth)
		}
		params := elParamNames(callee)
		for i, a := range c.Args {
			if i >= len(params) {
				break
			}
			newVals[params[i]] = in.origin(a, depth)
			switch x := a.(type) {
			case *ast.FuncLit:
				newEnv[params[i]] = &elClosure{lit: x, fd: fd, env: in.env, vals: in.vals}
			case *ast.Ident:
				if cl := in.env[x.Name]; cl != nil {
					newEnv[params[i]] = cl
				}
			default:
				if m := in.elMethodValue(a); m != "" {
					newEnv[params[i]] = &elClosure{method: m, shift: elMethodShift(a)}
				}
			}
		}
		saved, savedVals := in.env, in.vals
		in.env, in.vals = newEnv, newVals
		in.walkFunc(callee, depth+1)
		in.env, in.vals = saved, savedVals
	}
}

var elModelUC map[string]bool

// elTreeFields: the fields of DeviceLocal that hold the local entities — found by TYPE (a slice, array or map whose
// element type mentions EntityLocalInterface or EntityLocal), whatever they are called
var elTreeFields map[string]bool

// elIsAnnounce: a call that sends (or leads to sending) a notification: the exported Sender.Notify /
// DeviceLocal.NotifySubscribers, or a helper named notify… (helpers on the receiver are followed anyway)
func elIsAnnounce(name string) bool {
	if i := strings.LastIndex(name, "."); i >= 0 {
		name = name[i+1:]
	}
	return strings.HasPrefix(strings.ToLower(name), "notify")
}

// elChangeBeforeAnnounce flattens DeviceLocal.<op> (helpers on the receiver followed, defer and explicit unlock
// alike) and reports whether every write to the entity list precedes the first notification, and whether every such
// write happens under a mutex of the device
func elChangeBeforeAnnounce(funcs map[string]*ast.FuncDecl, pkgMutex map[string]bool, key string) (first, locked bool, detail string) {
	tr := elTrace(funcs, key)
	ann, nw, late, unheld := -1, 0, 0, 0
	for i, e := range tr {
		switch {
		case e.kind == "call" && elIsAnnounce(e.detail) && ann < 0:
			ann = i
		case e.kind == "treewrite":
			nw++
			if ann >= 0 {
				late++
			}
			n := 0
			for m := range e.held {
				if !pkgMutex[m] {
					n++
				}
			}
			if n == 0 {
				unheld++
			}
		}
	}
	return nw > 0 && ann >= 0 && late == 0, nw > 0 && unheld == 0,
		fmt.Sprintf("%s: %d writes to the entity list, %d after the first notification call, %d outside a device mutex, notification call found=%v", key, nw, late, unheld, ann >= 0)
}
var elUCDecl map[string]*ast.FuncDecl

func elTrace(funcs map[string]*ast.FuncDecl, key string) []elEvent {
	in := &elInterp{funcs: funcs, held: map[string]int{}, epoch: map[string]int{}, env: map[string]*elClosure{}, modelUC: elModelUC, ucDecl: elUCDecl, vals: map[string]string{}}
	if fd := funcs[key]; fd != nil {
		if rn := elRecvName(fd); rn != "" {
			in.vals[rn] = elRecv
		}
	}
	in.walkFunc(funcs[key], 0)
	return in.trace
}

func genEntityLocal(outDir string) (string, error) {
	fset := token.NewFileSet()
	dir := filepath.Join(RepoDir(), "spine")
	ents, err := os.ReadDir(dir)
	if err != nil {
		return "", err
	}
	funcs := map[string]*ast.FuncDecl{}
	elTreeFields = map[string]bool{}
	pkgMutex := map[string]bool{} // package-level variables of a sync mutex type
	for _, e := range ents {
		n := e.Name()
		if e.IsDir() || !strings.HasSuffix(n, ".go") || strings.HasSuffix(n, "_test.go") {
			continue
		}
		f, err := parser.ParseFile(fset, filepath.Join(dir, n), nil, 0)
		if err != nil {
			return "", err
		}
		for _, d := range f.Decls {
			switch x := d.(type) {
			case *ast.FuncDecl:
				key := elRecvType(x) + "." + x.Name.Name
				if old, ok := funcs[key]; !ok || old.Body == nil || (x.Body != nil && len(x.Body.List) > len(old.Body.List)) {
					funcs[key] = x
				}
			case *ast.GenDecl:
				if x.Tok == token.TYPE {
					for _, sp := range x.Specs {
						ts := sp.(*ast.TypeSpec)
						st, ok := ts.Type.(*ast.StructType)
						if !ok || ts.Name.Name != "DeviceLocal" {
							continue
						}
						for _, fl := range st.Fields.List {
							var elem ast.Expr
							switch t := fl.Type.(type) {
							case *ast.ArrayType:
								elem = t.Elt
							case *ast.MapType:
								elem = t.Value
							}
							if elem != nil && strings.Contains(exprString(elem), "EntityLocal") {
								for _, nm := range fl.Names {
									elTreeFields[nm.Name] = true
								}
							}
						}
					}
				}
				if x.Tok != token.VAR {
					continue
				}
				for _, sp := range x.Specs {
					vs := sp.(*ast.ValueSpec)
					for i, nm := range vs.Names {
						var t ast.Expr = vs.Type
						if t == nil && i < len(vs.Values) {
							// var m = sync.Mutex{} / &sync.Mutex{} / new(sync.Mutex)
							v := vs.Values[i]
							if u, ok := v.(*ast.UnaryExpr); ok && u.Op == token.AND {
								v = u.X
							}
							switch y := v.(type) {
							case *ast.CompositeLit:
								t = y.Type
							case *ast.CallExpr:
								if exprString(y.Fun) == "new" && len(y.Args) == 1 {
									t = y.Args[0]
								}
							}
						}
						if t == nil {
							continue
						}
						if ts := strings.TrimPrefix(exprString(t), "*"); ts == "sync.Mutex" || ts == "sync.RWMutex" {
							pkgMutex[nm.Name] = true
						}
					}
				}
			}
		}
	}
	var notes []string

	// the helpers of the use-case data type: every method declared on NodeManagementUseCaseDataType (pointer or
	// value receiver, whatever the receiver variable is called) in ANY non-test file of package model — located by
	// what they are, not by the file they happen to live in
	elModelUC = map[string]bool{}
	ucMethods := map[string]*ast.FuncDecl{}
	{
		mdir := filepath.Join(RepoDir(), "model")
		ments, err := os.ReadDir(mdir)
		if err != nil {
			return "", err
		}
		for _, e := range ments {
			n := e.Name()
			if e.IsDir() || !strings.HasSuffix(n, ".go") || strings.HasSuffix(n, "_test.go") {
				continue
			}
			f, err := parser.ParseFile(fset, filepath.Join(mdir, n), nil, parser.SkipObjectResolution)
			if err != nil {
				return "", err
			}
			for _, d := range f.Decls {
				if x, ok := d.(*ast.FuncDecl); ok && elRecvType(x) == "NodeManagementUseCaseDataType" {
					elModelUC[x.Name.Name] = true
					ucMethods[x.Name.Name] = x
				}
			}
		}
		if len(elModelUC) == 0 {
			notes = append(notes, "no method of model.NodeManagementUseCaseDataType found in package model")
		}
	}
	// which operation of the registry a helper is: by its SIGNATURE (the five have five different ones), so that a
	// renamed helper keeps its role; when a signature is shared by several methods the known name decides
	helperName := map[string]int{"AddUseCaseSupport": 1, "SetAvailability": 2, "RemoveUseCaseSupport": 3, "RemoveUseCaseDataForAddress": 4, "HasUseCaseSupport": 5}
	helperCode := map[string]int{}
	elUCDecl = ucMethods
	{
		byClass := map[int][]string{}
		for name, fd := range ucMethods {
			if c := elUCSigClass(fd); c != 0 {
				byClass[c] = append(byClass[c], name)
			}
		}
		for c, names := range byClass {
			if len(names) == 1 {
				helperCode[names[0]] = c
				continue
			}
			for _, name := range names {
				if helperName[name] == c {
					helperCode[name] = c
				}
			}
		}
	}

	// ---- the four read-modify-write operations
	ucOps := []string{"AddUseCaseSupport", "SetUseCaseAvailability", "RemoveUseCaseSupport", "RemoveAllUseCaseSupports"}
	locked := map[string]bool{}
	lockOf := map[string]string{}
	helperOf := map[string]string{}
	ownAddr := map[string]bool{}
	for _, name := range ucOps {
		tr := elTrace(funcs, "EntityLocal."+name)
		var cs []elEvent
		for _, e := range tr {
			if e.kind == "copy" || e.kind == "store" {
				cs = append(cs, e)
			}
		}
		nCopy, nStore := 0, 0
		for _, e := range cs {
			if e.kind == "copy" {
				nCopy++
			} else {
				nStore++
			}
		}
		ok := false
		if nCopy == 0 || nStore == 0 {
			notes = append(notes, fmt.Sprintf("%s: no DataCopy / SetData found (copies %d, stores %d)", name, nCopy, nStore))
		} else {
			// a package-level mutex held, in one and the same critical section, at every copy and store
			var cands []string
			for m, ep := range cs[0].held {
				if !pkgMutex[m] {
					continue
				}
				same := true
				for _, e := range cs[1:] {
					if e.held[m] != ep {
						same = false
					}
				}
				if same {
					cands = append(cands, m)
				}
			}
			sort.Strings(cands)
			if len(cands) > 0 {
				ok = true
				lockOf[name] = cands[0]
			} else {
				notes = append(notes, name+": its DataCopy and SetData are not inside one critical section of a package-level mutex")
			}
		}
		locked[name] = ok
		// wiring: the one helper of the use-case data type applied after the copy, before the store, in that lock hold
		helper := ""
		if ok {
			m := lockOf[name]
			ep := cs[0].held[m]
			firstCopy, lastStore := -1, -1
			for i, e := range tr {
				if e.kind == "copy" && firstCopy < 0 {
					firstCopy = i
				}
				if e.kind == "store" {
					lastStore = i
				}
			}
			names := map[string]bool{}
			inside := true
			for i, e := range tr {
				if e.kind != "modify" {
					continue
				}
				names[e.detail] = true
				if e.held[m] != ep || i < firstCopy || i > lastStore {
					inside = false
				}
			}
			switch {
			case len(names) == 0:
				notes = append(notes, name+": no helper of the use-case data type is applied")
			case len(names) > 1:
				notes = append(notes, fmt.Sprintf("%s: several helpers of the use-case data type are applied: %v", name, sortedKeys(names)))
			case !inside:
				notes = append(notes, name+": the helper is applied outside the copy..store span of the lock hold")
			default:
				helper = sortedKeys(names)[0]
			}
		}
		helperOf[name] = helper
		ownAddr[name] = elAllOwn(tr)
		if !ownAddr[name] {
			notes = append(notes, name+": the address handed to the helper of the use-case data type is not recognisably the receiver's own (Device and Entity of its Address(), no Feature)")
		}
	}
	// HasUseCaseSupport: a copy, the helper of that name, no store
	hasReadOnly := false
	{
		tr := elTrace(funcs, "EntityLocal.HasUseCaseSupport")
		nCopy, nStore := 0, 0
		names := map[string]bool{}
		for _, e := range tr {
			switch e.kind {
			case "copy":
				nCopy++
			case "store":
				nStore++
			case "modify":
				names[e.detail] = true
			}
		}
		hasReadOnly = nCopy > 0 && nStore == 0 && len(names) == 1 && helperCode[sortedKeys(names)[0]] == 5
		ownAddr["HasUseCaseSupport"] = elAllOwn(tr)
		if !ownAddr["HasUseCaseSupport"] {
			notes = append(notes, "HasUseCaseSupport: the address handed to the helper of the use-case data type is not recognisably the receiver's own")
		}
		if !hasReadOnly {
			notes = append(notes, fmt.Sprintf("HasUseCaseSupport: copies %d, stores %d, helpers %v", nCopy, nStore, sortedKeys(names)))
		}
	}
	pkgLevel := true
	for _, name := range ucOps {
		if !locked[name] || lockOf[name] != lockOf[ucOps[0]] {
			pkgLevel = false
		}
	}
	if !pkgLevel {
		notes = append(notes, fmt.Sprintf("the four use-case operations do not share one package-level mutex (found %v)", lockOf))
	}

	// ---- GetOrAddFeature
	creationLocked, rechecks, searchesLocked := false, false, false
	{
		tr := elTrace(funcs, "EntityLocal.GetOrAddFeature")
		nSearch := 0
		searchesLocked = true
		for _, e := range tr {
			if e.kind == "search" {
				nSearch++
				n := 0
				for m := range e.held {
					if !pkgMutex[m] {
						n++
					}
				}
				if n == 0 {
					searchesLocked = false
				}
			}
		}
		if nSearch == 0 {
			searchesLocked = false
		}
		if !searchesLocked {
			notes = append(notes, fmt.Sprintf("GetOrAddFeature: of its %d searches of the feature list by type and role not all happen under a mutex of the entity", nSearch))
		}
		createAt, appendAt := -1, -1
		for i, e := range tr {
			if e.kind == "create" && createAt < 0 {
				createAt = i
			}
			if e.kind == "append" && appendAt < 0 {
				appendAt = i
			}
		}
		if createAt < 0 || appendAt < 0 {
			notes = append(notes, "GetOrAddFeature: no NewFeatureLocal / append to the feature list found")
		} else {
			// a mutex of the entity (not package-level) held in one critical section at creation and append
			for m, ep := range tr[createAt].held {
				if pkgMutex[m] || tr[appendAt].held[m] != ep {
					continue
				}
				creationLocked = true
				// a search by type and role in that same critical section, before the creation, with a return in between
				for i := 0; i < createAt; i++ {
					if tr[i].kind == "search" && tr[i].held[m] == ep {
						for j := i + 1; j < createAt; j++ {
							if tr[j].kind == "return" && tr[j].depth == 0 {
								rechecks = true
							}
						}
					}
				}
			}
			if !creationLocked {
				notes = append(notes, "GetOrAddFeature: NewFeatureLocal and the append are not inside one critical section of a mutex of the entity")
			}
			if !rechecks {
				notes = append(notes, "GetOrAddFeature: no search of the feature list by type and role (with a return) between the creation lock and NewFeatureLocal")
			}
		}
	}

	// ---- NextFeatureId
	nextLocked := false
	{
		tr := elTrace(funcs, "Entity.NextFeatureId")
		calls, unheld := 0, 0
		for _, e := range tr {
			if e.kind == "call" {
				calls++
				n := 0
				for m := range e.held {
					if !pkgMutex[m] {
						n++
					}
				}
				if n == 0 {
					unheld++
				}
			}
		}
		nextLocked = calls > 0 && unheld == 0
		if !nextLocked {
			notes = append(notes, fmt.Sprintf("Entity.NextFeatureId: %d of its %d calls happen outside a mutex of the entity", unheld, calls))
		}
	}

	// ---- AddEntity / RemoveEntity: the entity list changes before the notification goes out (C07, round 6)
	addFirst, addLocked, addDetail := elChangeBeforeAnnounce(funcs, pkgMutex, "DeviceLocal.AddEntity")
	remFirst, remLocked, remDetail := elChangeBeforeAnnounce(funcs, pkgMutex, "DeviceLocal.RemoveEntity")
	if !addFirst || !addLocked {
		notes = append(notes, addDetail)
	}
	if !remFirst || !remLocked {
		notes = append(notes, remDetail)
	}

	var b strings.Builder
	b.WriteString("/-! GENERATED by go/cmd/translate (generator `entitylocal`) from the spine package (entity_local.go, entity.go and the helpers they call) — do not edit. -/\n")
	b.WriteString("namespace Spine.Generated.EntityLocal\n\n")
	fmt.Fprintf(&b, "/-- the four use-case operations hold one and the same package-level mutex (%s): one lock for the use-case data of the whole device -/\ndef useCaseMuxPackageLevel : Bool := %v\n\n", lockOf[ucOps[0]], pkgLevel)
	for _, name := range ucOps {
		fmt.Fprintf(&b, "/-- %s: every DataCopy and SetData it performs (directly or through helpers) lies inside one critical section of a package-level mutex -/\ndef locked%s : Bool := %v\n\n", name, name, locked[name])
	}
	for _, name := range ucOps {
		fmt.Fprintf(&b, "/-- %s: the helper of model.NodeManagementUseCaseDataType it applies to the copy, after the copy and before the store inside the lock hold (1 AddUseCaseSupport, 2 SetAvailability, 3 RemoveUseCaseSupport, 4 RemoveUseCaseDataForAddress; 0 = none, several, another one, or outside) — found: %q -/\ndef helper%s : Nat := %d\n\n", name, helperOf[name], name, rmwCode(helperCode[helperOf[name]]))
	}
	fmt.Fprintf(&b, "/-- HasUseCaseSupport: copies the data, asks the helper HasUseCaseSupport of the data type, stores nothing -/\ndef hasUseCaseSupportReadOnly : Bool := %v\n\n", hasReadOnly)
	for _, name := range append(append([]string{}, ucOps...), "HasUseCaseSupport") {
		fmt.Fprintf(&b, "/-- %s: the address it hands to the helper of the data type is the receiver's own: a FeatureAddressType whose Device and Entity are those of the receiver's Address() and whose Feature is not set (through local variables, helper methods, closure parameters) -/\ndef addressOwn%s : Bool := %v\n\n", name, name, ownAddr[name])
	}
	fmt.Fprintf(&b, "/-- GetOrAddFeature: every search of the feature list by type and role it performs (first lookup and re-check) happens under a mutex of the entity -/\ndef getOrAddSearchesLocked : Bool := %v\n\n", searchesLocked)
	fmt.Fprintf(&b, "/-- GetOrAddFeature: NewFeatureLocal and the append to the feature list lie inside one critical section of a mutex of the entity -/\ndef getOrAddCreationLocked : Bool := %v\n\n", creationLocked)
	fmt.Fprintf(&b, "/-- GetOrAddFeature: in that critical section, before the creation, the feature list is searched by type and role and a match is returned -/\ndef getOrAddRechecks : Bool := %v\n\n", rechecks)
	fmt.Fprintf(&b, "/-- Entity.NextFeatureId: everything it calls happens under a mutex of the entity -/\ndef nextFeatureIdLocked : Bool := %v\n\n", nextLocked)
	fmt.Fprintf(&b, "/-- DeviceLocal.AddEntity: every write to the device's list of entities (field found by type: %s) precedes the first call that sends the notification (through helpers on the receiver) -/\ndef addEntityChangeBeforeNotify : Bool := %v\n\n", strings.Join(sortedKeys(elTreeFields), ","), addFirst)
	fmt.Fprintf(&b, "/-- DeviceLocal.RemoveEntity: likewise -/\ndef removeEntityChangeBeforeNotify : Bool := %v\n\n", remFirst)
	fmt.Fprintf(&b, "/-- AddEntity / RemoveEntity: every write to the list of entities happens under a mutex of the device -/\ndef entityListWritesLocked : Bool := %v\n\n", addLocked && remLocked)
	for _, n := range notes {
		fmt.Fprintf(&b, "-- note: %s\n", n)
	}
	b.WriteString("end Spine.Generated.EntityLocal\n")
	if err := writeFile(outDir, "EntityLocal.lean", b.String()); err != nil {
		return "", err
	}
	return fmt.Sprintf("useCaseMuxPackageLevel=%v locked=%v/%v/%v/%v helpers=%d/%d/%d/%d hasReadOnly=%v ownAddress=%v/%v/%v/%v/%v creationLocked=%v rechecks=%v searchesLocked=%v nextFeatureIdLocked=%v entityChangeBeforeNotify=%v/%v entityListWritesLocked=%v",
		pkgLevel, locked[ucOps[0]], locked[ucOps[1]], locked[ucOps[2]], locked[ucOps[3]],
		rmwCode(helperCode[helperOf[ucOps[0]]]), rmwCode(helperCode[helperOf[ucOps[1]]]), rmwCode(helperCode[helperOf[ucOps[2]]]), rmwCode(helperCode[helperOf[ucOps[3]]]), hasReadOnly,
		ownAddr[ucOps[0]], ownAddr[ucOps[1]], ownAddr[ucOps[2]], ownAddr[ucOps[3]], ownAddr["HasUseCaseSupport"],
		creationLocked, rechecks, searchesLocked, nextLocked, addFirst, remFirst, addLocked && remLocked), nil
}

// elAllOwn: the trace applies a helper and every application is handed the receiver's own address
func elAllOwn(tr []elEvent) bool {
	n := 0
	for _, e := range tr {
		if e.kind == "modify" {
			n++
			if !e.own {
				return false
			}
		}
	}
	return n > 0
}

// rmwCode: the read-only helper (5) is not one of the four read-modify-write helpers
func rmwCode(c int) int {
	if c >= 1 && c <= 4 {
		return c
	}
	return 0
}

// elUCSigClass classifies a method of the use-case data type by its signature:
// 1 (address, actor, name, further data … including a list) — add;  2 (address, actor, name, bool) — set availability;
// 3 (address, actor, name) — remove;  4 (address) — remove all of an address;  5 (address, actor, name) bool — has;
// 0 anything else. Type names are those of package model (exported API of the data model).
func elUCSigClass(fd *ast.FuncDecl) int {
	var ps []string
	if fd.Type.Params != nil {
		for _, f := range fd.Type.Params.List {
			t := strings.TrimPrefix(exprString(f.Type), "*")
			if _, ok := f.Type.(*ast.ArrayType); ok {
				t = "[]"
			} else if _, ok := f.Type.(*ast.Ellipsis); ok {
				t = "[]"
			}
			n := len(f.Names)
			if n == 0 {
				n = 1
			}
			for i := 0; i < n; i++ {
				ps = append(ps, t)
			}
		}
	}
	var rs []string
	if fd.Type.Results != nil {
		for _, f := range fd.Type.Results.List {
			n := len(f.Names)
			if n == 0 {
				n = 1
			}
			for i := 0; i < n; i++ {
				rs = append(rs, exprString(f.Type))
			}
		}
	}
	count := func(t string) int {
		c := 0
		for _, p := range ps {
			if p == t {
				c++
			}
		}
		return c
	}
	if count("FeatureAddressType") != 1 {
		return 0
	}
	key := count("UseCaseActorType") == 1 && count("UseCaseNameType") == 1
	switch {
	case len(ps) == 1 && len(rs) == 0:
		return 4
	case key && len(ps) == 3 && len(rs) == 0:
		return 3
	case key && len(ps) == 3 && len(rs) == 1 && rs[0] == "bool":
		return 5
	case key && len(ps) == 4 && count("bool") == 1 && len(rs) == 0:
		return 2
	case key && len(ps) > 4 && len(rs) == 0:
		for _, p := range ps {
			if strings.HasPrefix(p, "[]") {
				return 1
			}
		}
	}
	return 0
}

func sortedKeys(m map[string]bool) []string {
	var out []string
	for k := range m {
		out = append(out, k)
	}
	sort.Strings(out)
	return out
}
