package main

// G7 for the local entity (C07, C20): the critical-section facts behind the
// choice of model member, extracted from spine/entity_local.go and
// spine/entity.go with go/ast.
//
//   - the four use-case operations take the package-level useCaseMux first and
//     release it by defer (member "with the lock", Spine.UC.LSt);
//   - GetOrAddFeature's creation section is under the entity lock and contains
//     a second lookup by type and role before NewFeatureLocal (member
//     recheck = true of Spine.Feat);
//   - NextFeatureId is one critical section under muxGenerator.
//
// An anchor that disappears is reported as a fact with value false plus a
// note, never silently.

import (
	"fmt"
	"go/ast"
	"go/parser"
	"go/token"
	"path/filepath"
	"strings"
)

func init() { register("entitylocal", genEntityLocal) }

// lockedFirst: the body starts with `<mux>.Lock()` followed by `defer <mux>.Unlock()`.
func lockedFirst(fd *ast.FuncDecl, mux string) bool {
	if fd == nil || fd.Body == nil || len(fd.Body.List) < 2 {
		return false
	}
	s0, ok0 := fd.Body.List[0].(*ast.ExprStmt)
	s1, ok1 := fd.Body.List[1].(*ast.DeferStmt)
	if !ok0 || !ok1 {
		return false
	}
	c0, ok := s0.X.(*ast.CallExpr)
	return ok && exprString(c0.Fun) == mux+".Lock" && exprString(s1.Call.Fun) == mux+".Unlock"
}

// callsOf counts the calls whose function expression renders as name (generic instantiations rendered without brackets).
func callsOf(n ast.Node, name string) int {
	c := 0
	ast.Inspect(n, func(x ast.Node) bool {
		if ce, ok := x.(*ast.CallExpr); ok && exprString(ce.Fun) == name {
			c++
		}
		return true
	})
	return c
}

func genEntityLocal(outDir string) (string, error) {
	fset := token.NewFileSet()
	f, err := parser.ParseFile(fset, filepath.Join(RepoDir(), "spine", "entity_local.go"), nil, 0)
	if err != nil {
		return "", err
	}
	fe, err := parser.ParseFile(fset, filepath.Join(RepoDir(), "spine", "entity.go"), nil, 0)
	if err != nil {
		return "", err
	}
	var notes []string

	// package-level `var useCaseMux sync.Mutex`: ONE lock for the use-case data of the whole device
	pkgLevel := false
	for _, d := range f.Decls {
		gd, ok := d.(*ast.GenDecl)
		if !ok || gd.Tok != token.VAR {
			continue
		}
		for _, sp := range gd.Specs {
			vs := sp.(*ast.ValueSpec)
			for _, n := range vs.Names {
				if n.Name == "useCaseMux" && vs.Type != nil && exprString(vs.Type) == "sync.Mutex" {
					pkgLevel = true
				}
			}
		}
	}
	if !pkgLevel {
		notes = append(notes, "no package-level `var useCaseMux sync.Mutex` in spine/entity_local.go")
	}

	// the four read-modify-write operations: lock first, unlock only by defer, DataCopy and SetData inside
	ucOps := []string{"AddUseCaseSupport", "SetUseCaseAvailability", "RemoveUseCaseSupport", "RemoveAllUseCaseSupports"}
	locked := map[string]bool{}
	for _, name := range ucOps {
		fd := findFunc(f, "EntityLocal", name)
		ok := lockedFirst(fd, "useCaseMux")
		if ok {
			// no early unlock, exactly one copy and one store in the body
			if callsOf(fd, "useCaseMux.Unlock") != 1 || callsOf(fd, "LocalFeatureDataCopyOfType") != 1 || callsOf(fd, "nodeMgmt.SetData") != 1 {
				ok = false
				notes = append(notes, name+": the locked region does not contain exactly one DataCopy and one SetData, or unlocks early")
			}
		} else {
			notes = append(notes, name+" does not start with useCaseMux.Lock(); defer useCaseMux.Unlock()")
		}
		locked[name] = ok
	}

	// GetOrAddFeature: r.mux.Lock(); defer r.mux.Unlock(); <second lookup over r.features by type and role>; NewFeatureLocal
	creationLocked, rechecks := false, false
	if fd := findFunc(f, "EntityLocal", "GetOrAddFeature"); fd != nil && fd.Body != nil {
		lockAt, newAt, loopAt := -1, -1, -1
		for i, st := range fd.Body.List {
			switch x := st.(type) {
			case *ast.ExprStmt:
				if c, ok := x.X.(*ast.CallExpr); ok && exprString(c.Fun) == "r.mux.Lock" && lockAt < 0 {
					if i+1 < len(fd.Body.List) {
						if ds, ok := fd.Body.List[i+1].(*ast.DeferStmt); ok && exprString(ds.Call.Fun) == "r.mux.Unlock" {
							lockAt = i
						}
					}
				}
			case *ast.RangeStmt:
				// for _, f := range r.features { if f.Type() == featureType && f.Role() == role { return f } }
				if exprString(x.X) != "r.features" || loopAt >= 0 {
					break
				}
				found := false
				ast.Inspect(x.Body, func(n ast.Node) bool {
					is, ok := n.(*ast.IfStmt)
					if !ok {
						return true
					}
					var conds []string
					ast.Inspect(is.Cond, func(m ast.Node) bool {
						if be, ok := m.(*ast.BinaryExpr); ok && be.Op == token.EQL {
							conds = append(conds, exprString(be.X)+"=="+exprString(be.Y))
						}
						return true
					})
					and := false
					if be, ok := is.Cond.(*ast.BinaryExpr); ok && be.Op == token.LAND {
						and = true
					}
					joined := strings.Join(conds, ";")
					hasRet := false
					for _, s := range is.Body.List {
						if rs, ok := s.(*ast.ReturnStmt); ok && len(rs.Results) == 1 {
							hasRet = true
						}
					}
					if and && len(conds) == 2 && strings.Contains(joined, ".Type()==featureType") && strings.Contains(joined, ".Role()==role") && hasRet {
						found = true
					}
					return true
				})
				if found {
					loopAt = i
				}
			}
			if callsOf(st, "NewFeatureLocal") > 0 && newAt < 0 {
				newAt = i
			}
		}
		creationLocked = lockAt >= 0 && newAt > lockAt
		rechecks = creationLocked && loopAt > lockAt && loopAt < newAt
		if !creationLocked {
			notes = append(notes, "GetOrAddFeature: NewFeatureLocal is not preceded by r.mux.Lock(); defer r.mux.Unlock()")
		}
		if !rechecks {
			notes = append(notes, "GetOrAddFeature: no second lookup (range r.features, type && role, return) between the creation lock and NewFeatureLocal")
		}
	} else {
		notes = append(notes, "EntityLocal.GetOrAddFeature not found")
	}

	// NextFeatureId: one critical section under muxGenerator
	nextLocked := lockedFirst(findFunc(fe, "Entity", "NextFeatureId"), "r.muxGenerator")
	if !nextLocked {
		notes = append(notes, "Entity.NextFeatureId does not start with r.muxGenerator.Lock(); defer r.muxGenerator.Unlock()")
	}

	var b strings.Builder
	b.WriteString("/-! GENERATED by go/cmd/translate (generator `entitylocal`) from spine/entity_local.go, spine/entity.go — do not edit. -/\n")
	b.WriteString("namespace Spine.Generated.EntityLocal\n\n")
	fmt.Fprintf(&b, "/-- `var useCaseMux sync.Mutex` at package level: one lock for the use-case data of the whole device -/\ndef useCaseMuxPackageLevel : Bool := %v\n\n", pkgLevel)
	for _, name := range ucOps {
		fmt.Fprintf(&b, "/-- %s starts with useCaseMux.Lock(); defer useCaseMux.Unlock(), never unlocks early, and its one DataCopy and one SetData are inside -/\ndef locked%s : Bool := %v\n\n", name, name, locked[name])
	}
	fmt.Fprintf(&b, "/-- GetOrAddFeature: r.mux.Lock(); defer r.mux.Unlock() precede NewFeatureLocal and the append -/\ndef getOrAddCreationLocked : Bool := %v\n\n", creationLocked)
	fmt.Fprintf(&b, "/-- GetOrAddFeature: between the creation lock and NewFeatureLocal the features are searched again by type and role, returning a match -/\ndef getOrAddRechecks : Bool := %v\n\n", rechecks)
	fmt.Fprintf(&b, "/-- Entity.NextFeatureId is one critical section under muxGenerator -/\ndef nextFeatureIdLocked : Bool := %v\n\n", nextLocked)
	for _, n := range notes {
		fmt.Fprintf(&b, "-- note: %s\n", n)
	}
	b.WriteString("end Spine.Generated.EntityLocal\n")
	if err := writeFile(outDir, "EntityLocal.lean", b.String()); err != nil {
		return "", err
	}
	return fmt.Sprintf("useCaseMuxPackageLevel=%v locked=%v/%v/%v/%v creationLocked=%v rechecks=%v nextFeatureIdLocked=%v",
		pkgLevel, locked[ucOps[0]], locked[ucOps[1]], locked[ucOps[2]], locked[ucOps[3]], creationLocked, rechecks, nextLocked), nil
}
