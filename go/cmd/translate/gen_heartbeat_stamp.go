package main

// Part of generator `heartbeat` (C16): where does the time value that ends up in the data a refresh
// stores come from?
//
// A small data-flow evaluation over go/ast, semantic rather than textual: the argument(s) of the
// store (a call of a method named SetData, found in the refresh case of the goroutine's select or
// in any helper / function literal it calls, four levels deep) are followed back through locals,
// parameters of package-level helpers and methods of the manager, conversions and method calls on
// the value (x.UTC(), x.Round(..), constructors of other packages: the result derives from the
// receiver and the arguments) to the calls they derive from. Origins:
//
//   now    a call of time.Now() evaluated inside the refresh (after the tick was received)
//   tick   a value received from a channel (the `case t := <-ticker.C` variable, or any `<-x`)
//   stale  a time.Now() reading taken outside the refresh: before the loop, at the top of the
//          loop before the select, in a field of the manager that some method sets from the clock,
//          or carried over from the previous iteration of the loop
//
// Result: 0 = only `now`, 1 = `tick` or `stale` take part, 2 = nothing recognised (a clock the
// evaluation cannot see through, e.g. an injected func field) - only a note.

import (
	"go/ast"
	"go/token"
	"sort"
	"strings"
)

type hbOrig map[string]bool

func (o hbOrig) add(p hbOrig) hbOrig {
	if len(p) == 0 {
		return o
	}
	if o == nil {
		o = hbOrig{}
	}
	for k := range p {
		o[k] = true
	}
	return o
}

func (o hbOrig) String() string {
	var s []string
	for k := range o {
		s = append(s, k)
	}
	sort.Strings(s)
	return strings.Join(s, ", ")
}

type hbStamp struct {
	funcs   map[string]*ast.FuncDecl
	typ     string
	nowTag  string     // what a time.Now() evaluated at this point counts as
	skip    []ast.Stmt // the refresh body (skipped while the rest of the goroutine is evaluated)
	stored  hbOrig     // origins of the arguments of the store
	stores  int        // store calls seen
	fieldIn map[string]bool
	fieldO  map[string]hbOrig
}

type hbSFrame struct {
	recv  string
	env   map[string]hbOrig
	depth int
	ret   hbOrig
	fd    *ast.FuncDecl
	lits  map[string]*ast.FuncLit // function literals held in locals
}

func hbIsTimeNow(c *ast.CallExpr) bool {
	s, ok := c.Fun.(*ast.SelectorExpr)
	if !ok || s.Sel.Name != "Now" || len(c.Args) != 0 {
		return false
	}
	id, ok := s.X.(*ast.Ident)
	return ok && id.Name == "time"
}

// fieldOrigins: does some method of the manager assign a clock-derived value to the field?
func (a *hbStamp) fieldOrigins(field string) hbOrig {
	if o, ok := a.fieldO[field]; ok {
		return o
	}
	if a.fieldIn[field] {
		return nil
	}
	a.fieldIn[field] = true
	defer delete(a.fieldIn, field)
	var out hbOrig
	var keys []string
	for k := range a.funcs {
		keys = append(keys, k)
	}
	sort.Strings(keys)
	for _, k := range keys {
		fd := a.funcs[k]
		if elRecvType(fd) != a.typ || fd.Body == nil {
			continue
		}
		recv := elRecvName(fd)
		ast.Inspect(fd.Body, func(n ast.Node) bool {
			as, ok := n.(*ast.AssignStmt)
			if !ok {
				return true
			}
			for i, l := range as.Lhs {
				s, ok := hbUnparen(l).(*ast.SelectorExpr)
				if !ok || s.Sel.Name != field {
					continue
				}
				if id, ok := s.X.(*ast.Ident); !ok || id.Name != recv || recv == "" {
					continue
				}
				var rhs ast.Expr
				if len(as.Rhs) == len(as.Lhs) {
					rhs = as.Rhs[i]
				} else if len(as.Rhs) == 1 {
					rhs = as.Rhs[0]
				}
				// evaluated out of context: every clock reading in it is a stale one
				saved, savedStored, savedStores := a.nowTag, a.stored, a.stores
				a.nowTag = "stale: field " + field + " set from the clock in " + fd.Name.Name
				fr := &hbSFrame{recv: recv, env: map[string]hbOrig{}, depth: 3, fd: fd}
				for o := range a.eval(fr, rhs) {
					if o == "now" {
						o = a.nowTag
					}
					out = out.add(hbOrig{o: true})
				}
				a.nowTag, a.stored, a.stores = saved, savedStored, savedStores
			}
			return true
		})
	}
	a.fieldO[field] = out
	return out
}

func (a *hbStamp) callee(fr *hbSFrame, c *ast.CallExpr) *ast.FuncDecl {
	switch f := c.Fun.(type) {
	case *ast.Ident:
		return a.funcs["."+f.Name]
	case *ast.SelectorExpr:
		if id, ok := f.X.(*ast.Ident); ok && id.Name == fr.recv && fr.recv != "" {
			return a.funcs[a.typ+"."+f.Sel.Name]
		}
	}
	return nil
}

func hbSKey(fr *hbSFrame, e ast.Expr) string {
	switch x := hbUnparen(e).(type) {
	case *ast.Ident:
		return x.Name
	case *ast.SelectorExpr:
		if id, ok := x.X.(*ast.Ident); ok && id.Name == fr.recv && fr.recv != "" {
			return "." + x.Sel.Name
		}
	case *ast.StarExpr:
		return hbSKey(fr, x.X)
	}
	return ""
}

func (a *hbStamp) eval(fr *hbSFrame, e ast.Expr) hbOrig {
	switch x := e.(type) {
	case nil:
		return nil
	case *ast.ParenExpr:
		return a.eval(fr, x.X)
	case *ast.Ident:
		return fr.env[x.Name]
	case *ast.SelectorExpr:
		if id, ok := x.X.(*ast.Ident); ok && id.Name == fr.recv && fr.recv != "" {
			if o, ok := fr.env["."+x.Sel.Name]; ok {
				return o
			}
			return a.fieldOrigins(x.Sel.Name)
		}
		return a.eval(fr, x.X)
	case *ast.UnaryExpr:
		if x.Op == token.ARROW {
			return hbOrig{"tick": true}.add(a.eval(fr, x.X))
		}
		return a.eval(fr, x.X)
	case *ast.StarExpr:
		return a.eval(fr, x.X)
	case *ast.BinaryExpr:
		return hbOrig(nil).add(a.eval(fr, x.X)).add(a.eval(fr, x.Y))
	case *ast.KeyValueExpr:
		return a.eval(fr, x.Value)
	case *ast.CompositeLit:
		var o hbOrig
		for _, el := range x.Elts {
			o = o.add(a.eval(fr, el))
		}
		return o
	case *ast.IndexExpr:
		return hbOrig(nil).add(a.eval(fr, x.X)).add(a.eval(fr, x.Index))
	case *ast.SliceExpr:
		return a.eval(fr, x.X)
	case *ast.TypeAssertExpr:
		return a.eval(fr, x.X)
	case *ast.FuncLit:
		return nil
	case *ast.CallExpr:
		return a.call(fr, x)
	}
	return nil
}

func (a *hbStamp) call(fr *hbSFrame, c *ast.CallExpr) hbOrig {
	if hbIsTimeNow(c) {
		return hbOrig{a.nowTag: true}
	}
	var args []hbOrig
	var all hbOrig
	for _, x := range c.Args {
		o := a.eval(fr, x)
		args = append(args, o)
		all = all.add(o)
	}
	if sel, ok := c.Fun.(*ast.SelectorExpr); ok && sel.Sel.Name == "SetData" {
		a.stores++
		a.stored = a.stored.add(all)
		return nil
	}
	bind := func(ft *ast.FuncType, sub *hbSFrame) {
		i := 0
		if ft.Params != nil {
			for _, f := range ft.Params.List {
				for _, n := range f.Names {
					if i < len(args) {
						sub.env[n.Name] = args[i]
					}
					i++
				}
			}
		}
	}
	fl, isLit := c.Fun.(*ast.FuncLit)
	if id, ok := c.Fun.(*ast.Ident); ok && !isLit && fr.lits[id.Name] != nil {
		fl, isLit = fr.lits[id.Name], true
	}
	if isLit && fr.depth < 4 {
		sub := &hbSFrame{recv: fr.recv, env: map[string]hbOrig{}, depth: fr.depth + 1, fd: fr.fd, lits: fr.lits}
		for k, v := range fr.env {
			sub.env[k] = v
		}
		bind(fl.Type, sub)
		a.block(sub, fl.Body.List, true)
		// assignments to captured variables are visible outside
		for k := range fr.env {
			fr.env[k] = sub.env[k]
		}
		return sub.ret
	}
	callee := a.callee(fr, c)
	if callee == nil || callee == fr.fd || fr.depth >= 4 {
		// a function the evaluation does not look into: its result derives from its receiver and arguments
		if sel, ok := c.Fun.(*ast.SelectorExpr); ok {
			all = all.add(a.eval(fr, sel.X))
		}
		return all
	}
	sub := &hbSFrame{recv: elRecvName(callee), env: map[string]hbOrig{}, depth: fr.depth + 1, fd: callee}
	// fields of the manager assigned earlier in this evaluation stay visible
	for k, v := range fr.env {
		if strings.HasPrefix(k, ".") {
			sub.env[k] = v
		}
	}
	bind(callee.Type, sub)
	// named results
	a.block(sub, callee.Body.List, true)
	for k, v := range sub.env {
		if strings.HasPrefix(k, ".") {
			fr.env[k] = v
		}
	}
	if callee.Type.Results != nil {
		for _, f := range callee.Type.Results.List {
			for _, n := range f.Names {
				sub.ret = sub.ret.add(sub.env[n.Name])
			}
		}
	}
	return sub.ret
}

func (a *hbStamp) assign(fr *hbSFrame, lhs ast.Expr, o hbOrig, strong bool) {
	k := hbSKey(fr, lhs)
	if k == "" || k == "_" {
		// x.f = v, m[k] = v ...: the container derives from the value too
		switch x := hbUnparen(lhs).(type) {
		case *ast.SelectorExpr:
			a.assign(fr, x.X, o, false)
		case *ast.IndexExpr:
			a.assign(fr, x.X, o, false)
		}
		return
	}
	if strong {
		fr.env[k] = hbOrig(nil).add(o)
	} else {
		fr.env[k] = hbOrig(nil).add(fr.env[k]).add(o)
	}
}

func (a *hbStamp) isSkipped(list []ast.Stmt) bool {
	return len(list) > 0 && len(a.skip) > 0 && list[0] == a.skip[0]
}

// block: statements in order; `strong` = assignments replace (straight-line code of a function body), otherwise they
// join (a branch or loop body that may or may not run)
func (a *hbStamp) block(fr *hbSFrame, list []ast.Stmt, strong bool) {
	if a.isSkipped(list) {
		return
	}
	for _, st := range list {
		a.stmt(fr, st, strong)
	}
}

func (a *hbStamp) stmt(fr *hbSFrame, st ast.Stmt, strong bool) {
	switch x := st.(type) {
	case nil:
	case *ast.AssignStmt:
		if len(x.Lhs) == len(x.Rhs) {
			var os []hbOrig
			for _, r := range x.Rhs {
				os = append(os, a.eval(fr, r))
			}
			for i, l := range x.Lhs {
				if fl, ok := hbUnparen(x.Rhs[i]).(*ast.FuncLit); ok {
					if id, ok := l.(*ast.Ident); ok {
						if fr.lits == nil {
							fr.lits = map[string]*ast.FuncLit{}
						}
						fr.lits[id.Name] = fl
					}
				}
				o := os[i]
				if x.Tok != token.ASSIGN && x.Tok != token.DEFINE {
					o = hbOrig(nil).add(o).add(a.eval(fr, l))
				}
				a.assign(fr, l, o, strong)
			}
		} else if len(x.Rhs) == 1 {
			o := a.eval(fr, x.Rhs[0])
			for _, l := range x.Lhs {
				a.assign(fr, l, o, strong)
			}
		}
	case *ast.DeclStmt:
		if gd, ok := x.Decl.(*ast.GenDecl); ok {
			for _, sp := range gd.Specs {
				if vs, ok := sp.(*ast.ValueSpec); ok {
					for i, n := range vs.Names {
						var o hbOrig
						if i < len(vs.Values) {
							o = a.eval(fr, vs.Values[i])
						} else if len(vs.Values) == 1 {
							o = a.eval(fr, vs.Values[0])
						}
						a.assign(fr, n, o, strong)
					}
				}
			}
		}
	case *ast.ExprStmt:
		a.eval(fr, x.X)
	case *ast.IncDecStmt:
	case *ast.SendStmt:
		a.eval(fr, x.Value)
	case *ast.GoStmt:
		a.eval(fr, x.Call)
	case *ast.DeferStmt:
		a.eval(fr, x.Call)
	case *ast.ReturnStmt:
		for _, r := range x.Results {
			fr.ret = fr.ret.add(a.eval(fr, r))
		}
	case *ast.BlockStmt:
		a.block(fr, x.List, strong)
	case *ast.LabeledStmt:
		a.stmt(fr, x.Stmt, strong)
	case *ast.IfStmt:
		a.stmt(fr, x.Init, strong)
		a.eval(fr, x.Cond)
		a.block(fr, x.Body.List, false)
		a.stmt(fr, x.Else, false)
	case *ast.ForStmt:
		a.stmt(fr, x.Init, strong)
		a.eval(fr, x.Cond)
		a.block(fr, x.Body.List, false)
		a.stmt(fr, x.Post, false)
	case *ast.RangeStmt:
		o := a.eval(fr, x.X)
		if x.Key != nil {
			a.assign(fr, x.Key, o, false)
		}
		if x.Value != nil {
			a.assign(fr, x.Value, o, false)
		}
		a.block(fr, x.Body.List, false)
	case *ast.SwitchStmt:
		a.stmt(fr, x.Init, strong)
		a.eval(fr, x.Tag)
		for _, cl := range x.Body.List {
			if cc, ok := cl.(*ast.CaseClause); ok {
				a.block(fr, cc.Body, false)
			}
		}
	case *ast.TypeSwitchStmt:
		for _, cl := range x.Body.List {
			if cc, ok := cl.(*ast.CaseClause); ok {
				a.block(fr, cc.Body, false)
			}
		}
	case *ast.SelectStmt:
		for _, cl := range x.Body.List {
			if cc, ok := cl.(*ast.CommClause); ok {
				if a.isSkipped(cc.Body) {
					continue
				}
				a.stmt(fr, cc.Comm, false)
				a.block(fr, cc.Body, false)
			}
		}
	}
}

// hbStampSource: g = the goroutine's function, comm / body = the refresh case of its select
func hbStampSource(funcs map[string]*ast.FuncDecl, typ string, g *ast.FuncDecl, comm ast.Stmt, body []ast.Stmt) (int, string) {
	a := &hbStamp{funcs: funcs, typ: typ, fieldIn: map[string]bool{}, fieldO: map[string]hbOrig{}}
	fr := &hbSFrame{recv: elRecvName(g), env: map[string]hbOrig{}, fd: g}
	// (1) everything of the goroutine outside the refresh: clock readings there are stale by the time a refresh uses them
	a.nowTag = "stale: time.Now() read outside the refresh (before the tick was received)"
	a.skip = body
	a.block(fr, g.Body.List, false)
	outerStores := a.stores
	a.stored, a.stores = nil, 0
	a.skip = nil
	// (2) the refresh, twice: the second time with what the first left behind (carried over to the next iteration)
	a.nowTag = "now"
	for pass := 0; pass < 2; pass++ {
		if pass == 1 {
			for k, o := range fr.env {
				if o["now"] {
					n := hbOrig{}
					for t := range o {
						if t == "now" {
							t = "stale: time.Now() reading carried over from the previous iteration in " + strings.TrimPrefix(k, ".")
						}
						n[t] = true
					}
					fr.env[k] = n
				}
			}
		}
		a.stmt(fr, comm, true)
		a.block(fr, body, true)
	}
	_ = outerStores
	if a.stores == 0 {
		return 2, "no store (SetData) found in the refresh"
	}
	bad := false
	for o := range a.stored {
		if o != "now" {
			bad = true
		}
	}
	switch {
	case bad:
		var why []string
		for o := range a.stored {
			if o == "tick" {
				why = append(why, "the value received from a channel (the tick: the instant it was DUE)")
			} else if o != "now" {
				why = append(why, o)
			}
		}
		sort.Strings(why)
		return 1, strings.Join(why, "; ")
	case a.stored["now"]:
		return 0, "time.Now() called inside the refresh, after the tick was received"
	}
	return 2, "the stored data derives from no time.Now() call and no channel value the evaluation can see"
}
