package main

// Generator "scaledexpr" (C19, clauses S1/S2): the float expressions of NewScaledNumberType and
// (*ScaledNumberType).GetValue, recovered from the source of the tree under test:
//
//   * the call strconv.FormatFloat(value, verb, prec, bits) whose text gives the count of fractional digits, and
//     the constant that caps the count;
//   * the function of package math applied to the product (Round / Trunc / ...) and the product itself as an
//     expression tree over the parameter and the count;
//   * what GetValue returns for a negative and for a non-negative scale, as expression trees over number and scale.
//
// Semantic, not syntactic: identifiers are followed to their single definition, type conversions are looked
// through, package functions that only return an expression are inlined (parameters bound to the arguments), the
// FormatFloat call / the cap / the rounding call may sit in the function itself or in a package function it calls,
// the cap may be an `if n > K { n = K }` or a `min(n, K)`. Names are free; the only anchors are the exported names
// NewScaledNumberType, GetValue, Number, Scale and the functions of strconv / math.
//
// What is recovered is VALIDATED here against the compiled code of the tree under test on a fixed sample (number
// = roundFn(product), GetValue = the tree of the sign of the scale): a recovery that does not reproduce the code
// is emitted as "not recovered" (known := false) - the theorems over the table are guarded, the harness then
// falls back to its own expressions - never as an alarm. Output: Generated/ScaledExpr.lean, with one line
// "-- HARNESS {json}" that go/comp/numeric_test.go evaluates instead of re-typing the expressions.

import (
	"encoding/json"
	"fmt"
	"go/ast"
	"go/token"
	"math"
	"path/filepath"
	"strconv"
	"strings"

	"github.com/enbility/spine-go/model"
	"verifharness/h"
)

func init() { register("scaledexpr", genScaledExpr) }

type sxCtx struct {
	ix     *pkgIndex
	fd     *ast.FuncDecl
	env    map[string]*h.FExpr // identifiers bound to trees (parameters, recognised variables)
	depth  int
}

func isPkgSel(e ast.Expr, pkg string) (string, bool) {
	se, ok := e.(*ast.SelectorExpr)
	if !ok {
		return "", false
	}
	if p, ok := se.X.(*ast.Ident); ok && p.Name == pkg {
		return se.Sel.Name, true
	}
	return "", false
}

// fieldDeref: *recv.Number / *recv.Scale (also through parentheses)
func fieldDeref(e ast.Expr) (string, bool) {
	for {
		if p, ok := e.(*ast.ParenExpr); ok {
			e = p.X
			continue
		}
		break
	}
	st, ok := e.(*ast.StarExpr)
	if !ok {
		return "", false
	}
	se, ok := st.X.(*ast.SelectorExpr)
	if !ok {
		return "", false
	}
	switch se.Sel.Name {
	case "Number":
		return "number", true
	case "Scale":
		return "scale", true
	}
	return "", false
}

// assignsTo: all right-hand sides assigned to name in fd (definitions and assignments, at any depth)
func assignsTo(fd *ast.FuncDecl, name string) []ast.Expr {
	var out []ast.Expr
	ast.Inspect(fd.Body, func(x ast.Node) bool {
		switch s := x.(type) {
		case *ast.AssignStmt:
			if len(s.Lhs) == len(s.Rhs) {
				for i, l := range s.Lhs {
					if id, ok := l.(*ast.Ident); ok && id.Name == name {
						out = append(out, s.Rhs[i])
					}
				}
			}
		case *ast.ValueSpec:
			for i, id := range s.Names {
				if id.Name == name && i < len(s.Values) {
					out = append(out, s.Values[i])
				}
			}
		}
		return true
	})
	return out
}

func intLit(e ast.Expr) (int64, bool) {
	switch e := e.(type) {
	case *ast.BasicLit:
		if e.Kind == token.INT {
			v, err := strconv.ParseInt(e.Value, 0, 64)
			return v, err == nil
		}
		if e.Kind == token.FLOAT {
			f, err := strconv.ParseFloat(e.Value, 64)
			if err == nil && f == math.Trunc(f) {
				return int64(f), true
			}
		}
		if e.Kind == token.CHAR {
			s, err := strconv.Unquote(e.Value)
			if err == nil && len(s) == 1 {
				return int64(s[0]), true
			}
		}
	case *ast.UnaryExpr:
		if e.Op == token.SUB {
			v, ok := intLit(e.X)
			return -v, ok
		}
	case *ast.ParenExpr:
		return intLit(e.X)
	}
	return 0, false
}

func (c *sxCtx) constInt(e ast.Expr) (int64, bool) {
	if v, ok := intLit(e); ok {
		return v, true
	}
	if id, ok := e.(*ast.Ident); ok {
		if d, ok := c.ix.values[id.Name]; ok { // a named constant of the package
			return intLit(d)
		}
		if c.fd != nil {
			if d := localDef(c.fd, id.Name); d != nil {
				return intLit(d)
			}
		}
	}
	return 0, false
}

// tree: an expression of the function as a tree (nil = not understood)
func (c *sxCtx) tree(e ast.Expr) *h.FExpr {
	if c.depth > 12 {
		return nil
	}
	c.depth++
	defer func() { c.depth-- }()
	if f, ok := fieldDeref(e); ok {
		return &h.FExpr{Op: f}
	}
	switch e := e.(type) {
	case *ast.ParenExpr:
		return c.tree(e.X)
	case *ast.BasicLit:
		if v, ok := intLit(e); ok {
			return &h.FExpr{Op: "const", C: v}
		}
	case *ast.Ident:
		if t, ok := c.env[e.Name]; ok {
			return t
		}
		if d := localDef(c.fd, e.Name); d != nil {
			return c.tree(d)
		}
		if d, ok := c.ix.values[e.Name]; ok {
			if v, ok := intLit(d); ok {
				return &h.FExpr{Op: "const", C: v}
			}
		}
	case *ast.UnaryExpr:
		if e.Op == token.SUB {
			if x := c.tree(e.X); x != nil {
				if x.Op == "const" {
					return &h.FExpr{Op: "const", C: -x.C}
				}
				return &h.FExpr{Op: "neg", X: x}
			}
		}
	case *ast.BinaryExpr:
		op := map[token.Token]string{token.MUL: "mul", token.QUO: "div"}[e.Op]
		if op != "" {
			l, r := c.tree(e.X), c.tree(e.Y)
			if l != nil && r != nil {
				return &h.FExpr{Op: op, L: l, R: r}
			}
		}
	case *ast.CallExpr:
		if name, ok := isPkgSel(e.Fun, "math"); ok && name == "Pow" && len(e.Args) == 2 {
			l, r := c.tree(e.Args[0]), c.tree(e.Args[1])
			if l != nil && r != nil {
				return &h.FExpr{Op: "pow", L: l, R: r}
			}
			return nil
		}
		if id, ok := e.Fun.(*ast.Ident); ok && len(e.Args) >= 1 {
			if callee := c.ix.funcs[id.Name]; callee != nil {
				// a package function that only returns an expression: inline it
				if len(callee.Body.List) == 1 {
					if rs, ok := callee.Body.List[0].(*ast.ReturnStmt); ok && len(rs.Results) == 1 {
						sub := &sxCtx{ix: c.ix, fd: callee, env: map[string]*h.FExpr{}, depth: c.depth}
						i := 0
						for _, f := range callee.Type.Params.List {
							for _, n := range f.Names {
								if i < len(e.Args) {
									if t := c.tree(e.Args[i]); t != nil {
										sub.env[n.Name] = t
									}
								}
								i++
							}
						}
						return sub.tree(rs.Results[0])
					}
				}
				return nil
			}
			if len(e.Args) == 1 {
				// a type conversion: float64(x) of an integer expression is a conversion node, every other
				// conversion (NumberType(x), int(x), float64 of a float) is looked through
				x := c.tree(e.Args[0])
				if x == nil {
					return nil
				}
				if id.Name == "float64" && (x.Op == "number" || x.Op == "scale" || x.Op == "decimals" || (x.Op == "neg" && x.X != nil && (x.X.Op == "scale" || x.X.Op == "decimals"))) {
					return &h.FExpr{Op: "float", X: x}
				}
				return x
			}
		}
	}
	return nil
}

// bodies: fd and the package functions it calls (two levels), for facts that may sit in a helper
func (ix *pkgIndex) bodies(fd *ast.FuncDecl) []*ast.FuncDecl {
	out := []*ast.FuncDecl{fd}
	seen := map[*ast.FuncDecl]bool{fd: true}
	for lvl := 0; lvl < 2; lvl++ {
		for _, f := range append([]*ast.FuncDecl{}, out...) {
			ast.Inspect(f.Body, func(x ast.Node) bool {
				if ce, ok := x.(*ast.CallExpr); ok {
					if id, ok := ce.Fun.(*ast.Ident); ok {
						if callee := ix.funcs[id.Name]; callee != nil && !seen[callee] {
							seen[callee] = true
							out = append(out, callee)
						}
					}
				}
				return true
			})
		}
	}
	return out
}

func genScaledExpr(outDir string) (string, error) {
	ix, err := indexPackage(filepath.Join(RepoDir(), "model"))
	if err != nil {
		return "", err
	}
	src := h.ScaledSrc{}
	why := []string{}
	fail := func(f string, a ...any) { why = append(why, fmt.Sprintf(f, a...)) }

	// ---- NewScaledNumberType
	fd := ix.funcs["NewScaledNumberType"]
	if fd == nil || fd.Type.Params == nil || len(fd.Type.Params.List) == 0 || len(fd.Type.Params.List[0].Names) == 0 {
		fail("NewScaledNumberType not found")
	} else {
		param := fd.Type.Params.List[0].Names[0].Name
		// (1) the FormatFloat call and (2) the cap, in the function or a helper
		var decVar string    // the variable that holds the count where the cap is applied
		var decFn string     // ... or the package function that returns the count
		fmtFound, capFound := false, false
		for _, f := range ix.bodies(fd) {
			ast.Inspect(f.Body, func(x ast.Node) bool {
				switch n := x.(type) {
				case *ast.CallExpr:
					if name, ok := isPkgSel(n.Fun, "strconv"); ok && name == "FormatFloat" && len(n.Args) == 4 && !fmtFound {
						c := &sxCtx{ix: ix, fd: f, env: map[string]*h.FExpr{}}
						v, ok1 := c.constInt(n.Args[1])
						p, ok2 := c.constInt(n.Args[2])
						b, ok3 := c.constInt(n.Args[3])
						if ok1 && ok2 && ok3 {
							src.FmtVerb, src.FmtPrec, src.FmtBits, fmtFound = int(v), int(p), int(b), true
							if f != fd {
								decFn = f.Name.Name
							}
						}
					}
					if id, ok := n.Fun.(*ast.Ident); ok && id.Name == "min" && len(n.Args) == 2 && !capFound {
						c := &sxCtx{ix: ix, fd: f, env: map[string]*h.FExpr{}}
						for i := 0; i < 2; i++ {
							if k, ok := c.constInt(n.Args[i]); ok {
								src.Cap, capFound = int(k), true
							}
						}
					}
				case *ast.IfStmt:
					// if X > K { X = K }   (also X >= K+1)
					be, ok := n.Cond.(*ast.BinaryExpr)
					if !ok || capFound || n.Else != nil || len(n.Body.List) != 1 {
						return true
					}
					x, ok := be.X.(*ast.Ident)
					as, ok2 := n.Body.List[0].(*ast.AssignStmt)
					if !ok || !ok2 || len(as.Lhs) != 1 || len(as.Rhs) != 1 {
						return true
					}
					l, ok := as.Lhs[0].(*ast.Ident)
					c := &sxCtx{ix: ix, fd: f, env: map[string]*h.FExpr{}}
					k, okk := c.constInt(as.Rhs[0])
					lim, okl := c.constInt(be.Y)
					if ok && okk && okl && l.Name == x.Name && ((be.Op == token.GTR && lim == k) || (be.Op == token.GEQ && lim == k+1)) {
						src.Cap, capFound = int(k), true
						if f == fd {
							decVar = x.Name
						}
					}
				}
				return true
			})
		}
		if !fmtFound {
			fail("the strconv.FormatFloat call was not found")
		}
		if !capFound {
			fail("the cap of the count of fractional digits was not found")
		}
		// (3) the rounding call and its argument
		var roundArg ast.Expr
		var roundIn *ast.FuncDecl
		for _, f := range ix.bodies(fd) {
			ast.Inspect(f.Body, func(x ast.Node) bool {
				if ce, ok := x.(*ast.CallExpr); ok && roundArg == nil {
					if name, ok := isPkgSel(ce.Fun, "math"); ok && len(ce.Args) == 1 {
						switch name {
						case "Round", "Trunc", "Floor", "Ceil", "RoundToEven":
							src.RoundFn, roundArg, roundIn = name, ce.Args[0], f
						}
					}
				}
				return true
			})
		}
		if roundArg == nil {
			fail("no rounding function of package math is applied in NewScaledNumberType")
		} else {
			c := &sxCtx{ix: ix, fd: roundIn, env: map[string]*h.FExpr{}}
			if roundIn == fd {
				c.env[param] = &h.FExpr{Op: "param"}
			} else if len(roundIn.Type.Params.List) > 0 && len(roundIn.Type.Params.List[0].Names) > 0 {
				// a helper: its first float parameter is the value, an int parameter the count
				for _, pl := range roundIn.Type.Params.List {
					for _, n := range pl.Names {
						if t, ok := pl.Type.(*ast.Ident); ok && t.Name == "float64" {
							c.env[n.Name] = &h.FExpr{Op: "param"}
						} else {
							c.env[n.Name] = &h.FExpr{Op: "decimals"}
						}
					}
				}
			}
			// the count: the capped variable, every variable assigned more than once that reaches the exponent, or
			// the result of the helper that holds the FormatFloat call
			if decVar != "" && roundIn == fd {
				c.env[decVar] = &h.FExpr{Op: "decimals"}
			}
			ast.Inspect(roundArg, func(x ast.Node) bool {
				if id, ok := x.(*ast.Ident); ok && roundIn == fd {
					if _, bound := c.env[id.Name]; !bound {
						rhs := assignsTo(fd, id.Name)
						if len(rhs) > 1 {
							c.env[id.Name] = &h.FExpr{Op: "decimals"}
						} else if len(rhs) == 1 {
							if ce, ok := rhs[0].(*ast.CallExpr); ok {
								if fid, ok := ce.Fun.(*ast.Ident); ok && (fid.Name == decFn || fid.Name == "min") {
									c.env[id.Name] = &h.FExpr{Op: "decimals"}
								}
							}
						}
					}
				}
				return true
			})
			src.Product = c.tree(roundArg)
			if src.Product == nil {
				fail("the argument of math.%s was not understood", src.RoundFn)
			}
		}
	}

	// ---- GetValue
	gv := ix.methods["ScaledNumberType.GetValue"]
	if gv == nil {
		fail("(*ScaledNumberType).GetValue not found")
	} else {
		c := &sxCtx{ix: ix, fd: gv, env: map[string]*h.FExpr{}}
		// a local variable that is assigned float64(*m.Scale) (and possibly a default before) is the scale as float
		ast.Inspect(gv.Body, func(x ast.Node) bool {
			if id, ok := x.(*ast.Ident); ok {
				if _, bound := c.env[id.Name]; bound {
					return true
				}
				for _, rhs := range assignsTo(gv, id.Name) {
					probe := &sxCtx{ix: ix, fd: gv, env: map[string]*h.FExpr{}}
					var t *h.FExpr
					if ce, ok := rhs.(*ast.CallExpr); ok && len(ce.Args) == 1 {
						if f, ok := fieldDeref(ce.Args[0]); ok {
							t = &h.FExpr{Op: "float", X: &h.FExpr{Op: f}}
						}
					} else if f, ok := fieldDeref(rhs); ok {
						t = &h.FExpr{Op: f}
					}
					_ = probe
					if t != nil {
						c.env[id.Name] = t
					}
				}
			}
			return true
		})
		isScale := func(e ast.Expr) bool {
			t := c.tree(e)
			return t != nil && (t.Op == "scale" || (t.Op == "float" && t.X != nil && t.X.Op == "scale"))
		}
		var last ast.Expr
		for _, st := range gv.Body.List {
			switch s := st.(type) {
			case *ast.IfStmt:
				be, ok := s.Cond.(*ast.BinaryExpr)
				if !ok || len(s.Body.List) == 0 {
					continue
				}
				z, zok := intLit(be.Y)
				rs, rok := s.Body.List[len(s.Body.List)-1].(*ast.ReturnStmt)
				if rok && len(rs.Results) == 1 && zok && z == 0 && be.Op == token.LSS && isScale(be.X) {
					src.GetNeg = c.tree(rs.Results[0])
				}
				if rok && len(rs.Results) == 1 && zok && z == 0 && be.Op == token.GEQ && isScale(be.X) {
					src.GetNon = c.tree(rs.Results[0])
				}
			case *ast.ReturnStmt:
				if len(s.Results) == 1 {
					last = s.Results[0]
				}
			}
		}
		if last != nil {
			t := c.tree(last)
			if src.GetNon == nil {
				src.GetNon = t
			}
			if src.GetNeg == nil {
				src.GetNeg = t
			}
		}
		if src.GetNeg == nil || src.GetNon == nil {
			fail("the expressions GetValue returns were not understood")
		}
	}

	// ---- validation against the compiled code of this tree
	src.Known = len(why) == 0
	if src.Known {
		roundF := map[string]func(float64) float64{"Round": math.Round, "Trunc": math.Trunc, "Floor": math.Floor, "Ceil": math.Ceil, "RoundToEven": math.RoundToEven}[src.RoundFn]
		for _, v := range []float64{0, 0.29, -0.29, 0.57, 1.005, 4.35, -19999.8, 123456.78905, 1.0 / 3, -2.5, 1e-7, 12345.6789, 99999.9999, 2199023255552.3706, 35184372088832.02, 7, -1e9, 0.00005} {
			sn := model.NewScaledNumberType(v)
			nd := src.Decimals(v)
			p, err := src.Product.Eval(h.FEnv{Param: v, Decimals: int64(nd)})
			if err != nil || sn == nil || sn.Number == nil || int64(*sn.Number) != int64(roundF(p)) {
				fail("validation: for %v the recovered expressions give number %v, the code %v (%v)", v, roundF(p), sn.Number, err)
				break
			}
		}
		for _, ns := range [][2]int64{{0, 0}, {29, -2}, {-199998, -1}, {123456789, -3}, {5, 3}, {-7, 4}, {1, -4}, {9007199254740993, 0}, {42, 0}} {
			n, s := model.NumberType(ns[0]), model.ScaleType(ns[1])
			g := (&model.ScaledNumberType{Number: &n, Scale: &s}).GetValue()
			e := src.GetNon
			if ns[1] < 0 {
				e = src.GetNeg
			}
			x, err := e.Eval(h.FEnv{Number: ns[0], Scale: ns[1]})
			if err != nil || math.Float64bits(x) != math.Float64bits(g) {
				fail("validation: GetValue of (%d, %d) is %v, the recovered expression gives %v (%v)", ns[0], ns[1], g, x, err)
				break
			}
		}
		src.Known = len(why) == 0
	}
	src.Why = strings.Join(why, "; ")

	var b strings.Builder
	b.WriteString("import Spine.FExpr\n/-! GENERATED by go/cmd/translate (generator `scaledexpr`) -- do not edit.\n")
	b.WriteString("    The float expressions of NewScaledNumberType / GetValue recovered from the source of the tree under test\n")
	b.WriteString("    (and validated against its compiled code on a sample); `known := false` when they could not be recovered. -/\n")
	b.WriteString("namespace Spine.Generated.ScaledExpr\nopen Spine.FExpr\n\n")
	fmt.Fprintf(&b, "/-- everything below was recovered and reproduces the compiled code on the generator's sample%s -/\ndef known : Bool := %v\n\n", map[bool]string{true: "", false: " (NOT here: " + strings.ReplaceAll(src.Why, "-/", "- /") + ")"}[src.Known], src.Known)
	fmt.Fprintf(&b, "/-- strconv.FormatFloat(value, %q, %d, %d) gives the text whose fractional digits are counted -/\ndef fmtVerb : Nat := %d\ndef fmtPrec : Int := %d\ndef fmtBits : Nat := %d\n\n", rune(src.FmtVerb), src.FmtPrec, src.FmtBits, src.FmtVerb, src.FmtPrec, src.FmtBits)
	fmt.Fprintf(&b, "/-- the count is capped at -/\ndef decimalsCap : Nat := %d\n\n", src.Cap)
	rf := map[string]int{"Trunc": 0, "Round": 1}
	code, ok := rf[src.RoundFn]
	if !ok {
		code = 2
	}
	fmt.Fprintf(&b, "/-- the function of package math applied to the product: math.%s (0 = Trunc, 1 = Round, 2 = another) -/\ndef roundFn : Nat := %d\n\n", src.RoundFn, code)
	fmt.Fprintf(&b, "/-- its argument -/\ndef product : E := %s\n\n", src.Product.Lean())
	fmt.Fprintf(&b, "/-- what GetValue returns for a negative scale -/\ndef getNeg : E := %s\n\n/-- … and for a scale that is not negative -/\ndef getNonneg : E := %s\n\n", src.GetNeg.Lean(), src.GetNon.Lean())
	js, _ := json.Marshal(src)
	fmt.Fprintf(&b, "-- HARNESS %s\n\nend Spine.Generated.ScaledExpr\n", js)
	if err := writeFile(outDir, "ScaledExpr.lean", b.String()); err != nil {
		return "", err
	}
	return fmt.Sprintf("known %v: FormatFloat(value, %q, %d, %d), cap %d, math.%s(%s), GetValue: scale<0 %s, else %s %s", src.Known, rune(src.FmtVerb), src.FmtPrec, src.FmtBits, src.Cap, src.RoundFn, src.Product.Lean(), src.GetNeg.Lean(), src.GetNon.Lean(), src.Why), nil
}
