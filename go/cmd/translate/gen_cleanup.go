package main

// Generator "cleanup" (C10): WHICH identity components each clean-up function of a teardown compares —
// the connection (SKI), the device address, the entity address, the feature number.
//
// DYNAMIC and therefore semantic: the real functions (compiled in from the tree under test) are called
// on registries that hold ONE entry whose client differs from the clean-up's target in exactly the
// chosen subset of {connection, device address, entity address, feature number}; whether the entry is
// gone afterwards is the table row. No source text is read: helper functions, renamed locals, loops
// versus slices.DeleteFunc, defer versus explicit unlock, moved files cannot disturb the result; a
// comparison that is dropped, added or exchanged (connection for device address, say) changes a row.
//
// Output lean/Spine/Generated/Cleanup.lean: one table per function (the complete grid, 16 or 8 rows),
// the derived "compares" summary per function (component x is compared iff the entry that differs from
// the target in x alone survives) and the resolution facts of DeviceLocal.RemoveRemoteDevice. The Lean
// side (Spine/Props/C10Gen.lean) re-checks that every summary EXPLAINS its whole table (the decision is
// the conjunction of the compared components — nothing else decides) and instantiates the frame theorem
// of Spine/TeardownKeys.lean with these summaries.
//
// A `-- FACTS …` line carries the summaries for the harness (go/comp/teardown_keys_test.go), which hands
// them to the model driver: the differential run then compares the model BUILT FROM THESE FACTS with the
// real teardown, also in worlds where two connections announce one device address.

import (
	"fmt"
	"sort"
	"strings"

	"github.com/enbility/spine-go/api"
	"github.com/enbility/spine-go/model"
	"github.com/enbility/spine-go/spine"
	"github.com/enbility/spine-go/util"
)

func init() { register("cleanup", genCleanup) }

type cuWriter struct{}

func (cuWriter) WriteShipMessageWithPayload([]byte) {}

func cuFA(dev string, ent []uint, f uint) *model.FeatureAddressType {
	return &model.FeatureAddressType{Device: util.Ptr(model.AddressDeviceType(dev)), Entity: spine.NewAddressEntityType(ent), Feature: util.Ptr(model.AddressFeatureType(f))}
}

// cuTree: the tree every probe device announces: [0] (device information), and per listed entity two
// LoadControl client features (ids 1, 2)
func cuTree(dev string, ents [][]uint) *model.NodeManagementDetailedDiscoveryDataType {
	dd := &model.NodeManagementDetailedDiscoveryDataType{
		DeviceInformation: &model.NodeManagementDetailedDiscoveryDeviceInformationType{Description: &model.NetworkManagementDeviceDescriptionDataType{
			DeviceAddress: &model.DeviceAddressType{Device: util.Ptr(model.AddressDeviceType(dev))}}},
	}
	add := func(ent []uint, et model.EntityTypeType) {
		e := et
		dd.EntityInformation = append(dd.EntityInformation, model.NodeManagementDetailedDiscoveryEntityInformationType{Description: &model.NetworkManagementEntityDescriptionDataType{
			EntityAddress: &model.EntityAddressType{Device: util.Ptr(model.AddressDeviceType(dev)), Entity: spine.NewAddressEntityType(ent)}, EntityType: &e}})
	}
	feat := func(ent []uint, id uint, ft model.FeatureTypeType, role model.RoleType) {
		f, r := ft, role
		dd.FeatureInformation = append(dd.FeatureInformation, model.NodeManagementDetailedDiscoveryFeatureInformationType{Description: &model.NetworkManagementFeatureDescriptionDataType{
			FeatureAddress: cuFA(dev, ent, id), FeatureType: &f, Role: &r}})
	}
	add([]uint{0}, model.EntityTypeTypeDeviceInformation)
	feat([]uint{0}, 0, model.FeatureTypeTypeNodeManagement, model.RoleTypeSpecial)
	for _, e := range ents {
		add(e, model.EntityTypeTypeEVSE)
		feat(e, 1, model.FeatureTypeTypeLoadControl, model.RoleTypeClient)
		feat(e, 2, model.FeatureTypeTypeLoadControl, model.RoleTypeClient)
		feat(e, 3, model.FeatureTypeTypeLoadControl, model.RoleTypeServer)
	}
	return dd
}

// cuLocal: a local device with server feature [1]/1 (LoadControl) and a client feature [1]/2
func cuLocal() (*spine.DeviceLocal, api.FeatureLocalInterface, api.FeatureLocalInterface) {
	l := spine.NewDeviceLocal("b", "m", "s", "c", "HEMS", model.DeviceTypeTypeEnergyManagementSystem, model.NetworkManagementFeatureSetTypeSmart)
	e1 := spine.NewEntityLocal(l, model.EntityTypeTypeCEM, spine.NewAddressEntityType([]uint{1}), 0)
	l.AddEntity(e1)
	srv := e1.GetOrAddFeature(model.FeatureTypeTypeLoadControl, model.RoleTypeServer)
	srv.AddFunctionType(model.FunctionTypeLoadControlLimitListData, true, true)
	cl := e1.GetOrAddFeature(model.FeatureTypeTypeLoadControl, model.RoleTypeClient)
	return l, srv, cl
}

// cuRemote: an unregistered DeviceRemote object of connection `ski` that announced device address `dev`
func cuRemote(l *spine.DeviceLocal, ski, dev string, ents [][]uint) (*spine.DeviceRemote, error) {
	rd := spine.NewDeviceRemote(l, ski, spine.NewSender(cuWriter{}))
	dd := cuTree(dev, ents)
	rd.UpdateDevice(dd.DeviceInformation.Description)
	if _, err := rd.AddEntityAndFeatures(true, dd); err != nil {
		return nil, err
	}
	return rd, nil
}

type cuRow struct{ ski, dev, ent, feat, removed bool }

func b2(b bool, yes, no string) string {
	if b {
		return yes
	}
	return no
}

// probeManager: one entry whose client is (same/other connection, same/other device address, same/other
// entity, same/other feature number) relative to the target of `clean`; is it gone afterwards?
func probeManager(binding, forDevice bool) ([]cuRow, error) {
	var rows []cuRow
	for m := 0; m < 16; m++ {
		sSki, sDev, sEnt, sFeat := m&8 != 0, m&4 != 0, m&2 != 0, m&1 != 0
		l, srv, _ := cuLocal()
		// the target device T knows [1] and [2]; the entry's device X knows [3] in addition (for the
		// per-device functions "another entity" must be one T does not have)
		t, err := cuRemote(l, "skiT", "devT", [][]uint{{1}, {2}})
		if err != nil {
			return nil, err
		}
		x, err := cuRemote(l, b2(sSki, "skiT", "skiX"), b2(sDev, "devT", "devX"), [][]uint{{1}, {2}, {3}})
		if err != nil {
			return nil, err
		}
		ent := []uint{1}
		if !sEnt {
			ent = []uint{2}
			if forDevice {
				ent = []uint{3}
			}
		}
		feat := uint(1)
		if !sFeat {
			feat = 2
		}
		ft := model.FeatureTypeTypeLoadControl
		cAddr := cuFA(b2(sDev, "devT", "devX"), ent, feat)
		count := func() int {
			if binding {
				return len(l.BindingManager().Bindings(x))
			}
			return len(l.SubscriptionManager().Subscriptions(x))
		}
		if binding {
			err = l.BindingManager().AddBinding(x, model.BindingManagementRequestCallType{ClientAddress: cAddr, ServerAddress: srv.Address(), ServerFeatureType: &ft})
		} else {
			err = l.SubscriptionManager().AddSubscription(x, model.SubscriptionManagementRequestCallType{ClientAddress: cAddr, ServerAddress: srv.Address(), ServerFeatureType: &ft})
		}
		if err != nil || count() != 1 {
			return nil, fmt.Errorf("probe entry could not be created (binding=%v row=%d): %v", binding, m, err)
		}
		target := t.Entity(spine.NewAddressEntityType([]uint{1}))
		if target == nil {
			return nil, fmt.Errorf("target entity [1] missing")
		}
		switch {
		case binding && forDevice:
			l.BindingManager().RemoveBindingsForDevice(t)
		case binding:
			l.BindingManager().RemoveBindingsForEntity(target)
		case forDevice:
			l.SubscriptionManager().RemoveSubscriptionsForDevice(t)
		default:
			l.SubscriptionManager().RemoveSubscriptionsForEntity(target)
		}
		rows = append(rows, cuRow{sSki, sDev, sEnt, sFeat, count() == 0})
	}
	return rows, nil
}

// probeCaches: the client-side bookkeeping of a local client feature holds ONE remote feature address
// (same/other device address, entity, feature relative to the clean-up's argument); gone afterwards?
func probeCaches(binding, forDevice bool) ([]cuRow, error) {
	var rows []cuRow
	for m := 0; m < 8; m++ {
		sDev, sEnt, sFeat := m&4 != 0, m&2 != 0, m&1 != 0
		l, _, cl := cuLocal()
		for _, p := range [][2]string{{"skiT", "devT"}, {"skiX", "devX"}} {
			rd, ok := l.SetupRemoteDevice(p[0], cuWriter{}).(*spine.DeviceRemote)
			if !ok {
				return nil, fmt.Errorf("SetupRemoteDevice does not return a *DeviceRemote")
			}
			dd := cuTree(p[1], [][]uint{{1}, {2}})
			rd.UpdateDevice(dd.DeviceInformation.Description)
			if _, err := rd.AddEntityAndFeatures(true, dd); err != nil {
				return nil, err
			}
		}
		ent := []uint{1}
		if !sEnt {
			ent = []uint{2}
		}
		feat := uint(3)
		if !sFeat {
			feat = 1
		}
		addr := cuFA(b2(sDev, "devT", "devX"), ent, feat)
		has := func() bool {
			if binding {
				return cl.HasBindingToRemote(addr)
			}
			return cl.HasSubscriptionToRemote(addr)
		}
		var e *model.ErrorType
		if binding {
			_, e = cl.BindToRemote(addr)
		} else {
			_, e = cl.SubscribeToRemote(addr)
		}
		if e != nil || !has() {
			return nil, fmt.Errorf("bookkeeping probe could not be created (binding=%v row=%d): %v", binding, m, e)
		}
		if forDevice {
			cl.CleanRemoteDeviceCaches(&model.DeviceAddressType{Device: util.Ptr(model.AddressDeviceType("devT"))})
		} else {
			cl.CleanRemoteEntityCaches(&model.EntityAddressType{Device: util.Ptr(model.AddressDeviceType("devT")), Entity: spine.NewAddressEntityType([]uint{1})})
		}
		rows = append(rows, cuRow{false, sDev, sEnt, sFeat, !has()})
		for _, s := range []string{"skiT", "skiX"} {
			l.RemoveRemoteDeviceConnection(s)
		}
	}
	return rows, nil
}

// cuCompares: component x is compared iff the entry that differs from the target in x alone survives
func cuCompares(rows []cuRow, withSki bool) (ski, dev, ent, feat bool, err error) {
	find := func(a, b, c, d bool) (bool, error) {
		for _, r := range rows {
			if (!withSki || r.ski == a) && r.dev == b && r.ent == c && r.feat == d {
				return r.removed, nil
			}
		}
		return false, fmt.Errorf("row missing")
	}
	all, e0 := find(true, true, true, true)
	if e0 != nil || !all {
		return false, false, false, false, fmt.Errorf("the entry that IS the target's is not removed (or row missing)")
	}
	g := func(a, b, c, d bool) bool {
		rm, e := find(a, b, c, d)
		if e != nil {
			err = e
		}
		return !rm
	}
	if withSki {
		ski = g(false, true, true, true)
	}
	dev, ent, feat = g(true, false, true, true), g(true, true, false, true), g(true, true, true, false)
	return
}

type cuResolve struct {
	goneBySki, goneByAddress, otherBySki, otherByAddress, sharedBySki, sharedByAddress bool
}

// probeResolve: T, X (its own address) and S (another connection announcing T's address) are connected;
// T's connection is removed; who resolves afterwards?
func probeResolve() (cuResolve, error) {
	l, _, _ := cuLocal()
	devs := map[string]api.DeviceRemoteInterface{}
	for _, p := range [][2]string{{"skiT", "devT"}, {"skiX", "devX"}} {
		rd, ok := l.SetupRemoteDevice(p[0], cuWriter{}).(*spine.DeviceRemote)
		if !ok {
			return cuResolve{}, fmt.Errorf("SetupRemoteDevice does not return a *DeviceRemote")
		}
		dd := cuTree(p[1], [][]uint{{1}})
		rd.UpdateDevice(dd.DeviceInformation.Description)
		if _, err := rd.AddEntityAndFeatures(true, dd); err != nil {
			return cuResolve{}, err
		}
		devs[p[0]] = rd
	}
	if l.RemoteDeviceForSki("skiT") != devs["skiT"] || l.RemoteDeviceForAddress("devT") != devs["skiT"] || l.RemoteDeviceForAddress("devX") != devs["skiX"] {
		return cuResolve{}, fmt.Errorf("connected devices do not resolve by SKI / address before the removal")
	}
	l.RemoveRemoteDeviceConnection("skiT")
	r := cuResolve{
		goneBySki:      l.RemoteDeviceForSki("skiT") == nil,
		goneByAddress:  l.RemoteDeviceForAddress("devT") == nil,
		otherBySki:     l.RemoteDeviceForSki("skiX") == devs["skiX"],
		otherByAddress: l.RemoteDeviceForAddress("devX") == devs["skiX"],
	}
	l.RemoveRemoteDeviceConnection("skiX")
	// second world: S shares T's device address
	l2, _, _ := cuLocal()
	for _, p := range [][2]string{{"skiT", "devT"}, {"skiS", "devT"}} {
		rd, _ := l2.SetupRemoteDevice(p[0], cuWriter{}).(*spine.DeviceRemote)
		dd := cuTree(p[1], [][]uint{{1}})
		rd.UpdateDevice(dd.DeviceInformation.Description)
		if _, err := rd.AddEntityAndFeatures(true, dd); err != nil {
			return cuResolve{}, err
		}
		devs[p[0]] = rd
	}
	l2.RemoveRemoteDeviceConnection("skiT")
	r.sharedBySki = l2.RemoteDeviceForSki("skiS") == devs["skiS"]
	r.sharedByAddress = l2.RemoteDeviceForAddress("devT") == devs["skiS"]
	l2.RemoveRemoteDeviceConnection("skiS")
	return r, nil
}

func genCleanup(outDir string) (string, error) {
	type tab struct {
		name, doc string
		rows      []cuRow
		withSki   bool
	}
	var tabs []tab
	for _, q := range []struct {
		name, doc          string
		binding, forDevice bool
	}{
		{"removeSubscriptionsForEntity", "SubscriptionManager.RemoveSubscriptionsForEntity(entity [1] of T)", false, false},
		{"removeBindingsForEntity", "BindingManager.RemoveBindingsForEntity(entity [1] of T)", true, false},
		{"removeSubscriptionsForDevice", "SubscriptionManager.RemoveSubscriptionsForDevice(T) — `same entity` = an entity T has", false, true},
		{"removeBindingsForDevice", "BindingManager.RemoveBindingsForDevice(T) — `same entity` = an entity T has", true, true},
	} {
		rows, err := probeManager(q.binding, q.forDevice)
		if err != nil {
			return "", fmt.Errorf("%s: %v", q.name, err)
		}
		tabs = append(tabs, tab{q.name, q.doc, rows, true})
	}
	for _, q := range []struct {
		name, doc          string
		binding, forDevice bool
	}{
		{"cleanDeviceCachesSubscriptions", "FeatureLocal.CleanRemoteDeviceCaches(devT) on the remembered subscriptions", false, true},
		{"cleanDeviceCachesBindings", "FeatureLocal.CleanRemoteDeviceCaches(devT) on the remembered bindings", true, true},
		{"cleanEntityCachesSubscriptions", "FeatureLocal.CleanRemoteEntityCaches(devT, [1]) on the remembered subscriptions", false, false},
		{"cleanEntityCachesBindings", "FeatureLocal.CleanRemoteEntityCaches(devT, [1]) on the remembered bindings", true, false},
	} {
		rows, err := probeCaches(q.binding, q.forDevice)
		if err != nil {
			return "", fmt.Errorf("%s: %v", q.name, err)
		}
		tabs = append(tabs, tab{q.name, q.doc, rows, false})
	}
	res, err := probeResolve()
	if err != nil {
		return "", err
	}

	var b strings.Builder
	b.WriteString("/-! GENERATED by go/cmd/translate (generator `cleanup`) by CALLING the clean-up functions of the tree under test on one-entry registries — do not edit.\n")
	b.WriteString("    Row of a manager table: (same connection (SKI), same device address, same entity address, same feature number, entry removed);\n")
	b.WriteString("    row of a bookkeeping table: (same device address, same entity address, same feature number, item removed) — the remembered\n")
	b.WriteString("    addresses carry no connection. `…Compares`: the component is compared iff the entry differing from the target in it alone survives. -/\n")
	b.WriteString("namespace Spine.Generated.Cleanup\n\n")
	bl := func(x bool) string { return fmt.Sprint(x) }
	var facts []string
	for _, t := range tabs {
		sort.SliceStable(t.rows, func(i, j int) bool {
			k := func(r cuRow) int {
				n := 0
				for _, x := range []bool{r.ski, r.dev, r.ent, r.feat} {
					n = n * 2
					if x {
						n++
					}
				}
				return n
			}
			return k(t.rows[i]) < k(t.rows[j])
		})
		ski, dev, ent, feat, err := cuCompares(t.rows, t.withSki)
		if err != nil {
			return "", fmt.Errorf("%s: %v", t.name, err)
		}
		var rs []string
		for _, r := range t.rows {
			if t.withSki {
				rs = append(rs, fmt.Sprintf("(%s, %s, %s, %s, %s)", bl(r.ski), bl(r.dev), bl(r.ent), bl(r.feat), bl(r.removed)))
			} else {
				rs = append(rs, fmt.Sprintf("(%s, %s, %s, %s)", bl(r.dev), bl(r.ent), bl(r.feat), bl(r.removed)))
			}
		}
		if t.withSki {
			fmt.Fprintf(&b, "/-- %s -/\ndef %s : List (Bool × Bool × Bool × Bool × Bool) :=\n  [%s]\n", t.doc, t.name, strings.Join(rs, ",\n   "))
			fmt.Fprintf(&b, "/-- (connection, device address, entity address, feature number) compared by it -/\ndef %sCompares : Bool × Bool × Bool × Bool := (%s, %s, %s, %s)\n\n", t.name, bl(ski), bl(dev), bl(ent), bl(feat))
			facts = append(facts, fmt.Sprintf("%s=%d%d%d%d", t.name, b2i(ski), b2i(dev), b2i(ent), b2i(feat)))
		} else {
			fmt.Fprintf(&b, "/-- %s -/\ndef %s : List (Bool × Bool × Bool × Bool) :=\n  [%s]\n", t.doc, t.name, strings.Join(rs, ",\n   "))
			fmt.Fprintf(&b, "/-- (device address, entity address, feature number) compared by it -/\ndef %sCompares : Bool × Bool × Bool := (%s, %s, %s)\n\n", t.name, bl(dev), bl(ent), bl(feat))
			facts = append(facts, fmt.Sprintf("%s=%d%d%d", t.name, b2i(dev), b2i(ent), b2i(feat)))
		}
	}
	fmt.Fprintf(&b, "/-- after RemoveRemoteDeviceConnection(ski of T): T resolves neither by RemoteDeviceForSki nor (no other connection announcing its address) by RemoteDeviceForAddress -/\n")
	fmt.Fprintf(&b, "def removedUnresolvableBySki : Bool := %s\ndef removedUnresolvableByAddress : Bool := %s\n", bl(res.goneBySki), bl(res.goneByAddress))
	fmt.Fprintf(&b, "/-- … another connection X (its own address) still resolves by both, to the same object -/\n")
	fmt.Fprintf(&b, "def otherResolvesBySki : Bool := %s\ndef otherResolvesByAddress : Bool := %s\n", bl(res.otherBySki), bl(res.otherByAddress))
	fmt.Fprintf(&b, "/-- … another connection S that announced T's device address still resolves by its SKI and now by that address: the map is keyed by the connection -/\n")
	fmt.Fprintf(&b, "def sharedAddressResolvesBySki : Bool := %s\ndef sharedAddressResolvesByAddress : Bool := %s\n\n", bl(res.sharedBySki), bl(res.sharedByAddress))
	verdict, clean, err := probeApprovals()
	if err != nil {
		return "", fmt.Errorf("pending write approvals: %v", err)
	}
	var vr, cr []string
	vbits, cbits := "", ""
	for _, r := range verdict {
		vr = append(vr, fmt.Sprintf("(%s, %s, %s, %s)", bl(r.ski), bl(r.obj), bl(r.ctr), bl(r.taken)))
		vbits += fmt.Sprint(b2i(r.taken))
	}
	for _, r := range clean {
		cr = append(cr, fmt.Sprintf("(%s, %s)", bl(r[0]), bl(r[1])))
		cbits += fmt.Sprint(b2i(r[1]))
	}
	fmt.Fprintf(&b, "/-- FeatureLocal.ApproveOrDenyWrite against ONE pending write: (verdict message has the same SKI, is of the same connection object,\n    carries the same msgCounter, verdict taken = a result was written) — another SKI implies another object -/\n")
	fmt.Fprintf(&b, "def approvalVerdict : List (Bool × Bool × Bool × Bool) :=\n  [%s]\n", strings.Join(vr, ",\n   "))
	fmt.Fprintf(&b, "/-- FeatureLocal.CleanWriteApprovalCaches(ski) with ONE pending write: (same SKI, the pending approval is gone) -/\n")
	fmt.Fprintf(&b, "def approvalClean : List (Bool × Bool) := [%s]\n\n", strings.Join(cr, ", "))
	facts = append(facts, "approvalVerdict="+vbits, "approvalClean="+cbits)
	ewS, ewB, ewD, _, err := probeEntityWindow()
	if err != nil {
		return "", fmt.Errorf("teardown inside the entity-removed notification: %v", err)
	}
	fmt.Fprintf(&b, "/-- T's connection removed (RemoveRemoteDevice) WHILE T's notification \"entity [1] removed\" is processed, at the EntityChange/Remove\n    event; T held one subscription and one binding from [1]/1. After both returned: (subscription gone, binding gone, device gone) -/\n")
	fmt.Fprintf(&b, "def entityWindowTeardown : Bool × Bool × Bool := (%s, %s, %s)\n\n", bl(ewS), bl(ewB), bl(ewD))
	facts = append(facts, fmt.Sprintf("entityWindowTeardown=%d%d%d", b2i(ewS), b2i(ewB), b2i(ewD)))
	facts = append(facts, fmt.Sprintf("resolve=%d%d%d%d%d%d", b2i(res.goneBySki), b2i(res.goneByAddress), b2i(res.otherBySki), b2i(res.otherByAddress), b2i(res.sharedBySki), b2i(res.sharedByAddress)))
	fmt.Fprintf(&b, "-- FACTS %s\n", strings.Join(facts, " "))
	b.WriteString("end Spine.Generated.Cleanup\n")
	if err := writeFile(outDir, "Cleanup.lean", b.String()); err != nil {
		return "", err
	}
	return strings.Join(facts, " "), nil
}

func b2i(b bool) int {
	if b {
		return 1
	}
	return 0
}
