package main

// Generator "timelayouts" (G6, C19): facts about the date/time helpers of
// model/commondatatypes_additions.go for the glue theorems of Spine/Props/C19Layouts.lean.
//
// Two independent derivations:
//
//  (dyn) DYNAMIC, authoritative: the real code (compiled in from the tree under test) is probed with a
//        fixed universe of text shapes - which shapes (*DateTimeType).GetTime, (*DateType).GetTime and
//        (*TimeType).GetTime accept and read as the right instant, which shape NewDateTimeTypeFromTime
//        writes, whether it rounds to the second and converts to UTC. No source text involved, so no
//        refactoring can disturb it.
//
//  (ast) STATIC cross-check: the layout strings in the source, found structurally - the exported
//        names GetTime / NewDateTimeTypeFromTime are the only anchors:
//          * the layouts of a GetTime are "the []string that reaches the loop that calls
//            time.ParseInLocation / time.Parse with the loop variable as layout": ranged over in the
//            method itself or in a package function it calls (any name), where the ranged parameter is
//            traced back to the argument of the call; the []string may be a composite literal, a local
//            variable, or a package-level var/const in any file of the package; elements may be
//            literals or named string constants;
//          * the formatting layout is the argument of the .Format call in NewDateTimeTypeFromTime or in
//            a package function it calls, a literal, a named constant or a constant of package time.
//        What cannot be recovered is emitted as "unknown" (astKnown := false); the theorems over the
//        static tables are guarded by astKnown, so a refactoring can make the cross-check vacuous but
//        never break an obligation, while a layout that IS found and contradicts the glue still does.
//
// Layouts / shapes as token lists: 1 = fraction (optional ".999999999" in a layout, present digits in a
// probe text), 2 = literal "Z", 3 = numeric zone "-07:00" / "Z07:00", 4 = the text "+07:00" (not a zone
// element of package time: it only matches itself), any other byte b = 100 + b.

import (
	"encoding/json"
	"fmt"
	"go/ast"
	"go/parser"
	"go/token"
	"os"
	"path/filepath"
	"sort"
	"strconv"
	"strings"
	"time"

	"github.com/enbility/spine-go/model"
)

func init() { register("timelayouts", genTimeLayouts) }

func layoutTokens(l string) []int {
	var out []int
	for len(l) > 0 {
		switch {
		case strings.HasPrefix(l, ".999999999"), strings.HasPrefix(l, ".000000000"), strings.HasPrefix(l, ",999999999"):
			out, l = append(out, 1), l[len(".999999999"):]
		case strings.HasPrefix(l, "-07:00"), strings.HasPrefix(l, "Z07:00"):
			out, l = append(out, 3), l[len("-07:00"):]
		case strings.HasPrefix(l, "+07:00"):
			out, l = append(out, 4), l[len("+07:00"):]
		case l[0] == 'Z':
			out, l = append(out, 2), l[1:]
		default:
			out, l = append(out, 100+int(l[0])), l[1:]
		}
	}
	return out
}

func leanNatList(xs []int) string {
	var p []string
	for _, x := range xs {
		p = append(p, strconv.Itoa(x))
	}
	return "[" + strings.Join(p, ", ") + "]"
}

func leanListOfLists(xss [][]int) string {
	if len(xss) == 0 {
		return "[]"
	}
	var p []string
	for _, xs := range xss {
		p = append(p, "  "+leanNatList(xs))
	}
	return "[\n" + strings.Join(p, ",\n") + "\n]"
}

// ---------------------------------------------------------------- static part

type pkgIndex struct {
	values  map[string]ast.Expr        // package-level var / const name -> initialiser
	funcs   map[string]*ast.FuncDecl   // package functions (no receiver)
	methods map[string]*ast.FuncDecl   // "Recv.Name"
}

func indexPackage(dir string) (*pkgIndex, error) {
	fset := token.NewFileSet()
	ents, err := os.ReadDir(dir)
	if err != nil {
		return nil, err
	}
	ix := &pkgIndex{values: map[string]ast.Expr{}, funcs: map[string]*ast.FuncDecl{}, methods: map[string]*ast.FuncDecl{}}
	for _, e := range ents {
		n := e.Name()
		if e.IsDir() || !strings.HasSuffix(n, ".go") || strings.HasSuffix(n, "_test.go") {
			continue
		}
		f, err := parser.ParseFile(fset, filepath.Join(dir, n), nil, 0)
		if err != nil {
			return nil, err
		}
		for _, d := range f.Decls {
			switch d := d.(type) {
			case *ast.GenDecl:
				if d.Tok != token.VAR && d.Tok != token.CONST {
					continue
				}
				for _, sp := range d.Specs {
					vs, ok := sp.(*ast.ValueSpec)
					if !ok {
						continue
					}
					for i, id := range vs.Names {
						if i < len(vs.Values) {
							ix.values[id.Name] = vs.Values[i]
						}
					}
				}
			case *ast.FuncDecl:
				if d.Body == nil {
					continue
				}
				if d.Recv == nil {
					ix.funcs[d.Name.Name] = d
					continue
				}
				if len(d.Recv.List) == 1 {
					t := d.Recv.List[0].Type
					if st, ok := t.(*ast.StarExpr); ok {
						t = st.X
					}
					if id, ok := t.(*ast.Ident); ok {
						ix.methods[id.Name+"."+d.Name.Name] = d
					}
				}
			}
		}
	}
	return ix, nil
}

// timeConst: the layout constants of package time a formatter may name
var timeConsts = map[string]string{"RFC3339": time.RFC3339, "RFC3339Nano": time.RFC3339Nano, "DateTime": time.DateTime, "DateOnly": time.DateOnly, "TimeOnly": time.TimeOnly}

// localDef finds the initialiser of a local identifier in a function body (x := e, var x = e), if it is
// assigned exactly once.
func localDef(fd *ast.FuncDecl, name string) ast.Expr {
	var found ast.Expr
	n := 0
	ast.Inspect(fd.Body, func(x ast.Node) bool {
		switch s := x.(type) {
		case *ast.AssignStmt:
			for i, l := range s.Lhs {
				if id, ok := l.(*ast.Ident); ok && id.Name == name && len(s.Rhs) == len(s.Lhs) {
					found = s.Rhs[i]
					n++
				}
			}
		case *ast.ValueSpec:
			for i, id := range s.Names {
				if id.Name == name && i < len(s.Values) {
					found = s.Values[i]
					n++
				}
			}
		}
		return true
	})
	if n == 1 {
		return found
	}
	return nil
}

func (ix *pkgIndex) resolveString(e ast.Expr, fd *ast.FuncDecl, depth int) (string, bool) {
	if depth > 6 {
		return "", false
	}
	switch e := e.(type) {
	case *ast.BasicLit:
		if e.Kind == token.STRING {
			s, err := strconv.Unquote(e.Value)
			return s, err == nil
		}
	case *ast.ParenExpr:
		return ix.resolveString(e.X, fd, depth+1)
	case *ast.BinaryExpr:
		if e.Op == token.ADD {
			a, ok1 := ix.resolveString(e.X, fd, depth+1)
			b, ok2 := ix.resolveString(e.Y, fd, depth+1)
			return a + b, ok1 && ok2
		}
	case *ast.Ident:
		if fd != nil {
			if d := localDef(fd, e.Name); d != nil {
				return ix.resolveString(d, fd, depth+1)
			}
		}
		if d, ok := ix.values[e.Name]; ok {
			return ix.resolveString(d, nil, depth+1)
		}
	case *ast.SelectorExpr:
		if p, ok := e.X.(*ast.Ident); ok && p.Name == "time" {
			s, ok := timeConsts[e.Sel.Name]
			return s, ok
		}
	case *ast.CallExpr: // string(x)
		if id, ok := e.Fun.(*ast.Ident); ok && id.Name == "string" && len(e.Args) == 1 {
			return ix.resolveString(e.Args[0], fd, depth+1)
		}
	}
	return "", false
}

func (ix *pkgIndex) resolveStrings(e ast.Expr, fd *ast.FuncDecl, depth int) ([]string, bool) {
	if depth > 6 {
		return nil, false
	}
	switch e := e.(type) {
	case *ast.CompositeLit:
		var out []string
		for _, el := range e.Elts {
			if kv, ok := el.(*ast.KeyValueExpr); ok {
				el = kv.Value
			}
			s, ok := ix.resolveString(el, fd, depth+1)
			if !ok {
				return nil, false
			}
			out = append(out, s)
		}
		return out, true
	case *ast.ParenExpr:
		return ix.resolveStrings(e.X, fd, depth+1)
	case *ast.Ident:
		if fd != nil {
			if d := localDef(fd, e.Name); d != nil {
				return ix.resolveStrings(d, fd, depth+1)
			}
		}
		if d, ok := ix.values[e.Name]; ok {
			return ix.resolveStrings(d, nil, depth+1)
		}
	case *ast.SliceExpr: // xs[:]
		if e.Low == nil && e.High == nil {
			return ix.resolveStrings(e.X, fd, depth+1)
		}
	}
	return nil, false
}

// parseLoop finds, in fd, a range loop whose body calls time.ParseInLocation / time.Parse with the loop
// value as layout, and returns the ranged expression.
func parseLoop(fd *ast.FuncDecl) ast.Expr {
	var ranged ast.Expr
	isParse := func(ce *ast.CallExpr) bool {
		se, ok := ce.Fun.(*ast.SelectorExpr)
		if !ok || len(ce.Args) == 0 {
			return false
		}
		p, ok := se.X.(*ast.Ident)
		return ok && p.Name == "time" && (se.Sel.Name == "ParseInLocation" || se.Sel.Name == "Parse")
	}
	ast.Inspect(fd.Body, func(x ast.Node) bool {
		if ranged != nil {
			return true
		}
		switch st := x.(type) {
		case *ast.RangeStmt:
			// for _, l := range X { ... time.Parse(l, ...) }   /   for i := range X { ... time.Parse(X[i], ...) }
			val, _ := st.Value.(*ast.Ident)
			key, _ := st.Key.(*ast.Ident)
			ast.Inspect(st.Body, func(y ast.Node) bool {
				ce, ok := y.(*ast.CallExpr)
				if !ok || !isParse(ce) {
					return true
				}
				if a, ok := ce.Args[0].(*ast.Ident); ok && val != nil && a.Name == val.Name {
					ranged = st.X
				}
				if ie, ok := ce.Args[0].(*ast.IndexExpr); ok && key != nil {
					if ix, ok := ie.Index.(*ast.Ident); ok && ix.Name == key.Name {
						ranged = ie.X
					}
				}
				return true
			})
		case *ast.ForStmt:
			// for i := 0; i < len(X); i++ { ... time.Parse(X[i], ...) }  (also through l := X[i])
			ast.Inspect(st.Body, func(y ast.Node) bool {
				ce, ok := y.(*ast.CallExpr)
				if !ok || !isParse(ce) {
					return true
				}
				arg := ce.Args[0]
				if id, ok := arg.(*ast.Ident); ok {
					if d := localDef(fd, id.Name); d != nil {
						arg = d
					}
				}
				if ie, ok := arg.(*ast.IndexExpr); ok {
					ranged = ie.X
				}
				return true
			})
		}
		return true
	})
	return ranged
}

func paramIndex(fd *ast.FuncDecl, name string) int {
	i := 0
	for _, f := range fd.Type.Params.List {
		for _, id := range f.Names {
			if id.Name == name {
				return i
			}
			i++
		}
		if len(f.Names) == 0 {
			i++
		}
	}
	return -1
}

// layoutsOf: the []string that reaches the parse loop of method fd (directly, or through a package
// function / method of the package it calls, up to two levels deep).
func (ix *pkgIndex) layoutsOf(fd *ast.FuncDecl, depth int) ([]string, bool) {
	if fd == nil || depth > 2 {
		return nil, false
	}
	if x := parseLoop(fd); x != nil {
		if id, ok := x.(*ast.Ident); ok && paramIndex(fd, id.Name) >= 0 && localDef(fd, id.Name) == nil {
			return nil, false // a parameter: the caller resolves it
		}
		return ix.resolveStrings(x, fd, 0)
	}
	var out []string
	found := false
	ast.Inspect(fd.Body, func(x ast.Node) bool {
		ce, ok := x.(*ast.CallExpr)
		if !ok || found {
			return true
		}
		var callee *ast.FuncDecl
		switch f := ce.Fun.(type) {
		case *ast.Ident:
			callee = ix.funcs[f.Name]
		case *ast.SelectorExpr: // a method of the package called on some value: match by name if unique
			var cands []*ast.FuncDecl
			for k, m := range ix.methods {
				if strings.HasSuffix(k, "."+f.Sel.Name) {
					cands = append(cands, m)
				}
			}
			if len(cands) == 1 {
				callee = cands[0]
			}
		}
		if callee == nil || callee == fd {
			return true
		}
		if rx := parseLoop(callee); rx != nil {
			if id, ok := rx.(*ast.Ident); ok {
				if pi := paramIndex(callee, id.Name); pi >= 0 && localDef(callee, id.Name) == nil {
					if pi < len(ce.Args) {
						if ls, ok := ix.resolveStrings(ce.Args[pi], fd, 0); ok {
							out, found = ls, true
						}
					}
					return true
				}
			}
			if ls, ok := ix.resolveStrings(rx, callee, 0); ok {
				out, found = ls, true
			}
			return true
		}
		if ls, ok := ix.layoutsOf(callee, depth+1); ok {
			out, found = ls, true
		}
		return true
	})
	return out, found
}

// formatFacts: layout of the .Format call reachable from fd, and whether Round(time.Second) and UTC()
// occur on the way (in fd or in a package function it calls).
func (ix *pkgIndex) formatFacts(fd *ast.FuncDecl, depth int) (layout string, okLayout, rounds, utc bool) {
	if fd == nil || depth > 2 {
		return
	}
	ast.Inspect(fd.Body, func(n ast.Node) bool {
		ce, ok := n.(*ast.CallExpr)
		if !ok {
			return true
		}
		switch f := ce.Fun.(type) {
		case *ast.SelectorExpr:
			switch f.Sel.Name {
			case "Format", "AppendFormat":
				if len(ce.Args) >= 1 && !okLayout {
					layout, okLayout = ix.resolveString(ce.Args[len(ce.Args)-1], fd, 0)
				}
			case "UTC":
				utc = true
			case "Round":
				if len(ce.Args) == 1 {
					if a, ok := ce.Args[0].(*ast.SelectorExpr); ok && a.Sel.Name == "Second" {
						rounds = true
					}
				}
			}
		case *ast.Ident:
			if callee := ix.funcs[f.Name]; callee != nil && callee != fd {
				l, okl, r, u := ix.formatFacts(callee, depth+1)
				if okl && !okLayout {
					layout, okLayout = l, true
				}
				rounds, utc = rounds || r, utc || u
			}
		}
		return true
	})
	return
}

// ---------------------------------------------------------------- dynamic part

type probeShape struct {
	layout string // a Go layout that writes the probe text (fraction written with zeros/digits)
	zone   int    // offset of the zone the probe instant is presented in, seconds
	lit    string // a literal suffix appended after formatting (the text "+07:00")
}

func shapeTokens(p probeShape) []int { return layoutTokens(p.layout + p.lit) }

// probeUniverse: base x {no fraction, fraction} x {no zone, Z, numeric zone +02:00, numeric zone -05:30,
// the literal text +07:00}
func probeUniverse(base string) []probeShape {
	var out []probeShape
	for _, frac := range []string{"", ".000000000"} {
		out = append(out,
			probeShape{base + frac, 0, ""},
			probeShape{base + frac + "Z", 0, ""},
			probeShape{base + frac + "-07:00", 2 * 3600, ""},
			probeShape{base + frac + "-07:00", -(5*3600 + 1800), ""},
			probeShape{base + frac, 0, "+07:00"},
		)
	}
	return out
}

// accepted: the shapes of the universe that get accepts and reads as the expected instant. A shape is
// listed once (the two numeric zones must both be read correctly). expect maps the probe instant to
// what the getter should return for this type (date only / time of day only).
func accepted(base string, get func(string) (time.Time, error), expect func(t time.Time, zone *time.Location) time.Time) (ok [][]int, wrong [][]int) {
	inst := time.Date(2031, 7, 9, 13, 24, 57, 0, time.UTC)
	byTok := map[string]int{} // 1 accepted exactly, 2 accepted with a wrong instant, 3 rejected
	order := []string{}
	toks := map[string][]int{}
	for _, p := range probeUniverse(base) {
		loc := time.UTC
		if p.zone != 0 {
			loc = time.FixedZone("p", p.zone)
		}
		local := inst.In(loc)
		if p.zone != 0 {
			// same wall clock in the zone, so that date-only / time-only shapes stay meaningful
			local = time.Date(2031, 7, 9, 13, 24, 57, 0, loc)
		}
		txt := local.Format(p.layout) + p.lit
		if strings.Contains(p.layout, ".000000000") {
			txt = strings.Replace(txt, ".000000000", ".250000000", 1)
			local = local.Add(250 * time.Millisecond)
		}
		want := expect(local, loc)
		if p.lit != "" {
			// the text +07:00 read as a numeric zone
			want = expect(time.Date(local.Year(), local.Month(), local.Day(), local.Hour(), local.Minute(), local.Second(), local.Nanosecond(), time.FixedZone("l", 7*3600)), time.FixedZone("l", 7*3600))
		}
		k := leanNatList(shapeTokens(p))
		if _, seen := byTok[k]; !seen {
			order = append(order, k)
			toks[k] = shapeTokens(p)
		}
		got, err := get(txt)
		st := 3
		if err == nil {
			st = 2
			if got.Equal(want) {
				st = 1
			}
		}
		if st > byTok[k] {
			byTok[k] = st
		}
	}
	for _, k := range order {
		switch byTok[k] {
		case 1:
			ok = append(ok, toks[k])
		case 2:
			wrong = append(wrong, toks[k])
		}
	}
	return
}

func genTimeLayouts(outDir string) (string, error) {
	// ---- dynamic
	full := func(t time.Time, _ *time.Location) time.Time { return t }
	dateOnly := func(t time.Time, loc *time.Location) time.Time {
		return time.Date(t.Year(), t.Month(), t.Day(), 0, 0, 0, 0, loc)
	}
	clockOnly := func(t time.Time, loc *time.Location) time.Time {
		return time.Date(0, 1, 1, t.Hour(), t.Minute(), t.Second(), t.Nanosecond(), loc)
	}
	dtOK, dtWrong := accepted("2006-01-02T15:04:05", func(s string) (time.Time, error) { return model.NewDateTimeType(s).GetTime() }, full)
	dOK, dWrong := accepted("2006-01-02", func(s string) (time.Time, error) { return model.NewDateType(s).GetTime() }, dateOnly)
	tOK, tWrong := accepted("15:04:05", func(s string) (time.Time, error) { return model.NewTimeType(s).GetTime() }, clockOnly)

	// what the formatter writes: shape, rounding, UTC
	inst := time.Date(2031, 7, 9, 13, 24, 57, 0, time.UTC)
	written := string(*model.NewDateTimeTypeFromTime(inst))
	var fmtDyn []int
	fmtKnown := false
	for _, p := range probeUniverse("2006-01-02T15:04:05") {
		if p.zone == 0 && p.lit == "" && !strings.Contains(p.layout, ".000000000") && inst.Format(p.layout) == written {
			fmtDyn, fmtKnown = shapeTokens(p), true
		}
	}
	roundsDyn := string(*model.NewDateTimeTypeFromTime(inst.Add(400 * time.Millisecond))) == written &&
		string(*model.NewDateTimeTypeFromTime(inst.Add(-400 * time.Millisecond))) == written &&
		string(*model.NewDateTimeTypeFromTime(inst.Add(-600 * time.Millisecond))) != written
	utcDyn := string(*model.NewDateTimeTypeFromTime(inst.In(time.FixedZone("e", 2*3600)))) == written &&
		string(*model.NewDateTimeTypeFromTime(inst.In(time.FixedZone("w", -(5*3600 + 1800))))) == written

	// ---- static
	ix, err := indexPackage(filepath.Join(RepoDir(), "model"))
	if err != nil {
		return "", err
	}
	parse := map[string][]string{}
	astParseKnown := true
	for _, t := range []string{"DateTimeType", "DateType", "TimeType"} {
		ls, ok := ix.layoutsOf(ix.methods[t+".GetTime"], 0)
		if !ok || len(ls) == 0 {
			astParseKnown = false
			continue
		}
		parse[t] = ls
	}
	format, astFmtKnown, rounds, utc := ix.formatFacts(ix.funcs["NewDateTimeTypeFromTime"], 0)

	var b strings.Builder
	b.WriteString("/-! GENERATED by go/cmd/translate (generator `timelayouts`) -- do not edit.\n")
	b.WriteString("    Token lists: 1 = fraction, 2 = literal \"Z\", 3 = numeric zone, 4 = the text \"+07:00\" (not a zone element of\n")
	b.WriteString("    package time), other byte b = 100 + b. `…Accepts` / `dateTimeWritten` … are DYNAMIC facts (the real code\n")
	b.WriteString("    probed with a fixed universe of text shapes); `dateTimeFormat`, `…Parse` are the layout strings found in the\n")
	b.WriteString("    source (static cross-check; `astParseKnown` / `astFormatKnown` say whether they could be recovered). -/\n")
	b.WriteString("namespace Spine.Generated.TimeLayouts\n\n")
	fmt.Fprintf(&b, "/-- shapes (*DateTimeType).GetTime accepts and reads as the right instant -/\ndef dateTimeAccepts : List (List Nat) := %s\n\n", leanListOfLists(dtOK))
	fmt.Fprintf(&b, "/-- shapes it accepts but reads as another instant -/\ndef dateTimeMisreads : List (List Nat) := %s\n\n", leanListOfLists(dtWrong))
	fmt.Fprintf(&b, "def dateAccepts : List (List Nat) := %s\n\ndef dateMisreads : List (List Nat) := %s\n\n", leanListOfLists(dOK), leanListOfLists(dWrong))
	fmt.Fprintf(&b, "def timeAccepts : List (List Nat) := %s\n\ndef timeMisreads : List (List Nat) := %s\n\n", leanListOfLists(tOK), leanListOfLists(tWrong))
	fmt.Fprintf(&b, "/-- the shape NewDateTimeTypeFromTime writes (%q for 2031-07-09T13:24:57Z); recognised: %v -/\ndef dateTimeWritten : List Nat := %s\ndef dateTimeWrittenKnown : Bool := %v\n\n", written, fmtKnown, leanNatList(fmtDyn), fmtKnown)
	fmt.Fprintf(&b, "/-- +-0.4 s are written as the same second, -0.6 s as another -/\ndef dateTimeRoundsToSecondDyn : Bool := %v\n\n", roundsDyn)
	fmt.Fprintf(&b, "/-- the same instant presented in zones +02:00 and -05:30 is written identically -/\ndef dateTimeConvertsToUTCDyn : Bool := %v\n\n", utcDyn)

	fmt.Fprintf(&b, "/-- static: could the layout lists of the three GetTime methods be recovered from the source? -/\ndef astParseKnown : Bool := %v\n\n", astParseKnown)
	fmt.Fprintf(&b, "/-- static: could the formatting layout be recovered from the source? -/\ndef astFormatKnown : Bool := %v\n\n", astFmtKnown)
	// an instant converted to UTC is written with "Z" by the zone element "Z07:00"
	fmtTokens := layoutTokens(format)
	if utc && strings.HasSuffix(format, "Z07:00") {
		fmtTokens = layoutTokens(strings.TrimSuffix(format, "Z07:00") + "Z")
	}
	fmt.Fprintf(&b, "/-- static: NewDateTimeTypeFromTime formats with %q -/\ndef dateTimeFormat : List Nat := %s\n\n", format, leanNatList(fmtTokens))
	fmt.Fprintf(&b, "/-- static: a Round(time.Second) / a UTC() call is on the way to the Format call -/\ndef dateTimeRoundsToSecond : Bool := %v\ndef dateTimeConvertsToUTC : Bool := %v\n\n", rounds, utc)
	emit := func(name, recv string) {
		var ls [][]int
		for _, l := range parse[recv] {
			ls = append(ls, layoutTokens(l))
		}
		fmt.Fprintf(&b, "/-- static: (*%s).GetTime tries, in order: %s -/\ndef %s : List (List Nat) := %s\n\n", recv, strings.Join(quoteAll(parse[recv]), ", "), name, leanListOfLists(ls))
	}
	emit("dateTimeParse", "DateTimeType")
	emit("dateParse", "DateType")
	emit("timeParse", "TimeType")
	// raw layouts (bytes) for the text-level model Spine.TimeText, and one machine-readable line for the harness
	rawList := func(ls []string) string {
		var xs [][]int
		for _, l := range ls {
			var bs []int
			for i := 0; i < len(l); i++ {
				bs = append(bs, int(l[i]))
			}
			xs = append(xs, bs)
		}
		return leanListOfLists(xs)
	}
	var fmtRaw []string
	if astFmtKnown {
		fmtRaw = []string{format}
	}
	fmt.Fprintf(&b, "/-- static: the formatting layout as bytes (a list of one element, empty when not recovered) -/\ndef dateTimeFormatRaw : List (List Nat) := %s\n\n", rawList(fmtRaw))
	fmt.Fprintf(&b, "/-- static: the layouts of the three getters as bytes, in the order they are tried -/\ndef dateTimeParseRaw : List (List Nat) := %s\n\ndef dateParseRaw : List (List Nat) := %s\n\ndef timeParseRaw : List (List Nat) := %s\n\n", rawList(parse["DateTimeType"]), rawList(parse["DateType"]), rawList(parse["TimeType"]))
	{
		js, _ := json.Marshal(map[string]any{"format": fmtRaw, "rounds": rounds, "utc": utc, "dt": parse["DateTimeType"], "date": parse["DateType"], "tod": parse["TimeType"], "parseKnown": astParseKnown, "formatKnown": astFmtKnown})
		fmt.Fprintf(&b, "-- HARNESS %s\n\n", js)
	}
	b.WriteString("end Spine.Generated.TimeLayouts\n")
	if err := writeFile(outDir, "TimeLayouts.lean", b.String()); err != nil {
		return "", err
	}
	keys := []string{}
	for k := range parse {
		keys = append(keys, fmt.Sprintf("%s:%d", k, len(parse[k])))
	}
	sort.Strings(keys)
	return fmt.Sprintf("dynamic: writes %q, accepts %d/%d/%d shapes (datetime/date/time), misreads %d/%d/%d; static: format %q (known %v), parse layouts %s (known %v)",
		written, len(dtOK), len(dOK), len(tOK), len(dtWrong), len(dWrong), len(tWrong), format, astFmtKnown, strings.Join(keys, " "), astParseKnown), nil
}

func quoteAll(xs []string) []string {
	var out []string
	for _, x := range xs {
		out = append(out, strconv.Quote(x))
	}
	return out
}
