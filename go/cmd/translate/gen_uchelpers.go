package main

// Generator `uchelpers` (C20, round 7): the helpers of the use-case registry in package model
// (methods of NodeManagementUseCaseDataType and UseCaseInformationDataType) never write into an
// array they did not allocate themselves.
//
// Why this is a fact of the model: DataCopy of the use-case data copies one level, so the stored
// data and every outstanding copy (a reply in preparation, an application's snapshot) share the
// arrays of useCaseInformation and of each useCaseSupport list. The value-copy models Spine.UC /
// Spine.UC.LSt describe a copy as a VALUE; that is sound only as long as no helper writes through
// a shared array. Repair 478c80b established it; this generator re-reads it from the tree under test.
//
// A writer into a shared array is, in a method of one of the two types:
//   (a) an assignment whose left side indexes into a slice (x[i] = …, x[i].f = …) unless the slice
//       variable / field was assigned from slices.Clone(…) or make(…) earlier in the same function;
//   (b) a call of a mutating function of package slices (Delete, DeleteFunc, Insert, Replace,
//       Compact, CompactFunc, Reverse, Sort, SortFunc, SortStableFunc) on a slice that is not the
//       function's own (cloned / made in it);
//   (c) append(x, …) / append(x[:i], …) where x is not a local that started empty (var / nil /
//       make / slices.Clone / slices.Clip) and is not wrapped in slices.Clip(…) / slices.Clone(…);
//   (d) copy(dst, …) where dst is not such a fresh local.
// The rule is syntactic and errs on the side of reporting: a rewrite that keeps the property but
// leaves these shapes breaks the obligation and is then reported without a failing input.

import (
	"fmt"
	"go/ast"
	"go/parser"
	"go/token"
	"io/fs"
	"path/filepath"
	"sort"
	"strconv"
	"strings"
)

func init() { register("uchelpers", genUCHelpers) }

func genUCHelpers(outDir string) (string, error) {
	fset := token.NewFileSet()
	pkgs, err := parser.ParseDir(fset, filepath.Join(RepoDir(), "model"), func(fi fs.FileInfo) bool { return !strings.HasSuffix(fi.Name(), "_test.go") }, 0)
	if err != nil {
		return "", err
	}
	types := map[string]bool{"NodeManagementUseCaseDataType": true, "UseCaseInformationDataType": true}
	mutators := map[string]bool{"Delete": true, "DeleteFunc": true, "Insert": true, "Replace": true, "Compact": true, "CompactFunc": true,
		"Reverse": true, "Sort": true, "SortFunc": true, "SortStableFunc": true}
	var methods, writers []string
	isFreshCall := func(e ast.Expr) bool {
		c, ok := e.(*ast.CallExpr)
		if !ok {
			return false
		}
		s := exprString(c.Fun)
		return s == "slices.Clone" || s == "slices.Clip" || s == "make" || strings.HasPrefix(s, "make")
	}
	for _, pk := range pkgs {
		var names []string
		for n := range pk.Files {
			names = append(names, n)
		}
		sort.Strings(names)
		for _, n := range names {
			for _, d := range pk.Files[n].Decls {
				fd, ok := d.(*ast.FuncDecl)
				if !ok || fd.Body == nil || !types[elRecvType(fd)] {
					continue
				}
				name := elRecvType(fd) + "." + fd.Name.Name
				methods = append(methods, name)
				fresh := map[string]bool{} // expression text of slices that are known to be this function's own
				report := func(what string, pos token.Pos) {
					writers = append(writers, fmt.Sprintf("%s: %s (line %d)", name, what, fset.Position(pos).Line))
				}
				root := func(e ast.Expr) ast.Expr {
					for {
						switch x := e.(type) {
						case *ast.ParenExpr:
							e = x.X
						case *ast.SliceExpr:
							e = x.X
						default:
							return e
						}
					}
				}
				// innermost indexed slice on a left side: x[i], x[i].f, x[i].g[j] -> every indexed base must be fresh
				var indexedBases func(e ast.Expr, out *[]ast.Expr)
				indexedBases = func(e ast.Expr, out *[]ast.Expr) {
					switch x := e.(type) {
					case *ast.IndexExpr:
						*out = append(*out, x.X)
						indexedBases(x.X, out)
					case *ast.SelectorExpr:
						indexedBases(x.X, out)
					case *ast.ParenExpr:
						indexedBases(x.X, out)
					case *ast.StarExpr:
						indexedBases(x.X, out)
					}
				}
				ast.Inspect(fd.Body, func(nd ast.Node) bool {
					switch x := nd.(type) {
					case *ast.DeclStmt:
						if gd, ok := x.Decl.(*ast.GenDecl); ok {
							for _, sp := range gd.Specs {
								if vs, ok := sp.(*ast.ValueSpec); ok && len(vs.Values) == 0 {
									for _, id := range vs.Names {
										fresh[id.Name] = true // var x []T : nil
									}
								}
							}
						}
					case *ast.AssignStmt:
						for i, l := range x.Lhs {
							var bases []ast.Expr
							indexedBases(l, &bases)
							for _, b := range bases {
								if !fresh[exprString(b)] {
									report("writes through "+exprString(b)+" by index", l.Pos())
								}
							}
							if len(bases) > 0 || i >= len(x.Rhs) {
								continue
							}
							r := x.Rhs[i]
							key := exprString(l)
							switch {
							case isFreshCall(r):
								fresh[key] = true
							case exprString(r) == "nil":
								fresh[key] = true
							default:
								if c, ok := r.(*ast.CallExpr); ok && exprString(c.Fun) == "append" && len(c.Args) > 0 {
									a0 := root(c.Args[0])
									if isFreshCall(a0) || fresh[exprString(a0)] {
										fresh[key] = true // appended to an own array: still own
										continue
									}
								}
								if c, ok := r.(*ast.CallExpr); ok && strings.HasPrefix(exprString(c.Fun), "slices.") && len(c.Args) > 0 {
									a0 := root(c.Args[0])
									if isFreshCall(a0) || fresh[exprString(a0)] {
										fresh[key] = true // result of a slices function applied to an own array
										continue
									}
								}
								if _, isComposite := r.(*ast.CompositeLit); isComposite {
									fresh[key] = true
									continue
								}
								delete(fresh, key)
							}
						}
					case *ast.CallExpr:
						s := exprString(x.Fun)
						if strings.HasPrefix(s, "slices.") && mutators[strings.TrimPrefix(s, "slices.")] {
							own := false
							if len(x.Args) > 0 {
								a0 := root(x.Args[0])
								own = isFreshCall(a0) || fresh[exprString(a0)]
							}
							if !own {
								report("calls "+s+" (rewrites the array in place)", x.Pos())
							}
						}
						if s == "append" && len(x.Args) > 0 {
							a0 := root(x.Args[0])
							if !isFreshCall(a0) && !fresh[exprString(a0)] {
								report("appends to "+exprString(x.Args[0])+" (may write into spare capacity of a shared array)", x.Pos())
							}
						}
						if s == "copy" && len(x.Args) > 0 {
							a0 := root(x.Args[0])
							if !fresh[exprString(a0)] {
								report("copies into "+exprString(x.Args[0]), x.Pos())
							}
						}
					}
					return true
				})
			}
		}
	}
	sort.Strings(methods)
	sort.Strings(writers)
	q := func(l []string) string {
		var o []string
		for _, s := range l {
			o = append(o, strconv.Quote(s))
		}
		return "[" + strings.Join(o, ", ") + "]"
	}
	var sb strings.Builder
	sb.WriteString("/-! GENERATED by go/cmd/translate (generator `uchelpers`) from the tree under test - do not edit.\n")
	sb.WriteString("    In-place writers among the use-case helpers of package model, see gen_uchelpers.go. -/\n")
	sb.WriteString("namespace Spine.Generated.UCHelpers\n\n")
	sb.WriteString("/-- methods of NodeManagementUseCaseDataType and UseCaseInformationDataType that were examined -/\n")
	sb.WriteString("def methods : List String := " + q(methods) + "\n")
	sb.WriteString("/-- statements that write into an array the method did not allocate itself -/\n")
	sb.WriteString("def sharedArrayWriters : List String := " + q(writers) + "\n\n")
	sb.WriteString("end Spine.Generated.UCHelpers\n")
	if err := writeFile(outDir, "UCHelpers.lean", sb.String()); err != nil {
		return "", err
	}
	return fmt.Sprintf("%d methods, %d shared-array writers", len(methods), len(writers)), nil
}
