package main

// The classifier / ack rule table of DeviceLocal.ProcessCmd (C01), regenerated on every run - not read off the source
// text but OBSERVED on the compiled code of the tree under test: a real DeviceLocal (LoadControl server [1]/1 with one
// writable function, LoadControl client [1]/2), one connected peer (node management, LoadControl client [1]/1 bound to the
// local server feature, LoadControl server [1]/2), and for every classifier x ackRequest x {destination unknown,
// accepted, rejected} one real datagram through DeviceRemote.HandleSpineMesssage; a row lists the replies and results
// written to the peer (0 reply, 1 success result, 2 error result, 3 = the stack panicked) and whether every one of
// them references the request's counter, goes to its source feature and names the addressed feature with the local
// device address. However ProcessCmd decides - a slice of ack classifiers, a switch, an if-chain, negated conditions,
// helpers - the table is what it DOES. Output: Spine/Generated/AckTable.lean; theorems: Props/C01Gen.lean.

import (
	"encoding/json"
	"fmt"
	"strings"
	"time"

	"github.com/enbility/spine-go/api"
	"github.com/enbility/spine-go/model"
	"github.com/enbility/spine-go/spine"
	"github.com/enbility/spine-go/util"
	"verifharness/h"
)

func init() { register("acktable", genAckTable) }

type atWorld struct {
	l   *spine.DeviceLocal
	rd  api.DeviceRemoteInterface
	w   *h.W
	ctr uint64
}

func atLimits(v int) *model.LoadControlLimitListDataType {
	mk := func(id int) model.LoadControlLimitDataType {
		return model.LoadControlLimitDataType{LimitId: util.Ptr(model.LoadControlLimitIdType(id)), IsLimitChangeable: util.Ptr(true),
			IsLimitActive: util.Ptr(true), Value: model.NewScaledNumberType(float64(v*10 + id))}
	}
	return &model.LoadControlLimitListDataType{LoadControlLimitData: []model.LoadControlLimitDataType{mk(1), mk(2), mk(3)}}
}

func newAtWorld() (*atWorld, error) {
	l := spine.NewDeviceLocal("b", "m", "s", "c", "HEMS", model.DeviceTypeTypeEnergyManagementSystem, model.NetworkManagementFeatureSetTypeSmart)
	e1 := spine.NewEntityLocal(l, model.EntityTypeTypeCEM, spine.NewAddressEntityType([]uint{1}), 4*time.Second)
	l.AddEntity(e1)
	srv := e1.GetOrAddFeature(model.FeatureTypeTypeLoadControl, model.RoleTypeServer) // [1]/1
	srv.AddFunctionType(model.FunctionTypeLoadControlLimitListData, true, true)
	srv.SetData(model.FunctionTypeLoadControlLimitListData, atLimits(1))
	e1.GetOrAddFeature(model.FeatureTypeTypeLoadControl, model.RoleTypeClient) // [1]/2
	w := &atWorld{l: l, w: &h.W{}, ctr: 100}
	l.SetupRemoteDevice("ski1", w.w)
	w.rd = l.RemoteDeviceForSki("ski1")
	if w.rd == nil {
		return nil, fmt.Errorf("no remote device")
	}
	dev := "dev1"
	dd := &model.NodeManagementDetailedDiscoveryDataType{
		DeviceInformation: &model.NodeManagementDetailedDiscoveryDeviceInformationType{Description: &model.NetworkManagementDeviceDescriptionDataType{DeviceAddress: &model.DeviceAddressType{Device: util.Ptr(model.AddressDeviceType(dev))}}}}
	for _, e := range []uint{0, 1} {
		et := model.EntityTypeTypeEVSE
		if e == 0 {
			et = model.EntityTypeTypeDeviceInformation
		}
		dd.EntityInformation = append(dd.EntityInformation, model.NodeManagementDetailedDiscoveryEntityInformationType{Description: &model.NetworkManagementEntityDescriptionDataType{
			EntityAddress: &model.EntityAddressType{Device: util.Ptr(model.AddressDeviceType(dev)), Entity: spine.NewAddressEntityType([]uint{e})}, EntityType: &et}})
	}
	addF := func(e, f uint, ft model.FeatureTypeType, role model.RoleType) {
		dd.FeatureInformation = append(dd.FeatureInformation, model.NodeManagementDetailedDiscoveryFeatureInformationType{Description: &model.NetworkManagementFeatureDescriptionDataType{
			FeatureAddress: h.FA(dev, []uint{e}, f), FeatureType: &ft, Role: &role}})
	}
	addF(0, 0, model.FeatureTypeTypeNodeManagement, model.RoleTypeSpecial)
	addF(1, 1, model.FeatureTypeTypeLoadControl, model.RoleTypeClient)
	addF(1, 2, model.FeatureTypeTypeLoadControl, model.RoleTypeServer)
	cl := model.CmdClassifierTypeReply
	if pan := w.inject(model.DatagramType{Header: model.HeaderType{AddressSource: h.FA(dev, []uint{0}, 0), AddressDestination: h.FA("HEMS", []uint{0}, 0),
		MsgCounter: util.Ptr(model.MsgCounterType(1)), MsgCounterReference: util.Ptr(model.MsgCounterType(1)), CmdClassifier: &cl},
		Payload: model.PayloadType{Cmd: []model.CmdType{{NodeManagementDetailedDiscoveryData: dd}}}}); pan != nil {
		return nil, fmt.Errorf("discovery reply panics: %v", pan)
	}
	if w.rd.FeatureByAddress(h.FA(dev, []uint{1}, 2)) == nil {
		return nil, fmt.Errorf("announced tree not taken over")
	}
	if err := l.BindingManager().AddBinding(w.rd, model.BindingManagementRequestCallType{ClientAddress: h.FA(dev, []uint{1}, 1), ServerAddress: h.FA("HEMS", []uint{1}, 1),
		ServerFeatureType: util.Ptr(model.FeatureTypeTypeLoadControl)}); err != nil {
		return nil, fmt.Errorf("binding: %v", err)
	}
	time.Sleep(20 * time.Millisecond)
	w.w.Take()
	return w, nil
}

func (w *atWorld) inject(d model.DatagramType) (pan any) {
	defer func() { pan = recover() }()
	b, err := json.Marshal(model.Datagram{Datagram: d})
	if err != nil {
		panic(err)
	}
	_, _ = w.rd.HandleSpineMesssage(b)
	return nil
}

var atClassifiers = []model.CmdClassifierType{model.CmdClassifierTypeRead, model.CmdClassifierTypeReply, model.CmdClassifierTypeNotify,
	model.CmdClassifierTypeWrite, model.CmdClassifierTypeCall, model.CmdClassifierTypeResult}

// one row: classifier index, ack, case (0 destination unknown, 1 accepted, 2 rejected)
func (w *atWorld) row(ci int, ack bool, cs int) (resp []int, addressed bool) {
	cls := atClassifiers[ci]
	dev := "dev1"
	se, sf, de, df := uint(1), uint(1), uint(1), uint(1)
	lim := model.CmdType{LoadControlLimitListData: &model.LoadControlLimitListDataType{}}
	cmd := lim
	var ref *model.MsgCounterType
	if cls == model.CmdClassifierTypeReply || cls == model.CmdClassifierTypeResult {
		ref = util.Ptr(model.MsgCounterType(77))
	}
	if cls == model.CmdClassifierTypeResult {
		cmd = model.CmdType{ResultData: &model.ResultDataType{ErrorNumber: util.Ptr(model.ErrorNumberType(0))}}
	}
	switch cs {
	case 0:
		de, df = 9, 9
	case 1:
		switch cls {
		case model.CmdClassifierTypeReply, model.CmdClassifierTypeNotify:
			sf, df = 2, 2 // the peer's server feature tells the local client feature
		case model.CmdClassifierTypeWrite:
			w.ctr++
			cmd = model.CmdType{LoadControlLimitListData: atLimits(int(w.ctr % 7))}
		case model.CmdClassifierTypeCall:
			se, sf, de, df = 0, 0, 0, 0
			cmd = model.CmdType{NodeManagementSubscriptionRequestCall: spine.NewNodeManagementSubscriptionRequestCallType(h.FA(dev, []uint{1}, 1), h.FA("HEMS", []uint{1}, 1), model.FeatureTypeTypeLoadControl)}
			// a fresh registry for every accepted call
			_ = w.l.SubscriptionManager().RemoveSubscription(model.SubscriptionManagementDeleteCallType{ClientAddress: h.FA(dev, []uint{1}, 1), ServerAddress: h.FA("HEMS", []uint{1}, 1)}, w.rd)
		}
	case 2:
		switch cls {
		case model.CmdClassifierTypeRead:
			df = 2 // a read of a client feature
		case model.CmdClassifierTypeReply, model.CmdClassifierTypeNotify:
			sf, df = 2, 2
			cmd = model.CmdType{MeasurementListData: &model.MeasurementListDataType{}} // not a function of the sending feature's type
		case model.CmdClassifierTypeWrite:
			sf = 2 // holds no binding
			cmd = model.CmdType{LoadControlLimitListData: atLimits(5)}
		case model.CmdClassifierTypeResult:
			cmd = model.CmdType{ResultData: &model.ResultDataType{}} // result data without error number
		}
	}
	w.ctr++
	ctr := w.ctr
	hd := model.HeaderType{AddressSource: h.FA(dev, []uint{se}, sf), AddressDestination: h.FA("HEMS", []uint{de}, df),
		MsgCounter: util.Ptr(model.MsgCounterType(ctr)), MsgCounterReference: ref, CmdClassifier: &cls}
	if ack {
		hd.AckRequest = &ack
	}
	w.w.Take()
	pan := w.inject(model.DatagramType{Header: hd, Payload: model.PayloadType{Cmd: []model.CmdType{cmd}}})
	time.Sleep(5 * time.Millisecond)
	addressed = true
	for _, m := range w.w.Take() {
		var d model.Datagram
		if err := json.Unmarshal(m, &d); err != nil || d.Datagram.Header.CmdClassifier == nil || len(d.Datagram.Payload.Cmd) == 0 {
			continue
		}
		oh := d.Datagram.Header
		code := -1
		switch *oh.CmdClassifier {
		case model.CmdClassifierTypeReply:
			code = 0
		case model.CmdClassifierTypeResult:
			code = 2
			if rdd := d.Datagram.Payload.Cmd[0].ResultData; rdd != nil && rdd.ErrorNumber != nil && *rdd.ErrorNumber == 0 {
				code = 1
			}
		}
		if code < 0 {
			continue // requests and notifications the stack sends on its own account
		}
		resp = append(resp, code)
		ok := oh.MsgCounterReference != nil && uint64(*oh.MsgCounterReference) == ctr &&
			oh.AddressDestination != nil && oh.AddressDestination.Device != nil && string(*oh.AddressDestination.Device) == dev && h.AddrS(oh.AddressDestination) == h.AddrS(hd.AddressSource) &&
			oh.AddressSource != nil && oh.AddressSource.Device != nil && string(*oh.AddressSource.Device) == "HEMS" && h.AddrS(oh.AddressSource) == h.AddrS(hd.AddressDestination)
		addressed = addressed && ok
	}
	if pan != nil {
		resp = append(resp, 3)
	}
	return resp, addressed
}

func genAckTable(outDir string) (string, error) {
	w, err := newAtWorld()
	if err != nil {
		return "", err
	}
	defer w.l.RemoveRemoteDeviceConnection("ski1")
	var rows []string
	for ci := range atClassifiers {
		for _, ack := range []bool{false, true} {
			for cs := 0; cs < 3; cs++ {
				resp, addressed := w.row(ci, ack, cs)
				var rs []string
				for _, r := range resp {
					rs = append(rs, fmt.Sprint(r))
				}
				rows = append(rows, fmt.Sprintf("  (%d, %s, %d, [%s], %s)", ci, leanBool(ack), cs, strings.Join(rs, ", "), leanBool(addressed)))
			}
		}
	}
	var sb strings.Builder
	sb.WriteString("/-! GENERATED by go/cmd/translate (generator `acktable`) from the tree under test - do not edit.\n")
	sb.WriteString("    One row per real datagram: (classifier 0 read 1 reply 2 notify 3 write 4 call 5 result, ackRequest,\n")
	sb.WriteString("    case 0 destination unknown 1 accepted 2 rejected, replies and results written to the sender in order:\n")
	sb.WriteString("    0 reply 1 success result 2 error result 3 panic, every response correctly addressed). -/\n")
	sb.WriteString("namespace Spine.Generated.AckTable\n\n")
	sb.WriteString("def rows : List (Nat × Bool × Nat × List Nat × Bool) := [\n" + strings.Join(rows, ",\n") + "]\n\n")
	sb.WriteString("end Spine.Generated.AckTable\n")
	if err := writeFile(outDir, "AckTable.lean", sb.String()); err != nil {
		return "", err
	}
	return fmt.Sprintf("%d rows", len(rows)), nil
}
