package main

// Generator "cmdflow": the static face of the command builders (C18) - may-flow facts of an abstract
// interpretation of the SSA of ReadCmdType / ReplyCmdType / NotifyOrWriteCmdType and everything they call. The
// analysis needs go/ssa (golang.org/x/tools), which the harness module must not require, so it lives in its own
// module go/cmdflow; this generator only runs it with the same tree (VERIF_REPO) and output directory. See
// go/cmdflow/main.go; theorems over the table: lean/Spine/Props/C18Flow.lean.

import (
	"fmt"
	"os"
	"os/exec"
	"path/filepath"
	"strings"
)

func init() { register("cmdflow", genCmdFlow) }

func genCmdFlow(outDir string) (string, error) {
	abs, err := filepath.Abs(outDir)
	if err != nil {
		return "", err
	}
	wd, _ := os.Getwd()
	dir := ""
	for _, c := range []string{filepath.Join(wd, "cmdflow"), filepath.Join(wd, "..", "..", "cmdflow"), filepath.Join(wd, "go", "cmdflow")} {
		if st, err := os.Stat(filepath.Join(c, "main.go")); err == nil && !st.IsDir() {
			dir = c
			break
		}
	}
	if dir == "" {
		return "", fmt.Errorf("cmdflow: module directory go/cmdflow not found from %s", wd)
	}
	cmd := exec.Command("go", "run", ".", "-out", abs)
	cmd.Dir = dir
	env := []string{}
	for _, e := range os.Environ() {
		if strings.HasPrefix(e, "VERIF_REPO=") {
			continue
		}
		env = append(env, e)
	}
	cmd.Env = append(env, "VERIF_REPO="+RepoDir(), "GOFLAGS=-mod=mod", "GOPROXY=off", "GOSUMDB=off", "GOTOOLCHAIN=local")
	out, err := cmd.CombinedOutput()
	lines := strings.Split(strings.TrimSpace(string(out)), "\n")
	last := lines[len(lines)-1]
	if err != nil {
		return "", fmt.Errorf("cmdflow: %s", last)
	}
	return strings.TrimPrefix(last, "generated cmdflow: "), nil
}
