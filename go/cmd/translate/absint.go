package main

// A small abstract interpreter over the go/ast of one package, used by the
// generators that extract lock regions and dispatch structure (gen_eventbus).
// It executes a function body in source order, INLINES calls to functions and
// methods of the same package (so that a helper extracted by a refactoring
// does not change the facts), runs deferred calls when the frame that
// deferred them ends, and records a linear trace of the operations the facts
// are about: mutex operations on fields of the receiver, handler invocations
// (plain or `go`), reads of the handler list, blocking operations and calls it
// cannot account for. Conditions are evaluated on a tiny value domain
// (constants, the level of an abstract list item, symbolic "no peer left");
// what cannot be decided is explored on both sides and everything recorded
// there is marked conditional. Everything unknown is recorded, never dropped:
// the facts are then emitted as false with a note.

import (
	"fmt"
	"go/ast"
	"go/parser"
	"go/token"
	"os"
	"path/filepath"
	"sort"
	"strings"
)

type pkgInfo struct {
	fset    *token.FileSet
	files   map[string]*ast.File
	funcs   map[string]*ast.FuncDecl // "T.m" for methods, "f" for functions
	methods map[string][]string      // method name -> receiver types
	vars    map[string]ast.Expr      // package level variables with an initialiser
	varType map[string]ast.Expr      // package level variables with a declared type
	structs map[string]*ast.StructType
}

func recvTypeName(fd *ast.FuncDecl) string {
	if fd.Recv == nil || len(fd.Recv.List) != 1 {
		return ""
	}
	t := fd.Recv.List[0].Type
	if st, ok := t.(*ast.StarExpr); ok {
		t = st.X
	}
	if ix, ok := t.(*ast.IndexExpr); ok {
		t = ix.X
	}
	if id, ok := t.(*ast.Ident); ok {
		return id.Name
	}
	return ""
}

// loadPkg parses every non-test file of a package directory.
func loadPkg(dir string, skipPrefix ...string) (*pkgInfo, error) {
	p := &pkgInfo{fset: token.NewFileSet(), files: map[string]*ast.File{}, funcs: map[string]*ast.FuncDecl{}, methods: map[string][]string{},
		vars: map[string]ast.Expr{}, varType: map[string]ast.Expr{}, structs: map[string]*ast.StructType{}}
	names, err := filepath.Glob(filepath.Join(dir, "*.go"))
	if err != nil {
		return nil, err
	}
	sort.Strings(names)
next:
	for _, fn := range names {
		base := filepath.Base(fn)
		if strings.HasSuffix(base, "_test.go") {
			continue
		}
		for _, sp := range skipPrefix {
			if strings.HasPrefix(base, sp) {
				continue next
			}
		}
		src, err := os.ReadFile(fn)
		if err != nil {
			return nil, err
		}
		if strings.Contains(string(src[:min(len(src), 200)]), "//go:build !verif") {
			continue // the empty twin of the hook file
		}
		f, err := parser.ParseFile(p.fset, fn, src, 0)
		if err != nil {
			return nil, err
		}
		p.files[base] = f
		for _, d := range f.Decls {
			switch x := d.(type) {
			case *ast.FuncDecl:
				if x.Body == nil {
					continue
				}
				if rt := recvTypeName(x); rt != "" {
					p.funcs[rt+"."+x.Name.Name] = x
					p.methods[x.Name.Name] = append(p.methods[x.Name.Name], rt)
				} else if x.Recv == nil {
					p.funcs[x.Name.Name] = x
				}
			case *ast.GenDecl:
				for _, sp := range x.Specs {
					switch s := sp.(type) {
					case *ast.ValueSpec:
						for i, n := range s.Names {
							if i < len(s.Values) {
								p.vars[n.Name] = s.Values[i]
							}
							if s.Type != nil {
								p.varType[n.Name] = s.Type
							}
						}
					case *ast.TypeSpec:
						if st, ok := s.Type.(*ast.StructType); ok {
							p.structs[s.Name.Name] = st
						}
					}
				}
			}
		}
	}
	return p, nil
}

type aval struct {
	kind string // const, levels, list, item, recv, field, sym, func, unknown
	s    string // const / sym / field name, level of an item
	cs   []string
	list *alist
	lit  *ast.FuncLit
	cl   *frame // the frame a function literal was created in
}

type alist struct {
	origin        string // fresh, snapshot, alias, unknown
	copiedUnderMu bool
}

var unknownVal = aval{kind: "unknown"}

type aevent struct {
	kind   string // lock, deliver, hread, block, other, coresub, coreunsub, inline
	name   string // lock: field name; other/block: callee; inline: callee
	op     string // lock: Lock/Unlock/RLock/RUnlock; deliver: plain/go; hread: len/copysrc/clone/range/other
	level  string // deliver: level of the item; inline: first constant argument
	cond   bool   // recorded on a path the interpreter could not decide or inside a callback
	late   bool   // recorded after a point where the function may already have returned (an exit path)
	guards []string
	held   []string // mutex fields held at that moment
	list   *alist   // deliver: the list the item was taken from
	// filled for every event, read only by the generators that track field accesses (gen_sender)
	heldW []string   // mutex fields held in write mode (Lock, not RLock) at that moment
	path  []pathElem // the undecided branches the event lies in (see pathElem)
	async bool       // recorded inside a `go` statement
}

// pathElem names one arm of an undecided branch. The two arms of one `if` share the id; every other branch
// (loop body, switch clause, callback) has its own. After an arm that RETURNS, the rest of the frame lies in the
// other arm: `if a { return }; x` records x under (id, 1) exactly like `if a { return } else { x }`.
// An event A is executed whenever a later event B is (A dominates B) iff A's path is a prefix of B's path.
type pathElem struct{ id, arm int }

// trackCfg switches on the field-access events (used by gen_sender, off for gen_eventbus: nil):
//
//	atomicadd  name=field                 atomic.AddXxx(&recv.F, …) or recv.F.Add(…) with F of an atomic type
//	connwrite  name=callee                any call of a method named writeMethod
//	mapread / mapstore / mapdelete  name=field   access to a receiver field of map type (op: load/index/range/len)
//	fieldload / fieldstore  name=field    plain access to a receiver field of integer type
//	fieldcall  name=field op=method       recv.F.M(…) on any other field
//	overrelease name=mutex                an exit path that unlocks what an unlock it deferred unlocks again
//
// and makes a frame with a conditional return yield an unknown value.
type trackCfg struct {
	maps        map[string]bool
	ints        map[string]bool
	atomics     map[string]bool
	writeMethod string
}

type interp struct {
	pkg        *pkgInfo
	ev         []aevent
	unknown    int // > 0: on an undecided path
	afterExit  int // > 0: the function may already have returned
	async      int // > 0: inside a `go` statement
	depth      int
	held       map[string]int
	guards     []string
	itemOrder  int      // 0: abstract lists hold a core item then an application item; 1: the other way round
	levelConst []string // the two level constants, core first
	mutexes    map[string]bool
	listField  string
	levelField string // the field of a list item that holds its level
	peersField string // DeviceLocal: the map of connected remote devices
	notes      []string
	pure       map[string]bool // external calls that neither block nor call back into the package
	// additions for the field-access facts (gen_sender)
	track      *trackCfg
	heldW      map[string]int // write-mode holds
	path       []pathElem
	nextBranch int
	pendIf     *pathElem // set by an `if` for the arm that branch() is about to run
	quiet      int       // > 0: the base of a store / delete / atomic operand is being evaluated: no load events
	// additions for the leaf critical sections of additional mutexes (gen_eventbus); inert while watch is nil
	watch     map[string]bool   // receiver fields whose every access is recorded as an `faccess` event (name=field, op=load/store)
	watchSeen map[ast.Node]bool // the selector expressions recv.F (F any field) the interpreter has evaluated, by node
	contElems map[pathElem]bool // path elements that stand for "the rest of the frame after an arm that returned"
}

// watchAccess records an access to field f of the receiver through the selector expression n.
func (in *interp) watchAccess(n ast.Node, f, op string) {
	if in.watchSeen != nil {
		in.watchSeen[n] = true
	}
	if in.watch[f] {
		in.emit(aevent{kind: "faccess", name: f, op: op})
	}
}

// watchEscape: a watched field is bound to a local name, returned or handed on — later uses of the alias would not
// be recorded as accesses, so the binding itself is recorded as something the interpreter cannot account for.
func (in *interp) watchEscape(v aval, how string) {
	if in.watch != nil && v.kind == "field" && in.watch[v.s] {
		in.emit(aevent{kind: "other", name: "field " + v.s + " " + how + " (alias of watched state)"})
	}
}

func (in *interp) note(format string, a ...any) {
	in.notes = append(in.notes, fmt.Sprintf(format, a...))
}

func (in *interp) heldNames() []string {
	var h []string
	for k, n := range in.held {
		if n > 0 {
			h = append(h, k)
		}
	}
	sort.Strings(h)
	return h
}

func (in *interp) emit(e aevent) {
	e.cond = in.unknown > 0
	e.late = in.afterExit > 0
	e.guards = append([]string{}, in.guards...)
	e.held = in.heldNames()
	for k, n := range in.heldW {
		if n > 0 {
			e.heldW = append(e.heldW, k)
		}
	}
	sort.Strings(e.heldW)
	e.path = append([]pathElem{}, in.path...)
	e.async = in.async > 0
	in.ev = append(in.ev, e)
}

// pathPrefix: a is a prefix of b.
func pathPrefix(a, b []pathElem) bool {
	if len(a) > len(b) {
		return false
	}
	for i := range a {
		if a[i] != b[i] {
			return false
		}
	}
	return true
}

type frame struct {
	env         map[string]aval
	entryHeld   map[string]int // mutexes held when the frame was entered
	deferUnlock map[string]int // unlocks this frame has deferred so far
	defers      []func()
	recv        string // receiver type of the method being interpreted ("" for functions)
	rname       string
	condReturn  bool // a return statement was met on an undecided path of this frame
}

type signal int

const (
	sigNone signal = iota
	sigContinue
	sigBreak
	sigReturn
)

// call interprets fd with the receiver value and argument values given.
func (in *interp) call(fd *ast.FuncDecl, recv aval, args []aval) aval {
	if in.depth > 6 {
		in.emit(aevent{kind: "other", name: "inlining too deep: " + fd.Name.Name})
		return unknownVal
	}
	in.depth++
	defer func() { in.depth-- }()
	fr := &frame{env: map[string]aval{}, recv: recvTypeName(fd)}
	if fd.Recv != nil && len(fd.Recv.List) == 1 && len(fd.Recv.List[0].Names) == 1 {
		fr.rname = fd.Recv.List[0].Names[0].Name
		fr.env[fr.rname] = recv
	}
	i := 0
	for _, fl := range fd.Type.Params.List {
		for _, n := range fl.Names {
			if i < len(args) {
				fr.env[n.Name] = args[i]
			} else {
				fr.env[n.Name] = unknownVal
			}
			i++
		}
	}
	return in.runBody(fr, fd.Body)
}

func (in *interp) runBody(fr *frame, body *ast.BlockStmt) aval {
	fr.entryHeld, fr.deferUnlock = map[string]int{}, map[string]int{}
	for k, n := range in.held {
		fr.entryHeld[k] = n
	}
	condBefore, lateBefore := in.unknown, in.afterExit
	pathBefore := len(in.path)
	_, ret := in.block(fr, body.List)
	in.unknown, in.afterExit = condBefore, lateBefore // an exit path only taints the rest of its own frame; deferred calls run on every way out
	in.path = in.path[:pathBefore]
	if in.track != nil && fr.condReturn {
		ret = unknownVal // the value of the last return statement is not the value of every way out
	}
	for i := len(fr.defers) - 1; i >= 0; i-- {
		fr.defers[i]()
	}
	return ret
}

func (in *interp) block(fr *frame, list []ast.Stmt) (signal, aval) {
	for _, st := range list {
		if sig, v := in.stmt(fr, st); sig != sigNone {
			return sig, v
		}
	}
	return sigNone, unknownVal
}

// branch runs a statement list on a path that may or may not be taken.
func (in *interp) branch(fr *frame, list []ast.Stmt, guard string) (signal, aval) {
	in.unknown++
	if guard != "" {
		in.guards = append(in.guards, guard)
	}
	heldBefore := map[string]int{}
	for k, n := range in.held {
		heldBefore[k] = n
	}
	heldWBefore := map[string]int{}
	for k, n := range in.heldW {
		heldWBefore[k] = n
	}
	tag := pathElem{id: in.nextBranch + 1}
	if in.pendIf != nil {
		tag, in.pendIf = *in.pendIf, nil
	} else {
		in.nextBranch++
	}
	pathBefore := len(in.path)
	in.path = append(in.path, tag)
	first := len(in.ev)
	sig, v := in.block(fr, list)
	if guard != "" {
		in.guards = in.guards[:len(in.guards)-1]
	}
	in.unknown--
	if sig == sigReturn && in.track != nil {
		var ks []string
		for k := range in.held {
			ks = append(ks, k)
		}
		sort.Strings(ks)
		for _, k := range ks {
			if in.held[k]-fr.deferUnlock[k] < fr.entryHeld[k] {
				in.emit(aevent{kind: "overrelease", name: k})
			}
		}
	}
	in.path = in.path[:pathBefore]
	if sig == sigReturn {
		fr.condReturn = true
		in.heldW = heldWBefore
		in.path = append(in.path, pathElem{tag.id, 1 - tag.arm}) // until the enclosing branch / the frame ends
		if in.contElems != nil {
			in.contElems[pathElem{tag.id, 1 - tag.arm}] = true
		}
		// an EXIT PATH: the function returns here. Whatever it still holds beyond what it held on entry must be
		// released by an unlock it has deferred; its own lock operations do not belong to the main path
		for k, n := range in.held {
			if n-fr.deferUnlock[k] > fr.entryHeld[k] {
				in.emit(aevent{kind: "leak", name: k})
			}
		}
		for i := first; i < len(in.ev); i++ {
			if in.ev[i].kind == "lock" {
				in.ev[i].kind = "exitlock"
			}
		}
		in.held = heldBefore
		// the function may have returned here: what follows in this frame is late
		in.afterExit++
		return sigNone, v
	}
	return sig, v
}

func (in *interp) stmt(fr *frame, st ast.Stmt) (signal, aval) {
	switch x := st.(type) {
	case *ast.ExprStmt:
		in.eval(fr, x.X)
	case *ast.AssignStmt:
		var vals []aval
		for _, r := range x.Rhs {
			vals = append(vals, in.eval(fr, r))
		}
		for i, l := range x.Lhs {
			v := unknownVal
			if len(vals) == len(x.Lhs) {
				v = vals[i]
			}
			if id, ok := l.(*ast.Ident); ok {
				if id.Name != "_" {
					fr.env[id.Name] = v
					in.watchEscape(v, "bound to "+id.Name)
				}
			} else {
				in.lvalue(fr, l)
			}
		}
	case *ast.DeclStmt:
		if gd, ok := x.Decl.(*ast.GenDecl); ok {
			for _, sp := range gd.Specs {
				if vs, ok := sp.(*ast.ValueSpec); ok {
					for i, n := range vs.Names {
						v := unknownVal
						if i < len(vs.Values) {
							v = in.eval(fr, vs.Values[i])
						} else if at, ok := vs.Type.(*ast.ArrayType); ok && at.Len == nil {
							v = aval{kind: "list", list: &alist{origin: "fresh"}} // var xs []T
						}
						fr.env[n.Name] = v
						in.watchEscape(v, "bound to "+n.Name)
					}
				}
			}
		}
	case *ast.DeferStmt:
		call := x.Call
		cond := in.unknown > 0
		if se, ok := call.Fun.(*ast.SelectorExpr); ok && (se.Sel.Name == "Unlock" || se.Sel.Name == "RUnlock") {
			if b := in.eval(fr, se.X); b.kind == "field" && in.mutexes[b.s] && !cond {
				fr.deferUnlock[b.s]++
			}
		}
		directUnlock := false // defer x.Unlock(): counted above
		if se, ok := call.Fun.(*ast.SelectorExpr); ok {
			directUnlock = isUnlockName(se.Sel.Name)
		}
		if in.track != nil && !cond && !directUnlock {
			// defer func() { …; recv.mu.Unlock() }() or defer recv.unlockHelper(): which mutexes the deferred call
			// releases is found by running it on the side; the state is put back afterwards
			nEv, nNotes, nPath, nGuards := len(in.ev), len(in.notes), len(in.path), len(in.guards)
			unknown, afterExit, async, depth, nextBranch := in.unknown, in.afterExit, in.async, in.depth, in.nextBranch
			held, heldW := map[string]int{}, map[string]int{}
			for k, n := range in.held {
				held[k] = n
			}
			for k, n := range in.heldW {
				heldW[k] = n
			}
			condReturn := fr.condReturn
			in.evalCall(fr, call, false)
			for k := range in.mutexes {
				if d := held[k] - in.held[k]; d > 0 {
					fr.deferUnlock[k] += d
				}
			}
			in.ev, in.notes, in.path, in.guards = in.ev[:nEv], in.notes[:nNotes], in.path[:nPath], in.guards[:nGuards]
			in.unknown, in.afterExit, in.async, in.depth, in.nextBranch = unknown, afterExit, async, depth, nextBranch
			in.held, in.heldW, fr.condReturn = held, heldW, condReturn
		}
		fr.defers = append(fr.defers, func() {
			if cond {
				in.unknown++
				defer func() { in.unknown-- }()
			}
			in.evalCall(fr, call, false)
		})
	case *ast.GoStmt:
		in.async++
		in.evalCall(fr, x.Call, true)
		in.async--
	case *ast.ReturnStmt:
		v := unknownVal
		for i, r := range x.Results {
			rv := in.eval(fr, r)
			in.watchEscape(rv, "returned")
			if i == 0 {
				v = rv
			}
		}
		return sigReturn, v
	case *ast.BranchStmt:
		switch x.Tok {
		case token.CONTINUE:
			return sigContinue, unknownVal
		case token.BREAK:
			return sigBreak, unknownVal
		default:
			in.emit(aevent{kind: "other", name: "goto/fallthrough"})
		}
	case *ast.BlockStmt:
		return in.block(fr, x.List)
	case *ast.IfStmt:
		if x.Init != nil {
			in.stmt(fr, x.Init)
		}
		c := in.eval(fr, x.Cond)
		var els []ast.Stmt
		if x.Else != nil {
			els = []ast.Stmt{x.Else}
		}
		switch {
		case c.kind == "const" && c.s == "true":
			return in.block(fr, x.Body.List)
		case c.kind == "const" && c.s == "false":
			return in.block(fr, els)
		default:
			g, ng := "", ""
			if c.kind == "sym" {
				g, ng = c.s, "!"+c.s
			}
			in.nextBranch++
			ifID := in.nextBranch
			in.pendIf = &pathElem{ifID, 0}
			s1, v1 := in.branch(fr, x.Body.List, g)
			in.pendIf = &pathElem{ifID, 1}
			s2, _ := in.branch(fr, els, ng)
			if s1 == sigContinue && s2 == sigContinue || s1 == sigBreak && s2 == sigBreak {
				return s1, v1
			}
			if s1 != sigNone || s2 != sigNone {
				in.unknown++ // a conditional continue / break: the rest of the loop body is conditional
			}
		}
	case *ast.SwitchStmt:
		if x.Init != nil {
			in.stmt(fr, x.Init)
		}
		tag := aval{kind: "const", s: "true"}
		if x.Tag != nil {
			tag = in.eval(fr, x.Tag)
		}
		var def *ast.CaseClause
		decided := tag.kind == "const"
		var chosen *ast.CaseClause
		for _, c := range x.Body.List {
			cc := c.(*ast.CaseClause)
			if cc.List == nil {
				def = cc
				continue
			}
			for _, e := range cc.List {
				v := in.eval(fr, e)
				if v.kind != "const" {
					decided = false
				} else if decided && chosen == nil && v.s == tag.s {
					chosen = cc
				}
			}
		}
		if decided {
			if chosen == nil {
				chosen = def
			}
			if chosen != nil {
				sig, v := in.block(fr, chosen.Body)
				if sig == sigBreak {
					sig = sigNone
				}
				return sig, v
			}
			return sigNone, unknownVal
		}
		for _, c := range x.Body.List {
			in.branch(fr, c.(*ast.CaseClause).Body, "")
		}
	case *ast.TypeSwitchStmt:
		for _, c := range x.Body.List {
			in.branch(fr, c.(*ast.CaseClause).Body, "")
		}
	case *ast.RangeStmt:
		src := in.evalRead(fr, x.X, "range")
		in.trackMapRead(src, "range")
		bind := func(v aval) {
			if id, ok := x.Value.(*ast.Ident); ok && id.Name != "_" {
				fr.env[id.Name] = v
			}
			if id, ok := x.Key.(*ast.Ident); ok && id.Name != "_" {
				fr.env[id.Name] = unknownVal
			}
		}
		switch src.kind {
		case "levels":
			for _, c := range src.cs {
				bind(aval{kind: "const", s: c})
				if sig, v := in.block(fr, x.Body.List); sig == sigBreak {
					break
				} else if sig == sigReturn {
					in.unknown++
					_ = v
				}
			}
		case "list":
			order := []string{in.levelConst[0], in.levelConst[1]}
			if in.itemOrder == 1 {
				order[0], order[1] = order[1], order[0]
			}
			for _, lv := range order {
				bind(aval{kind: "item", s: lv, list: src.list})
				if id, ok := x.Key.(*ast.Ident); ok && id.Name != "_" {
					fr.env[id.Name] = aval{kind: "index", s: lv, list: src.list}
				}
				if sig, _ := in.block(fr, x.Body.List); sig == sigBreak {
					in.unknown++ // leaving the loop early: the remaining items are not visited
					break
				} else if sig == sigReturn {
					in.unknown++
				}
			}
		default:
			bind(unknownVal)
			in.branch(fr, x.Body.List, "")
		}
	case *ast.ForStmt:
		// for i := 0; i < len(list); i++ { … list[i] … } is a range over the list
		if be, ok := x.Cond.(*ast.BinaryExpr); ok && be.Op == token.LSS && x.Init != nil && x.Post != nil {
			if iv, ok := be.X.(*ast.Ident); ok {
				if lc, ok := be.Y.(*ast.CallExpr); ok && exprString(lc.Fun) == "len" && len(lc.Args) == 1 {
					if src := in.evalRead(fr, lc.Args[0], "len"); src.kind == "list" {
						order := []string{in.levelConst[0], in.levelConst[1]}
						if in.itemOrder == 1 {
							order[0], order[1] = order[1], order[0]
						}
						for _, lv := range order {
							fr.env[iv.Name] = aval{kind: "index", s: lv, list: src.list}
							if sig, _ := in.block(fr, x.Body.List); sig == sigBreak {
								in.unknown++
								break
							} else if sig == sigReturn {
								in.unknown++
							}
						}
						return sigNone, unknownVal
					}
				}
			}
		}
		if x.Init != nil {
			in.stmt(fr, x.Init)
		}
		if x.Cond != nil {
			in.eval(fr, x.Cond)
		}
		in.branch(fr, x.Body.List, "")
	case *ast.SendStmt:
		in.emit(aevent{kind: "block", name: "channel send"})
	case *ast.SelectStmt:
		in.emit(aevent{kind: "block", name: "select"})
		for _, c := range x.Body.List {
			in.branch(fr, c.(*ast.CommClause).Body, "")
		}
	case *ast.IncDecStmt:
		in.lvalue(fr, x.X)
	case *ast.LabeledStmt:
		return in.stmt(fr, x.Stmt)
	case *ast.EmptyStmt:
	default:
		in.emit(aevent{kind: "other", name: fmt.Sprintf("statement %T", st)})
	}
	return sigNone, unknownVal
}

// lvalue: a store through a selector / index expression (reads the base).
func (in *interp) lvalue(fr *frame, e ast.Expr) {
	if se, ok := e.(*ast.SelectorExpr); ok {
		if b := in.eval(fr, se.X); b.kind == "recv" && se.Sel.Name == in.listField {
			in.emit(aevent{kind: "hwrite", name: se.Sel.Name})
			return
		} else if b.kind == "recv" && (in.watch != nil || in.watchSeen != nil) {
			in.watchAccess(se, se.Sel.Name, "store")
		} else if b.kind == "recv" && in.track != nil {
			switch {
			case in.track.maps[se.Sel.Name]:
				in.emit(aevent{kind: "mapstore", name: se.Sel.Name, op: "replace"})
			case in.track.ints[se.Sel.Name]:
				in.emit(aevent{kind: "fieldstore", name: se.Sel.Name})
			}
		}
		return
	}
	if ix, ok := e.(*ast.IndexExpr); ok && in.track != nil {
		// m[k] = v with m a tracked map of the receiver (directly or through a local alias): a store, not a read
		in.eval(fr, ix.Index)
		in.quiet++
		b := in.eval(fr, ix.X)
		in.quiet--
		if b.kind == "field" && in.track.maps[b.s] {
			in.emit(aevent{kind: "mapstore", name: b.s, op: "index"})
		}
		return
	}
	in.eval(fr, e)
}

// trackMapRead records a read of a tracked map the value v stands for.
func (in *interp) trackMapRead(v aval, op string) {
	if in.track != nil && v.kind == "field" && in.track.maps[v.s] {
		in.emit(aevent{kind: "mapread", name: v.s, op: op})
	}
}

// trackCall records what a method call on some value means for the tracked facts (before the call is recorded as
// `other`): the write to the connection, an atomic add on a field of an atomic type, a call on a field.
func (in *interp) trackCall(base aval, name, callee string) {
	if in.track == nil {
		return
	}
	if name == in.track.writeMethod {
		in.emit(aevent{kind: "connwrite", name: callee})
	}
	if base.kind == "field" {
		if in.track.atomics[base.s] && name == "Add" {
			in.emit(aevent{kind: "atomicadd", name: base.s})
		}
		in.emit(aevent{kind: "fieldcall", name: base.s, op: name})
	}
}

func (in *interp) isListField(fr *frame, e ast.Expr) bool {
	se, ok := e.(*ast.SelectorExpr)
	if !ok || se.Sel.Name != in.listField || in.listField == "" {
		return false
	}
	return in.eval(fr, se.X).kind == "recv"
}

// evalRead evaluates e; if e is the receiver's handler list the read is recorded with its context.
func (in *interp) evalRead(fr *frame, e ast.Expr, ctx string) aval {
	if in.isListField(fr, e) {
		in.emit(aevent{kind: "hread", op: ctx})
		return aval{kind: "list", list: &alist{origin: "alias"}}
	}
	return in.eval(fr, e)
}

func (in *interp) eval(fr *frame, e ast.Expr) aval {
	switch x := e.(type) {
	case *ast.Ident:
		if v, ok := fr.env[x.Name]; ok {
			return v
		}
		switch x.Name {
		case "true", "false":
			return aval{kind: "const", s: x.Name}
		case "nil":
			return aval{kind: "const", s: "nil"}
		}
		if init, ok := in.pkg.vars[x.Name]; ok {
			return in.eval(&frame{env: map[string]aval{}}, init)
		}
		return unknownVal
	case *ast.ParenExpr:
		return in.eval(fr, x.X)
	case *ast.BasicLit:
		return aval{kind: "const", s: x.Value}
	case *ast.SelectorExpr:
		if id, ok := x.X.(*ast.Ident); ok {
			if _, local := fr.env[id.Name]; !local {
				if _, isVar := in.pkg.vars[id.Name]; !isVar {
					return aval{kind: "const", s: id.Name + "." + x.Sel.Name} // pkg.Name
				}
			}
		}
		if in.isListField(fr, e) {
			in.emit(aevent{kind: "hread", op: "other"})
			return aval{kind: "list", list: &alist{origin: "alias"}}
		}
		b := in.eval(fr, x.X)
		switch b.kind {
		case "recv":
			if in.watch != nil || in.watchSeen != nil {
				in.watchAccess(x, x.Sel.Name, "load")
			}
			if in.track != nil && in.quiet == 0 {
				switch {
				case in.track.maps[x.Sel.Name]:
					in.emit(aevent{kind: "mapread", name: x.Sel.Name, op: "load"})
				case in.track.ints[x.Sel.Name]:
					in.emit(aevent{kind: "fieldload", name: x.Sel.Name})
				}
			}
			return aval{kind: "field", s: x.Sel.Name}
		case "item":
			return aval{kind: "itemfield", s: b.s, list: b.list, cs: []string{x.Sel.Name}}
		}
		return unknownVal
	case *ast.CompositeLit:
		if at, ok := x.Type.(*ast.ArrayType); ok && len(x.Elts) == 0 && at.Len == nil {
			return aval{kind: "list", list: &alist{origin: "fresh"}}
		}
		if at, ok := x.Type.(*ast.ArrayType); ok && len(x.Elts) > 0 {
			_ = at
			var cs []string
			for _, el := range x.Elts {
				v := in.eval(fr, el)
				if v.kind != "const" {
					cs = nil
					break
				}
				cs = append(cs, v.s)
			}
			if cs != nil {
				return aval{kind: "levels", cs: cs}
			}
		}
		for _, el := range x.Elts {
			if kv, ok := el.(*ast.KeyValueExpr); ok {
				in.eval(fr, kv.Value)
			} else {
				in.eval(fr, el)
			}
		}
		return unknownVal
	case *ast.FuncLit:
		return aval{kind: "func", lit: x, cl: fr}
	case *ast.CallExpr:
		return in.evalCall(fr, x, false)
	case *ast.UnaryExpr:
		if x.Op == token.ARROW {
			in.emit(aevent{kind: "block", name: "channel receive"})
			return unknownVal
		}
		v := in.eval(fr, x.X)
		if x.Op == token.NOT {
			if v.kind == "const" && (v.s == "true" || v.s == "false") {
				return aval{kind: "const", s: map[string]string{"true": "false", "false": "true"}[v.s]}
			}
			if v.kind == "sym" {
				return aval{kind: "sym", s: strings.TrimPrefix("!"+v.s, "!!")}
			}
		}
		if x.Op == token.AND {
			return v
		}
		return unknownVal
	case *ast.StarExpr:
		return in.eval(fr, x.X)
	case *ast.BinaryExpr:
		l, r := in.eval(fr, x.X), in.eval(fr, x.Y)
		lc, rc := in.asConst(l), in.asConst(r)
		b := func(v bool) aval { return aval{kind: "const", s: fmt.Sprint(v)} }
		switch x.Op {
		case token.EQL, token.NEQ:
			if l.kind == "lenpeers" && rc == "0" || r.kind == "lenpeers" && lc == "0" {
				if x.Op == token.EQL {
					return aval{kind: "sym", s: "nopeers"}
				}
				return aval{kind: "sym", s: "!nopeers"}
			}
			if lc != "" && rc != "" && in.comparable(lc) && in.comparable(rc) {
				return b((lc == rc) == (x.Op == token.EQL))
			}
		case token.LAND:
			if lc == "false" || rc == "false" {
				return b(false)
			}
			if lc == "true" && rc == "true" {
				return b(true)
			}
		case token.LOR:
			if lc == "true" || rc == "true" {
				return b(true)
			}
			if lc == "false" && rc == "false" {
				return b(false)
			}
		}
		return unknownVal
	case *ast.IndexExpr:
		ix := in.eval(fr, x.Index)
		if ix.kind == "index" {
			if b := in.eval(fr, x.X); b.kind == "list" && b.list == ix.list {
				return aval{kind: "item", s: ix.s, list: b.list} // list[i] inside `for i := range list`
			}
		}
		bv := in.evalRead(fr, x.X, "other")
		in.trackMapRead(bv, "index")
		if in.watch != nil && bv.kind == "field" && in.watch[bv.s] {
			return unknownVal // an element of a watched field, not the field
		}
		return bv
	case *ast.SliceExpr:
		return in.evalRead(fr, x.X, "other")
	case *ast.TypeAssertExpr:
		in.eval(fr, x.X)
		return unknownVal
	case *ast.KeyValueExpr:
		return in.eval(fr, x.Value)
	}
	return unknownVal
}

// comparable: constants the interpreter may compare by name (level constants, booleans, numbers).
func (in *interp) comparable(c string) bool {
	return c == in.levelConst[0] || c == in.levelConst[1] || c == "true" || c == "false" || (len(c) > 0 && c[0] >= '0' && c[0] <= '9')
}

// asConst: the constant an abstract value stands for ("" if none): constants and the level field of an abstract item.
func (in *interp) asConst(v aval) string {
	switch v.kind {
	case "const":
		return v.s
	case "itemfield":
		if len(v.cs) == 1 && (v.cs[0] == in.levelField || in.levelField == "" && strings.EqualFold(v.cs[0], "level")) {
			return v.s
		}
	}
	return ""
}

func (in *interp) evalArgs(fr *frame, args []ast.Expr) []aval {
	var vs []aval
	for _, a := range args {
		vs = append(vs, in.eval(fr, a))
	}
	return vs
}

// callbacks interprets function literals handed to a call the interpreter does not follow: they may run any number of times.
func (in *interp) callbacks(fr *frame, vs []aval) {
	for _, v := range vs {
		if v.kind == "func" {
			in.unknown++
			in.nextBranch++
			in.path = append(in.path, pathElem{id: in.nextBranch})
			sub := &frame{env: map[string]aval{}, recv: fr.recv, rname: fr.rname}
			for k, x := range fr.env {
				sub.env[k] = x
			}
			for _, fl := range v.lit.Type.Params.List {
				for _, n := range fl.Names {
					sub.env[n.Name] = unknownVal
				}
			}
			in.runBody(sub, v.lit.Body)
			in.path = in.path[:len(in.path)-1]
			in.unknown--
		}
	}
}

func (in *interp) evalCall(fr *frame, c *ast.CallExpr, isGo bool) aval {
	mode := "plain"
	if in.async > 0 {
		mode = "go"
	}
	switch fun := c.Fun.(type) {
	case *ast.FuncLit: // func(){…}() — also the body of `go func(){…}()`
		return in.callLit(fr, aval{kind: "func", lit: fun, cl: fr}, in.evalArgs(fr, c.Args))
	case *ast.ArrayType: // conversion []T(x)
		vs := in.evalArgs(fr, c.Args)
		if len(vs) == 1 && (vs[0].kind == "list" || vs[0].kind == "levels") {
			return vs[0]
		}
		return aval{kind: "list", list: &alist{origin: "fresh"}}
	case *ast.ParenExpr:
		in.emit(aevent{kind: "other", name: "call of a parenthesised expression"})
		return unknownVal
	case *ast.Ident:
		switch fun.Name {
		case "len":
			if len(c.Args) == 1 {
				if se, ok := c.Args[0].(*ast.SelectorExpr); ok && se.Sel.Name == in.peersField && in.eval(fr, se.X).kind == "recv" {
					return aval{kind: "lenpeers"}
				}
				in.trackMapRead(in.evalRead(fr, c.Args[0], "len"), "len")
			}
			return unknownVal
		case "make":
			if len(c.Args) >= 1 {
				for _, a := range c.Args[1:] {
					in.eval(fr, a)
				}
				if at, ok := c.Args[0].(*ast.ArrayType); ok && at.Len == nil {
					return aval{kind: "list", list: &alist{origin: "fresh"}}
				}
			}
			return unknownVal
		case "copy":
			if len(c.Args) == 2 {
				dst := in.eval(fr, c.Args[0])
				if in.isListField(fr, c.Args[1]) {
					in.emit(aevent{kind: "hread", op: "copysrc"})
					if dst.kind == "list" && dst.list.origin == "fresh" {
						dst.list.origin = "snapshot"
						dst.list.copiedUnderMu = len(in.heldNames()) > 0
					}
				} else {
					in.eval(fr, c.Args[1])
				}
			}
			return unknownVal
		case "append":
			if len(c.Args) == 2 && c.Ellipsis.IsValid() && in.isListField(fr, c.Args[1]) {
				if first := in.eval(fr, c.Args[0]); first.kind == "const" && first.s == "nil" || first.kind == "list" && first.list.origin == "fresh" {
					in.emit(aevent{kind: "hread", op: "copysrc"}) // append([]T(nil), list...): a copy
					return aval{kind: "list", list: &alist{origin: "snapshot", copiedUnderMu: len(in.heldNames()) > 0}}
				}
			}
			vs := []aval{}
			for i, a := range c.Args {
				if i == 0 {
					vs = append(vs, in.evalRead(fr, a, "other"))
				} else {
					vs = append(vs, in.eval(fr, a))
				}
			}
			if len(vs) > 0 && vs[0].kind == "list" {
				return vs[0]
			}
			return unknownVal
		case "delete", "cap", "new", "panic", "print", "println", "min", "max", "clear":
			if in.track != nil && (fun.Name == "delete" || fun.Name == "clear") && len(c.Args) >= 1 {
				in.quiet++
				b := in.eval(fr, c.Args[0])
				in.quiet--
				in.evalArgs(fr, c.Args[1:])
				if b.kind == "field" && in.track.maps[b.s] {
					in.emit(aevent{kind: "mapdelete", name: b.s, op: fun.Name})
				}
				return unknownVal
			}
			in.evalArgs(fr, c.Args)
			return unknownVal
		}
		if fd, ok := in.pkg.funcs[fun.Name]; ok {
			v := in.inline(fr, fun.Name, fd, unknownVal, c.Args)
			return v
		}
		if v, ok := fr.env[fun.Name]; ok && v.kind == "func" {
			// a function value called directly runs exactly once, here
			return in.callLit(fr, v, in.evalArgs(fr, c.Args))
		}
		// a conversion T(x) or a call of something unknown
		vs := in.evalArgs(fr, c.Args)
		if len(c.Args) == 1 && (ast.IsExported(fun.Name) || in.pkg.structs[fun.Name] != nil || isBasicType(fun.Name)) {
			return vs[0]
		}
		in.emit(aevent{kind: "other", name: fun.Name, op: mode})
		in.callbacks(fr, vs)
		return unknownVal
	case *ast.SelectorExpr:
		name := fun.Sel.Name
		// pkg.Func(...)
		if id, ok := fun.X.(*ast.Ident); ok {
			if _, local := fr.env[id.Name]; !local {
				if _, isVar := in.pkg.vars[id.Name]; !isVar && id.Name != "Events" {
					full := id.Name + "." + name
					if full == "slices.Clone" && len(c.Args) == 1 && in.isListField(fr, c.Args[0]) {
						in.emit(aevent{kind: "hread", op: "clone"})
						return aval{kind: "list", list: &alist{origin: "snapshot", copiedUnderMu: len(in.heldNames()) > 0}}
					}
					var vs []aval
					for i, a := range c.Args {
						if i == 0 && strings.HasPrefix(full, "slices.") {
							vs = append(vs, in.evalRead(fr, a, "other"))
						} else if i == 0 && in.track != nil && id.Name == "atomic" {
							in.quiet++ // the operand of an atomic operation is not a plain load
							vs = append(vs, in.eval(fr, a))
							in.quiet--
						} else {
							vs = append(vs, in.eval(fr, a))
						}
					}
					if in.track != nil && id.Name == "atomic" && strings.HasPrefix(name, "Add") && len(vs) > 0 && vs[0].kind == "field" {
						in.emit(aevent{kind: "atomicadd", name: vs[0].s})
					}
					if !in.pure[full] && !strings.HasPrefix(full, "slices.") {
						k := "other"
						if strings.HasSuffix(name, "Sleep") || name == "Wait" {
							k = "block"
						}
						in.emit(aevent{kind: k, name: full, op: mode})
					}
					in.callbacks(fr, vs)
					if len(vs) > 0 && vs[0].kind == "list" && strings.HasPrefix(full, "slices.") {
						return vs[0]
					}
					return unknownVal
				}
				if id.Name == "Events" { // the process-wide bus, from outside events.go
					vs := in.evalArgs(fr, c.Args)
					if (name == "subscribe" || name == "unsubscribe") && len(vs) == 2 {
						k := map[string]string{"subscribe": "coresub", "unsubscribe": "coreunsub"}[name]
						lvl := in.asConst(vs[0])
						self := vs[1].kind == "recv"
						if lvl == in.levelConst[0] && self {
							in.emit(aevent{kind: k})
							return unknownVal
						}
					}
					in.emit(aevent{kind: "other", name: "Events." + name, op: mode})
					return unknownVal
				}
			}
		}
		// x.Handler.HandleEvent(payload): a handler invocation
		if name == "HandleEvent" {
			base := in.eval(fr, fun.X)
			in.evalArgs(fr, c.Args)
			ev := aevent{kind: "deliver", op: mode, level: "unknown"}
			if base.kind == "itemfield" {
				ev.level, ev.list = base.s, base.list
			}
			in.emit(ev)
			return unknownVal
		}
		_, directSel := fun.X.(*ast.SelectorExpr)
		if in.track != nil && directSel {
			in.quiet++ // recv.field.Op(...) is a call on the field, recorded as such, not a load of it
		}
		base := in.eval(fr, fun.X)
		if in.track != nil && directSel {
			in.quiet--
		}
		switch base.kind {
		case "field": // recv.field.Op(...)
			vs := in.evalArgs(fr, c.Args)
			if in.mutexes[base.s] && (name == "Lock" || name == "Unlock" || name == "RLock" || name == "RUnlock") {
				if name == "Lock" || name == "RLock" {
					in.emit(aevent{kind: "lock", name: base.s, op: name})
					in.held[base.s]++
					if name == "Lock" {
						in.heldW[base.s]++
					}
				} else {
					in.held[base.s]--
					if name == "Unlock" {
						in.heldW[base.s]--
					}
					in.emit(aevent{kind: "lock", name: base.s, op: name})
				}
				return unknownVal
			}
			k := "other"
			if name == "Wait" || name == "Lock" || name == "RLock" || name == "Acquire" {
				k = "block"
			}
			in.trackCall(base, name, "recv."+base.s+"."+name)
			in.emit(aevent{kind: k, name: "recv." + base.s + "." + name, op: mode})
			in.callbacks(fr, vs)
			return unknownVal
		case "recv": // recv.method(...)
			if fd, ok := in.pkg.funcs[fr.recvOf(in, base)+"."+name]; ok {
				return in.inline(fr, name, fd, base, c.Args)
			}
		}
		// a method of some other value of this package (e.g. item.matches(...)): follow it if the name is unambiguous
		if rts := in.pkg.methods[name]; len(rts) == 1 && !ast.IsExported(name) {
			return in.inline(fr, name, in.pkg.funcs[rts[0]+"."+name], base, c.Args)
		}
		vs := in.evalArgs(fr, c.Args)
		k := "other"
		if name == "Wait" {
			k = "block"
		}
		in.trackCall(base, name, exprString(fun))
		in.emit(aevent{kind: k, name: exprString(fun), op: mode})
		in.callbacks(fr, vs)
		return unknownVal
	}
	in.evalArgs(fr, c.Args)
	in.emit(aevent{kind: "other", name: fmt.Sprintf("call %T", c.Fun), op: mode})
	return unknownVal
}

// callLit runs a function literal once, in the environment it was created in.
func (in *interp) callLit(fr *frame, v aval, args []aval) aval {
	def := v.cl
	if def == nil {
		def = fr
	}
	sub := &frame{env: map[string]aval{}, recv: def.recv, rname: def.rname}
	for k, x := range def.env {
		sub.env[k] = x
	}
	i := 0
	for _, fl := range v.lit.Type.Params.List {
		for _, n := range fl.Names {
			if i < len(args) {
				sub.env[n.Name] = args[i]
			} else {
				sub.env[n.Name] = unknownVal
			}
			i++
		}
	}
	return in.runBody(sub, v.lit.Body)
}

func (fr *frame) recvOf(in *interp, v aval) string {
	if v.s != "" {
		return v.s
	}
	return fr.recv
}

func (in *interp) inline(fr *frame, name string, fd *ast.FuncDecl, recv aval, args []ast.Expr) aval {
	vs := in.evalArgs(fr, args)
	lvl := ""
	if len(vs) > 0 {
		lvl = in.asConst(vs[0])
	}
	in.emit(aevent{kind: "inline", name: name, level: lvl})
	if recv.kind == "recv" && recv.s == "" {
		recv.s = fr.recv
	}
	return in.call(fd, recv, vs)
}

func isUnlockName(n string) bool { return n == "Unlock" || n == "RUnlock" }

func isBasicType(n string) bool {
	switch n {
	case "string", "int", "uint", "int64", "uint64", "float64", "bool", "byte", "rune", "int32", "uint32", "uint16", "uint8":
		return true
	}
	return false
}

func newInterp(p *pkgInfo, mutexes map[string]bool, listField string, order int) *interp {
	return &interp{pkg: p, held: map[string]int{}, heldW: map[string]int{}, itemOrder: order, mutexes: mutexes, listField: listField,
		levelConst: []string{"api.EventHandlerLevelCore", "api.EventHandlerLevelApplication"},
		pure:       map[string]bool{"reflect.DeepEqual": true, "reflect.ValueOf": true, "fmt.Sprintf": true, "errors.New": true}}
}

// run interprets method typ.name (or function name when typ is "").
func (in *interp) run(typ, name string, args []aval) bool {
	key := name
	if typ != "" {
		key = typ + "." + name
	}
	fd, ok := in.pkg.funcs[key]
	if !ok {
		in.note("%s not found in the package", key)
		return false
	}
	if args == nil {
		for _, fl := range fd.Type.Params.List {
			for range fl.Names {
				args = append(args, unknownVal)
			}
		}
	}
	in.call(fd, aval{kind: "recv", s: typ}, args)
	return true
}

// stmtCall returns "r.mu.Lock" for the statement `r.mu.Lock()` (also inside go / defer), "" otherwise.
// (purely syntactic helper, used by other generators)
func stmtCall(s ast.Stmt) (name string, kind string) {
	switch x := s.(type) {
	case *ast.ExprStmt:
		if c, ok := x.X.(*ast.CallExpr); ok {
			return exprString(c.Fun), "call"
		}
	case *ast.DeferStmt:
		return exprString(x.Call.Fun), "defer"
	case *ast.GoStmt:
		return exprString(x.Call.Fun), "go"
	}
	return "", ""
}

// allCalls lists every call in a function body in source order as kind:name (syntactic).
func allCalls(fd *ast.FuncDecl) []string {
	var out []string
	goCalls := map[*ast.CallExpr]string{}
	ast.Inspect(fd.Body, func(n ast.Node) bool {
		switch x := n.(type) {
		case *ast.GoStmt:
			goCalls[x.Call] = "go"
		case *ast.DeferStmt:
			goCalls[x.Call] = "defer"
		case *ast.CallExpr:
			k := goCalls[x]
			if k == "" {
				k = "call"
			}
			out = append(out, k+":"+exprString(x.Fun))
		}
		return true
	})
	return out
}
