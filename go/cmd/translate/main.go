// Command translate regenerates, from /repo's current sources (the module's
// replace directive decides which tree), the parts of the Lean model that are
// tables or structural facts. Output: Lean source files under -out.
//
// Each generator lives in its own file gen_<name>.go and registers itself in
// init(); `translate -out dir name1 name2` runs the named ones, no names = all.
package main

import (
	"flag"
	"fmt"
	"os"
	"path/filepath"
	"sort"
)

type generator func(outDir string) (summary string, err error)

var generators = map[string]generator{}

func register(name string, g generator) { generators[name] = g }

// RepoDir is the source tree the translator reads with go/ast (reflection
// uses the compiled-in packages, which come from the same tree).
func RepoDir() string {
	if d := os.Getenv("VERIF_REPO"); d != "" {
		return d
	}
	return "/repo"
}

func writeFile(outDir, name, content string) error {
	if err := os.MkdirAll(outDir, 0o755); err != nil {
		return err
	}
	return os.WriteFile(filepath.Join(outDir, name), []byte(content), 0o644)
}

func main() {
	out := flag.String("out", "", "output directory (lean/Spine/Generated)")
	flag.Parse()
	if *out == "" {
		fmt.Fprintln(os.Stderr, "usage: translate -out <dir> [generator...]")
		os.Exit(2)
	}
	names := flag.Args()
	if len(names) == 0 {
		for n := range generators {
			names = append(names, n)
		}
		sort.Strings(names)
	}
	for _, n := range names {
		g, ok := generators[n]
		if !ok {
			fmt.Fprintf(os.Stderr, "unknown generator %q\n", n)
			os.Exit(2)
		}
		s, err := g(*out)
		if err != nil {
			fmt.Fprintf(os.Stderr, "generator %s: %v\n", n, err)
			os.Exit(1)
		}
		fmt.Printf("generated %s: %s\n", n, s)
	}
}
