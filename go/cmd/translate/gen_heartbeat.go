package main

// G7 for the heartbeat manager (C16): the critical-section facts behind the choice of the member
// of Spine.HB (start / stop as ONE event each), the shape of the heartbeat goroutine and the
// period rule, extracted from package spine with go/ast.
//
// The facts are semantic, not textual. The manager type is the type that has the exported
// methods StartHeartbeat and StopHeartbeat (api.HeartbeatManagerInterface: names a refactoring
// cannot change); its stop channel(s) are its fields of a channel type, its mutexes its fields
// of type sync.Mutex / sync.RWMutex - whatever they are called. Each operation is flattened
// into a trace of events in source order - lock / unlock (with the number of the critical
// section), nil-comparison of the channel, non-blocking receive from it (select with default),
// close, creation (make assigned to the field, directly or through a local), `go` - following
// calls to methods on the same receiver, package-level functions and immediately invoked
// function literals four levels deep, with channel values tracked through locals and
// parameters. A deferred unlock takes effect at the end of the frame that registered it; a
// branch that ends in a return is interpreted on a copy of the lock state, so "defer unlock"
// and "unlock before every return" are the same thing.
//
// A fact that cannot be established is false and a note says why.

import (
	"fmt"
	"go/ast"
	"go/token"
	"sort"
	"strconv"
	"strings"
)

func init() { register("heartbeat", genHeartbeat) }

type hbEv struct {
	kind   string // lock unlock nilcheck poll wait close make spawn read return atomic store
	detail string
	held   map[string]int
	depth  int // inlining depth of the frame that produced the event
	fun    string // spawn / callelem only, opt-in (hbInterp.elemFields): "elem:<field>" = the function started is an element of that field; "static" | "dynamic"
}

type hbFrame struct {
	fd    *ast.FuncDecl
	recv  string
	alias map[string]string // local name -> "field:<f>" | "new" | "param"
	depth int
}

type hbInterp struct {
	funcs     map[string]*ast.FuncDecl
	typ       string
	chans     map[string]bool
	mutexes   map[string]bool
	counters  map[string]bool // integer fields (candidates for the heartbeat counter)
	trace     []hbEv
	held      map[string]int
	epoch     map[string]int
	spawned   *ast.FuncDecl
	spawnArgs []string // per argument of the go call: "" or the channel value passed
	stopParam string   // name of the channel parameter of the spawned function
	depth     int
	timerFns  []*ast.FuncLit // closures handed to time.AfterFunc
	guardVar  string         // local that holds the result of the timer's Stop()
	guarded   bool           // on this path the result of Stop() has been tested and was true
	// opt-in (gen_approval): fields holding a collection of functions; a local that ranges over such a field (or over a
	// copy of it) is aliased "elem:<field>", and a `go` / call of it is marked in the event's fun
	elemFields map[string]bool
}

// elemSource: the expression denotes a tracked collection field, a local alias of it, or a copy made of it
// (append(x, f...), slices.Clone(f), a slice expression f[:])
func (in *hbInterp) elemSource(fr *hbFrame, e ast.Expr) string {
	if in.elemFields == nil {
		return ""
	}
	switch x := hbUnparen(e).(type) {
	case *ast.SelectorExpr:
		if id, ok := x.X.(*ast.Ident); ok && id.Name == fr.recv && fr.recv != "" && in.elemFields[x.Sel.Name] {
			return "field:" + x.Sel.Name
		}
	case *ast.Ident:
		if v := fr.alias[x.Name]; strings.HasPrefix(v, "field:") && in.elemFields[v[6:]] {
			return v
		}
	case *ast.SliceExpr:
		return in.elemSource(fr, x.X)
	case *ast.CallExpr:
		for _, a := range x.Args {
			if v := in.elemSource(fr, a); v != "" {
				return v
			}
		}
	}
	return ""
}

// elemFun: the function expression of a call is an element of a tracked collection ("" = no)
func (in *hbInterp) elemFun(fr *hbFrame, f ast.Expr) string {
	if in.elemFields == nil {
		return ""
	}
	switch x := hbUnparen(f).(type) {
	case *ast.Ident:
		if v := fr.alias[x.Name]; strings.HasPrefix(v, "elem:") {
			return v
		}
	case *ast.IndexExpr:
		if v := in.elemSource(fr, x.X); v != "" {
			return "elem:" + v[6:]
		}
	}
	return ""
}

func (in *hbInterp) emit(kind, detail string) {
	if (kind == "send" || kind == "store") && in.guarded {
		detail += " [stopped]"
	}
	h := map[string]int{}
	for k, v := range in.held {
		h[k] = v
	}
	in.trace = append(in.trace, hbEv{kind: kind, detail: detail, held: h, depth: in.depth})
}

func hbUnparen(e ast.Expr) ast.Expr {
	for {
		p, ok := e.(*ast.ParenExpr)
		if !ok {
			return e
		}
		e = p.X
	}
}

// chanOf: which channel value an expression denotes ("" = none)
func (in *hbInterp) chanOf(fr *hbFrame, e ast.Expr) string {
	switch x := hbUnparen(e).(type) {
	case *ast.SelectorExpr:
		if id, ok := x.X.(*ast.Ident); ok && id.Name == fr.recv && fr.recv != "" && in.chans[x.Sel.Name] {
			return "field:" + x.Sel.Name
		}
	case *ast.Ident:
		return fr.alias[x.Name]
	}
	return ""
}

func (in *hbInterp) mutexOf(fr *hbFrame, e ast.Expr) string {
	if s, ok := hbUnparen(e).(*ast.SelectorExpr); ok {
		if id, ok := s.X.(*ast.Ident); ok && id.Name == fr.recv && in.mutexes[s.Sel.Name] {
			return s.Sel.Name
		}
	}
	return "?" + exprString(e)
}

func hbIsNil(e ast.Expr) bool {
	id, ok := hbUnparen(e).(*ast.Ident)
	return ok && id.Name == "nil"
}

func hbIsMakeChan(e ast.Expr) bool {
	c, ok := hbUnparen(e).(*ast.CallExpr)
	if !ok || exprString(c.Fun) != "make" || len(c.Args) == 0 {
		return false
	}
	_, isChan := c.Args[0].(*ast.ChanType)
	return isChan
}

func (in *hbInterp) walkFunc(fr *hbFrame) {
	if fr.fd == nil || fr.fd.Body == nil {
		return
	}
	saved := in.depth
	in.depth = fr.depth
	defer func() { in.depth = saved }()
	var defers []string
	in.walkBlock(fr, fr.fd.Body.List, &defers)
	for i := len(defers) - 1; i >= 0; i-- {
		delete(in.held, defers[i])
		in.emit("unlock", defers[i])
	}
}

func (in *hbInterp) branch(fr *hbFrame, list []ast.Stmt, defers *[]string) {
	if elTerminates(&ast.BlockStmt{List: list}) {
		saved := map[string]int{}
		for k, v := range in.held {
			saved[k] = v
		}
		in.walkBlock(fr, list, defers)
		in.held = saved
		return
	}
	in.walkBlock(fr, list, defers)
}

func (in *hbInterp) walkBlock(fr *hbFrame, list []ast.Stmt, defers *[]string) {
	for _, st := range list {
		in.walkStmt(fr, st, defers)
	}
}

// recvFrom: the statement of a select case receives from a tracked channel
func (in *hbInterp) recvFrom(fr *hbFrame, st ast.Stmt) (string, ast.Expr) {
	var e ast.Expr
	switch x := st.(type) {
	case *ast.ExprStmt:
		e = x.X
	case *ast.AssignStmt:
		if len(x.Rhs) == 1 {
			e = x.Rhs[0]
		}
	}
	if u, ok := hbUnparen(e).(*ast.UnaryExpr); ok && u.Op == token.ARROW {
		return in.chanOf(fr, u.X), u.X
	}
	return "", nil
}

func (in *hbInterp) walkStmt(fr *hbFrame, st ast.Stmt, defers *[]string) {
	switch x := st.(type) {
	case nil:
	case *ast.DeferStmt:
		if s, ok := x.Call.Fun.(*ast.SelectorExpr); ok && (s.Sel.Name == "Unlock" || s.Sel.Name == "RUnlock") && len(x.Call.Args) == 0 {
			*defers = append(*defers, in.mutexOf(fr, s.X))
			return
		}
		if fl, ok := x.Call.Fun.(*ast.FuncLit); ok {
			ast.Inspect(fl.Body, func(n ast.Node) bool {
				if c, ok := n.(*ast.CallExpr); ok {
					if s, ok := c.Fun.(*ast.SelectorExpr); ok && (s.Sel.Name == "Unlock" || s.Sel.Name == "RUnlock") && len(c.Args) == 0 {
						*defers = append(*defers, in.mutexOf(fr, s.X))
					}
				}
				return true
			})
		}
	case *ast.ExprStmt:
		if c, ok := x.X.(*ast.CallExpr); ok {
			if sel, ok := c.Fun.(*ast.SelectorExpr); ok && sel.Sel.Name == "Stop" && len(c.Args) == 0 {
				in.walkExpr(fr, sel.X)
				in.emit("stop", "discarded")
				return
			}
		}
		in.walkExpr(fr, x.X)
	case *ast.AssignStmt:
		for _, l := range x.Lhs {
			if ix, ok := hbUnparen(l).(*ast.IndexExpr); ok {
				if c := in.chanOf(fr, hbIndexBase(ix)); c != "" {
					for _, r := range x.Rhs {
						in.walkExpr(fr, r)
					}
					in.emit("write", c)
					return
				}
			}
		}
		for i, r := range x.Rhs {
			var l ast.Expr
			if len(x.Lhs) == len(x.Rhs) {
				l = x.Lhs[i]
			}
			if c, ok := hbUnparen(r).(*ast.CallExpr); ok {
				if sel, ok := c.Fun.(*ast.SelectorExpr); ok && sel.Sel.Name == "Stop" && len(c.Args) == 0 {
					if id, ok := l.(*ast.Ident); ok && id.Name != "_" {
						in.guardVar = id.Name
					}
				}
			}
			lch := ""
			if l != nil {
				if s, ok := hbUnparen(l).(*ast.SelectorExpr); ok {
					if id, ok := s.X.(*ast.Ident); ok && id.Name == fr.recv && in.chans[s.Sel.Name] {
						lch = s.Sel.Name
					}
				}
			}
			switch {
			case hbIsMakeChan(r):
				if lch != "" {
					in.emit("make", lch)
				} else if id, ok := l.(*ast.Ident); ok {
					fr.alias[id.Name] = "new"
				}
			case in.chanOf(fr, r) != "":
				v := in.chanOf(fr, r)
				if lch != "" {
					if v == "new" {
						in.emit("make", lch)
					} else {
						in.emit("read", v)
						in.emit("overwrite", lch)
					}
				} else if id, ok := l.(*ast.Ident); ok {
					if strings.HasPrefix(v, "field:") {
						in.emit("read", v)
					}
					fr.alias[id.Name] = v
				}
			default:
				if lch != "" {
					if hbIsNil(r) {
						in.emit("clear", lch)
					} else {
						in.emit("overwrite", lch)
					}
				}
				in.walkExpr(fr, r)
				if ix, isIx := hbUnparen(r).(*ast.IndexExpr); isIx && lch == "" {
					// cb := r.callbacks[i]
					if src := in.elemSource(fr, ix.X); src != "" {
						if id, ok := l.(*ast.Ident); ok && id.Name != "_" {
							in.emit("read", src)
							fr.alias[id.Name] = "elem:" + src[6:]
						}
					}
				} else if src := in.elemSource(fr, r); src != "" && lch == "" {
					if id, ok := l.(*ast.Ident); ok && id.Name != "_" {
						in.emit("read", src)
						fr.alias[id.Name] = src
					}
				}
			}
		}
	case *ast.IfStmt:
		in.walkStmt(fr, x.Init, defers)
		in.walkExpr(fr, x.Cond)
		// the result of Stop(): `if !stopped { return }` guards what follows, `if stopped { … }` guards its body
		pos, neg := false, false
		if in.guardVar != "" {
			switch c := hbUnparen(x.Cond).(type) {
			case *ast.Ident:
				pos = c.Name == in.guardVar
			case *ast.UnaryExpr:
				if id, ok := hbUnparen(c.X).(*ast.Ident); ok && c.Op == token.NOT {
					neg = id.Name == in.guardVar
				}
			}
		}
		was := in.guarded
		if pos {
			in.guarded = true
		}
		in.branch(fr, x.Body.List, defers)
		in.guarded = was
		if neg && elTerminates(x.Body) {
			in.guarded = true
		}
		switch e := x.Else.(type) {
		case *ast.BlockStmt:
			w2 := in.guarded
			if neg {
				in.guarded = true
			}
			in.branch(fr, e.List, defers)
			in.guarded = w2
		case *ast.IfStmt:
			in.walkStmt(fr, e, defers)
		}
	case *ast.SelectStmt:
		hasDefault := false
		for _, cl := range x.Body.List {
			if cl.(*ast.CommClause).Comm == nil {
				hasDefault = true
			}
		}
		for _, cl := range x.Body.List {
			cc := cl.(*ast.CommClause)
			if ch, _ := in.recvFrom(fr, cc.Comm); ch != "" {
				if hasDefault {
					in.emit("poll", ch)
				} else {
					in.emit("wait", ch)
				}
			}
			in.branch(fr, cc.Body, defers)
		}
	case *ast.ForStmt:
		in.walkStmt(fr, x.Init, defers)
		if x.Cond != nil {
			in.walkExpr(fr, x.Cond)
		}
		in.walkBlock(fr, x.Body.List, defers)
		in.walkStmt(fr, x.Post, defers)
	case *ast.RangeStmt:
		in.walkExpr(fr, x.X)
		if src := in.elemSource(fr, x.X); src != "" {
			if id, ok := x.Value.(*ast.Ident); ok && id.Name != "_" {
				fr.alias[id.Name] = "elem:" + src[6:]
			}
			if _, isCall := hbUnparen(x.X).(*ast.CallExpr); isCall {
				in.emit("read", src)
			}
		}
		in.walkBlock(fr, x.Body.List, defers)
	case *ast.SwitchStmt:
		in.walkStmt(fr, x.Init, defers)
		if x.Tag != nil {
			in.walkExpr(fr, x.Tag)
		}
		for _, cl := range x.Body.List {
			cc := cl.(*ast.CaseClause)
			for _, e := range cc.List {
				in.walkExpr(fr, e)
			}
			in.branch(fr, cc.Body, defers)
		}
	case *ast.BlockStmt:
		in.walkBlock(fr, x.List, defers)
	case *ast.LabeledStmt:
		in.walkStmt(fr, x.Stmt, defers)
	case *ast.ReturnStmt:
		for _, r := range x.Results {
			in.walkExpr(fr, r)
		}
		in.emit("return", "")
	case *ast.DeclStmt:
		if gd, ok := x.Decl.(*ast.GenDecl); ok {
			for _, sp := range gd.Specs {
				if vs, ok := sp.(*ast.ValueSpec); ok {
					for i, v := range vs.Values {
						if hbIsMakeChan(v) && i < len(vs.Names) {
							fr.alias[vs.Names[i].Name] = "new"
						} else if c := in.chanOf(fr, v); c != "" && i < len(vs.Names) {
							fr.alias[vs.Names[i].Name] = c
						} else {
							in.walkExpr(fr, v)
						}
					}
				}
			}
		}
	case *ast.GoStmt:
		// the arguments of a go statement are evaluated here, in the calling goroutine
		var args []string
		passed := "none"
		for _, a := range x.Call.Args {
			c := in.chanOf(fr, a)
			args = append(args, c)
			if c != "" {
				passed = "arg:" + c
			} else {
				in.walkExpr(fr, a)
			}
		}
		if fl, ok := x.Call.Fun.(*ast.FuncLit); ok {
			// a closure: its parameters get the argument values; a captured local keeps its value; does it read the
			// field when it runs?
			sub := &hbFrame{fd: &ast.FuncDecl{Name: ast.NewIdent("lit"), Recv: fr.fd.Recv, Type: fl.Type, Body: fl.Body}, recv: fr.recv, alias: map[string]string{}, depth: fr.depth + 1}
			for k, v := range fr.alias {
				sub.alias[k] = v
			}
			var params []string
			if fl.Type.Params != nil {
				for _, f := range fl.Type.Params.List {
					for _, n := range f.Names {
						params = append(params, n.Name)
					}
				}
			}
			for i, a := range args {
				if i < len(params) {
					if a != "" {
						sub.alias[params[i]] = a
					} else {
						delete(sub.alias, params[i])
					}
				}
			}
			hasLoop := false
			ast.Inspect(fl.Body, func(n ast.Node) bool {
				switch e := n.(type) {
				case *ast.SelectStmt:
					hasLoop = true
				case *ast.SelectorExpr:
					if c := in.chanOf(sub, e); strings.HasPrefix(c, "field:") {
						passed = "closure-reads-field"
					}
				case *ast.Ident:
					if c := in.chanOf(sub, e); c != "" && passed == "none" {
						passed = "arg:" + c
					}
				case *ast.CallExpr:
					if callee := in.callee(sub, e); callee != nil && in.spawned == nil {
						var as []string
						any := false
						for _, a := range e.Args {
							c := in.chanOf(sub, a)
							as = append(as, c)
							any = any || c != ""
						}
						if any {
							in.spawned, in.spawnArgs = callee, as
						}
					}
				}
				return true
			})
			if in.spawned == nil && hasLoop {
				// the loop is the closure itself: its channel is a parameter or a captured local
				in.spawned = sub.fd
				in.spawnArgs = nil
				for _, pn := range params {
					in.spawnArgs = append(in.spawnArgs, sub.alias[pn])
				}
				for k, v := range sub.alias {
					if v != "" && !strings.HasPrefix(v, "field:") {
						in.stopParam = k
					}
				}
			}
		} else if callee := in.callee(fr, x.Call); callee != nil {
			in.spawned = callee
			in.spawnArgs = args
		}
		in.emit("spawn", passed)
		if in.elemFields != nil {
			fun := in.elemFun(fr, x.Call.Fun)
			if fl, ok := x.Call.Fun.(*ast.FuncLit); ok && fun == "" {
				// go func() { cb(msg) }(): the closure calls the element
				ast.Inspect(fl.Body, func(n ast.Node) bool {
					if c, ok := n.(*ast.CallExpr); ok && fun == "" {
						fun = in.elemFun(fr, c.Fun)
					}
					return true
				})
			}
			if fun == "" {
				fun = "dynamic"
				if _, isLit := x.Call.Fun.(*ast.FuncLit); isLit || in.callee(fr, x.Call) != nil {
					fun = "static"
				}
			}
			in.trace[len(in.trace)-1].fun = fun
		}
	default:
	}
}

func (in *hbInterp) callee(fr *hbFrame, c *ast.CallExpr) *ast.FuncDecl {
	switch f := c.Fun.(type) {
	case *ast.Ident:
		return in.funcs["."+f.Name]
	case *ast.SelectorExpr:
		if id, ok := f.X.(*ast.Ident); ok && id.Name == fr.recv && fr.recv != "" {
			return in.funcs[in.typ+"."+f.Sel.Name]
		}
	}
	return nil
}

func (in *hbInterp) walkExpr(fr *hbFrame, e ast.Expr) {
	switch x := e.(type) {
	case nil:
	case *ast.ParenExpr:
		in.walkExpr(fr, x.X)
	case *ast.BinaryExpr:
		if x.Op == token.EQL || x.Op == token.NEQ {
			if c := in.chanOf(fr, x.X); c != "" && hbIsNil(x.Y) {
				in.emit("nilcheck", c)
				return
			}
			if c := in.chanOf(fr, x.Y); c != "" && hbIsNil(x.X) {
				in.emit("nilcheck", c)
				return
			}
		}
		in.walkExpr(fr, x.X)
		in.walkExpr(fr, x.Y)
	case *ast.UnaryExpr:
		if x.Op == token.ARROW {
			if c := in.chanOf(fr, x.X); c != "" {
				in.emit("wait", c)
				return
			}
		}
		in.walkExpr(fr, x.X)
	case *ast.StarExpr:
		in.walkExpr(fr, x.X)
	case *ast.SelectorExpr:
		if c := in.chanOf(fr, x); c != "" {
			in.emit("read", c)
			return
		}
		in.walkExpr(fr, x.X)
	case *ast.Ident:
	case *ast.IndexExpr:
		in.walkExpr(fr, x.X)
		in.walkExpr(fr, x.Index)
	case *ast.CompositeLit:
		for _, el := range x.Elts {
			if kv, ok := el.(*ast.KeyValueExpr); ok {
				in.walkExpr(fr, kv.Value)
			} else {
				in.walkExpr(fr, el)
			}
		}
	case *ast.FuncLit:
		// not invoked here
	case *ast.CallExpr:
		in.call(fr, x)
	}
}

func (in *hbInterp) call(fr *hbFrame, c *ast.CallExpr) {
	name := exprString(c.Fun)
	if fun := in.elemFun(fr, c.Fun); fun != "" {
		for _, a := range c.Args {
			in.walkExpr(fr, a)
		}
		in.emit("callelem", "")
		in.trace[len(in.trace)-1].fun = fun
		return
	}
	if sel, ok := c.Fun.(*ast.SelectorExpr); ok && len(c.Args) == 0 {
		switch sel.Sel.Name {
		case "Lock", "RLock":
			m := in.mutexOf(fr, sel.X)
			in.epoch[m]++
			in.held[m] = in.epoch[m]
			if sel.Sel.Name == "RLock" {
				in.emit("rlock", m)
			} else {
				in.emit("lock", m)
			}
			return
		case "Unlock", "RUnlock":
			m := in.mutexOf(fr, sel.X)
			delete(in.held, m)
			in.emit("unlock", m)
			return
		}
	}
	switch {
	case name == "close" && len(c.Args) == 1:
		if ch := in.chanOf(fr, c.Args[0]); ch != "" {
			in.emit("close", ch)
			return
		}
	case name == "delete" && len(c.Args) == 2:
		if f := in.chanOf(fr, hbIndexBase(c.Args[0])); f != "" {
			in.walkExpr(fr, c.Args[1])
			in.emit("delete", f)
			return
		}
	case name == "verifYield":
		return
	case name == "time.AfterFunc" && len(c.Args) == 2:
		in.walkExpr(fr, c.Args[0])
		if fl, ok := c.Args[1].(*ast.FuncLit); ok {
			in.timerFns = append(in.timerFns, fl)
		}
		in.emit("arm", "")
		return
	case strings.HasPrefix(name, "atomic.Add") && len(c.Args) >= 1:
		in.emit("atomic", exprString(hbStripAddr(c.Args[0])))
		return
	}
	if sel, ok := c.Fun.(*ast.SelectorExpr); ok && sel.Sel.Name == "Add" && len(c.Args) == 1 {
		// the method form on a field of a typed atomic
		if f, ok := sel.X.(*ast.SelectorExpr); ok {
			if id, ok := f.X.(*ast.Ident); ok && id.Name == fr.recv && in.counters[f.Sel.Name] {
				in.emit("atomic", exprString(f))
				return
			}
		}
	}
	if sel, ok := c.Fun.(*ast.SelectorExpr); ok && len(c.Args) == 0 && sel.Sel.Name == "Stop" {
		in.walkExpr(fr, sel.X)
		in.emit("stop", "used")
		return
	}
	if sel, ok := c.Fun.(*ast.SelectorExpr); ok && (sel.Sel.Name == "ResultError" || sel.Sel.Name == "ResultSuccess" || sel.Sel.Name == "Publish") {
		for _, a := range c.Args {
			in.walkExpr(fr, a)
		}
		in.emit("send", sel.Sel.Name)
		return
	}
	if sel, ok := c.Fun.(*ast.SelectorExpr); ok && sel.Sel.Name == "SetData" {
		for _, a := range c.Args {
			in.walkExpr(fr, a)
		}
		in.emit("store", name)
		return
	}
	// a function literal invoked on the spot
	if fl, ok := c.Fun.(*ast.FuncLit); ok && fr.depth < 4 {
		sub := &hbFrame{fd: &ast.FuncDecl{Name: ast.NewIdent("lit"), Type: fl.Type, Body: fl.Body}, recv: fr.recv, alias: map[string]string{}, depth: fr.depth + 1}
		for k, v := range fr.alias {
			sub.alias[k] = v
		}
		in.walkFunc(sub)
		return
	}
	callee := in.callee(fr, c)
	if callee == nil || callee == fr.fd || fr.depth >= 4 {
		for _, a := range c.Args {
			in.walkExpr(fr, a)
		}
		if sel, ok := c.Fun.(*ast.SelectorExpr); ok {
			in.walkExpr(fr, sel.X)
		}
		return
	}
	sub := &hbFrame{fd: callee, recv: elRecvName(callee), alias: map[string]string{}, depth: fr.depth + 1}
	// channel values passed as arguments keep their identity in the callee
	var params []string
	if callee.Type.Params != nil {
		for _, f := range callee.Type.Params.List {
			for _, n := range f.Names {
				params = append(params, n.Name)
			}
		}
	}
	for i, a := range c.Args {
		if ch := in.chanOf(fr, a); ch != "" && i < len(params) {
			sub.alias[params[i]] = ch
			if strings.HasPrefix(ch, "field:") {
				in.emit("read", ch)
			}
		} else {
			in.walkExpr(fr, a)
		}
	}
	in.walkFunc(sub)
}

// hbIndexBase: m[k][j]... -> m
func hbIndexBase(e ast.Expr) ast.Expr {
	for {
		ix, ok := hbUnparen(e).(*ast.IndexExpr)
		if !ok {
			return e
		}
		e = ix.X
	}
}

func hbStripAddr(e ast.Expr) ast.Expr {
	if u, ok := e.(*ast.UnaryExpr); ok && u.Op == token.AND {
		return u.X
	}
	return e
}

// hbSection: the mutex (and the number of its critical section) that is held at every one of the given events
func hbSection(tr []hbEv, kinds map[string]bool) (mutex string, n int, why string) {
	var cand map[string]int
	for _, e := range tr {
		if !kinds[e.kind] {
			continue
		}
		n++
		if cand == nil {
			cand = map[string]int{}
			for k, v := range e.held {
				cand[k] = v
			}
			continue
		}
		for k, v := range cand {
			if e.held[k] != v {
				delete(cand, k)
			}
		}
	}
	var names []string
	for k := range cand {
		if !strings.HasPrefix(k, "?") {
			names = append(names, k)
		}
	}
	sort.Strings(names)
	if n == 0 {
		return "", 0, "no event of interest found"
	}
	if len(names) == 0 {
		return "", n, "no mutex of the manager is held in one and the same critical section at all of them"
	}
	return names[0], n, ""
}

func hbCount(tr []hbEv, kind string) int {
	c := 0
	for _, e := range tr {
		if e.kind == kind {
			c++
		}
	}
	return c
}

// hbCloseGuarded: every close is preceded, in the same critical section of m, by a nil comparison and a
// non-blocking receive (the "is it running" test)
func hbCloseGuarded(tr []hbEv, m string) bool {
	for i, e := range tr {
		if e.kind != "close" {
			continue
		}
		nilc, poll := false, false
		for _, p := range tr[:i] {
			if p.held[m] == e.held[m] && e.held[m] != 0 {
				if p.kind == "nilcheck" {
					nilc = true
				}
				if p.kind == "poll" {
					poll = true
				}
			}
		}
		if !nilc || !poll {
			return false
		}
	}
	return true
}

// hbDurMs: a duration expression built from integer literals / constants and time.Second / time.Millisecond
func hbDurMs(e ast.Expr, consts map[string]ast.Expr, depth int) (int, bool) {
	if depth > 4 {
		return 0, false
	}
	switch x := hbUnparen(e).(type) {
	case *ast.BasicLit:
		v, err := strconv.Atoi(x.Value)
		return v, err == nil
	case *ast.SelectorExpr:
		switch exprString(x) {
		case "time.Second":
			return 1000, true
		case "time.Millisecond":
			return 1, true
		case "time.Minute":
			return 60000, true
		}
	case *ast.Ident:
		if v, ok := consts[x.Name]; ok {
			return hbDurMs(v, consts, depth+1)
		}
	case *ast.BinaryExpr:
		a, ok1 := hbDurMs(x.X, consts, depth+1)
		b, ok2 := hbDurMs(x.Y, consts, depth+1)
		if ok1 && ok2 && x.Op == token.MUL {
			return a * b, true
		}
	case *ast.CallExpr:
		if len(x.Args) == 1 && exprString(x.Fun) == "time.Duration" {
			return hbDurMs(x.Args[0], consts, depth+1)
		}
	}
	return 0, false
}

func genHeartbeat(outDir string) (string, error) {
	_, files, err := spinePackage()
	if err != nil {
		return "", err
	}
	funcs := map[string]*ast.FuncDecl{}
	consts := map[string]ast.Expr{}
	for _, f := range files {
		for _, d := range f.Decls {
			switch x := d.(type) {
			case *ast.FuncDecl:
				if x.Body != nil {
					funcs[elRecvType(x)+"."+x.Name.Name] = x
				}
			case *ast.GenDecl:
				if x.Tok == token.CONST || x.Tok == token.VAR {
					for _, sp := range x.Specs {
						if vs, ok := sp.(*ast.ValueSpec); ok {
							for i, n := range vs.Names {
								if i < len(vs.Values) {
									consts[n.Name] = vs.Values[i]
								}
							}
						}
					}
				}
			}
		}
	}
	var notes []string
	note := func(f string, a ...any) { notes = append(notes, fmt.Sprintf(f, a...)) }
	// the manager: the type with StartHeartbeat and StopHeartbeat
	typ := ""
	for k := range funcs {
		if strings.HasSuffix(k, ".StartHeartbeat") {
			t := strings.TrimSuffix(k, ".StartHeartbeat")
			if t != "" && funcs[t+".StopHeartbeat"] != nil {
				typ = t
			}
		}
	}
	if typ == "" {
		return "", fmt.Errorf("no type of package spine has the methods StartHeartbeat and StopHeartbeat")
	}
	chans, mutexes, counters := map[string]bool{}, map[string]bool{}, map[string]bool{}
	for _, f := range files {
		ast.Inspect(f, func(n ast.Node) bool {
			ts, ok := n.(*ast.TypeSpec)
			if !ok || ts.Name.Name != typ {
				return true
			}
			if st, ok := ts.Type.(*ast.StructType); ok {
				for _, fl := range st.Fields.List {
					for _, nm := range fl.Names {
						switch t := fl.Type.(type) {
						case *ast.ChanType:
							chans[nm.Name] = true
						case *ast.SelectorExpr:
							if s := exprString(t); s == "sync.Mutex" || s == "sync.RWMutex" {
								mutexes[nm.Name] = true
							} else if strings.HasPrefix(s, "atomic.") {
								counters[nm.Name] = true // typed atomic: counter.Add(1)
							}
						case *ast.Ident:
							if strings.HasPrefix(t.Name, "uint") || strings.HasPrefix(t.Name, "int") {
								counters[nm.Name] = true
							}
						}
					}
				}
			}
			return false
		})
	}
	if len(chans) == 0 {
		note("the manager type %s has no field of a channel type", typ)
	}
	traceOf := func(name string) ([]hbEv, *hbInterp) {
		in := &hbInterp{funcs: funcs, typ: typ, chans: chans, mutexes: mutexes, counters: counters, held: map[string]int{}, epoch: map[string]int{}}
		fd := funcs[typ+"."+name]
		if fd == nil {
			note("method %s.%s not found", typ, name)
			return nil, in
		}
		in.walkFunc(&hbFrame{fd: fd, recv: elRecvName(fd), alias: map[string]string{}})
		return in.trace, in
	}
	startTr, startIn := traceOf("StartHeartbeat")
	stopTr, _ := traceOf("StopHeartbeat")
	runTr, _ := traceOf("IsHeartbeatRunning")

	chanKinds := map[string]bool{"nilcheck": true, "poll": true, "wait": true, "close": true, "make": true, "spawn": true, "read": true, "overwrite": true, "clear": true}
	mStart, nStart, why := hbSection(startTr, chanKinds)
	startOne := mStart != "" && hbCount(startTr, "make") >= 1 && hbCount(startTr, "spawn") >= 1
	if !startOne {
		note("StartHeartbeat: running test, close, channel creation and go statement are not in one critical section (%s; %d events)", why, nStart)
	}
	mStop, nStop, why2 := hbSection(stopTr, chanKinds)
	stopOne := mStop != "" && hbCount(stopTr, "close") >= 1
	if !stopOne {
		note("StopHeartbeat: running test and close are not in one critical section (%s; %d events)", why2, nStop)
	}
	mRun, _, _ := hbSection(runTr, chanKinds)
	sameMutex := mStart != "" && mStart == mStop && mStop == mRun
	if !sameMutex {
		note("start, stop and IsHeartbeatRunning do not use one and the same mutex (%q, %q, %q)", mStart, mStop, mRun)
	}
	closeGuarded := startOne && stopOne && hbCloseGuarded(startTr, mStart) && hbCloseGuarded(stopTr, mStop)
	if !closeGuarded {
		note("a close of the stop channel is not preceded, in its critical section, by the nil comparison and the non-blocking receive")
	}
	// order in start: every close before the creation, the creation before the go statement, which gets the channel
	startOrder := true
	lastClose, firstMake, firstSpawn := -1, -1, -1
	spawnDetail := ""
	for i, e := range startTr {
		switch e.kind {
		case "close":
			lastClose = i
		case "make":
			if firstMake < 0 {
				firstMake = i
			}
		case "spawn":
			if firstSpawn < 0 {
				firstSpawn = i
				spawnDetail = e.detail
			}
		}
	}
	if firstMake < 0 || firstSpawn < 0 || lastClose > firstMake || firstMake > firstSpawn || hbCount(startTr, "make") != 1 || hbCount(startTr, "spawn") != 1 {
		startOrder = false
		note("StartHeartbeat: not exactly close* < make < go (close %d, make %d, go %d)", lastClose, firstMake, firstSpawn)
	}
	spawnGetsChannel := strings.HasPrefix(spawnDetail, "arg:")
	if !spawnGetsChannel {
		note("the heartbeat goroutine is not handed the channel by the go statement (%s)", spawnDetail)
	}

	// the goroutine: for { select { case <-ticker.C: refresh ; case <-stop: return } }
	loopExits, refreshOnTick, counterAtomic, storeLocked := false, false, false, false
	thresholdMs, cutMs := 0, 0
	pacing, pacingWhy := 2, "no goroutine function"
	stampSource, stampWhy := 2, "no refresh case found in the heartbeat goroutine"
	if g := startIn.spawned; g != nil {
		var params []string
		if g.Type.Params != nil {
			for _, f := range g.Type.Params.List {
				for _, n := range f.Names {
					params = append(params, n.Name)
				}
			}
		}
		stopParam := startIn.stopParam
		for i, a := range startIn.spawnArgs {
			if a != "" && i < len(params) {
				stopParam = params[i]
			}
		}
		pacing, pacingWhy = hbPacing(startIn, g, stopParam)
		ast.Inspect(g.Body, func(n ast.Node) bool {
			switch x := n.(type) {
			case *ast.SelectStmt:
				for _, cl := range x.Body.List {
					cc := cl.(*ast.CommClause)
					if cc.Comm == nil {
						continue
					}
					var rx ast.Expr
					switch c := cc.Comm.(type) {
					case *ast.ExprStmt:
						rx = c.X
					case *ast.AssignStmt:
						if len(c.Rhs) == 1 {
							rx = c.Rhs[0]
						}
					}
					u, ok := hbUnparen(rx).(*ast.UnaryExpr)
					if !ok || u.Op != token.ARROW {
						continue
					}
					if id, ok := hbUnparen(u.X).(*ast.Ident); ok && id.Name == stopParam && stopParam != "" {
						if elTerminates(&ast.BlockStmt{List: cc.Body}) {
							loopExits = true
						}
					} else {
						// any other channel (the ticker's, however it is named or held)
						// the refresh: interpreted as a trace (helpers inlined)
						in := &hbInterp{funcs: funcs, typ: typ, chans: chans, mutexes: mutexes, counters: counters, held: map[string]int{}, epoch: map[string]int{}}
						fr := &hbFrame{fd: g, recv: elRecvName(g), alias: map[string]string{}}
						var defers []string
						in.walkBlock(fr, cc.Body, &defers)
						drawAt, storeAt := -1, -1
						for i, e := range in.trace {
							if e.kind == "atomic" && drawAt < 0 {
								f := strings.TrimPrefix(e.detail, fr.recv+".")
								if counters[f] || strings.Contains(e.detail, ".") {
									drawAt = i
								}
							}
							if e.kind == "store" && storeAt < 0 {
								storeAt = i
								for m := range e.held {
									if mutexes[m] {
										storeLocked = true
									}
								}
							}
						}
						if storeAt < 0 {
							continue
						}
						counterAtomic = drawAt >= 0
						stampSource, stampWhy = hbStampSource(funcs, typ, g, cc.Comm, cc.Body)
						refreshOnTick = drawAt >= 0 && storeAt > drawAt
					}
				}
			}
			return true
		})
		// the period rule, in the goroutine's function or in a helper it calls (two levels):
		//   if d > K { d -= K' }   |   if d > K { d = d - K' }   |   if d > K { return d - K' }
		var findRule func(fd *ast.FuncDecl, depth int)
		seen := map[*ast.FuncDecl]bool{}
		findRule = func(fd *ast.FuncDecl, depth int) {
			if fd == nil || fd.Body == nil || seen[fd] || depth > 2 {
				return
			}
			seen[fd] = true
			fr := &hbFrame{fd: fd, recv: elRecvName(fd)}
			ast.Inspect(fd.Body, func(n ast.Node) bool {
				switch x := n.(type) {
				case *ast.CallExpr:
					findRule(startIn.callee(fr, x), depth+1)
				case *ast.IfStmt:
					be, ok := x.Cond.(*ast.BinaryExpr)
					if !ok || be.Op != token.GTR || len(x.Body.List) != 1 {
						return true
					}
					t, ok := hbDurMs(be.Y, consts, 0)
					if !ok {
						return true
					}
					v := exprString(be.X)
					var sub ast.Expr
					switch b := x.Body.List[0].(type) {
					case *ast.AssignStmt:
						if len(b.Lhs) == 1 && len(b.Rhs) == 1 && exprString(b.Lhs[0]) == v {
							if b.Tok == token.SUB_ASSIGN {
								sub = b.Rhs[0]
							} else if d, ok := hbUnparen(b.Rhs[0]).(*ast.BinaryExpr); ok && b.Tok == token.ASSIGN && d.Op == token.SUB && exprString(d.X) == v {
								sub = d.Y
							}
						}
					case *ast.ReturnStmt:
						if len(b.Results) == 1 {
							if d, ok := hbUnparen(b.Results[0]).(*ast.BinaryExpr); ok && d.Op == token.SUB && exprString(d.X) == v {
								sub = d.Y
							}
						}
					}
					if sub != nil {
						if c, ok := hbDurMs(sub, consts, 0); ok && thresholdMs == 0 {
							thresholdMs, cutMs = t, c
						}
					}
				}
				return true
			})
		}
		findRule(g, 0)
	} else {
		note("the go statement of StartHeartbeat does not call a function or method of the package")
	}
	if !loopExits {
		note("the heartbeat goroutine has no select case that receives from its stop channel and returns")
	}
	if !refreshOnTick {
		note("the ticker case of the heartbeat goroutine does not draw the counter (atomic add) and then store the data")
	}
	if pacing == 1 {
		note("the refresh case of the heartbeat goroutine is paced by a timer armed anew in every iteration: %s", pacingWhy)
	}
	if stampSource == 1 {
		note("the timestamp of a refresh is not read from the clock inside the refresh: %s", stampWhy)
	}
	if thresholdMs == 0 {
		note("period rule `if d > K { d -= K' }` not found in the heartbeat goroutine")
	}

	show := func(tr []hbEv, m string) string {
		var s []string
		for _, e := range tr {
			if e.kind == "return" || e.kind == "atomic" || e.kind == "store" {
				continue
			}
			t := e.kind
			if e.detail != "" {
				t += " " + e.detail
			}
			if (chanKinds[e.kind]) && m != "" {
				t += fmt.Sprintf(" @%s#%d", m, e.held[m])
			}
			s = append(s, strconv.Quote(t))
		}
		return "[" + strings.Join(s, ", ") + "]"
	}
	b2 := func(b bool) string {
		if b {
			return "true"
		}
		return "false"
	}
	var qn []string
	for _, n := range notes {
		qn = append(qn, strconv.Quote(n))
	}
	var sb strings.Builder
	sb.WriteString("/-! GENERATED by go/cmd/translate (generator `heartbeat`) from the tree under test - do not edit.\n")
	sb.WriteString("    Critical-section facts of the heartbeat manager (type `" + typ + "`), see gen_heartbeat.go. -/\n")
	sb.WriteString("namespace Spine.Generated.Heartbeat\n\n")
	sb.WriteString("/-- events of StartHeartbeat in source order (helpers inlined); `@m#k` = inside critical section k of mutex m -/\n")
	sb.WriteString("def startTrace : List String := " + show(startTr, mStart) + "\n")
	sb.WriteString("def stopTrace : List String := " + show(stopTr, mStop) + "\n")
	sb.WriteString("def isRunningTrace : List String := " + show(runTr, mRun) + "\n\n")
	sb.WriteString("/-- running test, close of the old channel, creation of the new one and the go statement: one critical section -/\n")
	sb.WriteString("def startOneSection : Bool := " + b2(startOne) + "\n")
	sb.WriteString("/-- running test and close: one critical section -/\n")
	sb.WriteString("def stopOneSection : Bool := " + b2(stopOne) + "\n")
	sb.WriteString("/-- start, stop and IsHeartbeatRunning use one and the same mutex -/\n")
	sb.WriteString("def sameMutex : Bool := " + b2(sameMutex) + "\n")
	sb.WriteString("/-- every close is preceded in its critical section by `!= nil` and the non-blocking receive -/\n")
	sb.WriteString("def closeGuarded : Bool := " + b2(closeGuarded) + "\n")
	sb.WriteString("/-- in start: close* < make < go, once each -/\n")
	sb.WriteString("def startOrder : Bool := " + b2(startOrder) + "\n")
	sb.WriteString("/-- the go statement hands the channel to the goroutine (evaluated in the caller, inside the section) -/\n")
	sb.WriteString("def spawnGetsChannel : Bool := " + b2(spawnGetsChannel) + "\n")
	sb.WriteString("/-- the goroutine returns when its stop channel is readable -/\n")
	sb.WriteString("def loopExitsOnStop : Bool := " + b2(loopExits) + "\n")
	sb.WriteString("/-- a refresh = draw of the counter by an atomic add, then SetData -/\n")
	sb.WriteString("def refreshDrawThenStore : Bool := " + b2(refreshOnTick) + "\n")
	sb.WriteString("def counterAtomic : Bool := " + b2(counterAtomic) + "\n")
	sb.WriteString("def storeUnderManagerLock : Bool := " + b2(storeLocked) + "\n")
	sb.WriteString(fmt.Sprintf("/-- period rule: `if d > thresholdMs { d -= cutMs }` -/\ndef thresholdMs : Nat := %d\ndef cutMs : Nat := %d\n", thresholdMs, cutMs))
	sb.WriteString("/-- what paces the loop: 0 = one ticker created before the loop, 1 = a timer / ticker / time.After created or re-armed\n    in every iteration, 2 = not recognised -/\n")
	sb.WriteString(fmt.Sprintf("def pacing : Nat := %d\ndef pacingWhy : String := %s\n", pacing, strconv.Quote(pacingWhy)))
	sb.WriteString("/-- where the reading formatted into the data of a refresh comes from: 0 = the clock read (time.Now) inside the refresh,\n    after the tick was received, 1 = the value received from the ticker's channel / a reading taken before the tick was\n    received / carried over from an earlier iteration, 2 = not recognised -/\n")
	sb.WriteString(fmt.Sprintf("def stampSource : Nat := %d\ndef stampWhy : String := %s\n", stampSource, strconv.Quote(stampWhy)))
	sb.WriteString("def notes : List String := [" + strings.Join(qn, ", ") + "]\n\n")
	sb.WriteString("end Spine.Generated.Heartbeat\n")
	if err := writeFile(outDir, "Heartbeat.lean", sb.String()); err != nil {
		return "", err
	}
	return fmt.Sprintf("manager %s, mutex %q: startOneSection=%v stopOneSection=%v sameMutex=%v closeGuarded=%v startOrder=%v spawnGetsChannel=%v loopExitsOnStop=%v refresh=%v period %d/%d stampSource=%d, %d note(s)",
		typ, mStart, startOne, stopOne, sameMutex, closeGuarded, startOrder, spawnGetsChannel, loopExits, refreshOnTick, thresholdMs, cutMs, stampSource, len(notes)), nil
}
