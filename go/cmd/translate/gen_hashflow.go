package main

// Generator "hashflow": which parts of a request flow into the de-duplication identity of Sender.Request (C13:
// "identical request (same destination, same command)"). The analysis is an interprocedural backward data-flow over
// go/ssa (golang.org/x/tools), which the harness module must not require, so it lives in its own module go/hashflow;
// this generator only runs it with the same tree (VERIF_REPO) and output directory. See go/hashflow/main.go.

import (
	"fmt"
	"os"
	"os/exec"
	"path/filepath"
	"strings"
)

func init() { register("hashflow", genHashFlow) }

func genHashFlow(outDir string) (string, error) {
	abs, err := filepath.Abs(outDir)
	if err != nil {
		return "", err
	}
	wd, _ := os.Getwd()
	dir := ""
	for _, c := range []string{filepath.Join(wd, "hashflow"), filepath.Join(wd, "..", "..", "hashflow"), filepath.Join(wd, "go", "hashflow")} {
		if st, err := os.Stat(filepath.Join(c, "main.go")); err == nil && !st.IsDir() {
			dir = c
			break
		}
	}
	if dir == "" {
		return "", fmt.Errorf("hashflow: module directory go/hashflow not found from %s", wd)
	}
	cmd := exec.Command("go", "run", ".", "-out", abs)
	cmd.Dir = dir
	env := []string{}
	for _, e := range os.Environ() {
		if strings.HasPrefix(e, "VERIF_REPO=") {
			continue
		}
		env = append(env, e)
	}
	cmd.Env = append(env, "VERIF_REPO="+RepoDir(), "GOFLAGS=-mod=mod", "GOPROXY=off", "GOSUMDB=off", "GOTOOLCHAIN=local")
	out, err := cmd.CombinedOutput()
	lines := strings.Split(strings.TrimSpace(string(out)), "\n")
	last := lines[len(lines)-1]
	if err != nil {
		return "", fmt.Errorf("hashflow: %s", last)
	}
	return strings.TrimPrefix(last, "generated hashflow: "), nil
}
