package main

// WHERE the registered callbacks of FeatureLocal run (C14, round 5): every invocation of a function
// VALUE that comes out of a callback registry - a field of the struct whose type is a map with a
// slice of functions as value (response callbacks) or a slice of functions (result callbacks) - is
// classified as "go" (spawned: `go cb(msg)`, inside `go func() {...}()`, inside a function started
// with go, time.AfterFunc) or "direct", together with the mutexes of the struct held at that point.
//
// Semantic, not textual: values are followed through locals (`cbs := r.reg[k]`, `cb := cbs[0]`,
// range variables, append / copy / slices.Clone), through helper methods and package functions
// (inlined four levels, the parameter inherits the origin of the argument), through function
// literals invoked on the spot; `defer m.Unlock()`, `defer func() { m.Unlock() }()` and an
// explicit Unlock release alike (the deferred one at the end of its function). Branches: the locks
// held after an if / switch are the union over the branches that do not return.

import (
	"go/ast"
	"sort"
	"strings"
)

type cbSite struct {
	root, via, kind string
	spawned         bool
	own             bool // the goroutine that performs this invocation performs it outside every loop: one goroutine per callback
	held            []string
}

func (s cbSite) String() string {
	mode := "direct"
	if s.spawned {
		mode = "go"
	}
	return "root=" + s.root + " in=" + s.via + " registry=" + s.kind + " mode=" + mode + " held=[" + strings.Join(s.held, ",") + "]"
}

type cbWalker struct {
	funcs   map[string]*ast.FuncDecl
	typ     string
	regs    map[string]string // field -> "response" | "result"
	mutexes map[string]bool
	root    string
	sites   map[string]cbSite
}

type cbFrame struct {
	recv    string
	fn      string
	taint   map[string]string
	held    map[string]bool
	spawned bool
	loops   int // loops entered since the goroutine this frame runs on was started (0 when it was not spawned here)
	depth   int
	defers  []string
}

// cbFuncElem: a slice of functions - the element a function type, written out or through a type / alias declared in
// the package (`type responseCallbackFunc = func(api.ResponseMessage)`); the slice itself may be a declared type too
func cbFuncElem(t ast.Expr, local map[string]ast.Expr) bool {
	resolve := func(e ast.Expr) ast.Expr {
		for i := 0; i < 6; i++ {
			switch x := e.(type) {
			case *ast.ParenExpr:
				e = x.X
				continue
			case *ast.Ident:
				if d, ok := local[x.Name]; ok {
					e = d
					continue
				}
			}
			break
		}
		return e
	}
	a, ok := resolve(t).(*ast.ArrayType)
	if !ok {
		return false
	}
	_, isFn := resolve(a.Elt).(*ast.FuncType)
	return isFn
}

// cbRegistries: the callback registries of the struct by TYPE
func cbRegistries(files []*ast.File, typ string) map[string]string {
	out := map[string]string{}
	local := map[string]ast.Expr{}
	for _, f := range files {
		ast.Inspect(f, func(n ast.Node) bool {
			if ts, ok := n.(*ast.TypeSpec); ok {
				local[ts.Name.Name] = ts.Type
			}
			return true
		})
	}
	for _, f := range files {
		ast.Inspect(f, func(n ast.Node) bool {
			ts, ok := n.(*ast.TypeSpec)
			if !ok || ts.Name.Name != typ {
				return true
			}
			if st, ok := ts.Type.(*ast.StructType); ok {
				for _, fl := range st.Fields.List {
					for _, nm := range fl.Names {
						if mt, ok := fl.Type.(*ast.MapType); ok {
							if cbFuncElem(mt.Value, local) {
								out[nm.Name] = "response"
							}
						} else if cbFuncElem(fl.Type, local) {
							out[nm.Name] = "result"
						}
					}
				}
			}
			return false
		})
	}
	return out
}

func (w *cbWalker) kindOf(fr *cbFrame, e ast.Expr) string {
	switch x := e.(type) {
	case *ast.ParenExpr:
		return w.kindOf(fr, x.X)
	case *ast.Ident:
		return fr.taint[x.Name]
	case *ast.SelectorExpr:
		if id, ok := x.X.(*ast.Ident); ok && fr.recv != "" && id.Name == fr.recv {
			return w.regs[x.Sel.Name]
		}
	case *ast.IndexExpr:
		return w.kindOf(fr, x.X)
	case *ast.SliceExpr:
		return w.kindOf(fr, x.X)
	case *ast.StarExpr:
		return w.kindOf(fr, x.X)
	case *ast.UnaryExpr:
		return w.kindOf(fr, x.X)
	case *ast.CompositeLit:
		for _, el := range x.Elts {
			if kv, ok := el.(*ast.KeyValueExpr); ok {
				el = kv.Value
			}
			if k := w.kindOf(fr, el); k != "" {
				return k
			}
		}
	case *ast.CallExpr:
		// append, slices.Clone, a copying helper: the result carries what went in
		for _, a := range x.Args {
			if k := w.kindOf(fr, a); k != "" {
				return k
			}
		}
	}
	return ""
}

func (w *cbWalker) mutexName(fr *cbFrame, e ast.Expr) string {
	if s, ok := e.(*ast.SelectorExpr); ok {
		if id, ok := s.X.(*ast.Ident); ok && id.Name == fr.recv && fr.recv != "" {
			return s.Sel.Name
		}
	}
	return exprString(e)
}

func (w *cbWalker) site(fr *cbFrame, kind string, spawned bool, own bool) {
	var held []string
	if !spawned {
		for m, on := range fr.held {
			if on {
				held = append(held, m)
			}
		}
		sort.Strings(held)
	}
	s := cbSite{root: w.root, via: fr.fn, kind: kind, spawned: spawned, own: own, held: held}
	if old, ok := w.sites[s.String()]; ok && !old.own {
		return
	}
	w.sites[s.String()] = s
}

func cbCopyHeld(m map[string]bool) map[string]bool {
	o := map[string]bool{}
	for k, v := range m {
		if v {
			o[k] = true
		}
	}
	return o
}

func (w *cbWalker) callee(fr *cbFrame, c *ast.CallExpr) *ast.FuncDecl {
	switch f := c.Fun.(type) {
	case *ast.Ident:
		return w.funcs["."+f.Name]
	case *ast.SelectorExpr:
		if id, ok := f.X.(*ast.Ident); ok && id.Name == fr.recv && fr.recv != "" {
			return w.funcs[w.typ+"."+f.Sel.Name]
		}
	}
	return nil
}

// inline walks callee with the origins of the arguments bound to its parameters
func (w *cbWalker) inline(fr *cbFrame, callee *ast.FuncDecl, args []ast.Expr, spawned bool) {
	sub := &cbFrame{recv: elRecvName(callee), fn: elRecvType(callee) + "." + callee.Name.Name, taint: map[string]string{}, held: fr.held, spawned: fr.spawned || spawned, loops: fr.loops, depth: fr.depth + 1}
	if spawned {
		sub.held = map[string]bool{}
		sub.loops = 0
	}
	i := 0
	if callee.Type.Params != nil {
		for _, f := range callee.Type.Params.List {
			for _, n := range f.Names {
				if i < len(args) {
					if k := w.kindOf(fr, args[i]); k != "" {
						sub.taint[n.Name] = k
					}
				}
				i++
			}
		}
	}
	w.walkFunc(sub, callee.Body)
}

func (w *cbWalker) walkFunc(fr *cbFrame, body *ast.BlockStmt) {
	if body == nil {
		return
	}
	w.walkList(fr, body.List)
	for _, m := range fr.defers {
		delete(fr.held, m)
	}
	fr.defers = nil
}

func (w *cbWalker) lit(fr *cbFrame, fl *ast.FuncLit, spawned bool) {
	sub := &cbFrame{recv: fr.recv, fn: fr.fn, taint: fr.taint, held: fr.held, spawned: fr.spawned || spawned, loops: fr.loops, depth: fr.depth}
	if spawned {
		sub.held = map[string]bool{}
		sub.loops = 0
	}
	w.walkFunc(sub, fl.Body)
}

func (w *cbWalker) call(fr *cbFrame, c *ast.CallExpr, spawned bool) {
	fun := c.Fun
	for {
		p, ok := fun.(*ast.ParenExpr)
		if !ok {
			break
		}
		fun = p.X
	}
	if sel, ok := fun.(*ast.SelectorExpr); ok && len(c.Args) == 0 {
		switch sel.Sel.Name {
		case "Lock", "RLock":
			fr.held[w.mutexName(fr, sel.X)] = true
			return
		case "Unlock", "RUnlock":
			delete(fr.held, w.mutexName(fr, sel.X))
			return
		}
	}
	for _, a := range c.Args {
		if _, isLit := a.(*ast.FuncLit); !isLit {
			w.expr(fr, a)
		}
	}
	if k := w.kindOf(fr, fun); k != "" {
		if _, isCall := fun.(*ast.CallExpr); !isCall {
			w.site(fr, k, fr.spawned || spawned, spawned || (fr.spawned && fr.loops == 0))
			return
		}
	}
	if fl, ok := fun.(*ast.FuncLit); ok {
		// a literal called on the spot: its parameters carry the origins of the arguments (`go func(f …) { f(msg) }(cb)`)
		var bound []string
		i := 0
		if fl.Type.Params != nil {
			for _, f := range fl.Type.Params.List {
				for _, n := range f.Names {
					if i < len(c.Args) {
						if k := w.kindOf(fr, c.Args[i]); k != "" {
							if _, had := fr.taint[n.Name]; !had {
								fr.taint[n.Name] = k
								bound = append(bound, n.Name)
							}
						}
					}
					i++
				}
			}
		}
		w.lit(fr, fl, spawned)
		for _, n := range bound {
			delete(fr.taint, n)
		}
		return
	}
	if callee := w.callee(fr, c); callee != nil && callee.Body != nil && fr.depth < 4 {
		w.inline(fr, callee, c.Args, spawned)
		return
	}
	// an unknown function: a function literal handed to it runs - as far as can be known - here
	async := exprString(fun) == "time.AfterFunc"
	for _, a := range c.Args {
		if fl, ok := a.(*ast.FuncLit); ok {
			w.lit(fr, fl, spawned || async)
		}
	}
	if sel, ok := fun.(*ast.SelectorExpr); ok {
		w.expr(fr, sel.X)
	}
}

func (w *cbWalker) expr(fr *cbFrame, e ast.Expr) {
	switch x := e.(type) {
	case nil:
	case *ast.ParenExpr:
		w.expr(fr, x.X)
	case *ast.BinaryExpr:
		w.expr(fr, x.X)
		w.expr(fr, x.Y)
	case *ast.UnaryExpr:
		w.expr(fr, x.X)
	case *ast.StarExpr:
		w.expr(fr, x.X)
	case *ast.IndexExpr:
		w.expr(fr, x.X)
		w.expr(fr, x.Index)
	case *ast.SelectorExpr:
		w.expr(fr, x.X)
	case *ast.SliceExpr:
		w.expr(fr, x.X)
	case *ast.TypeAssertExpr:
		w.expr(fr, x.X)
	case *ast.KeyValueExpr:
		w.expr(fr, x.Value)
	case *ast.CompositeLit:
		for _, el := range x.Elts {
			w.expr(fr, el)
		}
	case *ast.CallExpr:
		w.call(fr, x, false)
	}
}

func cbTerminates(list []ast.Stmt) bool {
	if len(list) == 0 {
		return false
	}
	switch s := list[len(list)-1].(type) {
	case *ast.ReturnStmt:
		return true
	case *ast.ExprStmt:
		if c, ok := s.X.(*ast.CallExpr); ok && exprString(c.Fun) == "panic" {
			return true
		}
	case *ast.BlockStmt:
		return cbTerminates(s.List)
	}
	return false
}

// branches walks alternative bodies, each from the locks held now; afterwards the union over those that go on
func (w *cbWalker) branches(fr *cbFrame, bodies [][]ast.Stmt, fallthroughToo bool) {
	start := cbCopyHeld(fr.held)
	after := map[string]bool{}
	if fallthroughToo {
		for k := range start {
			after[k] = true
		}
	}
	any := fallthroughToo
	for _, b := range bodies {
		for k := range fr.held {
			delete(fr.held, k)
		}
		for k := range start {
			fr.held[k] = true
		}
		w.walkList(fr, b)
		if !cbTerminates(b) {
			any = true
			for k, v := range fr.held {
				if v {
					after[k] = true
				}
			}
		}
	}
	for k := range fr.held {
		delete(fr.held, k)
	}
	if !any {
		after = start
	}
	for k := range after {
		fr.held[k] = true
	}
}

func (w *cbWalker) assign(fr *cbFrame, lhs []ast.Expr, rhs []ast.Expr) {
	for _, r := range rhs {
		w.expr(fr, r)
	}
	for i, l := range lhs {
		id, ok := l.(*ast.Ident)
		if !ok || id.Name == "_" {
			continue
		}
		var r ast.Expr
		switch {
		case len(rhs) == len(lhs):
			r = rhs[i]
		case len(rhs) == 1 && i == 0:
			r = rhs[0]
		}
		if r == nil {
			continue
		}
		if k := w.kindOf(fr, r); k != "" {
			fr.taint[id.Name] = k
		} else if _, isLit := r.(*ast.FuncLit); !isLit {
			delete(fr.taint, id.Name)
		}
	}
}

func (w *cbWalker) walkList(fr *cbFrame, list []ast.Stmt) {
	for _, st := range list {
		w.stmt(fr, st)
	}
}

func (w *cbWalker) stmt(fr *cbFrame, st ast.Stmt) {
	switch x := st.(type) {
	case *ast.ExprStmt:
		if c, ok := x.X.(*ast.CallExpr); ok && exprString(c.Fun) == "copy" && len(c.Args) == 2 {
			if id, ok := c.Args[0].(*ast.Ident); ok {
				if k := w.kindOf(fr, c.Args[1]); k != "" {
					fr.taint[id.Name] = k
				}
			}
			return
		}
		w.expr(fr, x.X)
	case *ast.AssignStmt:
		w.assign(fr, x.Lhs, x.Rhs)
	case *ast.DeclStmt:
		if gd, ok := x.Decl.(*ast.GenDecl); ok {
			for _, sp := range gd.Specs {
				if vs, ok := sp.(*ast.ValueSpec); ok && len(vs.Values) > 0 {
					var lhs []ast.Expr
					for _, n := range vs.Names {
						lhs = append(lhs, n)
					}
					w.assign(fr, lhs, vs.Values)
				}
			}
		}
	case *ast.GoStmt:
		w.call(fr, x.Call, true)
	case *ast.DeferStmt:
		fun := x.Call.Fun
		if sel, ok := fun.(*ast.SelectorExpr); ok && len(x.Call.Args) == 0 && (sel.Sel.Name == "Unlock" || sel.Sel.Name == "RUnlock") {
			fr.defers = append(fr.defers, w.mutexName(fr, sel.X))
			return
		}
		if fl, ok := fun.(*ast.FuncLit); ok {
			// runs at the end of the function: unlocks in it release then; invocations in it are judged with the
			// locks held now (deferred unlocks registered earlier run later)
			saved := cbCopyHeld(fr.held)
			sub := &cbFrame{recv: fr.recv, fn: fr.fn, taint: fr.taint, held: fr.held, spawned: fr.spawned, loops: fr.loops, depth: fr.depth}
			w.walkList(sub, fl.Body.List)
			for k := range saved {
				if !fr.held[k] {
					fr.defers = append(fr.defers, k)
				}
			}
			for k := range fr.held {
				delete(fr.held, k)
			}
			for k := range saved {
				fr.held[k] = true
			}
			return
		}
		w.call(fr, x.Call, false)
	case *ast.ReturnStmt:
		for _, r := range x.Results {
			w.expr(fr, r)
		}
	case *ast.BlockStmt:
		w.walkList(fr, x.List)
	case *ast.LabeledStmt:
		w.stmt(fr, x.Stmt)
	case *ast.IfStmt:
		if x.Init != nil {
			w.stmt(fr, x.Init)
		}
		w.expr(fr, x.Cond)
		bodies := [][]ast.Stmt{x.Body.List}
		noElse := x.Else == nil
		if x.Else != nil {
			bodies = append(bodies, []ast.Stmt{x.Else})
		}
		w.branches(fr, bodies, noElse)
	case *ast.ForStmt:
		if x.Init != nil {
			w.stmt(fr, x.Init)
		}
		w.expr(fr, x.Cond)
		fr.loops++
		w.branches(fr, [][]ast.Stmt{x.Body.List}, true)
		fr.loops--
	case *ast.RangeStmt:
		w.expr(fr, x.X)
		if k := w.kindOf(fr, x.X); k != "" {
			if id, ok := x.Value.(*ast.Ident); ok && id.Name != "_" {
				fr.taint[id.Name] = k
			}
		}
		fr.loops++
		w.branches(fr, [][]ast.Stmt{x.Body.List}, true)
		fr.loops--
	case *ast.SwitchStmt:
		if x.Init != nil {
			w.stmt(fr, x.Init)
		}
		w.expr(fr, x.Tag)
		w.clauses(fr, x.Body)
	case *ast.TypeSwitchStmt:
		w.clauses(fr, x.Body)
	case *ast.SelectStmt:
		w.clauses(fr, x.Body)
	}
}

func (w *cbWalker) clauses(fr *cbFrame, body *ast.BlockStmt) {
	var bodies [][]ast.Stmt
	hasDefault := false
	for _, c := range body.List {
		switch cc := c.(type) {
		case *ast.CaseClause:
			for _, e := range cc.List {
				w.expr(fr, e)
			}
			hasDefault = hasDefault || cc.List == nil
			bodies = append(bodies, cc.Body)
		case *ast.CommClause:
			hasDefault = hasDefault || cc.Comm == nil
			bodies = append(bodies, cc.Body)
		}
	}
	w.branches(fr, bodies, !hasDefault)
}

// cbInvocationSites: every invocation of a registered callback in the methods of typ (each method a root)
func cbInvocationSites(files []*ast.File, typ string, funcs map[string]*ast.FuncDecl, mutexes map[string]bool) ([]cbSite, map[string]string) {
	regs := cbRegistries(files, typ)
	w := &cbWalker{funcs: funcs, typ: typ, regs: regs, mutexes: mutexes, sites: map[string]cbSite{}}
	var roots []string
	for k := range funcs {
		if strings.HasPrefix(k, typ+".") {
			roots = append(roots, k)
		}
	}
	sort.Strings(roots)
	for _, k := range roots {
		fd := funcs[k]
		w.root = k
		w.walkFunc(&cbFrame{recv: elRecvName(fd), fn: k, taint: map[string]string{}, held: map[string]bool{}}, fd.Body)
	}
	var keys []string
	for k := range w.sites {
		keys = append(keys, k)
	}
	sort.Strings(keys)
	var out []cbSite
	for _, k := range keys {
		out = append(out, w.sites[k])
	}
	return out, regs
}
