package main

// G6/G7 for the sender (C13): the constants the model is parameterised by and
// the critical-section facts behind the model's event granularity, extracted
// from spine/send.go with go/ast. An anchor that disappears is reported as a
// fact with value 0/false plus a note, never silently.

import (
	"fmt"
	"go/ast"
	"go/parser"
	"go/token"
	"io/fs"
	"path/filepath"
	"sort"
	"strconv"
	"strings"
)

// senderFieldType returns the source text of the type of a field of struct Sender ("" when absent).
func senderFieldType(f *ast.File, field string) string {
	out := ""
	ast.Inspect(f, func(n ast.Node) bool {
		ts, ok := n.(*ast.TypeSpec)
		if !ok || ts.Name.Name != "Sender" {
			return true
		}
		if st, ok := ts.Type.(*ast.StructType); ok {
			for _, fl := range st.Fields.List {
				for _, nm := range fl.Names {
					if nm.Name == field {
						out = exprString(fl.Type)
					}
				}
			}
		}
		return false
	})
	return out
}

func init() { register("sender", genSender) }

func findFunc(f *ast.File, recv, name string) *ast.FuncDecl {
	for _, d := range f.Decls {
		fd, ok := d.(*ast.FuncDecl)
		if !ok || fd.Name.Name != name {
			continue
		}
		if recv == "" && fd.Recv == nil {
			return fd
		}
		if fd.Recv != nil && len(fd.Recv.List) == 1 {
			t := fd.Recv.List[0].Type
			if st, ok := t.(*ast.StarExpr); ok {
				t = st.X
			}
			if id, ok := t.(*ast.Ident); ok && id.Name == recv {
				return fd
			}
		}
	}
	return nil
}

func exprString(e ast.Expr) string {
	switch x := e.(type) {
	case *ast.Ident:
		return x.Name
	case *ast.SelectorExpr:
		return exprString(x.X) + "." + x.Sel.Name
	case *ast.CallExpr:
		return exprString(x.Fun) + "()"
	case *ast.IndexExpr:
		return exprString(x.X)
	case *ast.IndexListExpr:
		return exprString(x.X)
	}
	return fmt.Sprintf("%T", e)
}

// pkgIntConsts collects the package-level integer constants of a directory (name -> value) so that a literal
// that was given a name (`const maxUnansweredRequests = 20`) is still read as its value.
func pkgIntConsts(dir string) map[string]int {
	out := map[string]int{}
	fset := token.NewFileSet()
	pkgs, err := parser.ParseDir(fset, dir, func(fi fs.FileInfo) bool { return !strings.HasSuffix(fi.Name(), "_test.go") }, 0)
	if err != nil {
		return out
	}
	for _, pk := range pkgs {
		for _, f := range pk.Files {
			for _, d := range f.Decls {
				gd, ok := d.(*ast.GenDecl)
				if !ok || gd.Tok != token.CONST {
					continue
				}
				for _, sp := range gd.Specs {
					vs := sp.(*ast.ValueSpec)
					for i, n := range vs.Names {
						if i < len(vs.Values) {
							if lit, ok := vs.Values[i].(*ast.BasicLit); ok && lit.Kind == token.INT {
								if v, err := strconv.Atoi(lit.Value); err == nil {
									out[n.Name] = v
								}
							}
						}
					}
				}
			}
		}
	}
	return out
}

func intOf(e ast.Expr, consts map[string]int) (int, bool) {
	switch x := e.(type) {
	case *ast.BasicLit:
		v, err := strconv.Atoi(x.Value)
		return v, err == nil
	case *ast.Ident:
		v, ok := consts[x.Name]
		return v, ok
	case *ast.ParenExpr:
		return intOf(x.X, consts)
	}
	return 0, false
}

func genSender(outDir string) (string, error) {
	fset := token.NewFileSet()
	f, err := parser.ParseFile(fset, filepath.Join(RepoDir(), "spine", "send.go"), nil, 0)
	if err != nil {
		return "", err
	}
	consts := pkgIntConsts(filepath.Join(RepoDir(), "spine"))
	var notes []string
	limit, cap := 0, 0
	// every Sender method of send.go, by name
	methods := map[string]*ast.FuncDecl{}
	for _, d := range f.Decls {
		if fd, ok := d.(*ast.FuncDecl); ok && fd.Recv != nil && fd.Body != nil && findFunc(f, "Sender", fd.Name.Name) == fd {
			methods[fd.Name.Name] = fd
		}
	}
	// reqMsgCache limit: the comparison `len(c.reqMsgCache) > N` (or `>= N+1`), N a literal or a named constant,
	// wherever in the Sender's methods it stands
	for _, fd := range methods {
		ast.Inspect(fd, func(n ast.Node) bool {
			if be, ok := n.(*ast.BinaryExpr); ok && (be.Op == token.GTR || be.Op == token.GEQ) {
				if c, ok := be.X.(*ast.CallExpr); ok && exprString(c.Fun) == "len" && len(c.Args) == 1 && exprString(c.Args[0]) == "c.reqMsgCache" {
					if v, ok := intOf(be.Y, consts); ok {
						limit = v
						if be.Op == token.GEQ {
							limit = v - 1
						}
					}
				}
			}
			return true
		})
	}
	if limit == 0 {
		notes = append(notes, "anchor `len(c.reqMsgCache) > N` not found in the Sender's methods")
	}
	// notify cache capacity: lrucache.New[...](N, 0) in NewSender
	if fd := findFunc(f, "", "NewSender"); fd != nil {
		ast.Inspect(fd, func(n ast.Node) bool {
			if c, ok := n.(*ast.CallExpr); ok && exprString(c.Fun) == "lrucache.New" && len(c.Args) >= 1 {
				if v, ok := intOf(c.Args[0], consts); ok {
					cap = v
				}
			}
			return true
		})
	}
	if cap == 0 {
		notes = append(notes, "anchor `lrucache.New[…](N, …)` not found in NewSender")
	}
	// Request is one critical section: first two statements lock/defer-unlock muxRequestSend
	requestOneRegion := false
	if fd := findFunc(f, "Sender", "Request"); fd != nil && len(fd.Body.List) >= 2 {
		s0, ok0 := fd.Body.List[0].(*ast.ExprStmt)
		s1, ok1 := fd.Body.List[1].(*ast.DeferStmt)
		if ok0 && ok1 {
			c0, okc := s0.X.(*ast.CallExpr)
			if okc && exprString(c0.Fun) == "c.muxRequestSend.Lock" && exprString(s1.Call.Fun) == "c.muxRequestSend.Unlock" {
				requestOneRegion = true
			}
		}
	}
	// the counter is drawn by one atomic add: `atomic.AddUint64(&c.msgNum, 1)` or, for a field of type
	// atomic.Uint64, `c.msgNum.Add(1)`; msgNum is mentioned nowhere else in getMsgCounter
	counterAtomic := false
	if fd := findFunc(f, "Sender", "getMsgCounter"); fd != nil {
		adds, other := 0, 0
		ast.Inspect(fd, func(n ast.Node) bool {
			switch x := n.(type) {
			case *ast.CallExpr:
				if exprString(x.Fun) == "atomic.AddUint64" && len(x.Args) == 2 {
					if u, ok := x.Args[0].(*ast.UnaryExpr); ok && u.Op == token.AND && exprString(u.X) == "c.msgNum" {
						adds++
					}
				}
				if exprString(x.Fun) == "c.msgNum.Add" && len(x.Args) == 1 && senderFieldType(f, "msgNum") == "atomic.Uint64" {
					adds++
				}
			case *ast.SelectorExpr:
				if exprString(x) == "c.msgNum" {
					other++
				}
			}
			return true
		})
		counterAtomic = adds == 1 && other == 1 // the only mention of msgNum is inside the atomic add
	}
	// every exported way of sending draws its counter exactly once per datagram handed to the connection: call
	// sites of getMsgCounter and of sendSpineMessage are counted through the calls among the Sender's own methods
	// (a datagram built in an extracted helper counts for its callers)
	var count func(name, target string, seen map[string]bool) int
	count = func(name, target string, seen map[string]bool) int {
		fd := methods[name]
		if fd == nil || seen[name] {
			return 0
		}
		seen[name] = true
		defer delete(seen, name)
		n := 0
		ast.Inspect(fd, func(x ast.Node) bool {
			if c, ok := x.(*ast.CallExpr); ok {
				if sel, ok := c.Fun.(*ast.SelectorExpr); ok && exprString(sel.X) == "c" {
					if sel.Sel.Name == target {
						n++
					} else if sel.Sel.Name != "getMsgCounter" && sel.Sel.Name != "sendSpineMessage" {
						n += count(sel.Sel.Name, target, seen)
					}
				}
			}
			return true
		})
		return n
	}
	oneDraw := true
	senders := 0
	var names []string
	for name := range methods {
		names = append(names, name)
	}
	sort.Strings(names)
	for _, name := range names {
		if !ast.IsExported(name) {
			continue
		}
		sends := count(name, "sendSpineMessage", map[string]bool{})
		draws := count(name, "getMsgCounter", map[string]bool{})
		if sends > 0 {
			senders++
		}
		if sends > 1 || draws != sends {
			oneDraw = false
			notes = append(notes, fmt.Sprintf("%s hands %d datagram(s) to the connection and draws %d counter(s)", name, sends, draws))
		}
	}
	if senders < 5 {
		oneDraw = false
		notes = append(notes, fmt.Sprintf("only %d exported Sender methods reach sendSpineMessage", senders))
	}
	var b strings.Builder
	b.WriteString("/-! GENERATED by go/cmd/translate (generator `sender`) from spine/send.go — do not edit. -/\n")
	b.WriteString("namespace Spine.Generated.Sender\n\n")
	fmt.Fprintf(&b, "/-- `len(c.reqMsgCache) > N` in addMsgCounterHashToCache -/\ndef reqCacheLimit : Nat := %d\n\n", limit)
	fmt.Fprintf(&b, "/-- capacity passed to lrucache.New in NewSender -/\ndef notifyCacheCap : Nat := %d\n\n", cap)
	fmt.Fprintf(&b, "/-- Request locks muxRequestSend first and unlocks it by defer: lookup, send and insert are one critical section -/\ndef requestOneRegion : Bool := %v\n\n", requestOneRegion)
	fmt.Fprintf(&b, "/-- getMsgCounter's only access to msgNum is one atomic.AddUint64 -/\ndef counterAtomic : Bool := %v\n\n", counterAtomic)
	fmt.Fprintf(&b, "/-- every exported Sender method draws exactly one counter (getMsgCounter) per datagram it hands to the connection (sendSpineMessage), at most one datagram per call; call sites counted through the Sender's own methods -/\ndef oneDrawPerSend : Bool := %v\n\n", oneDraw)
	for _, n := range notes {
		fmt.Fprintf(&b, "-- note: %s\n", n)
	}
	b.WriteString("end Spine.Generated.Sender\n")
	if err := writeFile(outDir, "Sender.lean", b.String()); err != nil {
		return "", err
	}
	return fmt.Sprintf("limit=%d cap=%d requestOneRegion=%v counterAtomic=%v oneDrawPerSend=%v", limit, cap, requestOneRegion, counterAtomic, oneDraw), nil
}
