package main

// G6/G7 for the sender (C13): the constants the model is parameterised by and
// the critical-section facts behind the model's event granularity, extracted
// from package spine with go/ast. The extraction is STRUCTURAL: the whole
// package is read (a method may live in any file), and everything unexported
// is found by what it is, not by what it is called —
//   the counter field      = the Sender field that is the operand of an atomic add
//   the counter method     = the Sender method holding that atomic add
//   the send method        = the Sender method calling WriteShipMessageWithPayload
//   the request cache      = the Sender field of map type keyed by the message counter
//   the request lock       = the mutex field locked by the first statement of Request
// Exported names (Sender, NewSender, Request, the api.SenderInterface methods)
// are the anchors. An anchor that disappears is reported as a fact with value
// 0/false plus a note, never silently.

import (
	"fmt"
	"go/ast"
	"go/parser"
	"go/token"
	"io/fs"
	"path/filepath"
	"sort"
	"strconv"
	"strings"
)

func init() { register("sender", genSender) }

func findFunc(f *ast.File, recv, name string) *ast.FuncDecl {
	for _, d := range f.Decls {
		fd, ok := d.(*ast.FuncDecl)
		if !ok || fd.Name.Name != name {
			continue
		}
		if recv == "" && fd.Recv == nil {
			return fd
		}
		if fd.Recv != nil && recvTypeName(fd) == recv {
			return fd
		}
	}
	return nil
}

func recvVarName(fd *ast.FuncDecl) string {
	if fd.Recv == nil || len(fd.Recv.List) != 1 || len(fd.Recv.List[0].Names) != 1 {
		return ""
	}
	return fd.Recv.List[0].Names[0].Name
}

func exprString(e ast.Expr) string {
	switch x := e.(type) {
	case *ast.Ident:
		return x.Name
	case *ast.SelectorExpr:
		return exprString(x.X) + "." + x.Sel.Name
	case *ast.CallExpr:
		return exprString(x.Fun) + "()"
	case *ast.IndexExpr:
		return exprString(x.X)
	case *ast.IndexListExpr:
		return exprString(x.X)
	case *ast.StarExpr:
		return "*" + exprString(x.X)
	case *ast.MapType:
		return "map[" + exprString(x.Key) + "]" + exprString(x.Value)
	case *ast.ParenExpr:
		return exprString(x.X)
	}
	return fmt.Sprintf("%T", e)
}

// spinePackage parses every non-test file of package spine of the tree under test.
func spinePackage() (*token.FileSet, []*ast.File, error) {
	fset := token.NewFileSet()
	pkgs, err := parser.ParseDir(fset, filepath.Join(RepoDir(), "spine"), func(fi fs.FileInfo) bool { return !strings.HasSuffix(fi.Name(), "_test.go") }, 0)
	if err != nil {
		return nil, nil, err
	}
	var files []*ast.File
	var names []string
	for _, pk := range pkgs {
		for n := range pk.Files {
			names = append(names, n)
		}
		sort.Strings(names)
		for _, n := range names {
			files = append(files, pk.Files[n])
		}
	}
	return fset, files, nil
}

// pkgIntConsts collects the package-level integer constants (name -> value) so that a literal
// that was given a name (`const maxUnansweredRequests = 20`) is still read as its value.
func pkgIntConsts(files []*ast.File) map[string]int {
	out := map[string]int{}
	for _, f := range files {
		for _, d := range f.Decls {
			gd, ok := d.(*ast.GenDecl)
			if !ok || gd.Tok != token.CONST {
				continue
			}
			for _, sp := range gd.Specs {
				vs := sp.(*ast.ValueSpec)
				for i, n := range vs.Names {
					if i < len(vs.Values) {
						if lit, ok := vs.Values[i].(*ast.BasicLit); ok && lit.Kind == token.INT {
							if v, err := strconv.Atoi(lit.Value); err == nil {
								out[n.Name] = v
							}
						}
					}
				}
			}
		}
	}
	return out
}

func intOf(e ast.Expr, consts map[string]int) (int, bool) {
	switch x := e.(type) {
	case *ast.BasicLit:
		v, err := strconv.Atoi(x.Value)
		return v, err == nil
	case *ast.Ident:
		v, ok := consts[x.Name]
		return v, ok
	case *ast.ParenExpr:
		return intOf(x.X, consts)
	}
	return 0, false
}

// structFields returns field name -> type text of a struct type of the package; named map types are resolved.
func structFields(files []*ast.File, typeName string) map[string]string {
	named := map[string]string{}
	for _, f := range files {
		ast.Inspect(f, func(n ast.Node) bool {
			if ts, ok := n.(*ast.TypeSpec); ok {
				if mt, ok := ts.Type.(*ast.MapType); ok {
					named[ts.Name.Name] = exprString(mt)
				}
			}
			return true
		})
	}
	out := map[string]string{}
	for _, f := range files {
		ast.Inspect(f, func(n ast.Node) bool {
			ts, ok := n.(*ast.TypeSpec)
			if !ok || ts.Name.Name != typeName {
				return true
			}
			if st, ok := ts.Type.(*ast.StructType); ok {
				for _, fl := range st.Fields.List {
					t := exprString(fl.Type)
					if r, ok := named[t]; ok {
						t = r
					}
					for _, nm := range fl.Names {
						out[nm.Name] = t
					}
				}
			}
			return false
		})
	}
	return out
}

func genSender(outDir string) (string, error) {
	_, files, err := spinePackage()
	if err != nil {
		return "", err
	}
	consts := pkgIntConsts(files)
	fields := structFields(files, "Sender")
	var notes []string
	// every Sender method of the package, by name
	methods := map[string]*ast.FuncDecl{}
	var newSender *ast.FuncDecl
	for _, f := range files {
		for _, d := range f.Decls {
			if fd, ok := d.(*ast.FuncDecl); ok && fd.Body != nil {
				if recvTypeName(fd) == "Sender" {
					methods[fd.Name.Name] = fd
				}
				if fd.Recv == nil && fd.Name.Name == "NewSender" {
					newSender = fd
				}
			}
		}
	}
	var names []string
	for name := range methods {
		names = append(names, name)
	}
	sort.Strings(names)
	// sel reports whether e is <receiver of fd>.<field>
	sel := func(fd *ast.FuncDecl, e ast.Expr, field string) bool {
		s, ok := e.(*ast.SelectorExpr)
		if !ok {
			return false
		}
		id, ok := s.X.(*ast.Ident)
		return ok && id.Name == recvVarName(fd) && s.Sel.Name == field
	}

	// --- the counter: field, method, atomicity --------------------------------------------------
	counterField, counterMethod := "", ""
	atomicAdds := 0
	for _, name := range names {
		fd := methods[name]
		ast.Inspect(fd, func(n ast.Node) bool {
			c, ok := n.(*ast.CallExpr)
			if !ok {
				return true
			}
			// atomic.AddUint64(&recv.F, 1)
			if exprString(c.Fun) == "atomic.AddUint64" && len(c.Args) == 2 {
				if u, ok := c.Args[0].(*ast.UnaryExpr); ok && u.Op == token.AND {
					if s, ok := u.X.(*ast.SelectorExpr); ok && sel(fd, s, s.Sel.Name) && fields[s.Sel.Name] == "uint64" {
						counterField, counterMethod = s.Sel.Name, name
						atomicAdds++
					}
				}
			}
			// recv.F.Add(1) with F of type atomic.Uint64
			if s, ok := c.Fun.(*ast.SelectorExpr); ok && s.Sel.Name == "Add" && len(c.Args) == 1 {
				if in, ok := s.X.(*ast.SelectorExpr); ok && sel(fd, in, in.Sel.Name) && fields[in.Sel.Name] == "atomic.Uint64" {
					counterField, counterMethod = in.Sel.Name, name
					atomicAdds++
				}
			}
			return true
		})
	}
	counterAtomic := false
	if atomicAdds == 1 {
		// the counter field is mentioned nowhere else in the package's Sender methods
		mentions := 0
		for _, name := range names {
			fd := methods[name]
			ast.Inspect(fd, func(n ast.Node) bool {
				if s, ok := n.(*ast.SelectorExpr); ok && sel(fd, s, counterField) {
					mentions++
				}
				return true
			})
		}
		counterAtomic = mentions == 1
		if !counterAtomic {
			notes = append(notes, fmt.Sprintf("counter field %s is mentioned %d times in the Sender's methods", counterField, mentions))
		}
	} else {
		notes = append(notes, fmt.Sprintf("%d atomic adds on a Sender field found (want exactly one)", atomicAdds))
	}

	// --- the send method: the one that hands bytes to the connection ------------------------------
	sendMethod := ""
	for _, name := range names {
		ast.Inspect(methods[name], func(n ast.Node) bool {
			if c, ok := n.(*ast.CallExpr); ok {
				if s, ok := c.Fun.(*ast.SelectorExpr); ok && s.Sel.Name == "WriteShipMessageWithPayload" {
					if sendMethod != "" && sendMethod != name {
						notes = append(notes, "more than one Sender method writes to the connection: "+sendMethod+", "+name)
					}
					sendMethod = name
				}
			}
			return true
		})
	}
	if sendMethod == "" {
		notes = append(notes, "no Sender method calls WriteShipMessageWithPayload")
	}

	// --- the request cache: map field keyed by the counter, its limit ----------------------------
	cacheField := ""
	for f, t := range fields {
		if strings.HasPrefix(t, "map[model.MsgCounterType]") {
			if cacheField != "" {
				notes = append(notes, "more than one map field keyed by the message counter")
			}
			cacheField = f
		}
	}
	limit, cap := 0, 0
	for _, name := range names {
		fd := methods[name]
		ast.Inspect(fd, func(n ast.Node) bool {
			if be, ok := n.(*ast.BinaryExpr); ok && (be.Op == token.GTR || be.Op == token.GEQ) {
				if c, ok := be.X.(*ast.CallExpr); ok && exprString(c.Fun) == "len" && len(c.Args) == 1 && cacheField != "" && sel(fd, c.Args[0], cacheField) {
					if v, ok := intOf(be.Y, consts); ok {
						limit = v
						if be.Op == token.GEQ {
							limit = v - 1
						}
					}
				}
			}
			return true
		})
	}
	if limit == 0 {
		notes = append(notes, "anchor `len(<request cache>) > N` not found in the Sender's methods")
	}
	// notify cache capacity: lrucache.New[...](N, 0) in NewSender
	if newSender != nil {
		ast.Inspect(newSender, func(n ast.Node) bool {
			if c, ok := n.(*ast.CallExpr); ok && exprString(c.Fun) == "lrucache.New" && len(c.Args) >= 1 {
				if v, ok := intOf(c.Args[0], consts); ok {
					cap = v
				}
			}
			return true
		})
	}
	if cap == 0 {
		notes = append(notes, "anchor `lrucache.New[…](N, …)` not found in NewSender")
	}

	// --- Request is one critical section: its first two statements lock a mutex field and defer its unlock --
	requestOneRegion := false
	if fd := methods["Request"]; fd != nil && len(fd.Body.List) >= 2 {
		s0, ok0 := fd.Body.List[0].(*ast.ExprStmt)
		s1, ok1 := fd.Body.List[1].(*ast.DeferStmt)
		if ok0 && ok1 {
			if c0, ok := s0.X.(*ast.CallExpr); ok {
				l, okl := c0.Fun.(*ast.SelectorExpr)
				u, oku := s1.Call.Fun.(*ast.SelectorExpr)
				if okl && oku && l.Sel.Name == "Lock" && u.Sel.Name == "Unlock" && exprString(l.X) == exprString(u.X) {
					if m, ok := l.X.(*ast.SelectorExpr); ok && sel(fd, m, m.Sel.Name) && fields[m.Sel.Name] == "sync.Mutex" {
						requestOneRegion = true
					}
				}
			}
		}
	}
	if !requestOneRegion {
		notes = append(notes, "Request does not start with <mutex field>.Lock(); defer <same>.Unlock()")
	}

	// --- every exported way of sending draws its counter exactly once per datagram handed to the connection:
	// call sites of the counter method and of the send method are counted through the calls among the Sender's
	// own methods (a datagram built in an extracted helper counts for its callers)
	var count func(name, target string, seen map[string]bool) int
	count = func(name, target string, seen map[string]bool) int {
		fd := methods[name]
		if fd == nil || seen[name] {
			return 0
		}
		seen[name] = true
		defer delete(seen, name)
		n := 0
		ast.Inspect(fd, func(x ast.Node) bool {
			if c, ok := x.(*ast.CallExpr); ok {
				if s, ok := c.Fun.(*ast.SelectorExpr); ok {
					if id, ok := s.X.(*ast.Ident); ok && id.Name == recvVarName(fd) {
						if s.Sel.Name == target {
							n++
						} else if s.Sel.Name != counterMethod && s.Sel.Name != sendMethod {
							n += count(s.Sel.Name, target, seen)
						}
					}
				}
			}
			return true
		})
		return n
	}
	oneDraw := counterMethod != "" && sendMethod != ""
	senders := 0
	for _, name := range names {
		if !ast.IsExported(name) || !oneDraw {
			continue
		}
		sends := count(name, sendMethod, map[string]bool{})
		draws := count(name, counterMethod, map[string]bool{})
		if sends > 0 {
			senders++
		}
		if sends > 1 || draws != sends {
			oneDraw = false
			notes = append(notes, fmt.Sprintf("%s hands %d datagram(s) to the connection and draws %d counter(s)", name, sends, draws))
		}
	}
	if oneDraw && senders < 5 {
		oneDraw = false
		notes = append(notes, fmt.Sprintf("only %d exported Sender methods reach the send method", senders))
	}

	var b strings.Builder
	b.WriteString("/-! GENERATED by go/cmd/translate (generator `sender`) from package spine (Sender) — do not edit. -/\n")
	b.WriteString("namespace Spine.Generated.Sender\n\n")
	fmt.Fprintf(&b, "/-- `len(<request cache>) > N` in the Sender's methods (request cache = the map field keyed by the message counter: %s) -/\ndef reqCacheLimit : Nat := %d\n\n", cacheField, limit)
	fmt.Fprintf(&b, "/-- capacity passed to lrucache.New in NewSender -/\ndef notifyCacheCap : Nat := %d\n\n", cap)
	fmt.Fprintf(&b, "/-- Request locks a mutex field first and unlocks it by defer: lookup, send and insert are one critical section -/\ndef requestOneRegion : Bool := %v\n\n", requestOneRegion)
	fmt.Fprintf(&b, "/-- the only access of the Sender's methods to the counter field (%s) is one atomic add (in %s) -/\ndef counterAtomic : Bool := %v\n\n", counterField, counterMethod, counterAtomic)
	fmt.Fprintf(&b, "/-- every exported Sender method draws exactly one counter (%s) per datagram it hands to the connection (%s), at most one datagram per call; call sites counted through the Sender's own methods -/\ndef oneDrawPerSend : Bool := %v\n\n", counterMethod, sendMethod, oneDraw)
	for _, n := range notes {
		fmt.Fprintf(&b, "-- note: %s\n", n)
	}
	b.WriteString("end Spine.Generated.Sender\n")
	if err := writeFile(outDir, "Sender.lean", b.String()); err != nil {
		return "", err
	}
	return fmt.Sprintf("limit=%d cap=%d requestOneRegion=%v counterAtomic=%v oneDrawPerSend=%v", limit, cap, requestOneRegion, counterAtomic, oneDraw), nil
}
