package main

// G6/G7 for the sender (C13): the constants the model is parameterised by and
// the facts behind the model's event granularity and family member
// (Spine.Snd: Request = reqBegin [lock, lookup, draw, write] ; reqEnd [insert,
// unlock], the response path in between), extracted from package spine.
//
// The facts are SEMANTIC: every exported method of the Sender is run through
// the abstract interpreter of absint.go (helpers of the package inlined in
// whatever file they live, deferred calls run at the end of their frame,
// undecidable branches explored on both sides) and the facts are read off the
// linear trace of events: mutex operations with the set of mutexes held,
// atomic adds on a receiver field, the call that hands bytes to the connection
// (any call of a method named WriteShipMessageWithPayload), loads / stores /
// deletes of receiver fields of map type, calls on receiver fields. Everything
// unexported is found by what it is, not by what it is called —
//   the request mutex  = the mutex field Request acquires first (write lock, unconditionally)
//   the request cache  = the Sender field of map type keyed by the message counter type
//   the cache lock     = the mutex field (other than the request mutex) held at the accesses to the request cache
//   the counter field  = the operand of the atomic add (or, failing that, the integer field the methods store to)
//   the notify cache   = a receiver field whose type mentions lrucache
// Exported names (Sender, NewSender, the api.SenderInterface methods) are the
// anchors. A fact that cannot be established is emitted as false / 0 with a
// note, never silently.

import (
	"fmt"
	"go/ast"
	"go/parser"
	"go/token"
	"io/fs"
	"path/filepath"
	"sort"
	"strconv"
	"strings"
)

func init() { register("sender", genSender) }

func findFunc(f *ast.File, recv, name string) *ast.FuncDecl {
	for _, d := range f.Decls {
		fd, ok := d.(*ast.FuncDecl)
		if !ok || fd.Name.Name != name {
			continue
		}
		if recv == "" && fd.Recv == nil {
			return fd
		}
		if fd.Recv != nil && recvTypeName(fd) == recv {
			return fd
		}
	}
	return nil
}

func recvVarName(fd *ast.FuncDecl) string {
	if fd.Recv == nil || len(fd.Recv.List) != 1 || len(fd.Recv.List[0].Names) != 1 {
		return ""
	}
	return fd.Recv.List[0].Names[0].Name
}

func exprString(e ast.Expr) string {
	switch x := e.(type) {
	case *ast.Ident:
		return x.Name
	case *ast.SelectorExpr:
		return exprString(x.X) + "." + x.Sel.Name
	case *ast.CallExpr:
		return exprString(x.Fun) + "()"
	case *ast.IndexExpr:
		return exprString(x.X)
	case *ast.IndexListExpr:
		return exprString(x.X)
	case *ast.StarExpr:
		return "*" + exprString(x.X)
	case *ast.MapType:
		return "map[" + exprString(x.Key) + "]" + exprString(x.Value)
	case *ast.ParenExpr:
		return exprString(x.X)
	}
	return fmt.Sprintf("%T", e)
}

// spinePackage parses every non-test file of package spine of the tree under test.
func spinePackage() (*token.FileSet, []*ast.File, error) {
	fset := token.NewFileSet()
	pkgs, err := parser.ParseDir(fset, filepath.Join(RepoDir(), "spine"), func(fi fs.FileInfo) bool { return !strings.HasSuffix(fi.Name(), "_test.go") }, 0)
	if err != nil {
		return nil, nil, err
	}
	var files []*ast.File
	var names []string
	for _, pk := range pkgs {
		for n := range pk.Files {
			names = append(names, n)
		}
		sort.Strings(names)
		for _, n := range names {
			files = append(files, pk.Files[n])
		}
	}
	return fset, files, nil
}

// pkgIntConsts collects the package-level integer constants (name -> value) so that a literal
// that was given a name (`const maxUnansweredRequests = 20`) is still read as its value.
func pkgIntConsts(files []*ast.File) map[string]int {
	out := map[string]int{}
	for _, f := range files {
		for _, d := range f.Decls {
			gd, ok := d.(*ast.GenDecl)
			if !ok || gd.Tok != token.CONST {
				continue
			}
			for _, sp := range gd.Specs {
				vs := sp.(*ast.ValueSpec)
				for i, n := range vs.Names {
					if i < len(vs.Values) {
						if lit, ok := vs.Values[i].(*ast.BasicLit); ok && lit.Kind == token.INT {
							if v, err := strconv.Atoi(lit.Value); err == nil {
								out[n.Name] = v
							}
						}
					}
				}
			}
		}
	}
	return out
}

func intOf(e ast.Expr, consts map[string]int) (int, bool) {
	switch x := e.(type) {
	case *ast.BasicLit:
		v, err := strconv.Atoi(x.Value)
		return v, err == nil
	case *ast.Ident:
		v, ok := consts[x.Name]
		return v, ok
	case *ast.ParenExpr:
		return intOf(x.X, consts)
	}
	return 0, false
}

// structFields returns field name -> type text of a struct type of the package; named map types are resolved.
func structFields(files []*ast.File, typeName string) map[string]string {
	named := map[string]string{}
	for _, f := range files {
		ast.Inspect(f, func(n ast.Node) bool {
			if ts, ok := n.(*ast.TypeSpec); ok {
				if mt, ok := ts.Type.(*ast.MapType); ok {
					named[ts.Name.Name] = exprString(mt)
				}
			}
			return true
		})
	}
	out := map[string]string{}
	for _, f := range files {
		ast.Inspect(f, func(n ast.Node) bool {
			ts, ok := n.(*ast.TypeSpec)
			if !ok || ts.Name.Name != typeName {
				return true
			}
			if st, ok := ts.Type.(*ast.StructType); ok {
				for _, fl := range st.Fields.List {
					t := exprString(fl.Type)
					if r, ok := named[t]; ok {
						t = r
					}
					for _, nm := range fl.Names {
						out[nm.Name] = t
					}
				}
			}
			return false
		})
	}
	return out
}

func genSender(outDir string) (string, error) {
	_, files, err := spinePackage()
	if err != nil {
		return "", err
	}
	pkg, err := loadPkg(filepath.Join(RepoDir(), "spine"), "verif_hooks")
	if err != nil {
		return "", err
	}
	consts := pkgIntConsts(files)
	fields := structFields(files, "Sender")
	var notes []string
	seenNote := map[string]bool{}
	note := func(format string, a ...any) {
		n := fmt.Sprintf(format, a...)
		if !seenNote[n] {
			seenNote[n] = true
			notes = append(notes, n)
		}
	}
	has := func(l []string, x string) bool {
		for _, y := range l {
			if x == y {
				return true
			}
		}
		return false
	}

	// ---- the fields of the Sender, by type ------------------------------------------------------------
	var fieldNames []string
	for f := range fields {
		fieldNames = append(fieldNames, f)
	}
	sort.Strings(fieldNames)
	mutexes := map[string]bool{}
	cfg := &trackCfg{maps: map[string]bool{}, ints: map[string]bool{}, atomics: map[string]bool{}, writeMethod: "WriteShipMessageWithPayload"}
	lru := map[string]bool{}
	cacheField := ""
	for _, f := range fieldNames {
		t := fields[f]
		switch {
		case t == "sync.Mutex" || t == "sync.RWMutex":
			mutexes[f] = true
		case strings.HasPrefix(t, "map["):
			cfg.maps[f] = true
			if strings.HasPrefix(t, "map[model.MsgCounterType]") {
				if cacheField != "" {
					note("more than one map field keyed by the message counter: %s, %s", cacheField, f)
				} else {
					cacheField = f
				}
			}
		case strings.HasPrefix(t, "atomic."):
			cfg.atomics[f] = true
		case isBasicType(t) && t != "string" && t != "bool" && t != "float64":
			cfg.ints[f] = true
		case strings.Contains(t, "lrucache"):
			lru[f] = true
		}
	}
	if cacheField == "" {
		note("no Sender field of map type keyed by model.MsgCounterType (the request cache)")
	}

	// ---- the methods of the Sender and their traces ------------------------------------------------------
	methods := map[string]*ast.FuncDecl{}
	var names []string
	for key, fd := range pkg.funcs {
		if strings.HasPrefix(key, "Sender.") {
			methods[fd.Name.Name] = fd
			names = append(names, fd.Name.Name)
		}
	}
	sort.Strings(names)
	newSender := pkg.funcs["NewSender"]
	trace := func(name string) *interp {
		in := newInterp(pkg, mutexes, "", 0)
		in.track = cfg
		if !in.run("Sender", name, nil) {
			return nil
		}
		return in
	}
	// entry points: the exported methods, plus unexported ones no exported method reaches (helpers are seen inlined,
	// with the locks their callers hold)
	traces := map[string]*interp{}
	var entries []string
	reached := map[string]bool{}
	for _, n := range names {
		if ast.IsExported(n) {
			in := trace(n)
			traces[n] = in
			entries = append(entries, n)
			for _, e := range in.ev {
				if e.kind == "inline" {
					reached[e.name] = true
				}
			}
		}
	}
	for _, n := range names {
		if !ast.IsExported(n) && !reached[n] {
			traces[n] = trace(n)
			entries = append(entries, n)
		}
	}
	sort.Strings(entries)
	isLock := func(e aevent) bool { return e.kind == "lock" || e.kind == "exitlock" }
	isCacheAcc := func(e aevent) bool {
		return cacheField != "" && e.name == cacheField && (e.kind == "mapread" || e.kind == "mapstore" || e.kind == "mapdelete")
	}
	// dominates: a is executed (before or after) on every path that executes b
	dominates := func(a, b aevent) bool { return pathPrefix(a.path, b.path) && !(a.cond && len(a.path) == 0) && !a.async }
	// the write of a trace: its position if the trace hands bytes to the connection exactly once, synchronously
	writesOf := func(in *interp) (idx []int) {
		for i, e := range in.ev {
			if e.kind == "connwrite" {
				idx = append(idx, i)
			}
		}
		return
	}

	// ---- the counter: the field that is drawn from, atomically or not -------------------------------------
	drawFields := map[string]int{}
	atomicAdds := 0
	for _, n := range entries {
		for _, e := range traces[n].ev {
			if e.kind == "atomicadd" {
				drawFields[e.name]++
				atomicAdds++
			}
		}
	}
	if len(drawFields) == 0 { // no atomic add at all: the integer field the methods store to
		for _, n := range entries {
			for _, e := range traces[n].ev {
				if e.kind == "fieldstore" {
					drawFields[e.name]++
				}
			}
		}
	}
	counterField := ""
	for f := range drawFields {
		if counterField == "" || f < counterField {
			counterField = f
		}
	}
	isDraw := func(e aevent) bool {
		return counterField != "" && e.name == counterField && (e.kind == "atomicadd" || e.kind == "fieldstore")
	}
	counterAtomic := false
	switch {
	case len(drawFields) == 0:
		note("no atomic add on (and no store to) an integer field of the Sender found in its methods: no counter field")
	case len(drawFields) > 1:
		note("%d different Sender fields are incremented in the Sender's methods (want one counter field)", len(drawFields))
	case atomicAdds == 0:
		note("the counter field %s is never the operand of an atomic add", counterField)
	default:
		counterAtomic = true
		for _, n := range entries {
			for _, e := range traces[n].ev {
				if (e.kind == "fieldload" || e.kind == "fieldstore") && e.name == counterField {
					counterAtomic = false
					note("%s: the counter field %s is accessed other than by an atomic operation (%s)", n, counterField, e.kind)
				}
			}
		}
	}

	// ---- constants: limit of the request cache, capacity of the notify cache -----------------------------
	sel := func(fd *ast.FuncDecl, e ast.Expr, field string) bool {
		for {
			p, ok := e.(*ast.ParenExpr)
			if !ok {
				break
			}
			e = p.X
		}
		s, ok := e.(*ast.SelectorExpr)
		if !ok {
			return false
		}
		id, ok := s.X.(*ast.Ident)
		return ok && id.Name == recvVarName(fd) && s.Sel.Name == field
	}
	limit, cap := 0, 0
	for _, name := range names {
		fd := methods[name]
		ast.Inspect(fd, func(n ast.Node) bool {
			if be, ok := n.(*ast.BinaryExpr); ok && cacheField != "" {
				lenOf := func(e ast.Expr) bool {
					c, ok := e.(*ast.CallExpr)
					return ok && exprString(c.Fun) == "len" && len(c.Args) == 1 && sel(fd, c.Args[0], cacheField)
				}
				switch {
				case (be.Op == token.GTR || be.Op == token.GEQ) && lenOf(be.X): // len(cache) > N, len(cache) >= N+1
					if v, ok := intOf(be.Y, consts); ok {
						limit = v
						if be.Op == token.GEQ {
							limit = v - 1
						}
					}
				case (be.Op == token.LSS || be.Op == token.LEQ) && lenOf(be.Y): // N < len(cache), N+1 <= len(cache)
					if v, ok := intOf(be.X, consts); ok {
						limit = v
						if be.Op == token.LEQ {
							limit = v - 1
						}
					}
				}
			}
			return true
		})
	}
	if limit == 0 {
		note("anchor `len(<request cache>) > N` not found in the Sender's methods")
	}
	if newSender != nil {
		ast.Inspect(newSender, func(n ast.Node) bool {
			if c, ok := n.(*ast.CallExpr); ok && exprString(c.Fun) == "lrucache.New" && len(c.Args) >= 1 {
				if v, ok := intOf(c.Args[0], consts); ok {
					cap = v
				}
			}
			return true
		})
	}
	if cap == 0 {
		note("anchor `lrucache.New[…](N, …)` not found in NewSender")
	}

	// ---- Request: one region under the request mutex ---------------------------------------------------------
	reqMu := ""
	requestOneRegion := false
	req := traces["Request"]
	if req == nil {
		note("method Sender.Request not found")
	} else {
		for _, e := range req.ev {
			if isLock(e) {
				if e.kind == "lock" && e.op == "Lock" && !e.cond && !e.async {
					reqMu = e.name
				}
				break
			}
		}
		if reqMu == "" {
			note("Request: the first lock operation is not an unconditional write lock of a mutex field of the Sender (no request mutex)")
		} else {
			ok := true
			var mainSeq []string
			acquires := 0
			for _, e := range req.ev {
				if isLock(e) && e.name == reqMu {
					if e.op == "Lock" || e.op == "RLock" {
						acquires++
					}
					if e.kind == "lock" {
						mainSeq = append(mainSeq, e.op)
						if e.cond {
							ok = false
							note("Request: a lock operation on the request mutex lies on a conditional path (%s)", e.op)
						}
					}
				}
				if (e.kind == "leak" || e.kind == "overrelease") && e.name == reqMu {
					ok = false
					note("Request: an exit path does not release the request mutex exactly once (%s)", e.kind)
				}
			}
			if acquires != 1 || strings.Join(mainSeq, ",") != "Lock,Unlock" {
				ok = false
				note("Request: the request mutex is acquired %d times; lock operations of the main path: %v (want Lock, Unlock)", acquires, mainSeq)
			}
			if req.held[reqMu] != 0 {
				ok = false
				note("Request: the request mutex is not released when the method ends")
			}
			inside := 0
			for _, e := range req.ev {
				if isCacheAcc(e) || isDraw(e) || e.kind == "connwrite" {
					inside++
					if !has(e.held, reqMu) || e.async {
						ok = false
						note("Request: %s happens outside the request mutex", e.kind)
					}
				}
			}
			if len(writesOf(req)) == 0 {
				ok = false
				note("Request never reaches a call of WriteShipMessageWithPayload")
			}
			requestOneRegion = ok
		}
	}

	// ---- the cache lock: the mutex (not the request mutex) held at the accesses to the request cache ----------
	votes := map[string]int{}
	accesses := 0
	for _, n := range entries {
		for _, e := range traces[n].ev {
			if isCacheAcc(e) {
				accesses++
				for _, m := range e.held {
					if m != reqMu {
						votes[m]++
					}
				}
			}
		}
	}
	cacheLock := ""
	for m, v := range votes {
		if cacheLock == "" || v > votes[cacheLock] || v == votes[cacheLock] && m < cacheLock {
			cacheLock = m
		}
	}
	cacheAccessUnderCacheLock := false
	switch {
	case cacheField == "":
	case accesses == 0:
		note("the request cache %s is never accessed in the Sender's methods", cacheField)
	case cacheLock == "":
		note("no mutex field of the Sender (other than the request mutex) is held at any access to the request cache")
	default:
		cacheAccessUnderCacheLock = true
		for _, n := range entries {
			for _, e := range traces[n].ev {
				if !isCacheAcc(e) {
					continue
				}
				if !has(e.held, cacheLock) || e.async {
					cacheAccessUnderCacheLock = false
					note("%s: %s of the request cache without the cache lock (held: %v)", n, e.kind, e.held)
				} else if e.kind != "mapread" && !has(e.heldW, cacheLock) {
					cacheAccessUnderCacheLock = false
					note("%s: %s of the request cache under a read lock only", n, e.kind)
				}
			}
		}
	}

	// ---- Request: remember before or after the write; the write outside the cache lock -----------------------------
	before, after, writeOutsideCacheLock := false, false, false
	if req != nil {
		ws := writesOf(req)
		var ss []int
		for i, e := range req.ev {
			if e.kind == "mapstore" && isCacheAcc(e) {
				ss = append(ss, i)
			}
		}
		switch {
		case len(ws) != 1:
			note("Request reaches %d calls of WriteShipMessageWithPayload (want exactly one): order of remembering and writing not established", len(ws))
		case req.ev[ws[0]].async:
			note("Request writes to the connection in a goroutine: order of remembering and writing not established")
		case len(ss) == 0:
			note("Request never stores into the request cache")
		default:
			before, after = true, true
			for _, i := range ss {
				before = before && i < ws[0] && !req.ev[i].async
				after = after && i > ws[0] && !req.ev[i].async
			}
			if before == after {
				before, after = false, false
				note("Request stores into the request cache both before and after the write (or in a goroutine)")
			}
		}
		if len(ws) >= 1 && cacheLock != "" {
			writeOutsideCacheLock = true
			for _, i := range ws {
				if has(req.ev[i].held, cacheLock) {
					writeOutsideCacheLock = false
					note("Request writes to the connection while it holds the cache lock")
				}
			}
		} else if cacheLock == "" {
			note("no cache lock identified: writeOutsideCacheLock not established")
		}
	}

	// ---- the response path does not take the request mutex --------------------------------------------------
	responseSkips := false
	if in := traces["ProcessResponseForMsgCounterReference"]; in == nil {
		note("method Sender.ProcessResponseForMsgCounterReference not found")
	} else {
		responseSkips = true
		for _, e := range in.ev {
			if !isLock(e) {
				continue
			}
			if reqMu != "" && e.name == reqMu {
				responseSkips = false
				note("ProcessResponseForMsgCounterReference acquires the request mutex")
			}
			if reqMu == "" && e.name != cacheLock { // no request mutex identified in Request: the response path may take the cache lock only
				responseSkips = false
				note("ProcessResponseForMsgCounterReference acquires a mutex other than the cache lock (%s) and Request has no identifiable request mutex", e.name)
			}
		}
	}

	// ---- every exported sending method: one draw, one write, the draw first --------------------------------------
	oneDraw, drawFirst := counterField != "", counterField != ""
	senders := 0
	for _, n := range entries {
		if !ast.IsExported(n) {
			continue
		}
		in := traces[n]
		ws := writesOf(in)
		var ds []int
		for i, e := range in.ev {
			if isDraw(e) {
				ds = append(ds, i)
			}
		}
		if len(ws) > 0 {
			senders++
		}
		if len(ws) > 1 || len(ds) != len(ws) {
			oneDraw = false
			note("%s reaches %d write(s) to the connection and %d counter draw(s)", n, len(ws), len(ds))
		} else if len(ws) == 1 && (!dominates(in.ev[ds[0]], in.ev[ws[0]]) || in.ev[ws[0]].async) {
			oneDraw = false
			note("%s: the counter draw is not made on every path that writes to the connection", n)
		}
		if len(ws) > 0 {
			if len(ds) == 0 {
				drawFirst = false
				note("%s writes to the connection without a counter draw", n)
			}
			for _, d := range ds {
				if d > ws[0] || in.ev[d].async {
					drawFirst = false
					note("%s draws a counter after the write to the connection", n)
				}
			}
		}
	}
	if senders < 5 {
		oneDraw, drawFirst = false, false
		note("only %d exported Sender methods reach a write to the connection (want at least 5)", senders)
	}

	// ---- Notify: the datagram is stored in the notify cache before it is written ------------------------------
	notifyStoresBeforeWrite := false
	notifyField := ""
	if in := traces["Notify"]; in == nil {
		note("method Sender.Notify not found")
	} else {
		ws := writesOf(in)
		var ps []int
		for i, e := range in.ev {
			if e.kind == "fieldcall" && e.op == "Put" && lru[e.name] {
				ps = append(ps, i)
				notifyField = e.name
			}
		}
		switch {
		case len(ws) != 1 || in.ev[ws[0]].async:
			note("Notify reaches %d synchronous write(s) to the connection (want exactly one)", len(ws))
		case len(ps) == 0:
			note("Notify never calls Put on a receiver field whose type mentions lrucache")
		default:
			notifyStoresBeforeWrite = true
			dom := false
			for _, i := range ps {
				if i > ws[0] || in.ev[i].async {
					notifyStoresBeforeWrite = false
					note("Notify puts the datagram into the notify cache after the write to the connection")
				}
				dom = dom || dominates(in.ev[i], in.ev[ws[0]])
			}
			if !dom {
				notifyStoresBeforeWrite = false
				note("Notify does not put the datagram into the notify cache on every path that writes to the connection")
			}
		}
	}

	var b strings.Builder
	b.WriteString("/-! GENERATED by go/cmd/translate (generator `sender`) from package spine (Sender) — do not edit.\n")
	b.WriteString("    Facts are computed by abstract interpretation of the Sender's exported methods with helpers of the package inlined (go/cmd/translate/absint.go). -/\n")
	b.WriteString("namespace Spine.Generated.Sender\n\n")
	fmt.Fprintf(&b, "/-- `len(<request cache>) > N` in the Sender's methods (request cache = the map field keyed by the message counter: %s) -/\ndef reqCacheLimit : Nat := %d\n\n", cacheField, limit)
	fmt.Fprintf(&b, "/-- capacity passed to lrucache.New in NewSender -/\ndef notifyCacheCap : Nat := %d\n\n", cap)
	w := func(doc, name string, v bool) {
		fmt.Fprintf(&b, "/-- %s -/\ndef %s : Bool := %v\n\n", doc, name, v)
	}
	w(fmt.Sprintf("running Request (helpers inlined, deferred calls at the end of their frame): the request mutex (%s) is write-locked first, unconditionally and exactly once; every access to the request cache, the counter draw and the write to the connection happen while it is held; it is released exactly once on the main path and on every exit path", reqMu), "requestOneRegion", requestOneRegion)
	w(fmt.Sprintf("in the trace of Request the store into the request cache (%s) precedes the single write to the connection (the repaired member of the model family)", cacheField), "requestRemembersBeforeWrite", before)
	w(fmt.Sprintf("in the trace of Request the store into the request cache (%s) follows the single write to the connection: a response can be processed between write and insert", cacheField), "requestRemembersAfterWrite", after)
	w(fmt.Sprintf("ProcessResponseForMsgCounterReference (helpers inlined) never acquires the request mutex (%s): it can run between the write and the insert of a Request", reqMu), "responsePathSkipsRequestMutex", responseSkips)
	w(fmt.Sprintf("every load / range / index / len, store and delete of the request cache (%s) in any method of the Sender happens while the cache lock (%s) is held, stores and deletes under its write lock", cacheField, cacheLock), "cacheAccessUnderCacheLock", cacheAccessUnderCacheLock)
	w(fmt.Sprintf("the write to the connection in Request happens while the cache lock (%s) is not held: the response path can run while the write is in progress", cacheLock), "writeOutsideCacheLock", writeOutsideCacheLock)
	w(fmt.Sprintf("the counter field (%s) is the operand of an atomic add and the Sender's methods access it in no other way", counterField), "counterAtomic", counterAtomic)
	w(fmt.Sprintf("every exported Sender method that reaches a write to the connection reaches exactly one, with exactly one draw of the counter (%s) in its trace, made on every path that writes; a method that does not write does not draw; at least 5 exported methods write", counterField), "oneDrawPerSend", oneDraw)
	w("in every exported Sender method that writes to the connection every counter draw precedes the write", "drawPrecedesWrite", drawFirst)
	w(fmt.Sprintf("in Notify the Put into the notify cache (%s, a field whose type mentions lrucache) precedes the single write to the connection and is made on every path that writes", notifyField), "notifyStoresBeforeWrite", notifyStoresBeforeWrite)
	for _, n := range notes {
		fmt.Fprintf(&b, "-- note: %s\n", n)
	}
	b.WriteString("end Spine.Generated.Sender\n")
	if err := writeFile(outDir, "Sender.lean", b.String()); err != nil {
		return "", err
	}
	return fmt.Sprintf("limit=%d cap=%d requestOneRegion=%v remembersBeforeWrite=%v remembersAfterWrite=%v responsePathSkipsRequestMutex=%v cacheAccessUnderCacheLock=%v writeOutsideCacheLock=%v counterAtomic=%v oneDrawPerSend=%v drawPrecedesWrite=%v notifyStoresBeforeWrite=%v notes=%d",
		limit, cap, requestOneRegion, before, after, responseSkips, cacheAccessUnderCacheLock, writeOutsideCacheLock, counterAtomic, oneDraw, drawFirst, notifyStoresBeforeWrite, len(notes)), nil
}
