package main

// Pacing of the heartbeat goroutine's loop (C16, "with a period not exceeding the announced timeout"): is the channel
// the refresh case of the select receives from fed by ONE ticker created before the loop (the refreshes then begin on
// the ticker's grid, one period apart, however long a refresh takes - Spine.HBP.begins .ticker), or by a timer /
// ticker / time.After created anew in every iteration (the refreshes are then a period PLUS the time of a refresh
// apart - Spine.HBP.begins .perIteration)? Semantic: the channel may be held in a local, an alias of `x.C`, a field of
// the manager, or come out of a helper; names do not matter, only where the time.* constructor is evaluated.
// Result: 0 = a ticker created before the loop, 1 = created anew per iteration (positive evidence), 2 = not recognised
// (no obligation is derived from it; the live slow-subscriber worlds of the harness judge the behaviour).

import (
	"fmt"
	"go/ast"
	"go/token"
)

// hbTimeCtor: "ticker" / "timer" when the expression (helpers of the package looked through, two levels) evaluates
// time.NewTicker / time.Tick resp. time.After / time.NewTimer / time.AfterFunc; "" otherwise.
func hbTimeCtor(in *hbInterp, fr *hbFrame, e ast.Expr, depth int) string {
	kind := ""
	if e == nil || depth > 2 {
		return ""
	}
	ast.Inspect(e, func(n ast.Node) bool {
		c, ok := n.(*ast.CallExpr)
		if !ok || kind != "" {
			return kind == ""
		}
		if sel, ok := c.Fun.(*ast.SelectorExpr); ok {
			if id, ok := sel.X.(*ast.Ident); ok && id.Name == "time" {
				switch sel.Sel.Name {
				case "NewTicker", "Tick":
					kind = "ticker"
				case "After", "NewTimer", "AfterFunc":
					kind = "timer"
				}
				return kind == ""
			}
		}
		if fd := in.callee(fr, c); fd != nil && fd.Body != nil {
			cfr := &hbFrame{fd: fd, recv: elRecvName(fd), alias: map[string]string{}}
			ast.Inspect(fd.Body, func(m ast.Node) bool {
				if r, ok := m.(*ast.ReturnStmt); ok && kind == "" {
					for _, res := range r.Results {
						if k := hbTimeCtor(in, cfr, res, depth+1); k != "" {
							kind = k
						}
					}
					// a local of the helper that is returned: look at the whole body
					if kind == "" {
						kind = hbTimeCtorBody(in, cfr, fd.Body, depth+1)
					}
				}
				return kind == ""
			})
		}
		return kind == ""
	})
	return kind
}

func hbTimeCtorBody(in *hbInterp, fr *hbFrame, b *ast.BlockStmt, depth int) string {
	kind := ""
	ast.Inspect(b, func(n ast.Node) bool {
		if as, ok := n.(*ast.AssignStmt); ok && kind == "" {
			for _, r := range as.Rhs {
				if k := hbTimeCtor(in, fr, r, depth+1); k != "" {
					kind = k
				}
			}
		}
		return kind == ""
	})
	return kind
}

func hbPacing(in *hbInterp, g *ast.FuncDecl, stopParam string) (int, string) {
	if g == nil || g.Body == nil {
		return 2, "no goroutine function"
	}
	fr := &hbFrame{fd: g, recv: elRecvName(g), alias: map[string]string{}}
	// the select with a case on the stop channel, its refresh case, and the loop around it
	var loop ast.Node
	var tickX ast.Expr
	var stack []ast.Node
	ast.Inspect(g.Body, func(n ast.Node) bool {
		if n == nil {
			stack = stack[:len(stack)-1]
			return true
		}
		stack = append(stack, n)
		sel, ok := n.(*ast.SelectStmt)
		if !ok || tickX != nil {
			return true
		}
		hasStop := false
		var other ast.Expr
		for _, cl := range sel.Body.List {
			cc := cl.(*ast.CommClause)
			var rx ast.Expr
			switch c := cc.Comm.(type) {
			case *ast.ExprStmt:
				rx = c.X
			case *ast.AssignStmt:
				if len(c.Rhs) == 1 {
					rx = c.Rhs[0]
				}
			}
			u, ok := hbUnparen(rx).(*ast.UnaryExpr)
			if !ok || u.Op != token.ARROW {
				continue
			}
			if id, ok := hbUnparen(u.X).(*ast.Ident); ok && id.Name == stopParam && stopParam != "" {
				hasStop = true
			} else if other == nil {
				other = hbUnparen(u.X)
			}
		}
		if hasStop && other != nil {
			tickX = other
			for i := len(stack) - 2; i >= 0; i-- {
				switch stack[i].(type) {
				case *ast.ForStmt, *ast.RangeStmt:
					loop = stack[i]
				}
				if loop != nil {
					break
				}
			}
		}
		return true
	})
	if tickX == nil {
		return 2, "no select with a stop case and another receive"
	}
	if loop == nil {
		return 2, "the select is not inside a loop"
	}
	inLoop := func(p token.Pos) bool { return p >= loop.Pos() && p < loop.End() }

	// assignments to a local name / to a field of the receiver, anywhere in the goroutine's function
	type def struct {
		rhs ast.Expr
		pos token.Pos
	}
	defsOf := func(target string) []def {
		var ds []def
		ast.Inspect(g.Body, func(n ast.Node) bool {
			switch x := n.(type) {
			case *ast.AssignStmt:
				for i, l := range x.Lhs {
					if exprString(l) == target {
						if len(x.Rhs) == len(x.Lhs) {
							ds = append(ds, def{x.Rhs[i], x.Pos()})
						} else if len(x.Rhs) == 1 {
							ds = append(ds, def{x.Rhs[0], x.Pos()})
						}
					}
				}
			case *ast.ValueSpec:
				for i, nm := range x.Names {
					if nm.Name == target && i < len(x.Values) {
						ds = append(ds, def{x.Values[i], x.Pos()})
					}
				}
			}
			return true
		})
		return ds
	}
	var resolve func(e ast.Expr, at token.Pos, depth int) (int, string)
	resolve = func(e ast.Expr, at token.Pos, depth int) (int, string) {
		e = hbUnparen(e)
		if depth > 4 {
			return 2, "too deep"
		}
		// a constructor evaluated right here
		if k := hbTimeCtor(in, fr, e, 0); k != "" {
			if inLoop(at) {
				return 1, fmt.Sprintf("%s created inside the loop (%s)", k, exprString(e))
			}
			if k == "ticker" {
				return 0, fmt.Sprintf("ticker created before the loop (%s)", exprString(e))
			}
			return 1, fmt.Sprintf("a one-shot timer created before the loop (%s): it has to be armed again in every iteration", exprString(e))
		}
		switch x := e.(type) {
		case *ast.SelectorExpr:
			// x.C of a ticker / timer held in a local or a field; or a field holding the channel itself
			if x.Sel.Name == "C" {
				if r, why := resolve(x.X, at, depth+1); r != 2 {
					return r, why
				}
			}
			best, why := 2, "no assignment of "+exprString(x)+" found in the goroutine's function"
			for _, d := range defsOf(exprString(x)) {
				if r, w := resolve(d.rhs, d.pos, depth+1); r < best || best == 2 {
					if r == 1 || best == 2 {
						best, why = r, w
					}
				}
			}
			return best, why
		case *ast.Ident:
			ds := defsOf(x.Name)
			best, why := 2, "no assignment of "+x.Name+" found in the goroutine's function"
			for _, d := range ds {
				r, w := resolve(d.rhs, d.pos, depth+1)
				if r == 1 {
					return 1, w
				}
				if r == 0 && best == 2 {
					best, why = 0, w
				}
			}
			return best, why
		}
		return 2, "channel expression " + exprString(e) + " not recognised"
	}
	r, why := resolve(tickX, tickX.Pos(), 0)
	if r == 0 {
		// a ticker that is re-armed inside the loop (Reset after the refresh) paces like a timer per iteration
		ast.Inspect(loop, func(n ast.Node) bool {
			c, ok := n.(*ast.CallExpr)
			if !ok || r != 0 {
				return r == 0
			}
			if sel, ok := c.Fun.(*ast.SelectorExpr); ok && sel.Sel.Name == "Reset" {
				if rr, _ := resolve(sel.X, g.Body.Pos(), 0); rr != 2 {
					r, why = 1, "the ticker is re-armed inside the loop ("+exprString(c)+")"
				}
			}
			return r == 0
		})
	}
	return r, why
}
