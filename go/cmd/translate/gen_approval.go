package main

// G7 for the write-approval machinery of FeatureLocal (C12): the event granularity of Spine.Appr
// and the two repairs it is probed for, as facts about the source.
//
//   - a verdict (ApproveOrDenyWrite) is TWO critical sections: the pending lookup under the
//     mutex of the pending registry alone, released before the tally mutex is taken (model:
//     `lookup` and `commit` are two events);
//   - the commit is ONE critical section of the tally mutex: every access to the tally, the
//     timer's Stop, the removal of the pending entry and the result / apply happen while it is held;
//   - before the first access to the tally the pending registry is read again under its own
//     mutex (flag recheck = true);
//   - the result of Stop() is used (flag ignoreStop = false);
//   - the timeout function (the closure handed to time.AfterFunc) removes the pending entry under
//     the registry's mutex and sends its result with no mutex of the feature held (model:
//     `timeoutTake`, `timeoutSend`), and does not touch the tally.
//
// Semantic: the registries are the fields of struct FeatureLocal of type map[string]map[K]*time.Timer
// (pending timers) and map[string]map[K]int (tally), whatever they are called; ApproveOrDenyWrite
// is exported API; helpers are inlined by the interpreter of gen_heartbeat.go.

import (
	"fmt"
	"go/ast"
	"strconv"
	"strings"
)

func init() { register("approval", genApproval) }

func genApproval(outDir string) (string, error) {
	_, files, err := spinePackage()
	if err != nil {
		return "", err
	}
	const typ = "FeatureLocal"
	funcs := map[string]*ast.FuncDecl{}
	for _, f := range files {
		for _, d := range f.Decls {
			if x, ok := d.(*ast.FuncDecl); ok && x.Body != nil {
				funcs[elRecvType(x)+"."+x.Name.Name] = x
			}
		}
	}
	var notes []string
	note := func(f string, a ...any) { notes = append(notes, fmt.Sprintf(f, a...)) }
	pendingF, tallyF := "", ""
	cbF := "" // the approval callbacks: the field of type []api.WriteApprovalCallbackFunc / []func(*api.Message)
	tracked, mutexes := map[string]bool{}, map[string]bool{}
	for _, f := range files {
		ast.Inspect(f, func(n ast.Node) bool {
			ts, ok := n.(*ast.TypeSpec)
			if !ok || ts.Name.Name != typ {
				return true
			}
			if st, ok := ts.Type.(*ast.StructType); ok {
				for _, fl := range st.Fields.List {
					for _, nm := range fl.Names {
						switch t := fl.Type.(type) {
						case *ast.MapType:
							if inner, ok := t.Value.(*ast.MapType); ok {
								switch v := inner.Value.(type) {
								case *ast.StarExpr:
									if exprString(v.X) == "time.Timer" {
										pendingF = nm.Name
									}
								case *ast.Ident:
									if v.Name == "int" {
										tallyF = nm.Name
									}
								}
							}
						case *ast.SelectorExpr:
							if s := exprString(t); s == "sync.Mutex" || s == "sync.RWMutex" {
								mutexes[nm.Name] = true
							}
						case *ast.ArrayType:
							if t.Len == nil {
								switch el := t.Elt.(type) {
								case *ast.SelectorExpr:
									if strings.Contains(el.Sel.Name, "WriteApproval") {
										cbF = nm.Name
									}
								case *ast.FuncType:
									if el.Params != nil && len(el.Params.List) == 1 && exprString(el.Params.List[0].Type) == "*api.Message" && el.Results == nil {
										cbF = nm.Name
									}
								}
							}
						}
					}
				}
			}
			return false
		})
	}
	if pendingF == "" || tallyF == "" {
		note("struct %s: pending-timer registry %q / tally %q not found by type", typ, pendingF, tallyF)
	}
	tracked[pendingF], tracked[tallyF] = true, true
	fd := funcs[typ+".ApproveOrDenyWrite"]
	if fd == nil {
		return "", fmt.Errorf("method %s.ApproveOrDenyWrite not found", typ)
	}
	newIn := func() *hbInterp {
		return &hbInterp{funcs: funcs, typ: typ, chans: tracked, mutexes: mutexes, counters: map[string]bool{}, held: map[string]int{}, epoch: map[string]int{}}
	}
	in := newIn()
	in.walkFunc(&hbFrame{fd: fd, recv: elRecvName(fd), alias: map[string]string{}})
	tr := in.trace
	isAcc := func(e hbEv, f string) bool {
		return (e.kind == "read" || e.kind == "write" || e.kind == "delete") && e.detail == "field:"+f
	}
	heldOwn := func(e hbEv) []string {
		var s []string
		for m := range e.held {
			if mutexes[m] {
				s = append(s, m)
			}
		}
		return s
	}
	// the mutexes: the one held at the first access to the pending registry, the one held at the first access to the tally
	mPending, mTally := "", ""
	firstPending, firstTally := -1, -1
	for i, e := range tr {
		if isAcc(e, pendingF) && firstPending < 0 {
			firstPending = i
			if h := heldOwn(e); len(h) == 1 {
				mPending = h[0]
			}
		}
		if isAcc(e, tallyF) && firstTally < 0 {
			firstTally = i
		}
	}
	if firstTally >= 0 {
		for _, m := range heldOwn(tr[firstTally]) {
			if m != mPending {
				mTally = m
			}
		}
	}
	twoSections, commitOne, recheck, stopUsed, stopGuards := false, false, false, false, false
	if mPending == "" || mTally == "" || firstPending < 0 || firstTally < 0 {
		note("ApproveOrDenyWrite: pending lookup under exactly one mutex (%q) and tally under a second one (%q) not found", mPending, mTally)
	} else {
		// lookup section: the first access to the pending registry happens without the tally mutex, and that section of
		// the registry's mutex ends before the tally mutex is taken
		lookupEpoch := tr[firstPending].held[mPending]
		lockTally := -1
		for i, e := range tr {
			if e.kind == "lock" && e.detail == mTally && lockTally < 0 {
				lockTally = i
			}
		}
		unlockedBefore := false
		for i, e := range tr {
			if e.kind == "unlock" && e.detail == mPending && i > firstPending && (lockTally < 0 || i < lockTally) {
				unlockedBefore = true
			}
		}
		twoSections = tr[firstPending].held[mTally] == 0 && lockTally > firstPending && unlockedBefore
		if !twoSections {
			note("ApproveOrDenyWrite: the pending lookup is not a critical section of its own that ends before the tally mutex is taken")
		}
		// commit: every tally access, every Stop, every send and every later access to the pending registry under ONE section of the tally mutex
		commitOne = true
		ce := tr[firstTally].held[mTally]
		for i, e := range tr {
			if i <= lockTally {
				continue
			}
			if isAcc(e, tallyF) || isAcc(e, pendingF) || e.kind == "stop" || e.kind == "send" || e.kind == "store" {
				if e.held[mTally] != ce || ce == 0 {
					commitOne = false
					note("ApproveOrDenyWrite: %s %s happens outside the critical section of %s that holds the tally", e.kind, e.detail, mTally)
					break
				}
			}
		}
		for i, e := range tr {
			if i > lockTally && i < firstTally && isAcc(e, pendingF) && e.held[mPending] != 0 && e.held[mPending] != lookupEpoch && e.held[mTally] == ce {
				recheck = true
			}
		}
		if !recheck {
			note("ApproveOrDenyWrite: the pending registry is not read again (under %s, holding %s) before the tally is touched", mPending, mTally)
		}
		for _, e := range tr {
			if e.kind == "stop" {
				stopUsed = e.detail == "used"
			}
		}
		if !stopUsed {
			note("ApproveOrDenyWrite: the result of the timer's Stop() is not used")
		}
		// … and guards EVERY result: whatever is sent or applied after the Stop happens on a path on which its result
		// was tested and true
		stopGuards = stopUsed
		seen := false
		for _, e := range tr {
			if e.kind == "stop" {
				seen = true
				continue
			}
			if seen && (e.kind == "send" || e.kind == "store") && !strings.HasSuffix(e.detail, "[stopped]") {
				stopGuards = false
				note("ApproveOrDenyWrite: %s happens after the timer's Stop() on a path that does not test its result", e.detail)
			}
		}
	}
	// the timeout function: the closure handed to time.AfterFunc by a method of the struct
	timeoutTwoHalves := false
	var toTr []hbEv
	for k, f := range funcs {
		if !strings.HasPrefix(k, typ+".") {
			continue
		}
		in2 := newIn()
		in2.walkFunc(&hbFrame{fd: f, recv: elRecvName(f), alias: map[string]string{}})
		for _, fl := range in2.timerFns {
			in3 := newIn()
			in3.walkFunc(&hbFrame{fd: &ast.FuncDecl{Name: ast.NewIdent("timeout"), Recv: f.Recv, Type: fl.Type, Body: fl.Body}, recv: elRecvName(f), alias: map[string]string{}})
			toTr = in3.trace
			del, send, ok := -1, -1, true
			for i, e := range toTr {
				switch {
				case isAcc(e, pendingF):
					if e.held[mPending] == 0 {
						ok = false
					}
					if e.kind == "delete" && del < 0 {
						del = i
					}
				case isAcc(e, tallyF):
					ok = false
				case e.kind == "send":
					if len(heldOwn(e)) != 0 {
						ok = false
					}
					send = i
				}
			}
			timeoutTwoHalves = ok && del >= 0 && send > del
		}
	}
	if !timeoutTwoHalves {
		note("the timeout function does not remove the pending entry under %s and then send its result with no mutex of the feature held", mPending)
	}

	// the arrival of a write: on the path from the feature's message handler (exported API HandleMessage) the pending
	// entry is written and the timer armed BEFORE the write is handed to any approval callback (a `go` / call of an
	// element of the callbacks field - directly, through a helper, a local copy of the slice or a wrapping closure).
	// A callback may answer at once: a verdict that finds no pending entry is dropped (ApproveOrDenyWrite's lookup).
	var arrTr []hbEv
	registeredFirst, armedFirst := false, false
	if cbF == "" {
		// fallback: the field the exported registration API appends to
		if reg := funcs[typ+".AddWriteApprovalCallback"]; reg != nil {
			ast.Inspect(reg.Body, func(n ast.Node) bool {
				if as, ok := n.(*ast.AssignStmt); ok && len(as.Lhs) == 1 {
					if sel, ok := as.Lhs[0].(*ast.SelectorExpr); ok {
						if id, ok := sel.X.(*ast.Ident); ok && id.Name == elRecvName(reg) {
							cbF = sel.Sel.Name
						}
					}
				}
				return true
			})
		}
	}
	if hm := funcs[typ+".HandleMessage"]; hm == nil || cbF == "" {
		note("arrival: method %s.HandleMessage (%v) / the approval callbacks field (%q) not found", typ, hm != nil, cbF)
	} else {
		in4 := &hbInterp{funcs: funcs, typ: typ, chans: map[string]bool{pendingF: true, cbF: true}, mutexes: mutexes, counters: map[string]bool{}, held: map[string]int{}, epoch: map[string]int{}, elemFields: map[string]bool{cbF: true}}
		in4.walkFunc(&hbFrame{fd: hm, recv: elRecvName(hm), alias: map[string]string{}})
		reg, arm, pres := -1, -1, -1
		for i, e := range in4.trace {
			switch {
			case e.kind == "write" && e.detail == "field:"+pendingF && reg < 0:
				reg = i
			case e.kind == "arm" && arm < 0:
				arm = i
			case (e.kind == "spawn" || e.kind == "callelem") && e.fun == "elem:"+cbF && pres < 0:
				pres = i
			}
			switch {
			case e.kind == "write" && e.detail == "field:"+pendingF, e.kind == "arm", e.kind == "read" && e.detail == "field:"+cbF:
				arrTr = append(arrTr, e)
			case e.kind == "spawn" || e.kind == "callelem":
				e.detail = "present " + e.fun
				if e.fun == "static" || e.fun == "dynamic" {
					e.detail = e.fun
				}
				arrTr = append(arrTr, e)
			}
		}
		switch {
		case pres < 0:
			note("arrival: no approval callback (element of %s) is started or called on the path from HandleMessage", cbF)
		case reg < 0 || arm < 0:
			note("arrival: the pending entry (%s) is not written / no timer is armed on the path from HandleMessage", pendingF)
		default:
			registeredFirst, armedFirst = reg < pres, arm < pres
			if !registeredFirst {
				note("arrival: the write is handed to the approval callbacks BEFORE its pending entry is registered: a verdict given at once finds nothing pending and is dropped")
			}
			if !armedFirst {
				note("arrival: the write is handed to the approval callbacks BEFORE its timer is armed")
			}
		}
	}

	show := func(tr []hbEv) string {
		var s []string
		for _, e := range tr {
			if e.kind == "return" {
				continue
			}
			t := e.kind
			if e.detail != "" {
				t += " " + e.detail
			}
			if e.kind != "lock" && e.kind != "unlock" {
				var hs []string
				for _, m := range []string{mTally, mPending} {
					if m != "" && e.held[m] != 0 {
						hs = append(hs, fmt.Sprintf("%s#%d", m, e.held[m]))
					}
				}
				if len(hs) > 0 {
					t += " @" + strings.Join(hs, ",")
				}
			}
			s = append(s, strconv.Quote(t))
		}
		return "[" + strings.Join(s, ", ") + "]"
	}
	b2 := func(b bool) string {
		if b {
			return "true"
		}
		return "false"
	}
	var qn []string
	for _, n := range notes {
		qn = append(qn, strconv.Quote(n))
	}
	var sb strings.Builder
	sb.WriteString("/-! GENERATED by go/cmd/translate (generator `approval`) from the tree under test - do not edit.\n")
	sb.WriteString("    Critical sections of the write-approval machinery of FeatureLocal, see gen_approval.go. -/\n")
	sb.WriteString("namespace Spine.Generated.Approval\n\n")
	sb.WriteString("/-- events of ApproveOrDenyWrite in source order (helpers inlined); `@m#k` = inside critical section k of mutex m -/\n")
	sb.WriteString("def verdictTrace : List String := " + show(tr) + "\n")
	sb.WriteString("def timeoutTrace : List String := " + show(toTr) + "\n\n")
	sb.WriteString("/-- the pending lookup is a critical section of its own, ended before the tally mutex is taken: `lookup` / `commit` -/\n")
	sb.WriteString("def verdictTwoSections : Bool := " + b2(twoSections) + "\n")
	sb.WriteString("/-- tally, Stop, removal of the pending entry, result / apply: ONE critical section of the tally mutex -/\n")
	sb.WriteString("def commitOneSection : Bool := " + b2(commitOne) + "\n")
	sb.WriteString("/-- the pending registry is read again before the tally is touched (flag recheck) -/\n")
	sb.WriteString("def recheck : Bool := " + b2(recheck) + "\n")
	sb.WriteString("/-- the result of Stop() is used (flag ignoreStop = false) -/\n")
	sb.WriteString("def stopResultUsed : Bool := " + b2(stopUsed) + "\n")
	sb.WriteString("/-- … and guards every result: nothing is sent or applied after the Stop() on a path that has not tested its result -/\n")
	sb.WriteString("def stopGuardsEveryResult : Bool := " + b2(stopGuards) + "\n")
	sb.WriteString("/-- the timeout function: remove the pending entry under the registry's mutex, then send with no mutex held -/\n")
	sb.WriteString("def timeoutTwoHalves : Bool := " + b2(timeoutTwoHalves) + "\n")
	sb.WriteString("/-- arrival of a write, from HandleMessage (helpers inlined): timer, pending entry, presentation to the callbacks -/\n")
	sb.WriteString("def arrivalTrace : List String := " + show(arrTr) + "\n")
	sb.WriteString("/-- the pending entry of a write is registered before the write is presented to any approval callback -/\n")
	sb.WriteString("def registeredBeforePresented : Bool := " + b2(registeredFirst) + "\n")
	sb.WriteString("/-- … and its timer is armed before that -/\n")
	sb.WriteString("def armedBeforePresented : Bool := " + b2(armedFirst) + "\n")
	sb.WriteString("def notes : List String := [" + strings.Join(qn, ", ") + "]\n\n")
	sb.WriteString("end Spine.Generated.Approval\n")
	if err := writeFile(outDir, "Approval.lean", sb.String()); err != nil {
		return "", err
	}
	return fmt.Sprintf("pending %q under %q, tally %q under %q: verdictTwoSections=%v commitOneSection=%v recheck=%v stopResultUsed=%v stopGuardsEveryResult=%v timeoutTwoHalves=%v; callbacks %q: registeredBeforePresented=%v armedBeforePresented=%v, %d note(s)",
		pendingF, mPending, tallyF, mTally, twoSections, commitOne, recheck, stopUsed, stopGuards, timeoutTwoHalves, cbF, registeredFirst, armedFirst, len(notes)), nil
}
