package main

// Which parts of a registry entry the subscription and binding managers COMPARE (C08, C09): the duplicate check of
// AddSubscription, the single-binding check of AddBinding, the match of RemoveSubscription / RemoveBinding and the
// per-peer list filters — regenerated on every run as exhaustive truth tables, not read off the source text but
// PROBED on the compiled code of the tree under test (the translator is built against it): a real DeviceLocal, three
// connected peers with identical trees (peer 3 even announces peer 1's DEVICE ADDRESS, so that "same connection" and
// "same device address" are separate dimensions), one registered entry E = (connection 1, device dev1, entity [1],
// feature 1, server [1]/1), and for every combination of "equal to E / different from E" in the dimensions
// [connection, device, client entity, client feature, server feature] one request on a fresh registry. A table lists
// the combinations in which the manager treated E as THE entry the request is about (removed it / refused the request
// because of it / listed it). Being dynamic the tables do not depend on how the comparison is written (helpers,
// reflect.DeepEqual or typed comparisons, loops or slices.*Func, field order). Output: Spine/Generated/RegMatch.lean;
// the theorems of Props/C08Gen.lean, C09Gen.lean derive the exactness clauses from these tables.

import (
	"encoding/json"
	"fmt"
	"sort"
	"strings"
	"time"

	"github.com/enbility/spine-go/api"
	"github.com/enbility/spine-go/model"
	"github.com/enbility/spine-go/spine"
	"github.com/enbility/spine-go/util"
	"verifharness/h"
)

func init() { register("regmatch", genRegMatch) }

type rmNullWriter struct{}

func (rmNullWriter) WriteShipMessageWithPayload([]byte) {}

type rmWorld struct {
	l   *spine.DeviceLocal
	rds map[int]api.DeviceRemoteInterface
}

var rmDevOf = map[int]string{1: "dev1", 2: "dev2", 3: "dev1"} // peer 3 announces peer 1's device address

func rmDiscovery(dev string) *model.NodeManagementDetailedDiscoveryDataType {
	dd := &model.NodeManagementDetailedDiscoveryDataType{
		DeviceInformation: &model.NodeManagementDetailedDiscoveryDeviceInformationType{Description: &model.NetworkManagementDeviceDescriptionDataType{DeviceAddress: &model.DeviceAddressType{Device: util.Ptr(model.AddressDeviceType(dev))}}},
	}
	etype := map[uint]model.EntityTypeType{0: model.EntityTypeTypeDeviceInformation, 1: model.EntityTypeTypeEVSE, 2: model.EntityTypeTypeEV}
	for _, e := range []uint{0, 1, 2} {
		et := etype[e]
		dd.EntityInformation = append(dd.EntityInformation, model.NodeManagementDetailedDiscoveryEntityInformationType{Description: &model.NetworkManagementEntityDescriptionDataType{
			EntityAddress: &model.EntityAddressType{Device: util.Ptr(model.AddressDeviceType(dev)), Entity: spine.NewAddressEntityType([]uint{e})}, EntityType: &et}})
		if e == 0 {
			ft, role := model.FeatureTypeTypeNodeManagement, model.RoleTypeSpecial
			dd.FeatureInformation = append(dd.FeatureInformation, model.NodeManagementDetailedDiscoveryFeatureInformationType{Description: &model.NetworkManagementFeatureDescriptionDataType{
				FeatureAddress: h.FA(dev, []uint{0}, 0), FeatureType: &ft, Role: &role}})
			continue
		}
		for _, f := range []uint{1, 2} {
			ft, role := model.FeatureTypeTypeGeneric, model.RoleTypeClient
			dd.FeatureInformation = append(dd.FeatureInformation, model.NodeManagementDetailedDiscoveryFeatureInformationType{Description: &model.NetworkManagementFeatureDescriptionDataType{
				FeatureAddress: h.FA(dev, []uint{e}, f), FeatureType: &ft, Role: &role}})
		}
	}
	return dd
}

func newRmWorld() (*rmWorld, error) {
	l := spine.NewDeviceLocal("b", "m", "s", "c", "HEMS", model.DeviceTypeTypeEnergyManagementSystem, model.NetworkManagementFeatureSetTypeSmart)
	e1 := spine.NewEntityLocal(l, model.EntityTypeTypeCEM, spine.NewAddressEntityType([]uint{1}), time.Second*4)
	l.AddEntity(e1)
	e1.GetOrAddFeature(model.FeatureTypeTypeLoadControl, model.RoleTypeServer)
	e1.GetOrAddFeature(model.FeatureTypeTypeSetpoint, model.RoleTypeServer)
	w := &rmWorld{l: l, rds: map[int]api.DeviceRemoteInterface{}}
	for p := 1; p <= 3; p++ {
		ski := fmt.Sprintf("ski%d", p)
		l.SetupRemoteDevice(ski, rmNullWriter{})
		rd := l.RemoteDeviceForSki(ski)
		if rd == nil {
			return nil, fmt.Errorf("no remote device for %s", ski)
		}
		w.rds[p] = rd
		cl := model.CmdClassifierTypeReply
		b, _ := json.Marshal(model.Datagram{Datagram: model.DatagramType{Header: model.HeaderType{AddressSource: h.FA(rmDevOf[p], []uint{0}, 0), AddressDestination: h.FA("HEMS", []uint{0}, 0),
			MsgCounter: util.Ptr(model.MsgCounterType(1)), MsgCounterReference: util.Ptr(model.MsgCounterType(1)), CmdClassifier: &cl},
			Payload: model.PayloadType{Cmd: []model.CmdType{{NodeManagementDetailedDiscoveryData: rmDiscovery(rmDevOf[p])}}}}})
		if _, err := rd.HandleSpineMesssage(b); err != nil {
			return nil, fmt.Errorf("discovery of peer %d: %v", p, err)
		}
		if rd.FeatureByAddress(h.FA(rmDevOf[p], []uint{2}, 2)) == nil {
			return nil, fmt.Errorf("peer %d: announced tree not taken over", p)
		}
	}
	return w, nil
}

func (w *rmWorld) close() {
	for p := 1; p <= 3; p++ {
		w.l.RemoveRemoteDeviceConnection(fmt.Sprintf("ski%d", p))
	}
}

var rmServerType = map[uint]model.FeatureTypeType{1: model.FeatureTypeTypeLoadControl, 2: model.FeatureTypeTypeSetpoint}

// a value equal to E's in a dimension, or the other one
func rmPick(eq bool, same, other uint) uint {
	if eq {
		return same
	}
	return other
}

func (w *rmWorld) hasE(sub bool) bool {
	if sub {
		for _, e := range w.l.SubscriptionManager().Subscriptions(w.rds[1]) {
			if a := e.ClientFeature.Address(); uint(a.Entity[0]) == 1 && uint(*a.Feature) == 1 && uint(*e.ServerFeature.Address().Feature) == 1 {
				return true
			}
		}
		return false
	}
	for _, e := range w.l.BindingManager().Bindings(w.rds[1]) {
		if a := e.ClientFeature.Address(); uint(a.Entity[0]) == 1 && uint(*a.Feature) == 1 && uint(*e.ServerFeature.Address().Feature) == 1 {
			return true
		}
	}
	return false
}

func (w *rmWorld) add(sub bool, p int, ent, feat, srv uint) error {
	ca, sa := h.FA(rmDevOf[p], []uint{ent}, feat), h.FA("HEMS", []uint{1}, srv)
	if sub {
		return w.l.SubscriptionManager().AddSubscription(w.rds[p], model.SubscriptionManagementRequestCallType{ClientAddress: ca, ServerAddress: sa, ServerFeatureType: util.Ptr(rmServerType[srv])})
	}
	return w.l.BindingManager().AddBinding(w.rds[p], model.BindingManagementRequestCallType{ClientAddress: ca, ServerAddress: sa, ServerFeatureType: util.Ptr(rmServerType[srv])})
}

func rmBits(v []bool) string {
	s := make([]string, len(v))
	for i, b := range v {
		s[i] = leanBool(b)
	}
	return "[" + strings.Join(s, ", ") + "]"
}

// removeTable: for every combination of the five dimensions, on a fresh world with E registered (and, for bindings
// with another server, the requester's own binding on that server so that the request is admissible): does the delete
// call remove E?
func rmRemoveTable(sub bool) ([]string, error) {
	var rows []string
	for m := 0; m < 32; m++ {
		v := []bool{m&16 != 0, m&8 != 0, m&4 != 0, m&2 != 0, m&1 != 0} // connection, named device, entity, feature, server
		w, err := newRmWorld()
		if err != nil {
			return nil, err
		}
		if err := w.add(sub, 1, 1, 1, 1); err != nil {
			return nil, fmt.Errorf("registering E: %v", err)
		}
		p := int(rmPick(v[0], 1, 2))
		dev := []string{"dev2", "dev1"}[h.B2i(v[1])]
		ent, feat, srv := rmPick(v[2], 1, 2), rmPick(v[3], 1, 2), rmPick(v[4], 1, 2)
		if !v[4] {
			_ = w.add(sub, p, ent, feat, srv) // the requester's own entry on the other server
		}
		ca, sa := h.FA(dev, []uint{ent}, feat), h.FA("HEMS", []uint{1}, srv)
		if sub {
			_ = w.l.SubscriptionManager().RemoveSubscription(model.SubscriptionManagementDeleteCallType{ClientAddress: ca, ServerAddress: sa}, w.rds[p])
		} else {
			_ = w.l.BindingManager().RemoveBinding(model.BindingManagementDeleteCallType{ClientAddress: ca, ServerAddress: sa}, w.rds[p])
		}
		if !w.hasE(sub) {
			rows = append(rows, rmBits(v))
		}
		w.close()
	}
	sort.Strings(rows)
	return rows, nil
}

// omitted device part of the client address: is E removed by its owner / by the other peer?
func rmRemoveOmitted(sub bool) (own, other bool, err error) {
	for _, p := range []int{1, 2} {
		w, e := newRmWorld()
		if e != nil {
			return false, false, e
		}
		if e := w.add(sub, 1, 1, 1, 1); e != nil {
			return false, false, e
		}
		ca := &model.FeatureAddressType{Entity: spine.NewAddressEntityType([]uint{1}), Feature: util.Ptr(model.AddressFeatureType(1))}
		sa := h.FA("HEMS", []uint{1}, 1)
		if sub {
			_ = w.l.SubscriptionManager().RemoveSubscription(model.SubscriptionManagementDeleteCallType{ClientAddress: ca, ServerAddress: sa}, w.rds[p])
		} else {
			_ = w.l.BindingManager().RemoveBinding(model.BindingManagementDeleteCallType{ClientAddress: ca, ServerAddress: sa}, w.rds[p])
		}
		if p == 1 {
			own = !w.hasE(sub)
		} else {
			other = !w.hasE(sub)
		}
		w.close()
	}
	return
}

// addTable: for every realisable combination (connection 1 = E's; 2 = other connection, other device; 3 = other
// connection, SAME device address), is a valid request refused because of E?
func rmAddTable(sub bool) ([]string, error) {
	var rows []string
	for _, p := range []int{1, 2, 3} {
		for m := 0; m < 8; m++ {
			w, err := newRmWorld()
			if err != nil {
				return nil, err
			}
			if err := w.add(sub, 1, 1, 1, 1); err != nil {
				return nil, fmt.Errorf("registering E: %v", err)
			}
			v := []bool{p == 1, p != 2, m&4 != 0, m&2 != 0, m&1 != 0}
			if err := w.add(sub, p, rmPick(v[2], 1, 2), rmPick(v[3], 1, 2), rmPick(v[4], 1, 2)); err != nil {
				rows = append(rows, rmBits(v))
			}
			w.close()
		}
	}
	sort.Strings(rows)
	return rows, nil
}

// listTable: [connection, device] combinations of the peer asked for whose list contains E
func rmListTable(sub bool) ([]string, error) {
	w, err := newRmWorld()
	if err != nil {
		return nil, err
	}
	defer w.close()
	if err := w.add(sub, 1, 1, 1, 1); err != nil {
		return nil, err
	}
	var rows []string
	for _, p := range []int{1, 2, 3} {
		n := 0
		if sub {
			n = len(w.l.SubscriptionManager().Subscriptions(w.rds[p]))
		} else {
			n = len(w.l.BindingManager().Bindings(w.rds[p]))
		}
		if n > 0 {
			rows = append(rows, rmBits([]bool{p == 1, p != 2}))
		}
	}
	sort.Strings(rows)
	return rows, nil
}

func genRegMatch(outDir string) (string, error) {
	var b strings.Builder
	b.WriteString("/-! GENERATED by go/cmd/translate (generator `regmatch`) by probing the compiled subscription and binding managers of the tree under test — do not edit.\n")
	b.WriteString("    A row is a combination [connection, device address, client entity, client feature, server feature] (true = equal to the registered entry E, false = different)\n")
	b.WriteString("    in which the manager treated E as the entry the request is about. Lists: [connection, device address] of the peer asked for. -/\n")
	b.WriteString("namespace Spine.Generated.RegMatch\n\n")
	var sum []string
	emit := func(name, doc string, rows []string) {
		fmt.Fprintf(&b, "/-- %s -/\ndef %s : List (List Bool) := [\n  %s]\n\n", doc, name, strings.Join(rows, ",\n  "))
		sum = append(sum, fmt.Sprintf("%s:%d", name, len(rows)))
	}
	for _, k := range []struct {
		sub  bool
		n, N string
	}{{true, "Subscription", "subscription"}, {false, "Binding", "binding"}} {
		rows, err := rmRemoveTable(k.sub)
		if err != nil {
			return "", err
		}
		emit("remove"+k.n, "Remove"+k.n+": the 32 combinations in which the delete call (device part named) removed E", rows)
		own, other, err := rmRemoveOmitted(k.sub)
		if err != nil {
			return "", err
		}
		fmt.Fprintf(&b, "/-- Remove%s with the device part of the client address OMITTED: E is removed when its owner asks / when another peer with the same numbering asks -/\ndef remove%sOmittedOwn : Bool := %v\ndef remove%sOmittedOther : Bool := %v\n\n", k.n, k.n, own, k.n, other)
		rows, err = rmAddTable(k.sub)
		if err != nil {
			return "", err
		}
		emit("add"+k.n+"Refused", "Add"+k.n+": the realisable combinations (24: same connection; other connection and device; other connection with the SAME device address) in which a valid request was refused because E is registered", rows)
		rows, err = rmListTable(k.sub)
		if err != nil {
			return "", err
		}
		emit(k.N+"sOfPeer", k.n+"s(peer): the [connection, device address] combinations of the peer asked for whose list contains E", rows)
	}
	b.WriteString("end Spine.Generated.RegMatch\n")
	if err := writeFile(outDir, "RegMatch.lean", b.String()); err != nil {
		return "", err
	}
	return strings.Join(sum, " "), nil
}
