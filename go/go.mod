module verifharness

go 1.22.0

require (
	github.com/enbility/spine-go v0.0.0
	github.com/rickb777/date v1.21.1
)

require (
	github.com/ahmetb/go-linq/v3 v3.2.0 // indirect
	github.com/enbility/ship-go v0.0.0-20241006160314-3a4325a1a6d6 // indirect
	github.com/golanguzb70/lrucache v1.2.0 // indirect
	github.com/rickb777/plural v1.4.2 // indirect
)

replace github.com/enbility/spine-go => /repo
