#!/bin/bash
# Self-test of the C19 check against seeded mutations of model/commondatatypes_additions.go.
# usage: ./selftest_c19.sh [mutation names...]   (needs /repo as a git repository; ~25 s per mutation)
export GOFLAGS=-mod=mod GOPROXY=off GOSUMDB=off GOTOOLCHAIN=local
ROOT=$(cd "$(dirname "$0")" && pwd)
F=model/commondatatypes_additions.go
ONLY="$*"
run() { # name, old text, new text
  local name=$1 old=$2 new=$3
  if [ -n "$ONLY" ] && ! echo " $ONLY " | grep -q " $name "; then return; fi
  local dir=/root/scratch/mut-c19-$name
  git -C /repo worktree remove --force $dir >/dev/null 2>&1
  git -C /repo worktree add $dir HEAD >/dev/null 2>&1 || { echo "$name: cannot create worktree"; return; }
  OLD="$old" NEW="$new" python3 - "$dir/$F" <<'PY'
import os, sys
p = sys.argv[1]
s = open(p).read()
old, new = os.environ["OLD"], os.environ["NEW"]
assert s.count(old) == 1, (old, s.count(old))
open(p, "w").write(s.replace(old, new))
PY
  if ! (cd $dir && go build ./... >/dev/null 2>&1); then echo "$name: does not build"; git -C /repo worktree remove --force $dir; return; fi
  out=$(cd $ROOT && VERIF_REPO=$dir timeout 1200 ./check C19 quick 2>&1)
  rc=$?
  echo "== $name: exit $rc"
  echo "$out" | grep -v "^KNOWN-FINDING" | cut -c1-260 | tail -6
  git -C /repo worktree remove --force $dir >/dev/null 2>&1
}
run m1-pow-sign 'return float64(*m.Number) * math.Pow(10, scale)' 'return float64(*m.Number) * math.Pow(10, -scale)'
run m2-cap3 'if numberOfDecimals > 4 {
		numberOfDecimals = 4' 'if numberOfDecimals > 3 {
		numberOfDecimals = 3'
run m3-scale-cond 'if numberValue != 0 {' 'if numberValue == 0 {'
run m4-floor 'math.Round(value' 'math.Floor(value'
run m5-no-utc 's := t.Round(time.Second).UTC().Format("2006-01-02T15:04:05Z")' 's := t.Round(time.Second).Format("2006-01-02T15:04:05Z")'
run m6-truncate-instant 's := t.Round(time.Second).UTC()' 's := t.Truncate(time.Second).UTC()'
run m7-period-noround '	duration = duration.Round(time.Second)
' ''
run m8-period-now 'time := time.Now().UTC().Add(duration)' 'time := time.Now().UTC().Add(duration + time.Second)'
run m9-decimals-off-by-one 'numberOfDecimals = len(temp) - index - 1' 'numberOfDecimals = len(temp) - index'
run m10-duration-minutes 'return p.DurationApprox(), nil' 'return p.DurationApprox().Truncate(time.Second), nil'
run m11-layout-order '"2006-01-02T15:04:05.999999999Z",
		"2006-01-02T15:04:05",
		"2006-01-02T15:04:05Z",' '"2006-01-02T15:04:05",'
# the two repairs of /repo undone again (fix: commits b0796d5, bf619ae): the findings are listed as fixed, so
# their return is a VIOLATION
run r1-trunc-again 'math.Round(value' 'math.Trunc(value'
run r2-multiply-again 'return float64(*m.Number) / math.Pow(10, -scale)' 'return float64(*m.Number) * math.Pow(10, scale)'
# behaviour-preserving: the layouts come out of a function, which the static search cannot follow - the
# static cross-check becomes vacuous (astParseKnown = false), the check must stay green (exit 0)
run b1-layouts-from-func '		"2006-01-02T15:04:05Z",
	}

	for _, format := range allowedFormats {
		if value, err := time.ParseInLocation(format, string(*d), time.UTC); err == nil {
			return value, nil
		}
	}

	return time.Time{}, errors.New("unsupported datetime format")' '		"2006-01-02T15:04:05Z",
	}

	for _, format := range passThrough(allowedFormats) {
		if value, err := time.ParseInLocation(format, string(*d), time.UTC); err == nil {
			return value, nil
		}
	}

	return time.Time{}, errors.New("unsupported datetime format")
}

func passThrough(x []string) []string {
	return x'
