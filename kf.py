#!/usr/bin/env python3
"""kf.py fixed <property> <key> <repo-commit>   move a recorded finding to the `fixed:` list (it then suppresses nothing)"""
import sys, json, glob, os
ROOT = os.path.dirname(os.path.abspath(__file__))
if len(sys.argv) == 5 and sys.argv[1] == "fixed":
    _, _, prop, key, commit = sys.argv
    what = None
    for f in [os.path.join(ROOT, "known_findings.json")] + sorted(glob.glob(os.path.join(ROOT, "known_findings.d", "*.json"))):
        k = json.load(open(f))
        keep = []
        for e in k.get("findings", []):
            if e["property"] == prop and e["key"] == key:
                what = e["what"]
            else:
                keep.append(e)
        if len(keep) != len(k.get("findings", [])):
            k["findings"] = keep
            json.dump(k, open(f, "w"), indent=1)
    if what is None:
        sys.exit("no such finding")
    main = json.load(open(os.path.join(ROOT, "known_findings.json")))
    main.setdefault("fixed", []).append("fixed: property=%s %s %s [%s]" % (prop, commit, what, key))
    json.dump(main, open(os.path.join(ROOT, "known_findings.json"), "w"), indent=1)
    print("moved", prop, key)
else:
    print(__doc__)
