#!/usr/bin/env python3
"""Regenerates MANIFEST.json from registry.py (single source of truth for what is claimed)."""
import json, subprocess
from registry import PROPS
TECHNIQUE = {
 "C01": "Lean 4 proof (kernel-checked): the classifier rule table as equality of response lists over the dispatch model, for all worlds, peers, datagrams and histories; model family tied to /repo by probed defect flags + differential correspondence on real datagrams; SPEC monitor on the outbound trace of all peers",
 "C02": "Lean 4 proof: refinement of the update-engine model to the cmdOption rules (Spec.KV) for all shapes, lists and histories; tables of all 87 list types regenerated from /repo with theorems decided over them; differential correspondence on every list type + SPEC monitor",
 "C03": "Lean 4 proof: the write gate as a function of the current registry, over all histories of bind/unbind/disconnect/entity removal (c03_follows_registry); differential correspondence on real datagrams + SPEC monitor (data digests, notifications, events)",
 "C04": "Lean 4 proof: protection / all-or-nothing clauses on the flagged update-engine and heap models per engine path, refutation witnesses for the paths that stay defective; differential correspondence incl. metamorphic twin stores + SPEC monitor",
 "C05": "Lean 4 proof for the header layer (exact characterisation of crashing datagrams per family member, totality for the repaired member) and for still-serves / node-management-present; exhaustive 10 080-datagram grid model-predicted; structured mutator and byte stream as monitored exploration (partial proof, stated)",
 "C06": "Lean 4 proof: remote tree = announcements applied in order (content level, all histories), events = symmetric difference, exact cascade; differential correspondence on real discovery messages + independent Spec.Tree monitor",
 "C07": "Lean 4 proof: discovery reply refines the declared tree over all histories, notifications per subscriber, fresh numbers, one feature per type and role over all interleavings (event-sourced); regenerated critical-section facts of entity_local.go; schedule-driven correspondence through yield hooks",
 "C08": "Lean 4 proof: grant conditions, exact delete, distinct ids, per-peer lists and exactly-once fan-out over all histories on the registry family (incl. object-identity model); differential correspondence on real node-management calls + SPEC monitor",
 "C09": "Lean 4 proof: at most one binding per server feature over all histories and all event lists (event-sourced check/insert), exact delete; all interleavings of 2-3 requests driven through the AddBinding.checked yield hook",
 "C10": "Lean 4 proof: teardown removes exactly the dropped peer's / entity's entries, silence afterwards, other peers unchanged, over all histories incl. interleaved per-entity passes; fault enumeration at every position and at removal events (core-level handler injection)",
 "C11": "Lean 4 proof on an explicit heap model of backing-array sharing: snapshot stability along replace/merge histories, refutation witnesses for the in-place paths; differential correspondence with every handle retained and re-read",
 "C12": "Lean 4 proof: per-write automaton refinement over all event lists (exactly one outcome, applied iff unanimous in time, independence); schedule-driven correspondence with real timers through the ApproveOrDenyWrite yield hook",
 "C13": "Lean 4 proof: counter uniqueness over all interleavings (event-sourced), cache invariant and MODEL |= SPEC monitor over all histories; constants and critical-section facts regenerated from send.go; differential correspondence on Sender and through the stack",
 "C14": "Lean 4 proof: exactly-once / only-own-message / duplicate-refused / result callbacks over all event lists; regenerated critical-section and invocation-site facts of feature_local.go (registration / delivery one section; callbacks run outside the registry lock) with a thread model of the non-re-entrant mutex (progress + termination for re-entering callbacks); differential correspondence on real reply/result datagrams from two peers + SPEC monitor incl. re-entering / slow callbacks under a kept-time watchdog",
 "C15": "Lean 4 proof: exactly-once, core-before-application, nothing-after-unsubscribe, re-entrancy in a lock-aware model, over all event lists; lock-region facts of events.go regenerated; differential correspondence incl. queued-publisher schedules; concurrent monitor under the race detector",
 "C16": "Lean 4 proof: single stream / no double close over all event lists, period arithmetic, counter order, stop finality; schedule-driven correspondence through the start/stop yield hooks; live real-time monitor (real-time clauses partial, A-time)",
 "C18": "Lean 4 proof: table theorems decided (decide +kernel) over the function factory, CmdType/FilterType tags and the 1 470-type JSON schema regenerated from /repo; generic JSON decode(encode v) theorem instantiated for every schema type; exhaustive 127 functions x 12 shapes correspondence",
 "C19": "Lean 4 proof: binary64 as exact integer arithmetic; rounding relation functional; scaled-number round trip exact for all |k| < 2^50, d <= 4; duration arithmetic by omega; bit-exact correspondence on an exhaustive decimal grid; layout tables regenerated",
 "C20": "Lean 4 proof: use-case registry refines the declared map over all histories; every interleaving of the locked cycles equals a sequentialisation in lock order; regenerated lock facts; schedule-driven correspondence through the UseCase.copied yield hook",
}
ids = [json.loads(l)["id"] for l in open("properties.jsonl")]
hooks_commits = subprocess.run("git -C /repo log --format=%H --grep='^verif:'", shell=True, capture_output=True, text=True).stdout.split()
man = {
    "version": 1,
    "setup_cmd": "./setup",
    "hooks": {
        "guard": "verif",
        "enable": "go build -tags verif (the harness under /verif/go is always built with -tags verif against /repo through a replace directive)",
        "baseline_off_cmd": "cd /repo && go test -mod=mod -json -vet=off -count=1 -timeout 25m ./...",
        "source_commits": hooks_commits,
        "add_only": True,
    },
    "engines": [
        {"name": "lean-proofs", "path": "lean/", "serves_properties": sorted(PROPS), "kind_free_text": "Lean 4.33 lake project: hand-written executable models (Spine/*.lean), property theorems (Spine/Props/Cxx.lean), tables regenerated from /repo (Spine/Generated), compiled model drivers (Drivers/*.lean)"},
        {"name": "correspondence-harness", "path": "go/", "serves_properties": sorted(PROPS), "kind_free_text": "Go module built with -tags verif against /repo: runs the real stack and the compiled Lean model on the same seeded op sequences, diffs canonical observations, evaluates the SPEC monitor on the implementation trace; translator for regenerated tables"},
    ],
    "checks": [],
    "not_applicable": [],
    "notes": "Technique: machine-checked proof in Lean 4 about executable models tied to the code by regeneration (translator) and by a correspondence check; see DESIGN.md. known_findings.json lists recorded defects.",
}
for pid in ids:
    if pid in PROPS and PROPS[pid].get("claimed", True):
        P = PROPS[pid]
        man["checks"].append({
            "property_id": pid,
            "quick_cmd": "./check %s quick" % pid,
            "thorough_cmd": "./check %s thorough" % pid,
            "evidence_file": "/verif/evidence/%s.json" % pid,
            "replay_cmd_template": "./check %s quick --replay {path}" % pid,
            "engine": "lean-proofs + correspondence-harness",
            "level_claimed": {"category": "proof", "text": P["level_text"], "design_ref": P.get("design_ref", "DESIGN.md §8 " + pid)},
            "level_note": P["level_note"],
            "technique": P.get("technique") or TECHNIQUE.get(pid, "Lean 4 theorems over an executable model; model tied to /repo by differential correspondence run on every check"),
        })
    else:
        reason = PROPS.get(pid, {}).get("na_reason", "check not built yet in this round (model and theorems exist in design/appendix-B; no registered command)")
        man["not_applicable"].append({"property_id": pid, "reason": reason})
json.dump(man, open("MANIFEST.json", "w"), indent=1)
print("claimed:", [c["property_id"] for c in man["checks"]])
