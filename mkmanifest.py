#!/usr/bin/env python3
"""Regenerates MANIFEST.json from registry.py (single source of truth for what is claimed)."""
import json, subprocess
from registry import PROPS
ids = [json.loads(l)["id"] for l in open("properties.jsonl")]
hooks_commits = subprocess.run("git -C /repo log --format=%H --grep='^verif:'", shell=True, capture_output=True, text=True).stdout.split()
man = {
    "version": 1,
    "setup_cmd": "./setup",
    "hooks": {
        "guard": "verif",
        "enable": "go build -tags verif (the harness under /verif/go is always built with -tags verif against /repo through a replace directive)",
        "baseline_off_cmd": "cd /repo && GOFLAGS=-mod=mod go test -vet=off -count=1 -timeout 25m ./...",
        "source_commits": hooks_commits,
        "add_only": True,
    },
    "engines": [
        {"name": "lean-proofs", "path": "lean/", "serves_properties": sorted(PROPS), "kind_free_text": "Lean 4.33 lake project: hand-written executable models (Spine/*.lean), property theorems (Spine/Props/Cxx.lean), tables regenerated from /repo (Spine/Generated), compiled model drivers (Drivers/*.lean)"},
        {"name": "correspondence-harness", "path": "go/", "serves_properties": sorted(PROPS), "kind_free_text": "Go module built with -tags verif against /repo: runs the real stack and the compiled Lean model on the same seeded op sequences, diffs canonical observations, evaluates the SPEC monitor on the implementation trace; translator for regenerated tables"},
    ],
    "checks": [],
    "not_applicable": [],
    "notes": "Technique: machine-checked proof in Lean 4 about executable models tied to the code by regeneration (translator) and by a correspondence check; see DESIGN.md. known_findings.json lists recorded defects.",
}
for pid in ids:
    if pid in PROPS and PROPS[pid].get("claimed", True):
        P = PROPS[pid]
        man["checks"].append({
            "property_id": pid,
            "quick_cmd": "./check %s quick" % pid,
            "thorough_cmd": "./check %s thorough" % pid,
            "evidence_file": "/verif/evidence/%s.json" % pid,
            "replay_cmd_template": "./check %s quick --replay {path}" % pid,
            "engine": "lean-proofs + correspondence-harness",
            "level_claimed": {"category": "proof", "text": P["level_text"], "design_ref": P.get("design_ref", "DESIGN.md §8 " + pid)},
            "level_note": P["level_note"],
            "technique": P.get("technique", "Lean 4 theorems over an executable model; model tied to /repo by differential correspondence run on every check"),
        })
    else:
        reason = PROPS.get(pid, {}).get("na_reason", "check not built yet in this round (model and theorems exist in design/appendix-B; no registered command)")
        man["not_applicable"].append({"property_id": pid, "reason": reason})
json.dump(man, open("MANIFEST.json", "w"), indent=1)
print("claimed:", [c["property_id"] for c in man["checks"]])
