#!/bin/sh
# usage: fixes/verify.sh <tree>   — build, unedited suite (tag off), analyser summary on that tree
set -e
T=${1:-/root/scratch/fix-c17}
export GOFLAGS=-mod=mod GOPROXY=off GOSUMDB=off GOTOOLCHAIN=local
(cd $T && go build ./... && go build -tags verif ./... && go test -vet=off -count=1 -timeout 25m ./... 2>&1 | grep -v "no test files" | tail -5)
W=$(cd "$(dirname "$0")/../.." && pwd)
O=$(mktemp -d)
(cd $W/go/lockgraph && VERIF_REPO=$T go run . -out $O | tail -1)
python3 - $O/locks.json <<'PY'
import json,sys
j=json.load(open(sys.argv[1]))
print("cyclic:", j["cyclic"], "leaks:", j["lock_leaks"], "unknown:", j["unknown_lock_sites"])
print("undisciplined:", [f.replace("spine.","") for f in j["undisciplined"]])
PY
rm -rf $O
