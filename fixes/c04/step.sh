#!/bin/sh
# usage: step.sh NN-slug [more checks...]   message in fixes/c04/NN-slug.msg; the edits are in the working tree of
# /root/scratch/heapfix (an independent clone of /repo). Verifies, commits there, writes NN-slug.patch.
set -e
export GOFLAGS=-mod=mod GOPROXY=off GOSUMDB=off GOTOOLCHAIN=local
N="$1"; shift; F=/root/scratch/w-heap/fixes/c04; R=/root/scratch/heapfix
cd $R
test -z "$(gofmt -l spine model)" || { echo "gofmt"; gofmt -l spine model; exit 1; }
go build ./... && go build -tags verif ./...
for i in 1 2; do
  echo "--- suite (tag off), run $i"
  go test -vet=off -count=1 ./... 2>&1 | grep -v "no test files" | tail -6
done
git add -A && git commit -q -F $F/$N.msg
git diff HEAD~1 HEAD > $F/$N.patch
cd /root/scratch/w-heap
for p in C04 C11 C02 "$@"; do
  echo "--- check $p quick against the patched tree"
  (VERIF_REPO=$R timeout 2400 ./check $p quick; echo "exit=$?") 2>&1 | sed 's/^KNOWN-FINDING: property=C.. .*\[\(.*\)\]$/KNOWN \1/' | cut -c1-300 > $F/.last.$p.out || true
  grep -v "^KNOWN" $F/.last.$p.out | tail -5
  echo "known keys still reproduced: $(grep '^KNOWN' $F/.last.$p.out | sed 's/KNOWN //' | tr '\n' ' ')"
  python3 - $p <<'PY'
import json,sys,glob,os
p=sys.argv[1]
c=[f for f in glob.glob('/root/scratch/w-heap/out/evidence-other-tree/%s.json'%p)+glob.glob('/root/scratch/w-heap/evidence/%s.json'%p) if os.path.exists(f)]
f=max(c,key=os.path.getmtime)
e=json.load(open(f))['coverage']
print('  evidence', f)
print('  not reproduced:', [n.replace('known finding ','').replace(' was not reproduced in this run','') for n in e['notes'] if 'not reproduced' in n])
print('  mismatches:', e['correspondence_mismatches'], 'flags:', {k:{a:b['on'] for a,b in v.items()} for k,v in e.get('defect_flags_probed',{}).items()})
PY
done
