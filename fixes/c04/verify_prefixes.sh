#!/bin/sh
# Verifies every prefix 01..N of the series on the commits of /root/scratch/heapfix (independent clone of /repo,
# series rebased on /repo HEAD): gofmt, build with and without -tags verif, unedited suite twice (tag off),
# ./check C04 / C11 / C02 quick against the prefix tree. Rewrites NN-*.patch from the commits.
export GOFLAGS=-mod=mod GOPROXY=off GOSUMDB=off GOTOOLCHAIN=local
F=/root/scratch/w-heap/fixes/c04; R=/root/scratch/heapfix; T=/root/scratch/heapfix-prefix
cd $R
commits=$(git rev-list --reverse origin/main..main)
n=0
for c in $commits; do
  n=$((n+1)); nn=$(printf "%02d" $n)
  msgfile=$(ls $F/$nn-*.msg); slug=$(basename $msgfile .msg)
  git diff $c~1 $c > $F/$slug.patch
  rm -rf $T; git worktree add -q --detach $T $c
  cd $T
  echo "=== prefix 01..$nn ($slug) $(git log --oneline -1 | cut -c1-80)"
  test -z "$(gofmt -l spine model)" || { echo "gofmt: $(gofmt -l spine model)"; }
  go build ./... && go build -tags verif ./... || echo BUILD-FAILED
  for i in 1 2; do go test -vet=off -count=1 ./... 2>&1 | grep -v "no test files" | tr '\n' ' '; echo; done
  cd /root/scratch/w-heap
  for p in C04 C11 C02; do
    (VERIF_REPO=$T timeout 2400 ./check $p quick; echo "exit=$?") 2>&1 | sed 's/^KNOWN-FINDING: property=C.. .*\[\(.*\)\]$/KNOWN \1/' | cut -c1-300 > $F/.last.out
    echo "$p: $(grep -v '^KNOWN' $F/.last.out | tail -2 | tr '\n' ' ')"
    grep -v "^KNOWN" $F/.last.out | grep "spec failure\|VIOLATION\|correspondence" | head -4
    echo "   keys reproduced: $(grep '^KNOWN' $F/.last.out | sed 's/KNOWN //' | tr '\n' ' ')"
    python3 - $p <<'PY'
import json,sys
e=json.load(open('/root/scratch/w-heap/out/evidence-other-tree/%s.json'%sys.argv[1]))['coverage']
print('   mismatches:', e['correspondence_mismatches'], 'member:', {k:''.join(str(int(b['on'])) for a,b in sorted(v.items())) + ' (' + ','.join(a for a,b in sorted(v.items()) if b['on']) + ' on)' for k,v in e.get('defect_flags_probed',{}).items()})
PY
  done
  cd $R; git worktree remove --force $T
done
