#!/bin/sh
# usage: step.sh NN-slug   (message in /root/scratch/w-c05/fixes/NN-slug.msg; edits are in the working tree of /root/scratch/c05fix)
set -e
export GOFLAGS=-mod=mod GOPROXY=off GOSUMDB=off GOTOOLCHAIN=local
N="$1"; F=/root/scratch/w-c05/fixes; R=/root/scratch/c05fix
cd $R
test -z "$(gofmt -l spine model)" || { echo "gofmt"; gofmt -l spine model; exit 1; }
go build ./... && go build -tags verif ./...
echo "--- suite (tag off)"
go test -vet=off -count=1 ./... 2>&1 | grep -v "no test files" | tail -6
git add -A && git commit -q -F $F/$N.msg
git diff HEAD~1 HEAD > $F/$N.patch
echo "--- check C05 quick against the patched tree"
cd /root/scratch/w-c05
VERIF_REPO=$R timeout 1200 ./check C05 quick 2>&1 | sed 's/^KNOWN-FINDING: property=C05 .*\[\(.*\)\]$/KNOWN \1/' | cut -c1-330 > $F/.last.out || true
grep -v "^KNOWN" $F/.last.out | tail -6
echo "known keys still reproduced: $(grep -c '^KNOWN' $F/.last.out)"
python3 - <<'PY'
import json
e=json.load(open('/root/scratch/w-c05/out/evidence-other-tree/C05.json'))['coverage']
print('notes:', [n.replace('known finding ','').replace(' was not reproduced in this run','') for n in e['notes'] if 'not reproduced' in n])
print('mismatches:', e['correspondence_mismatches'], 'member:', e['info']['rob-header']['model_member'])
PY
