#!/usr/bin/env python3
"""Self-test of the C01 / C03 checks against seeded mutants of /repo (development helper; results are quoted in the
final report). Usage: selftest_disp.py [names...]"""
import subprocess, sys, os, json, re
WT = "/root/scratch/mut-disp-k"
ROOT = "/root/scratch/w-disp"
ENV = dict(os.environ, GOFLAGS="-mod=mod", GOPROXY="off", GOSUMDB="off", GOTOOLCHAIN="local")
MUT = {
 # name: (property, file, old, new)
 "c01-ack-ignored-for-notify": ("C01", "spine/device_local.go",
    "		model.CmdClassifierTypeReply,\n		model.CmdClassifierTypeNotify}", "		model.CmdClassifierTypeReply}"),
 "c01-result-misaddressed": ("C01", "spine/send.go",
    "			AddressDestination:   requestHeader.AddressSource,\n			MsgCounter:           c.getMsgCounter(),\n			MsgCounterReference:  requestHeader.MsgCounter,\n			CmdClassifier:        &cmdClassifier,\n		},\n		Payload: model.PayloadType{\n			Cmd: []model.CmdType{cmd},\n		},\n	}\n\n	return c.sendSpineMessage(datagram)\n}\n\n// Reply sends reply",
    "			AddressDestination:   requestHeader.AddressDestination,\n			MsgCounter:           c.getMsgCounter(),\n			MsgCounterReference:  requestHeader.MsgCounter,\n			CmdClassifier:        &cmdClassifier,\n		},\n		Payload: model.PayloadType{\n			Cmd: []model.CmdType{cmd},\n		},\n	}\n\n	return c.sendSpineMessage(datagram)\n}\n\n// Reply sends reply"),
 "c01-failing-result-answered": ("C01", "spine/device_local.go",
    "		if message.CmdClassifier != model.CmdClassifierTypeResult {\n			_ = remoteFeature.Device().Sender().ResultError(message.RequestHeader, localFeature.Address(), err)\n		}",
    "		_ = remoteFeature.Device().Sender().ResultError(message.RequestHeader, localFeature.Address(), err)"),
 "c01-read-role-check-inverted": ("C01", "spine/feature_local.go",
    "	if r.role == model.RoleTypeClient {\n		// Read requests to a client feature are not allowed", "	if r.role != model.RoleTypeClient {\n		// Read requests to a client feature are not allowed"),
 "c01-reply-wrong-reference": ("C01", "spine/send.go",
    "			MsgCounterReference:  requestHeader.MsgCounter,\n			CmdClassifier:        &cmdClassifier,\n		},\n		Payload: model.PayloadType{\n			Cmd: []model.CmdType{cmd},\n		},\n	}\n\n	return c.sendSpineMessage(datagram)\n}\n\n// Notify sends",
    "			MsgCounterReference:  requestHeader.MsgCounterReference,\n			CmdClassifier:        &cmdClassifier,\n		},\n		Payload: model.PayloadType{\n			Cmd: []model.CmdType{cmd},\n		},\n	}\n\n	return c.sendSpineMessage(datagram)\n}\n\n// Notify sends"),
 "c01-reply-stale-data": ("C01", "spine/function_data_cmd.go",
    "func (r *FunctionDataCmd[T]) ReplyCmdType(partial bool) model.CmdType {\n	data := r.DataCopy()", "func (r *FunctionDataCmd[T]) ReplyCmdType(partial bool) model.CmdType {\n	var data *T"),
 "c03-write-flag-check-dropped": ("C03", "spine/device_local.go",
    "; !ok || !operations.Write() {", "; !ok || !operations.Read() {"),
 "c01-ack-also-for-read": ("C01", "spine/device_local.go",
    "	ackClassifiers := []model.CmdClassifierType{\n		model.CmdClassifierTypeCall,", "	ackClassifiers := []model.CmdClassifierType{\n		model.CmdClassifierTypeRead,\n		model.CmdClassifierTypeCall,"),
 "c01-unknown-destination-silent": ("C01", "spine/device_local.go",
    "		errorMessage := \"invalid feature address\"\n		_ = remoteFeature.Device().Sender().ResultError(message.RequestHeader, destAddr, model.NewErrorType(model.ErrorNumberTypeDestinationUnknown, errorMessage))\n",
    "		errorMessage := \"invalid feature address\"\n"),
 "c03-binding-compared-without-device": ("C03", "spine/binding_manager.go",
    "		if reflect.DeepEqual(item.ClientFeature.Address(), remoteAddress) {\n			return true",
    "		if reflect.DeepEqual(item.ClientFeature.Address().Entity, remoteAddress.Entity) && reflect.DeepEqual(item.ClientFeature.Address().Feature, remoteAddress.Feature) {\n			return true"),
 "c03-missing-binding-falls-through": ("C03", "spine/device_local.go",
    "			err := model.NewErrorTypeFromString(\"write denied due to missing binding\")\n			_ = remoteFeature.Device().Sender().ResultError(message.RequestHeader, localFeature.Address(), err)\n			return errors.New(err.String())",
    "			err := model.NewErrorTypeFromString(\"write denied due to missing binding\")\n			_ = remoteFeature.Device().Sender().ResultError(message.RequestHeader, localFeature.Address(), err)"),
 "c03-bindings-survive-disconnect": ("C03", "spine/device_local.go",
    "	bindingMgr.RemoveBindingsForDevice(r.remoteDevices[ski])", "	_ = bindingMgr"),
 "c03-unbind-keeps-entry": ("C03", "spine/binding_manager.go",
    "	c.bindingEntries = newBindingEntries\n\n	payload := api.EventPayload{\n		Ski:          remoteDevice.Ski(),\n		EventType:    api.EventTypeBindingChange,\n		ChangeType:   api.ElementChangeRemove,\n		Data:         data,",
    "	payload := api.EventPayload{\n		Ski:          remoteDevice.Ski(),\n		EventType:    api.EventTypeBindingChange,\n		ChangeType:   api.ElementChangeRemove,\n		Data:         data,"),
 "c03-rejected-write-notifies": ("C03", "spine/feature_local.go",
    "func (r *FeatureLocal) processWrite(msg *api.Message) {\n	if err := r.executeWrite(msg); err != nil {",
    "func (r *FeatureLocal) processWrite(msg *api.Message) {\n	if err := r.executeWrite(msg); err != nil {\n		if cd, e := msg.Cmd.Data(); e == nil {\n			if fd := r.functionData(*cd.Function); fd != nil {\n				r.Device().NotifySubscribers(r.Address(), fd.NotifyOrWriteCmdType(nil, nil, false, nil))\n			}\n		}"),
 "n-answer-invents-reference": ("C01", "spine/send.go",
    "	addressSource := *requestHeader.AddressDestination\n	addressSource.Device = senderAddress.Device\n\n	var resultData model.ResultDataType",
    "	addressSource := *requestHeader.AddressDestination\n	addressSource.Device = senderAddress.Device\n	if requestHeader.MsgCounter == nil {\n		requestHeader.MsgCounter = util.Ptr(model.MsgCounterType(0))\n	}\n\n	var resultData model.ResultDataType"),
 "n-reply-without-reference-rejected": ("C01", "spine/feature_local.go",
    "	cmdData, _ := message.Cmd.Data()\n	featureRemote := message.FeatureRemote\n",
    "	cmdData, _ := message.Cmd.Data()\n	featureRemote := message.FeatureRemote\n	if message.RequestHeader.MsgCounterReference == nil {\n		return model.NewErrorTypeFromString(\"reference required\")\n	}\n"),
 "n-result-source-device-echoed": ("C01", "spine/send.go",
    "	addressSource := *requestHeader.AddressDestination\n	addressSource.Device = senderAddress.Device\n\n	var resultData model.ResultDataType",
    "	addressSource := *requestHeader.AddressDestination\n\n	var resultData model.ResultDataType"),
 "n-notification-carries-no-data": ("C03", "spine/function_data_cmd.go",
    "func (r *FunctionDataCmd[T]) NotifyOrWriteCmdType(deleteSelector, partialSelector any, partialWithoutSelector bool, deleteElements any) model.CmdType {\n	data := r.DataCopy()",
    "func (r *FunctionDataCmd[T]) NotifyOrWriteCmdType(deleteSelector, partialSelector any, partialWithoutSelector bool, deleteElements any) model.CmdType {\n	var data *T"),
 "n-setdata-does-not-notify": ("C01", "spine/feature_local.go",
    "	if fctData != nil && err == nil {\n		r.Device().NotifySubscribers(r.Address(), fctData.NotifyOrWriteCmdType(nil, nil, false, nil))\n	}\n}\n\nfunc (r *FeatureLocal) UpdateData(",
    "	_ = fctData\n}\n\nfunc (r *FeatureLocal) UpdateData("),
 "n-binding-data-lists-all-peers": ("C01", "spine/nodemanagement_binding.go",
    "	remoteDeviceBindingEntries := r.Device().BindingManager().Bindings(message.FeatureRemote.Device())",
    "	var remoteDeviceBindingEntries []*api.BindingEntry\n	for _, rd := range r.Device().RemoteDevices() {\n		remoteDeviceBindingEntries = append(remoteDeviceBindingEntries, r.Device().BindingManager().Bindings(rd)...)\n	}"),
 "n-rejected-write-stores-value": ("C03", "spine/device_local.go",
    "			err := model.NewErrorTypeFromString(\"write denied due to missing binding\")\n",
    "			_, _ = localFeature.(*FeatureLocal).updateData(false, *cmdData.Function, cmdData.Value, nil, nil)\n			err := model.NewErrorTypeFromString(\"write denied due to missing binding\")\n"),
 "r2-gate-lookup-prefix-compare": ("C03", "spine/binding_manager.go",
    "		if reflect.DeepEqual(item.ClientFeature.Address(), remoteAddress) {\n			return true\n		}",
    "		ia := item.ClientFeature.Address()\n		same := ia.Device != nil && remoteAddress.Device != nil && *ia.Device == *remoteAddress.Device && ia.Feature != nil && remoteAddress.Feature != nil && *ia.Feature == *remoteAddress.Feature && len(ia.Entity) <= len(remoteAddress.Entity)\n		for i := range ia.Entity {\n			if same && ia.Entity[i] != remoteAddress.Entity[i] {\n				same = false\n			}\n		}\n		if same {\n			return true\n		}"),
 "r2-unbind-by-object-identity": ("C03", "spine/binding_manager.go",
    "		if item.ClientFeature.Device().Ski() != remoteDevice.Ski() ||\n			!reflect.DeepEqual(*itemAddress, clientAddress) ||\n			!reflect.DeepEqual(item.ServerFeature, serverFeature) {\n			newBindingEntries = append(newBindingEntries, item)\n		}\n	}\n\n	if len(newBindingEntries) == len(c.bindingEntries) {\n		return errors.New(\"could not find requested binding to be removed\")\n	}\n",
    "		_ = itemAddress\n		if item.ClientFeature != clientFeature || item.ServerFeature != serverFeature {\n			newBindingEntries = append(newBindingEntries, item)\n		}\n	}\n"),
 "r2-unsubscribe-by-object-identity": ("C03", "spine/subscription_manager.go",
    "		if item.ClientFeature.Device().Ski() != remoteDevice.Ski() ||\n			!reflect.DeepEqual(itemAddress.Device, clientAddress.Device) ||\n			!reflect.DeepEqual(itemAddress.Entity, clientAddress.Entity) ||\n			!reflect.DeepEqual(itemAddress.Feature, clientAddress.Feature) ||\n			!reflect.DeepEqual(item.ServerFeature, serverFeature) {\n			newSubscriptionEntries = append(newSubscriptionEntries, item)\n		}\n	}\n\n	if len(newSubscriptionEntries) == len(c.subscriptionEntries) {\n		return errors.New(\"could not find requested SubscriptionId to be removed\")\n	}\n",
    "		_ = itemAddress\n		if item.ClientFeature != clientFeature || item.ServerFeature != serverFeature {\n			newSubscriptionEntries = append(newSubscriptionEntries, item)\n		}\n	}\n"),
 "r3-gate-judges-function-element": ("C03", "spine/device_local.go",
    "		if operations, ok := localFeature.Operations()[*cmdData.Function]; !ok || !operations.Write() {",
    "		gateFn := *cmdData.Function\n		if cmd.Function != nil && len(*cmd.Function) > 0 {\n			gateFn = *cmd.Function\n		}\n		if operations, ok := localFeature.Operations()[gateFn]; !ok || !operations.Write() {"),
 "r3-full-notify-skips-removal-when-count-not-smaller": ("C03", "spine/nodemanagement_detaileddiscovery.go",
    "	// seach for removed entites\n	for _, entity := range remoteDevice.Entities() {\n		address := entity.Address()\n		if !r.addressEntityListContainsAddressEntity(existingEntities, address.Entity) {",
    "	// seach for removed entites\n	skipRemoved := len(data.EntityInformation) >= len(remoteDevice.Entities())\n	for _, entity := range remoteDevice.Entities() {\n		address := entity.Address()\n		if !skipRemoved && !r.addressEntityListContainsAddressEntity(existingEntities, address.Entity) {"),
 "r3-sender-memoised-per-ski": ("C01", "spine/device_local.go",
    "	sender := NewSender(writeI)\n	rDevice := NewDeviceRemote(r, ski, sender)",
    "	memoKey := fmt.Sprintf(\"%p-%s\", r, ski)\n	sender, ok := senderMemo[memoKey]\n	if !ok {\n		sender = NewSender(writeI)\n		senderMemo[memoKey] = sender\n	}\n	rDevice := NewDeviceRemote(r, ski, sender)"),
 "r4-removal-entry-for-devinfo-not-skipped": ("C01", "spine/nodemanagement_detaileddiscovery.go",
    "				if slices.Equal(entityAddress, DeviceInformationAddressEntity) {\n					continue\n				}\n",
    "				_ = slices.Equal[[]model.AddressEntityType]\n"),
 "c03-entity-removal-keeps-bindings": ("C03", "spine/nodemanagement_detaileddiscovery.go",
    "				bindingMgr.RemoveBindingsForEntity(removedEntity)", "				_ = bindingMgr"),
}
def sh(cmd, **kw):
    return subprocess.run(cmd, shell=True, stdout=subprocess.PIPE, stderr=subprocess.STDOUT, text=True, **kw)
names = sys.argv[1:] or list(MUT)
results = {}
for n in names:
    prop, f, old, new = MUT[n]
    sh("git -C /repo worktree remove --force %s" % WT)
    r = sh("git -C /repo worktree add %s HEAD" % WT)
    p = os.path.join(WT, f)
    s = open(p).read()
    if s.count(old) != 1:
        print(n, "PATTERN count", s.count(old)); results[n] = "pattern-not-found"; continue
    s = s.replace(old, new)
    if "senderMemo[" in new:
        s += "\nvar senderMemo = map[string]api.SenderInterface{}\n"
    open(p, "w").write(s)
    b = sh("go build ./... && go vet ./spine/ 2>&1 | head -5", cwd=WT, env=ENV)
    if b.returncode != 0:
        print(n, "BUILD FAILED", b.stdout[-500:]); results[n] = "build-failed"; continue
    c = sh("timeout 900 ./check %s quick" % prop, cwd=ROOT, env=dict(ENV, VERIF_REPO=WT))
    viol = [l for l in c.stdout.splitlines() if l.startswith("VIOLATION") or l.startswith("  spec failure") or l.startswith("  correspondence") or l.startswith("MACHINERY")]
    keys = sorted(set(re.findall(r"spec failure \[([^\]]+)\]", c.stdout)))
    results[n] = {"exit": c.returncode, "violation": any(l.startswith("VIOLATION") for l in viol), "keys": keys,
                  "no_failing_input": any("no-failing-input-found" in l for l in viol)}
    # keep the first replay, re-run it on the mutant (must fail) and on /repo (must pass)
    m = re.search(r"VIOLATION property=\S+ replay=(\S+)", c.stdout)
    if m and os.path.exists(m.group(1)):
        keep = os.path.join(ROOT, "selftest", "disp-replay-%s.json" % n)
        os.makedirs(os.path.dirname(keep), exist_ok=True)
        rp = json.load(open(m.group(1)))
        rp["how_to_replay"] = "./check %s quick --replay selftest/disp-replay-%s.json" % (prop, n)
        json.dump(rp, open(keep, "w"), indent=1)
        on_mut = sh("timeout 600 ./check %s quick --replay %s" % (prop, keep), cwd=ROOT, env=dict(ENV, VERIF_REPO=WT)).returncode
        on_head = sh("timeout 600 ./check %s quick --replay %s" % (prop, keep), cwd=ROOT, env=ENV).returncode
        results[n].update({"replay": os.path.relpath(keep, ROOT), "replay_ops": len(rp.get("ops", [])), "replay_exit_on_mutant": on_mut, "replay_exit_on_repo": on_head})
    print(n, json.dumps(results[n]))
    for l in viol[:4]:
        print("    ", l[:260])
sh("git -C /repo worktree remove --force %s" % WT)
json.dump(results, open(os.path.join(ROOT, "out", "selftest_disp.json"), "w"), indent=1)
