import Spine.JsonThm
open Spine.Json
def exTy : Ty := .struct [(1, true, .slice .num), (2, true, .slice .num), (3, true, .ptr .str)]
def exV : V := .strct [.list [], .list [.num 7], .some (.str "x")]
example : decode exTy (encode exTy exV) = some (.strct [.nil, .list [.num 7], .some (.str "x")]) := by
  simp [exTy, exV, encode, encodeFields, encodeList, decode, decodeFields, decodeList, lookup, isEmptyV]
example : decode exTy (encode exTy exV) = some (.strct [.nil, .list [.num 7], .some (.str "x")]) := by
  rw [decode_encode exTy exV (by decide) (by decide)]
  simp [exTy, exV, norm, normFields, normList, isEmptyV]
