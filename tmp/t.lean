import Spine.Json
open Spine.Json
example : DecidableEq (Except Nat Nat) := inferInstance
deriving instance DecidableEq for Ty
#check (inferInstance : DecidableEq Ty)
deriving instance DecidableEq for V
deriving instance DecidableEq for J
