import Spine.Generated.Schema
open Spine.Json Spine.Generated
def fieldsOf : Ty → List (Key × Bool × Ty)
  | .struct fs => fs
  | _ => []
def anyEq (x : Nat) : List Nat → Bool
  | [] => false
  | y :: ys => Nat.beq x y || anyEq x ys
def nodupB : List Nat → Bool
  | [] => true
  | x :: xs => !(anyEq x xs) && nodupB xs
theorem t1 : nodupB ((fieldsOf t_FilterType).map (·.1)) = true := by decide +kernel
