import Spine.Generated.Schema
open Spine.Json Spine.Generated
theorem wf_x : wf t_HeaderType = true := by decide +kernel
