import Spine.Cmd
open Spine.Json Spine.Generated Spine.Cmd

instance {ε α} [DecidableEq ε] [DecidableEq α] : DecidableEq (Except ε α) := fun a b =>
  match a, b with
  | .ok x, .ok y => if h : x = y then isTrue (h ▸ rfl) else isFalse (fun e => h (Except.ok.inj e))
  | .error x, .error y => if h : x = y then isTrue (h ▸ rfl) else isFalse (fun e => h (Except.error.inj e))
  | .ok _, .error _ => isFalse (fun e => nomatch e)
  | .error _, .ok _ => isFalse (fun e => nomatch e)

#eval (functions.map fun f => (f.name, selectorTagOk f, elementsTagOk f)).filter (fun x => !x.2.1 || !x.2.2)



#eval (functions.filter fun f => Shape.all.any fun sh => applicable f sh && !tagBad f sh && roundtrip clean f sh tok != .ok (some (expected f sh tok))).map (·.name)

theorem rt_clean : ∀ f ∈ functions, ∀ sh ∈ Shape.all, applicable f sh = true → tagBad f sh = false →
    roundtrip clean f sh tok = .ok (some (expected f sh tok)) := by decide +kernel
