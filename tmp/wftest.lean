import Spine.Generated.Schema
open Spine.Json Spine.Generated
theorem wf_datagram : wf t_Datagram = true := by decide +kernel
#print axioms wf_datagram
