def names : List String := (List.range 300).map fun i => "electricalConnectionPermittedValueSetListDataSelectors" ++ toString i
def lits : List String := ["alarmListData", "billListData", "alarmListDataX", "electricalConnectionPermittedValueSetListDataSelectors", "electricalConnectionPermittedValueSetListDataSelectorz"]
theorem t1 : lits.Nodup := by decide +kernel
theorem t2 : ("alarmListData" == "alarmListData") = true := by decide +kernel
theorem t3 : "alarmListData" ≠ "alarmListDatb" := by decide +kernel
#print axioms t1
#print axioms t3
