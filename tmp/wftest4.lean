import Spine.Generated.Schema
open Spine.Json Spine.Generated
theorem wf_all : (schema.all fun p => wf p.2.2) = true := by decide +kernel
