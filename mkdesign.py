#!/usr/bin/env python3
"""Re-generates the marked regions of DESIGN.md (<!-- BEGIN:x --> … <!-- END:x -->) from machine-written files."""
import subprocess, re, os
ROOT = os.path.dirname(os.path.abspath(__file__))
out = subprocess.run(["python3", os.path.join(ROOT, "mkstatus.py")], capture_output=True, text=True).stdout
status, seeded = out.split("\n\n", 1)
s = open(os.path.join(ROOT, "DESIGN.md")).read()
for name, body in (("status", status), ("seeded", seeded)):
    s = re.sub(r"<!-- BEGIN:%s -->.*?<!-- END:%s -->" % (name, name), lambda m: "<!-- BEGIN:%s -->\n%s\n<!-- END:%s -->" % (name, body.strip(), name), s, flags=re.S)
open(os.path.join(ROOT, "DESIGN.md"), "w").write(s)
