#!/bin/sh
# usage: rungen.sh <repo> <outdir>
cd /root/scratch/w-tree/go && VERIF_REPO=$1 go run -modfile .gen.mod -tags verif ./cmd/translate -out $2 entitylocal
