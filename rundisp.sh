#!/bin/bash
# usage: rundisp.sh [seed] [tier]   (development helper; the registered entry point is ./check)
export GOFLAGS=-mod=mod GOPROXY=off GOSUMDB=off GOTOOLCHAIN=local
cd /root/scratch/w-disp/go
VERIF_SEED=${1:-1} VERIF_TIER=${2:-quick} VERIF_DRV_DIR=/root/scratch/w-disp/lean/.lake/build/bin VERIF_OUT=/root/scratch/w-disp/out/disp.json timeout 900 go test -tags verif -count=1 -timeout 800s -run '^TestDispatch$' ./comp/ 2>&1 | grep -v "^\*\|^model\.\|^\[\]" | tail -${3:-5}
python3 - <<'PY'
import json
r=json.load(open('/root/scratch/w-disp/out/disp.json'))
for k in ['evaluations','traces_validated_against_impl','distinct_nontrivial','mismatch_count','spec_failure_counts','floors','floor_failures','info','wall_s']:
    print(k, json.dumps(r.get(k))[:1200])
print(json.dumps(r['mismatches'][:1],indent=1)[:4000])
for s in r['spec_failures']:
    if s['key'] not in ('C01/result-on-result','C03/binding-lost-to-other-peers-entity-removal','C03/binding-lost-to-unbind-of-another-binding'):
        print(s['key'], s['detail'][:400], s['ops'])
PY
