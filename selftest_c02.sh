#!/bin/bash
# Self-test of the C02 check: apply one small mutation at a time to a scratch worktree of /repo and expect a VIOLATION.
# usage: selftest_c02.sh <worktree-dir>   (the worktree must be a clean checkout of /repo's HEAD)
set -u
W=$1
cd "$(dirname "$0")"
export GOFLAGS=-mod=mod GOPROXY=off GOSUMDB=off GOTOOLCHAIN=local
run() { # name, file, sed-expression
  name=$1; file=$2; expr=$3
  if [ -n "${ONLY:-}" ] && ! echo "$name" | grep -qE "$ONLY"; then return; fi
  git -C "$W" checkout -q . 
  sed -i "$expr" "$W/$file"
  if git -C "$W" diff --quiet; then echo "MUTANT $name: sed did not change anything"; return; fi
  if ! (cd "$W" && go build ./... >/dev/null 2>&1); then echo "MUTANT $name: does not compile"; git -C "$W" checkout -q .; return; fi
  out=$(VERIF_REPO=$W timeout 1500 ./check C02 quick 2>&1)
  rc=$?
  nviol=$(echo "$out" | grep -c '^VIOLATION')
  echo "MUTANT $name: exit=$rc violations=$nviol"
  echo "$out" | grep -v KNOWN-FINDING | grep 'spec failure\|correspondence broken\|VIOLATION\|MACHINERY' | cut -c1-260 | head -6
  git -C "$W" checkout -q .
}
run guard-dropped        model/measurement_additions.go  '15s/if success && persist {/if persist {/'
run args-swapped         model/setpoint_additions.go     '0,/UpdateList(remoteWrite, r.SetpointData, newData,/s//UpdateList(remoteWrite, newData, r.SetpointData,/'
run persist-for-remote   model/alarm_additions.go        '0,/UpdateList(remoteWrite, r\./s//UpdateList(persist, r./'
run returns-newdata      model/bill_additions.go         '0,/return data, success/s//return newData, success/'
run sort-inverted        model/update.go                 's/return value1 < value2/return value1 > value2/'
run merge-append-cond    model/collection_operations.go  's/if !exist \&\& !remoteWrite {/if !exist \&\& remoteWrite {/'
run delete-sel-inverted  model/update.go                 's/if !filterData.SelectorMatch(util.Ptr(existingData\[i\])) {/if filterData.SelectorMatch(util.Ptr(existingData[i])) {/'
run fastpath-no-persist  spine/function_data.go          's/if filterPartial == nil \&\& filterDelete == nil \&\& persist {/if filterPartial == nil \&\& filterDelete == nil {/'
run updatefields-inverted model/collection_operations.go '128s/if f.IsNil() ||/if !f.IsNil() ||/'
run identifierless-inverted model/update.go              's/if len(newData) > 0 \&\& !HasIdentifiers(newData\[0\]) {/if len(newData) > 0 \&\& HasIdentifiers(newData[0]) {/'
run selector-no-break    model/update.go                 '/CopyNonNilDataFromItemToItem(newData, &existingData\[i\])/{n;s/^\t\t\tbreak$/\t\t\t_ = i/}'
run fix-return-data      model/identification_additions.go 's/return persist, success/return data, success/'
# stack-level mutants
run remote-flag-on-replica   spine/feature_remote.go  's/fd.UpdateDataAny(false, persist, data, filterPartial, filterDelete)/fd.UpdateDataAny(true, persist, data, filterPartial, filterDelete)/'
run notify-filters-swapped   spine/feature_local.go   's/featureRemote.UpdateData(true, function, data, filterPartial, filterDelete)/featureRemote.UpdateData(true, function, data, filterDelete, filterPartial)/'
run reply-drops-delete       spine/feature_local.go   's/featureRemote.UpdateData(true, \*cmdData.Function, cmdData.Value, message.FilterPartial, message.FilterDelete)/featureRemote.UpdateData(true, *cmdData.Function, cmdData.Value, message.FilterPartial, nil)/'
run local-not-persisted      spine/feature_local.go   's/fctData.UpdateDataAny(remoteWrite, true, data, filterPartial, filterDelete)/fctData.UpdateDataAny(remoteWrite, false, data, filterPartial, filterDelete)/'
run merge-local-needs-flag   model/collection_operations.go 's/if exist \&\& (!remoteWrite || writeAllowed) {/if exist \&\& (remoteWrite || writeAllowed) {/'
run remove-element-noop      model/update.go '354s/f.Set(reflect.Zero(f.Type()))/_ = f/'
run hashkey-stops-early      model/collection_operations.go '0,/\t\t\tresult = fmt.Sprintf("%s%d", result, value)/s//\t\t\tresult = fmt.Sprintf("%s%d", result, value)\n\t\t\treturn result/'
run copytoall-skips-first    model/update.go '/^func copyToAllData/,/^}/s/for i := range existingData {/for i := range existingData[min(1, len(existingData)):] {/'
