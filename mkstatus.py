#!/usr/bin/env python3
"""Prints markdown tables for DESIGN.md from the machine-written files: per-property status (evidence, known
findings, fixed list) and the seeded-change table (seeded/*/meta.json, result.json)."""
import json, glob, os, re
ROOT = os.path.dirname(os.path.abspath(__file__))
props = [json.loads(l) for l in open(os.path.join(ROOT, "properties.jsonl"))]
findings, fixed = [], []
for f in [os.path.join(ROOT, "known_findings.json")] + sorted(glob.glob(os.path.join(ROOT, "known_findings.d", "*.json"))):
    k = json.load(open(f)); findings += k.get("findings", []); fixed += k.get("fixed", [])
print("| | theorems audited (refuted-by-witness among them) | quick run: evaluations / traces / wall | known findings (open) | repaired in /repo (`fix:` commits) |")
print("|---|---|---|---|---|")
for p in props:
    pid = p["id"]
    try:
        ev = json.load(open(os.path.join(ROOT, "evidence", pid + ".json")))
    except OSError:
        continue
    ths = ev["coverage"]["theorems"]
    ref = [t for t in ths if re.search(r"refuted|witness", t["name"])]
    kf = [f["key"] for f in findings if f["property"] == pid]
    fx = sorted(set(re.findall(r"property=%s (\w+)" % pid, " ".join(fixed))))
    nfx = len([x for x in fixed if "property=%s " % pid in x])
    print("| %s | %d (%d) | %d / %d / %.0f s | %s | %d finding(s): %s |" % (pid, len(ths), len(ref), ev["coverage"]["evaluations"],
          ev["coverage"]["traces_validated_against_impl"], ev["wall_s"], ", ".join("`%s`" % k for k in kf) or "—", nfx, " ".join(fx) or "—"))
print()
print("| seeded change | property / clause | what it needs to manifest | result of `./check <prop> quick` |")
print("|---|---|---|---|")
for d in sorted(glob.glob(os.path.join(ROOT, "seeded", "*"))):
    try:
        m = json.load(open(os.path.join(d, "meta.json")))
    except OSError:
        continue
    res = ""
    try:
        r = json.load(open(os.path.join(d, "result.json")))
        for pr, v in r["results"].items():
            kinds = []
            for f in sorted(glob.glob(os.path.join(d, "replay-%s-*.json" % pr))):
                try:
                    rp = json.load(open(f)); kinds.append(rp.get("key") or rp.get("kind"))
                except Exception:
                    pass
            nf = any("no-failing-input-found" in l for l in v["violation_lines"]) and not any("no-failing-input-found" not in l for l in v["violation_lines"])
            res = ("detected" if v["detected"] else ("patch no longer applies" if v["detected"] is None else "MISSED")) + \
                  (" (tie broken, no failing input found)" if nf else "") + (": " + ", ".join("`%s`" % k for k in sorted(set(map(str, kinds)))[:3]) if kinds and v["detected"] else "")
    except OSError:
        res = "not run"
    print("| %s | %s — %s | %s | %s |" % (os.path.basename(d), m.get("property"), str(m.get("clause", ""))[:110].replace("|", "/"),
          str(m.get("needs", ""))[:230].replace("|", "/").replace("\n", " "), res))
