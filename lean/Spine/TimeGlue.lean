/-! C19, instants: the glue between `NewDateTimeTypeFromTime` and `GetTime` — which of the layouts tried
    for parsing accepts the text that the formatting layout produces. Layouts are token lists as emitted
    by the translator (`Spine/Generated/TimeLayouts.lean`: 1 = optional fraction, 2 = literal `Z`,
    3 = numeric zone, 4 = the literal text "+07:00", other bytes 100 + b). Calendar arithmetic and the
    element-by-element behaviour of `time.Format` / `time.Parse` are assumption A-time; the model only
    says: a text formatted from a whole-second instant has exactly the elements of its layout and no
    fraction, and a parsing layout accepts it iff it has the same elements, an optional fraction matching
    the empty string. Core Lean only. -/
namespace Spine.TG

/-- a layout without its optional-fraction element -/
def stripFrac (l : List Nat) : List Nat := l.filter (· ≠ 1)

/-- does parsing layout `l` accept the text that layout `f` (without fraction element) produces from a
    whole-second instant? -/
def accepts (l f : List Nat) : Bool := stripFrac l == f

/-- `GetTime` returns the result of the first layout that parses without error -/
def firstMatch (ls : List (List Nat)) (f : List Nat) : Option (List Nat) := ls.find? (accepts · f)

end Spine.TG
