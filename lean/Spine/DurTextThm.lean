import Spine.DurText
/-! Lemmas about `Spine.DurText`: what `parse` makes of the text `render` writes. Core Lean only. -/
namespace Spine.DurText

/-! ## Digits -/

theorem digitsF_all_digit : ∀ (f n : Nat), ∀ b ∈ digitsF f n, isDigit b = true := by
  intro f
  induction f with
  | zero => intro n b hb; simp [digitsF] at hb
  | succ f ih =>
    intro n b hb
    unfold digitsF at hb
    split at hb
    · simp at hb; subst hb; simp [isDigit]; omega
    · rw [List.mem_append] at hb
      rcases hb with hb | hb
      · exact ih _ b hb
      · simp at hb; subst hb; simp [isDigit]; omega

theorem digitsF_ne_nil (f n : Nat) : digitsF (f + 1) n ≠ [] := by
  unfold digitsF
  split <;> simp

theorem valOf_append (l : Text) (b : Nat) : valOf (l ++ [b]) = valOf l * 10 + (b - 48) := by
  unfold valOf
  rw [List.foldl_append]
  rfl

theorem valOf_digitsF : ∀ (f n : Nat), n < f → valOf (digitsF f n) = n := by
  intro f
  induction f with
  | zero => intro n h; omega
  | succ f ih =>
    intro n h
    unfold digitsF
    split
    · simp [valOf]
    · rw [valOf_append, ih (n / 10) (by omega)]; omega

theorem natText_all_digit (n : Nat) : ∀ b ∈ natText n, isDigit b = true := digitsF_all_digit _ _
theorem natText_ne_nil (n : Nat) : natText n ≠ [] := digitsF_ne_nil _ _
theorem valOf_natText (n : Nat) : valOf (natText n) = n := valOf_digitsF _ _ (by omega)

theorem parseNat_natText (n : Nat) (h : n < 2 ^ 63) : parseNat (natText n) = some n := by
  unfold parseNat
  rw [if_neg (natText_ne_nil n)]
  have : (natText n).all isDigit = true := by
    rw [List.all_eq_true]; exact natText_all_digit n
  rw [if_pos this, valOf_natText, if_pos h]

theorem isDigit_digitish {b : Nat} (h : isDigit b = true) : isDigitish b = true := by
  simp [isDigitish, h]

theorem isDigit_ne {b c : Nat} (h : isDigit b = true) (hc : c < 48 ∨ 57 < c) : b ≠ c := by
  simp [isDigit] at h; omega

theorem splitFirst_none (b : Nat) (hb : b < 48 ∨ 57 < b) :
    ∀ l : Text, (∀ x ∈ l, isDigit x = true) → splitFirst b l = none := by
  intro l
  induction l with
  | nil => intro _; rfl
  | cons c cs ih =>
    intro h
    unfold splitFirst
    have hc : c ≠ b := isDigit_ne (h c (by simp)) hb
    rw [if_neg hc, ih (fun x hx => h x (by simp [hx]))]

theorem splitFirst_append (b : Nat) (hb : b < 48 ∨ 57 < b) :
    ∀ (l r : Text), (∀ x ∈ l, isDigit x = true) → splitFirst b (l ++ b :: r) = some (l, r) := by
  intro l
  induction l with
  | nil => intro r _; simp [splitFirst]
  | cons c cs ih =>
    intro r h
    have hc : c ≠ b := isDigit_ne (h c (by simp)) hb
    show splitFirst b (c :: (cs ++ b :: r)) = _
    unfold splitFirst
    rw [if_neg hc, ih r (fun x hx => h x (by simp [hx]))]

/-- a whole number is read as itself -/
theorem parseDecimal_natText (n : Nat) (h : n < 2 ^ 63) : parseDecimal (natText n) = some (n, 0) := by
  unfold parseDecimal
  rw [splitFirst_none 46 (by omega) _ (natText_all_digit n),
      splitFirst_none 44 (by omega) _ (natText_all_digit n)]
  simp [parseSplit, parseNat_natText n h, parseFrac]

theorem natText_small (d : Nat) (h : d < 10) : natText d = [48 + d] := by
  unfold natText digitsF
  simp [h]

/-- `i.f` with one decimal is read as `(i, f)` -/
theorem parseDecimal_frac (i f : Nat) (hi : i < 2 ^ 63) (hf : f < 10) :
    parseDecimal (natText i ++ 46 :: natText f) = some (i, f) := by
  unfold parseDecimal
  rw [splitFirst_append 46 (by omega) _ _ (natText_all_digit i), natText_small f hf]
  simp only [parseSplit, parseNat_natText i hi, parseFrac]
  have : parseNat [48 + f] = some f := by
    have := parseNat_natText f (by omega)
    rwa [natText_small f hf] at this
  rw [this]

/-! ## The scanner on what `writeField` writes -/

theorem lexGo_cons (c : Nat) (cs acc : Text) : lexGo (c :: cs) acc =
    (if isDigitish c then lexGo cs (acc ++ [c])
     else if c = 84 ∧ acc = [] then consTok .tmark (lexGo cs [])
     else fieldTok c (lexGo cs []) (parseDecimal acc)) := by rw [lexGo]

theorem lexGo_digits (c : Nat) (rest : Text) (hc : isDigitish c = false) :
    ∀ (ds acc : Text), (∀ x ∈ ds, isDigitish x = true) → (c ≠ 84 ∨ acc ++ ds ≠ []) →
      lexGo (ds ++ c :: rest) acc = fieldTok c (lexGo rest []) (parseDecimal (acc ++ ds)) := by
  intro ds
  induction ds with
  | nil =>
    intro acc _ hne
    simp only [List.nil_append, List.append_nil] at *
    rw [lexGo_cons, hc]
    simp only [Bool.false_eq_true, if_false]
    have : ¬ (c = 84 ∧ acc = []) := by
      intro ⟨h1, h2⟩; rcases hne with h | h <;> contradiction
    rw [if_neg this]
  | cons d ds ih =>
    intro acc h hne
    show lexGo (d :: (ds ++ c :: rest)) acc = _
    rw [lexGo_cons, h d (by simp)]
    simp only [if_true]
    rw [ih (acc ++ [d]) (fun x hx => h x (by simp [hx])) (Or.inr (by simp))]
    simp

def optTok (f des : Nat) : List Tok := if f = 0 then [] else [Tok.field (f / 10) (f % 10) des]

def prependToks (l : List Tok) : Option (List Tok) → Option (List Tok)
  | some r => some (l ++ r)
  | none => none

theorem consTok_eq (t : Tok) (o : Option (List Tok)) : consTok t o = prependToks [t] o := by
  cases o <;> rfl

theorem prependToks_nil (o : Option (List Tok)) : prependToks [] o = o := by cases o <;> rfl

theorem prependToks_append (a b : List Tok) (o : Option (List Tok)) :
    prependToks a (prependToks b o) = prependToks (a ++ b) o := by
  cases o <;> simp [prependToks]

/-- a designator of the grammar: not digit-ish and not `T` -/
abbrev isDes (c : Nat) : Prop := isDigitish c = false ∧ c ≠ 84

theorem lexGo_writeField (f des : Nat) (rest : Text) (hd : isDes des) (hf : f < 2 ^ 63) :
    lexGo (writeField f des ++ rest) [] = prependToks (optTok f des) (lexGo rest []) := by
  unfold writeField optTok
  by_cases h0 : f = 0
  · simp [h0, prependToks_nil]
  · rw [if_neg h0, if_neg h0]
    by_cases h10 : f % 10 = 0
    · rw [if_pos h10, List.append_assoc]
      show lexGo (natText (f / 10) ++ des :: rest) [] = _
      rw [lexGo_digits des rest hd.1 _ _ (fun x hx => isDigit_digitish (natText_all_digit _ x hx))
        (Or.inl hd.2)]
      simp only [List.nil_append]
      rw [parseDecimal_natText _ (by omega), h10]
      simp [fieldTok, consTok_eq]
    · rw [if_neg h10]
      have e : natText (f / 10) ++ 46 :: natText (f % 10) ++ [des] ++ rest =
          (natText (f / 10) ++ 46 :: natText (f % 10)) ++ des :: rest := by simp
      rw [e, lexGo_digits des rest hd.1 _ _ _ (Or.inl hd.2)]
      · simp only [List.nil_append]
        rw [parseDecimal_frac _ _ (by omega) (by omega)]
        simp [fieldTok, consTok_eq]
      · intro x hx
        rw [List.mem_append] at hx
        rcases hx with hx | hx
        · exact isDigit_digitish (natText_all_digit _ x hx)
        · simp at hx
          rcases hx with hx | hx
          · subst hx; decide
          · exact isDigit_digitish (natText_all_digit _ x hx)

theorem isDes_89 : isDes 89 := by decide
theorem isDes_77 : isDes 77 := by decide
theorem isDes_87 : isDes 87 := by decide
theorem isDes_68 : isDes 68 := by decide
theorem isDes_72 : isDes 72 := by decide
theorem isDes_83 : isDes 83 := by decide

/-- the tokens of a period, as `render` orders them -/
def dayToks (d : Nat) : List Tok :=
  if d = 0 then [] else if d % 70 = 0 then optTok (d / 7) 87 else optTok d 68

def tToks (p : P64) : List Tok := if p.hours ≠ 0 ∨ p.minutes ≠ 0 ∨ p.seconds ≠ 0 then [Tok.tmark] else []

def toks (p : P64) : List Tok :=
  optTok p.years 89 ++ (optTok p.months 77 ++ (dayToks p.days ++ (tToks p ++
    (optTok p.hours 72 ++ (optTok p.minutes 77 ++ optTok p.seconds 83)))))

theorem lexGo_writeDays (d : Nat) (rest : Text) (hf : d < 2 ^ 63) :
    lexGo (writeDays d ++ rest) [] = prependToks (dayToks d) (lexGo rest []) := by
  unfold writeDays dayToks
  split
  · simp [prependToks_nil]
  · split
    · exact lexGo_writeField _ _ _ isDes_87 (by omega)
    · exact lexGo_writeField _ _ _ isDes_68 hf

theorem lexGo_tMark (p : P64) (rest : Text) :
    lexGo (tMark p ++ rest) [] = prependToks (tToks p) (lexGo rest []) := by
  unfold tMark tToks
  split
  · show lexGo (84 :: rest) [] = _
    rw [lexGo_cons]
    simp [isDigitish, isDigit, consTok_eq]
  · simp [prependToks_nil]

def small (p : P64) : Prop :=
  p.years < 2 ^ 63 ∧ p.months < 2 ^ 63 ∧ p.days < 2 ^ 63 ∧ p.hours < 2 ^ 63 ∧ p.minutes < 2 ^ 63 ∧
    p.seconds < 2 ^ 63

/-- the scanner reads the body that `render` writes after the `P` back as the tokens of the period -/
theorem lexGo_body (p : P64) (hs : small p) :
    lexGo (writeField p.years 89 ++ (writeField p.months 77 ++ (writeDays p.days ++ (tMark p ++
      (writeField p.hours 72 ++ (writeField p.minutes 77 ++ writeField p.seconds 83)))))) [] =
    some (toks p) := by
  obtain ⟨h1, h2, h3, h4, h5, h6⟩ := hs
  have e : writeField p.seconds 83 = writeField p.seconds 83 ++ [] := by simp
  rw [e, lexGo_writeField _ _ _ isDes_89 h1, lexGo_writeField _ _ _ isDes_77 h2, lexGo_writeDays _ _ h3,
    lexGo_tMark, lexGo_writeField _ _ _ isDes_72 h4, lexGo_writeField _ _ _ isDes_77 h5,
    lexGo_writeField _ _ _ isDes_83 h6]
  simp only [prependToks_append]
  simp [lexGo, prependToks, toks]

/-! ## The field automaton on the tokens of a period whose only fraction is in the seconds -/

theorem optTok_zero (des : Nat) : optTok 0 des = [] := rfl

theorem optTok_whole (f des : Nat) (h0 : f ≠ 0) (h : f % 10 = 0) :
    optTok f des = [Tok.field (f / 10) 0 des] := by simp [optTok, h0, h]

theorem optTok_pos (f des : Nat) (h0 : f ≠ 0) :
    optTok f des = [Tok.field (f / 10) (f % 10) des] := by simp [optTok, h0]

theorem dayToks_zero : dayToks 0 = [] := rfl

theorem dayToks_week (d : Nat) (h0 : d ≠ 0) (h : d % 70 = 0) :
    dayToks d = [Tok.field (d / 70) 0 87] := by
  unfold dayToks
  rw [if_neg h0, if_pos h, optTok_whole _ _ (by omega) (by omega)]
  congr 2
  omega

theorem dayToks_day (d : Nat) (h : d % 70 ≠ 0) (h10 : d % 10 = 0) :
    dayToks d = [Tok.field (d / 10) 0 68] := by
  unfold dayToks
  rw [if_neg (by omega), if_neg h, optTok_whole _ _ (by omega) h10]

theorem run_toks (y mo d h mi sec : Nat) (neg : Bool) (hy : y % 10 = 0) (hmo : mo % 10 = 0)
    (hd : d % 10 = 0) (hh : h % 10 = 0) (hmi : mi % 10 = 0) :
    ∃ s, run {} (toks ⟨y, mo, d, h, mi, sec, neg⟩) = some s ∧ s.years = y ∧ s.months = mo ∧
      s.days + s.weeks * 7 = d ∧ s.hours = h ∧ s.minutes = mi ∧ s.seconds = sec ∧
      (s.n = 0 ↔ (y = 0 ∧ mo = 0 ∧ d = 0 ∧ h = 0 ∧ mi = 0 ∧ sec = 0)) := by
  have ey : optTok y 89 = if y = 0 then [] else [Tok.field (y / 10) 0 89] := by
    split
    · next h => rw [h]; rfl
    · next h => exact optTok_whole _ _ h hy
  have emo : optTok mo 77 = if mo = 0 then [] else [Tok.field (mo / 10) 0 77] := by
    split
    · next h => rw [h]; rfl
    · next h => exact optTok_whole _ _ h hmo
  have eh : optTok h 72 = if h = 0 then [] else [Tok.field (h / 10) 0 72] := by
    split
    · next h => rw [h]; rfl
    · next h => exact optTok_whole _ _ h hh
  have emi : optTok mi 77 = if mi = 0 then [] else [Tok.field (mi / 10) 0 77] := by
    split
    · next h => rw [h]; rfl
    · next h => exact optTok_whole _ _ h hmi
  have es : optTok sec 83 = if sec = 0 then [] else [Tok.field (sec / 10) (sec % 10) 83] := by
    split
    · next h => rw [h]; rfl
    · next h => exact optTok_pos _ _ h
  have ed : dayToks d = if d = 0 then [] else if d % 70 = 0 then [Tok.field (d / 70) 0 87]
      else [Tok.field (d / 10) 0 68] := by
    split
    · next h => rw [h]; rfl
    · next h =>
      split
      · next h7 => exact dayToks_week _ h h7
      · next h7 => exact dayToks_day _ h7 hd
  unfold toks
  simp only [ey, emo, eh, emi, es, ed]
  by_cases c1 : y = 0 <;> by_cases c2 : mo = 0 <;> by_cases c3 : d = 0 <;> by_cases c4 : d % 70 = 0 <;>
  by_cases c5 : h = 0 <;> by_cases c6 : mi = 0 <;> by_cases c7 : sec = 0 <;>
  simp [tToks, run, step, stepField, PS.bump, c1, c2, c3, c4, c5, c6, c7] <;> omega

/-! ## `parse (render p)` -/

/-- a period as `NewOf` builds it: every field but the seconds is a whole number -/
def whole (p : P64) : Prop :=
  p.years % 10 = 0 ∧ p.months % 10 = 0 ∧ p.days % 10 = 0 ∧ p.hours % 10 = 0 ∧ p.minutes % 10 = 0

theorem allZero_iff (p : P64) : p.allZero = true ↔
    (p.years = 0 ∧ p.months = 0 ∧ p.days = 0 ∧ p.hours = 0 ∧ p.minutes = 0 ∧ p.seconds = 0) := by
  simp [P64.allZero, and_assoc]

/-- what the library reads from the text it writes: the normalised period (if it still fits `int16`) -/
theorem parse_render (p : P64) (hw : whole p) (hs : small p) :
    parse (render p) = toPeriod (normalise p) := by
  rcases p with ⟨y, mo, d, h, mi, sec, neg⟩
  obtain ⟨hy, hmo, hd, hh, hmi⟩ := hw
  simp only at hy hmo hd hh hmi
  by_cases hz : (P64.mk y mo d h mi sec neg).allZero = true
  · have hz' := (allZero_iff _).1 hz
    simp only at hz'
    obtain ⟨rfl, rfl, rfl, rfl, rfl, rfl⟩ := hz'
    cases neg <;> decide +kernel
  · obtain ⟨s, hrun, e1, e2, e3, e4, e5, e6, en⟩ := run_toks y mo d h mi sec neg hy hmo hd hh hmi
    have hn : s.n ≠ 0 := by
      intro h0
      exact hz ((allZero_iff _).2 (en.1 h0))
    have hlex := lexGo_body ⟨y, mo, d, h, mi, sec, neg⟩ hs
    simp only at hlex
    have hbody : ∀ ng, parseBody ng (80 :: (writeField y 89 ++ (writeField mo 77 ++ (writeDays d ++
        (tMark ⟨y, mo, d, h, mi, sec, neg⟩ ++ (writeField h 72 ++ (writeField mi 77 ++ writeField sec 83))))))) =
        toPeriod (normalise ⟨y, mo, d, h, mi, sec, ng⟩) := by
      intro ng
      simp only [parseBody, hlex, hrun, finish, if_neg hn, e1, e2, e3, e4, e5, e6]
    have hne48 : (writeField y 89 ++ (writeField mo 77 ++ (writeDays d ++
        (tMark ⟨y, mo, d, h, mi, sec, neg⟩ ++ (writeField h 72 ++ (writeField mi 77 ++ writeField sec 83)))))) ≠ [48] := by
      intro h48
      rw [h48] at hlex
      have : lexGo [48] [] = none := by decide +kernel
      rw [this] at hlex
      cases hlex
    unfold render
    rw [if_neg hz]
    cases neg
    · simp only [Bool.false_eq_true, if_false, List.nil_append]
      unfold parse
      rw [if_neg (by simp), if_neg (by simpa using hne48)]
      exact hbody false
    · simp only [if_true, List.singleton_append]
      unfold parse
      rw [if_neg (by simp), if_neg (by simp)]
      exact hbody true

/-! ## Normalisation of a period with whole fields -/

theorem mf_id (p : P64) (hy : p.years % 10 = 0) (hmo : p.months % 10 = 0) (hd : p.days % 10 = 0)
    (hh : p.hours % 10 = 0) (hmi : p.minutes % 10 = 0) : moveFractionToRight p = p := by
  have e1 : mfYears p = p := by unfold mfYears; rw [if_neg (by omega)]
  have e2 : mfMonths p = p := by unfold mfMonths; rw [if_neg (by omega)]
  have e3 : mfDays p = p := by unfold mfDays; rw [if_neg (by omega)]
  have e4 : mfHours p = p := by unfold mfHours; rw [if_neg (by omega)]
  have e5 : mfMinutes p = p := by unfold mfMinutes; rw [if_neg (by omega)]
  unfold moveFractionToRight
  rw [e1, e2, e3, e4, e5]

/-- `rippleUp` on a period whose seconds and minutes are below 60, months below 12, and whose days stay
    within `int16` after the hours above 3220 have been moved into them -/
theorem rippleUp_low (y mo d h mi sec : Nat) (neg : Bool) (hs : sec < 600) (hmi : mi < 600)
    (hmo : mo < 120) (hd : d ≤ 32760) (hh : h ≤ 32204) :
    rippleUp ⟨y, mo, d, h, mi, sec, neg⟩ = ⟨y, mo, d, h, mi, sec, neg⟩ := by
  unfold rippleUp
  simp only [P64.mk.injEq]
  have a1 : sec / 600 = 0 := by omega
  have a2 : sec % 600 = sec := by omega
  have a3 : mi / 600 = 0 := by omega
  have a4 : mi % 600 = mi := by omega
  simp only [a1, a2, a3, a4, Nat.zero_mul, Nat.add_zero]
  have c1 : ¬ h > 32204 := by omega
  simp only [if_neg c1]
  have c2 : ¬ d > 32760 := by omega
  simp only [if_neg c2]
  repeat' constructor
  all_goals first | rfl | omega

theorem rippleUp_high (y mo h mi sec : Nat) (neg : Bool) (hs : sec < 600) (hmi : mi < 600)
    (hmo : mo < 120) (hh : 32204 < h) (hh2 : h ≤ 32760) :
    rippleUp ⟨y, mo, 0, h, mi, sec, neg⟩ = ⟨y, mo, h / 240 * 10, h % 240, mi, sec, neg⟩ := by
  unfold rippleUp
  simp only [P64.mk.injEq]
  have a1 : sec / 600 = 0 := by omega
  have a2 : sec % 600 = sec := by omega
  have a3 : mi / 600 = 0 := by omega
  have a4 : mi % 600 = mi := by omega
  simp only [a1, a2, a3, a4, Nat.zero_mul, Nat.add_zero, Nat.zero_add]
  have c1 : h > 32204 := hh
  simp only [if_pos c1]
  have c2 : ¬ h / 240 * 10 > 32760 := by omega
  simp only [if_neg c2]
  repeat' constructor
  all_goals first | rfl | omega

theorem toPeriod_ok (q : P64) (h : q.years ≤ 32767 ∧ q.months ≤ 32767 ∧ q.days ≤ 32767 ∧ q.hours ≤ 32767 ∧
    q.minutes ≤ 32767 ∧ q.seconds ≤ 32767) :
    toPeriod q = some { q with neg := q.neg && !q.allZero } := by
  unfold toPeriod
  rw [if_neg (by omega)]

theorem approxAbs_lift (p : Dur.Period) (neg : Bool) :
    approxAbs (lift p neg) = Dur.approx p * 100000000 := by
  simp only [approxAbs, lift, Dur.approx, Dur.unitsPerHour, Dur.unitsPerMinute]
  omega

/-- what is left of a period with whole fields after normalisation and narrowing: the same duration -/
theorem norm_whole (y mo d h mi sec : Nat) (neg : Bool) (hy : y % 10 = 0) (hmo : mo % 10 = 0)
    (hd : d % 10 = 0) (hh : h % 10 = 0) (hmi : mi % 10 = 0) (bs : sec < 600) (bmi : mi < 600)
    (bmo : mo < 120) (by' : y ≤ 32767) (bd : d ≤ 32760) (bh : h ≤ 32204 ∨ (d = 0 ∧ h ≤ 32760)) :
    ∃ q, toPeriod (normalise ⟨y, mo, d, h, mi, sec, neg⟩) = some q ∧
      approxAbs q = approxAbs ⟨y, mo, d, h, mi, sec, neg⟩ ∧ q.neg = (neg && !q.allZero) := by
  by_cases c : h ≤ 32204
  · unfold normalise
    rw [rippleUp_low y mo d h mi sec neg bs bmi bmo bd c, mf_id _ hy hmo hd hh hmi,
      toPeriod_ok _ (by simp only; omega)]
    exact ⟨_, rfl, rfl, rfl⟩
  · have hd0 : d = 0 := by omega
    subst hd0
    unfold normalise
    rw [rippleUp_high y mo h mi sec neg bs bmi bmo (by omega) (by omega),
      mf_id _ hy hmo (by simp only; omega) (by simp only; omega) hmi, toPeriod_ok _ (by simp only; omega)]
    refine ⟨_, rfl, ?_, rfl⟩
    simp only [approxAbs]; omega

def maxUnits : Nat := 92233720369

/-- the text written for `n * 100 ms` (any duration an `int64` holds) is read back as the period
    `NewOf` built, up to normalisation: same `DurationApprox` -/
theorem norm_newOf (n : Nat) (hn : n < maxUnits) (neg : Bool) :
    ∃ q, toPeriod (normalise (lift (Dur.newOf n) neg)) = some q ∧
      approxAbs q = Dur.approx (Dur.newOf n) * 100000000 ∧ q.neg = (neg && !q.allZero) := by
  rw [← approxAbs_lift (Dur.newOf n) neg]
  unfold maxUnits at hn
  unfold Dur.newOf
  simp only [Dur.unitsPerHour, Dur.unitsPerMinute]
  by_cases c1 : n / 36000 < 3277
  · simp only [c1, ↓reduceIte, lift]
    exact norm_whole _ _ _ _ _ _ neg (by omega) (by omega) (by omega) (by omega) (by omega) (by omega)
      (by omega) (by omega) (by omega) (by omega) (by omega)
  · by_cases c2 : n / 36000 / 24 < 3277
    · simp only [c1, c2, ↓reduceIte, lift]
      exact norm_whole _ _ _ _ _ _ neg (by omega) (by omega) (by omega) (by omega) (by omega) (by omega)
        (by omega) (by omega) (by omega) (by omega) (by omega)
    · simp only [c1, c2, ↓reduceIte, Dur.newOfLong, lift]
      exact norm_whole _ _ _ _ _ _ neg (by omega) (by omega) (by omega) (by omega) (by omega) (by omega)
        (by omega) (by omega) (by omega) (by omega) (by omega)

theorem approx_newOf_le (n : Nat) : Dur.approx (Dur.newOf n) ≤ n := by
  unfold Dur.newOf
  simp only [Dur.unitsPerHour, Dur.unitsPerMinute]
  by_cases c1 : n / 36000 < 3277
  · simp only [c1, ↓reduceIte, Dur.approx, Dur.unitsPerHour, Dur.unitsPerMinute]; omega
  · by_cases c2 : n / 36000 / 24 < 3277
    · simp only [c1, c2, ↓reduceIte, Dur.approx, Dur.unitsPerHour, Dur.unitsPerMinute]; omega
    · simp only [c1, c2, ↓reduceIte, Dur.newOfLong, Dur.approx, Dur.unitsPerHour, Dur.unitsPerMinute]; omega

theorem approxAbs_allZero (q : P64) (h : q.allZero = true) : approxAbs q = 0 := by
  obtain ⟨h1, h2, h3, h4, h5, h6⟩ := (allZero_iff q).1 h
  simp [approxAbs, h1, h2, h3, h4, h5, h6]

theorem wrap64_id (x : Int) (h1 : -9223372036854775808 ≤ x) (h2 : x < 9223372036854775808) :
    wrap64 x = x := by
  unfold wrap64; omega

theorem newOf64_eq (ns : Int) : newOf64 ns =
    lift (Dur.newOf (ns.natAbs / 100000000))
      (decide (ns < 0) && !(lift (Dur.newOf (ns.natAbs / 100000000)) false).allZero) := rfl

theorem whole_lift (p : Dur.Period) (neg : Bool) : whole (lift p neg) := by
  simp only [whole, lift]; omega

/-- TEXT LEVEL REFINES FIELD LEVEL, all durations of an `int64`: the text `NewDurationType` writes is read
    back by `GetTimeDuration` without error as exactly what the field-level model `Spine.Dur` computes
    (`DurationApprox (NewOf d)`): rendering and parsing in between lose nothing. -/
theorem getTimeDuration_newDurationType (ns : Int) (h : ns.natAbs / 100000000 < maxUnits) :
    getTimeDuration (newDurationType ns) = some (Dur.roundTripNs ns) := by
  unfold getTimeDuration newDurationType
  rw [newOf64_eq]
  generalize hneg : (decide (ns < 0) && !(lift (Dur.newOf (ns.natAbs / 100000000)) false).allZero) = neg'
  have hsm : small (lift (Dur.newOf (ns.natAbs / 100000000)) neg') := by
    have := approx_newOf_le (ns.natAbs / 100000000)
    have e := approxAbs_lift (Dur.newOf (ns.natAbs / 100000000)) neg'
    unfold maxUnits at h
    simp only [approxAbs] at e
    simp only [small]
    omega
  rw [parse_render _ (whole_lift _ _) hsm]
  obtain ⟨q, hq, ha, hn⟩ := norm_newOf _ h neg'
  rw [hq]
  simp only [Option.some.injEq]
  have hle := approx_newOf_le (ns.natAbs / 100000000)
  unfold maxUnits at h
  unfold approxNs Dur.roundTripNs
  rw [ha]
  by_cases c : ns < 0
  · rw [if_pos c]
    by_cases cq : q.neg = true
    · rw [if_pos cq, wrap64_id _ (by omega) (by omega)]
    · rw [if_neg cq]
      have hz : Dur.approx (Dur.newOf (ns.natAbs / 100000000)) * 100000000 = 0 := by
        by_cases cn : neg' = true
        · have : q.allZero = true := by
            rw [hn, cn] at cq
            simpa using cq
          rw [← ha]; exact approxAbs_allZero q this
        · have : (lift (Dur.newOf (ns.natAbs / 100000000)) false).allZero = true := by
            rw [← hneg] at cn
            simpa [c] using cn
          rw [← approxAbs_lift _ false]; exact approxAbs_allZero _ this
      rw [hz]; rfl
  · rw [if_neg c]
    have cq : ¬ q.neg = true := by
      rw [hn, ← hneg]
      simp [c]
    rw [if_neg cq, wrap64_id _ (by omega) (by omega)]

end Spine.DurText
