import Spine.LocalTreeRead
import Spine.LocalTreeSpec
/-! Lemmas about the event model of a detailed-discovery read (`Spine/LocalTreeRead.lean`):
    * a tick does not change what the read would end with if nothing interfered (`complete_tick`);
    * a read nothing overlaps is the atomic read of `Spine.LTree.step` (`read_alone`);
    * ONE overlapping application call: the reply is the reply of the state before or after it (`one_overlap`). -/
namespace Spine.LTree

def complete (s : St) (rd : Rd) : List (Nat × Nat) × List (Nat × Feat) := (completeE s rd, completeF s rd)

def tickN (s : St) : Nat → Rd → Rd
  | 0, rd => rd
  | n + 1, rd => tickN s n (tick s rd)

theorem tickN_succ' (s : St) (n : Nat) (rd : Rd) : tickN s (n + 1) rd = tick s (tickN s n rd) := by
  induction n generalizing rd with
  | zero => rfl
  | succ n ih => rw [tickN, ih (tick s rd)]; rfl

/-! ### a tick does not change the completion -/

theorem complete_tick (s : St) (rd : Rd) : complete s (tick s rd) = complete s rd := by
  unfold tick
  cases hp : rd.pend with
  | some pf =>
    obtain ⟨id, fns⟩ := pf
    simp [complete, completeE, completeF, tickDescr, pendF, hp]
  | none =>
    cases ht : rd.todo with
    | cons id t =>
      simp [complete, completeE, completeF, tickOps, pendF, hp, ht, renderFeat]
    | nil =>
      cases he : rd.ents with
      | cons k es =>
        simp [complete, completeE, completeF, tickEnt, pendF, hp, ht, he, renderEntsE, renderEntsF]
      | nil => simp

theorem complete_tickN (s : St) (n : Nat) (rd : Rd) : complete s (tickN s n rd) = complete s rd := by
  induction n generalizing rd with
  | zero => rfl
  | succ n ih => rw [tickN, ih, complete_tick]

theorem complete_done (s : St) (rd : Rd) (h : rd.done = true) : complete s rd = (rd.outE, rd.outF) := by
  simp only [Rd.done, Bool.and_eq_true, Option.isNone_iff_eq_none, List.isEmpty_iff] at h
  obtain ⟨⟨hp, ht⟩, he⟩ := h
  simp [complete, completeE, completeF, pendF, hp, ht, he, renderEntsE, renderEntsF]

theorem renderFeat_self (s : St) (k : Nat) (h : ((s.pool k).feats.map (·.id)).Nodup) (f : Feat)
    (hf : f ∈ (s.pool k).feats) : renderFeat s k f.id = (k, f) := by
  have := find_of_nodup _ h f hf
  simp [renderFeat, entryOf, fnsOf, this]

theorem renderEntsF_eq (s : St) (h : Inv s) (ks : List Nat) :
    renderEntsF s ks = ks.flatMap fun k => (s.pool k).feats.map fun f => (k, f) := by
  simp only [renderEntsF, List.map_map]
  congr 1
  funext k
  apply List.map_congr_left
  intro f hf
  exact renderFeat_self s k (h.1 k).1.1 f hf

/-- what an undisturbed read started in `s` ends with is the atomic reply of `s` -/
theorem complete_begin (s : St) (h : Inv s) (p : Nat) : complete s (rbegin s p) = (replyEnts s, replyFeats s) := by
  simp only [complete, completeE, completeF, rbegin, pendF, List.nil_append, List.map_nil, renderEntsF_eq s h]
  rfl

theorem peer_tick (s : St) (rd : Rd) : (tick s rd).peer = rd.peer := by
  unfold tick
  cases rd.pend with
  | some pf => rfl
  | none =>
    cases rd.todo with
    | cons id t => rfl
    | nil => cases rd.ents <;> rfl

theorem peer_tickN (s : St) (n : Nat) (rd : Rd) : (tickN s n rd).peer = rd.peer := by
  induction n generalizing rd with
  | zero => rfl
  | succ n ih => rw [tickN, ih, peer_tick]

/-- A read that no application call overlaps — any number of ticks on one state, until it is over — sends exactly the
    reply of the atomic read `step s (.read p)`. -/
theorem read_alone (s : St) (h : Inv s) (p n : Nat) (hd : (tickN s n (rbegin s p)).done = true) :
    [(tickN s n (rbegin s p)).reply s] = (step s (.read p)).2 := by
  have h1 := complete_done s _ hd
  rw [complete_tickN, complete_begin s h] at h1
  have hE := congrArg Prod.fst h1
  have hF := congrArg Prod.snd h1
  simp only at hE hF
  simp only [Rd.reply, step, peer_tickN, ← hE, ← hF]
  rfl

/-! ### progress: the walk is over after `fuelOf` ticks -/

def measure (s : St) (rd : Rd) : Nat :=
  (if rd.pend.isSome then 1 else 0) + 2 * rd.todo.length + (rd.ents.map fun k => 1 + 2 * (s.pool k).feats.length).sum

theorem measure_tick (s : St) (rd : Rd) (h : rd.done = false) : measure s (tick s rd) + 1 = measure s rd := by
  unfold tick
  cases hp : rd.pend with
  | some pf =>
    obtain ⟨id, fns⟩ := pf
    simp [measure, tickDescr, hp]; omega
  | none =>
    cases ht : rd.todo with
    | cons id t => simp [measure, tickOps, hp, ht]; omega
    | nil =>
      cases he : rd.ents with
      | cons k es => simp [measure, tickEnt, hp, ht, he]; omega
      | nil => simp [Rd.done, hp, ht, he] at h

theorem measure_zero_done (s : St) (rd : Rd) (h : measure s rd = 0) : rd.done = true := by
  unfold measure at h
  have h1 : rd.pend.isSome = false := by
    cases hp : rd.pend.isSome
    · rfl
    · simp [hp] at h
  have h2 : rd.todo = [] := by
    cases ht : rd.todo with
    | nil => rfl
    | cons a t => simp [ht] at h
  have h3 : rd.ents = [] := by
    cases he : rd.ents with
    | nil => rfl
    | cons a t => simp [he] at h
  cases hp : rd.pend with
  | none => simp [Rd.done, hp, h2, h3]
  | some x => simp [hp] at h1

/-- every read ends: after `measure` ticks on one state it is over -/
theorem done_after_measure (s : St) (n : Nat) (rd : Rd) (h : measure s rd ≤ n) : (tickN s n rd).done = true := by
  induction n generalizing rd with
  | zero => exact measure_zero_done s rd (by omega)
  | succ n ih =>
    rw [tickN]
    cases hd : rd.done
    · exact ih _ (by have := measure_tick s rd hd; omega)
    · -- a read that is over stays over
      have : tick s rd = rd := by
        simp only [Rd.done, Bool.and_eq_true, Option.isNone_iff_eq_none, List.isEmpty_iff] at hd
        obtain ⟨⟨hp, ht⟩, he⟩ := hd
        simp [tick, hp, ht, he]
      rw [this]
      exact ih rd (by
        have hz : measure s rd = 0 := by
          simp only [Rd.done, Bool.and_eq_true, Option.isNone_iff_eq_none, List.isEmpty_iff] at hd
          obtain ⟨⟨hp, ht⟩, he⟩ := hd
          simp [measure, hp, ht, he]
        omega)

/-! ### which part of the tree an event reads, and which part an application call changes -/

inductive Cell
  | ids (k : Nat)            -- the feature list (and type) of the entity object in slot k
  | fns (k id : Nat)         -- the operations map of feature id of slot k
  | descr (k id : Nat)       -- description (with the immutable type and role) of feature id of slot k
deriving DecidableEq

/-- the cell the next event of the read reads -/
def readCell (rd : Rd) : Option Cell :=
  match rd.pend with
  | some (id, _) => some (.descr rd.cur id)
  | none =>
    match rd.todo with
    | id :: _ => some (.fns rd.cur id)
    | [] =>
      match rd.ents with
      | k :: _ => some (.ids k)
      | [] => none

/-- the cell is still to be read by the rest of the walk -/
def Fut : Cell → Rd → Prop
  | .ids k, rd => k ∈ rd.ents
  | .fns k id, rd => (rd.cur = k ∧ id ∈ rd.todo) ∨ k ∈ rd.ents
  | .descr k id, rd => (rd.cur = k ∧ (id ∈ rd.todo ∨ ∃ fns, rd.pend = some (id, fns))) ∨ k ∈ rd.ents

def idsOf (s : St) (k : Nat) : List Nat := (s.pool k).feats.map (·.id)

/-- states s and s' agree on everything a read can see except cell c (for the features that exist in s) -/
structure Agree (c : Cell) (s s' : St) : Prop where
  ids : ∀ j, c ≠ .ids j → idsOf s' j = idsOf s j ∧ (s'.pool j).etype = (s.pool j).etype
  fns : ∀ j id, c ≠ .fns j id → id ∈ idsOf s j → fnsOf s' j id = fnsOf s j id
  descr : ∀ j id fns, c ≠ .descr j id → id ∈ idsOf s j → entryOf s' j id fns = entryOf s j id fns

/-- the plan of the walk has no cell twice, and the features it names exist in s -/
structure Good (s : St) (rd : Rd) : Prop where
  todoN : rd.todo.Nodup
  entsN : rd.ents.Nodup
  curOut : rd.cur ∈ rd.ents → rd.todo = [] ∧ rd.pend = none
  pendOut : ∀ id fns, rd.pend = some (id, fns) → id ∉ rd.todo
  todoIn : ∀ id ∈ rd.todo, id ∈ idsOf s rd.cur
  pendIn : ∀ id fns, rd.pend = some (id, fns) → id ∈ idsOf s rd.cur

theorem good_begin (s : St) (hn : s.attached.Nodup) (p : Nat) : Good s (rbegin s p) :=
  ⟨by simp [rbegin], hn, by intro _; simp [rbegin], by intro id fns h; simp [rbegin] at h,
   by intro id h; simp [rbegin] at h, by intro id fns h; simp [rbegin] at h⟩

theorem good_tick (s : St) (h : Inv s) (rd : Rd) (g : Good s rd) : Good s (tick s rd) := by
  unfold tick
  cases hp : rd.pend with
  | some pf =>
    obtain ⟨id, fns⟩ := pf
    refine ⟨g.todoN, g.entsN, ?_, ?_, g.todoIn, ?_⟩
    · intro hc; have := g.curOut hc; simp [hp] at this
    · intro i f hh; simp [tickDescr] at hh
    · intro i f hh; simp [tickDescr] at hh
  | none =>
    cases ht : rd.todo with
    | cons id t =>
      have hnd := g.todoN; rw [ht] at hnd
      refine ⟨(List.nodup_cons.mp hnd).2, g.entsN, ?_, ?_, ?_, ?_⟩
      · intro hc; have := g.curOut hc; simp [ht] at this
      · intro i f hh
        simp only [tickOps, Option.some.injEq, Prod.mk.injEq] at hh
        rw [← hh.1]; exact (List.nodup_cons.mp hnd).1
      · intro i hi; exact g.todoIn i (by rw [ht]; exact List.mem_cons_of_mem _ hi)
      · intro i f hh
        simp only [tickOps, Option.some.injEq, Prod.mk.injEq] at hh
        rw [← hh.1]; exact g.todoIn id (by rw [ht]; exact List.mem_cons_self)
    | nil =>
      cases he : rd.ents with
      | cons k es =>
        have hnd := g.entsN; rw [he] at hnd
        refine ⟨(h.1 k).1.1, (List.nodup_cons.mp hnd).2, ?_, ?_, ?_, ?_⟩
        · intro hc; exact absurd hc (List.nodup_cons.mp hnd).1
        · intro i f hh; simp [tickEnt, hp] at hh
        · intro i hi; exact hi
        · intro i f hh; simp [tickEnt, hp] at hh
      | nil => exact g

theorem good_tickN (s : St) (h : Inv s) (n : Nat) (rd : Rd) (g : Good s rd) : Good s (tickN s n rd) := by
  induction n generalizing rd with
  | zero => exact g
  | succ n ih => rw [tickN]; exact ih _ (good_tick s h rd g)

theorem tick_congr (s s' : St) (rd : Rd)
    (h1 : ∀ id fns, rd.pend = some (id, fns) → entryOf s' rd.cur id fns = entryOf s rd.cur id fns)
    (h2 : ∀ id t, rd.pend = none → rd.todo = id :: t → fnsOf s' rd.cur id = fnsOf s rd.cur id)
    (h3 : ∀ k es, rd.pend = none → rd.todo = [] → rd.ents = k :: es →
      idsOf s' k = idsOf s k ∧ (s'.pool k).etype = (s.pool k).etype) :
    tick s' rd = tick s rd := by
  unfold tick
  cases hp : rd.pend with
  | some pf => obtain ⟨id, fns⟩ := pf; simp only [tickDescr, h1 id fns hp]
  | none =>
    cases ht : rd.todo with
    | cons id t => simp only [tickOps, h2 id t hp ht]
    | nil =>
      cases he : rd.ents with
      | cons k es =>
        obtain ⟨a, b⟩ := h3 k es hp ht he
        simp only [idsOf] at a
        simp only [tickEnt, a, b]
      | nil => rfl

/-- an event that reads another cell than the one that differs does the same on both states -/
theorem tick_agree (c : Cell) (s s' : St) (ag : Agree c s s') (rd : Rd) (g : Good s rd)
    (hr : readCell rd ≠ some c) : tick s' rd = tick s rd := by
  apply tick_congr
  · intro id fns hp
    apply ag.descr _ _ _ _ (g.pendIn id fns hp)
    intro hc; apply hr; simp [readCell, hp, hc]
  · intro id t hp ht
    apply ag.fns _ _ _ (g.todoIn id (by rw [ht]; exact List.mem_cons_self))
    intro hc; apply hr; simp [readCell, hp, ht, hc]
  · intro k es hp ht he
    apply ag.ids
    intro hc; apply hr; simp [readCell, hp, ht, he, hc]

/-- a cell that is still ahead after an event was ahead before it, and the event did not read it -/
theorem fut_tick (c : Cell) (s : St) (rd : Rd) (g : Good s rd) (hf : Fut c (tick s rd)) :
    Fut c rd ∧ readCell rd ≠ some c := by
  unfold tick at hf
  cases hp : rd.pend with
  | some pf =>
    obtain ⟨id, fns⟩ := pf
    simp only [hp] at hf
    have hout := g.pendOut id fns hp
    cases c with
    | ids k => exact ⟨hf, by simp [readCell, hp]⟩
    | fns k i => exact ⟨hf, by simp [readCell, hp]⟩
    | descr k i =>
      simp only [Fut, tickDescr] at hf
      refine ⟨?_, ?_⟩
      · rcases hf with ⟨hc, hi | ⟨f, hh⟩⟩ | hk
        · exact Or.inl ⟨hc, Or.inl hi⟩
        · simp at hh
        · exact Or.inr hk
      · simp only [readCell, hp, ne_eq, Option.some.injEq, Cell.descr.injEq, not_and]
        rintro rfl rfl
        rcases hf with ⟨_, hi | ⟨f, hh⟩⟩ | hk
        · exact hout hi
        · simp at hh
        · have := g.curOut hk; simp [hp] at this
  | none =>
    cases ht : rd.todo with
    | cons id t =>
      simp only [hp, ht] at hf
      have hnd := g.todoN; rw [ht] at hnd
      have hnot : rd.cur ∉ rd.ents := fun hc => by have := g.curOut hc; simp [ht] at this
      cases c with
      | ids k => exact ⟨hf, by simp [readCell, hp, ht]⟩
      | fns k i =>
        simp only [Fut, tickOps] at hf
        refine ⟨?_, ?_⟩
        · rcases hf with ⟨hc, hi⟩ | hk
          · exact Or.inl ⟨hc, by rw [ht]; exact List.mem_cons_of_mem _ hi⟩
          · exact Or.inr hk
        · simp only [readCell, hp, ht, ne_eq, Option.some.injEq, Cell.fns.injEq, not_and]
          rintro rfl rfl
          rcases hf with ⟨_, hi⟩ | hk
          · exact (List.nodup_cons.mp hnd).1 hi
          · exact hnot hk
      | descr k i =>
        simp only [Fut, tickOps] at hf
        refine ⟨?_, by simp [readCell, hp, ht]⟩
        rcases hf with ⟨hc, hi | ⟨f, hh⟩⟩ | hk
        · exact Or.inl ⟨hc, Or.inl (by rw [ht]; exact List.mem_cons_of_mem _ hi)⟩
        · simp only [Option.some.injEq, Prod.mk.injEq] at hh
          exact Or.inl ⟨hc, Or.inl (by rw [ht, ← hh.1]; exact List.mem_cons_self)⟩
        · exact Or.inr hk
    | nil =>
      cases he : rd.ents with
      | cons k' es =>
        simp only [hp, ht, he] at hf
        have hnd := g.entsN; rw [he] at hnd
        cases c with
        | ids k =>
          simp only [Fut, tickEnt] at hf
          refine ⟨by simp only [Fut, he]; exact List.mem_cons_of_mem _ hf, ?_⟩
          simp only [readCell, hp, ht, he, ne_eq, Option.some.injEq, Cell.ids.injEq]
          rintro rfl
          exact (List.nodup_cons.mp hnd).1 hf
        | fns k i =>
          simp only [Fut, tickEnt] at hf
          refine ⟨?_, by simp [readCell, hp, ht, he]⟩
          rcases hf with ⟨hc, _⟩ | hk
          · exact Or.inr (by rw [he, ← hc]; exact List.mem_cons_self)
          · exact Or.inr (by rw [he]; exact List.mem_cons_of_mem _ hk)
        | descr k i =>
          simp only [Fut, tickEnt] at hf
          refine ⟨?_, by simp [readCell, hp, ht, he]⟩
          rcases hf with ⟨hc, _⟩ | hk
          · exact Or.inr (by rw [he, ← hc]; exact List.mem_cons_self)
          · exact Or.inr (by rw [he]; exact List.mem_cons_of_mem _ hk)
      | nil =>
        simp only [hp, ht, he] at hf
        refine ⟨hf, ?_⟩
        simp [readCell, hp, ht, he]

theorem renderEntsF_congr (s s' : St) (ks : List Nat)
    (h : ∀ k ∈ ks, idsOf s' k = idsOf s k ∧ ∀ id ∈ idsOf s k, renderFeat s' k id = renderFeat s k id) :
    renderEntsF s' ks = renderEntsF s ks := by
  induction ks with
  | nil => rfl
  | cons k ks ih =>
    obtain ⟨a, b⟩ := h k List.mem_cons_self
    simp only [idsOf] at a b
    simp only [renderEntsF, List.flatMap_cons] at ih ⊢
    rw [ih (fun j hj => h j (List.mem_cons_of_mem _ hj)), a]
    congr 1
    exact List.map_congr_left b

theorem complete_congr (s s' : St) (rd : Rd)
    (h1 : ∀ id fns, rd.pend = some (id, fns) → entryOf s' rd.cur id fns = entryOf s rd.cur id fns)
    (h2 : ∀ id ∈ rd.todo, renderFeat s' rd.cur id = renderFeat s rd.cur id)
    (h3 : ∀ k ∈ rd.ents, (idsOf s' k = idsOf s k ∧ ∀ id ∈ idsOf s k, renderFeat s' k id = renderFeat s k id) ∧
      (s'.pool k).etype = (s.pool k).etype) :
    complete s' rd = complete s rd := by
  have e1 : renderEntsE s' rd.ents = renderEntsE s rd.ents :=
    List.map_congr_left fun k hk => by rw [(h3 k hk).2]
  have e2 : pendF s' rd = pendF s rd := by
    unfold pendF
    cases hp : rd.pend with
    | none => rfl
    | some pf => obtain ⟨id, fns⟩ := pf; simp only [h1 id fns hp]
  have e3 : rd.todo.map (renderFeat s' rd.cur) = rd.todo.map (renderFeat s rd.cur) := List.map_congr_left h2
  have e4 := renderEntsF_congr s s' rd.ents fun k hk => (h3 k hk).1
  simp only [complete, completeE, completeF, e1, e2, e3, e4]

/-- if the cell that differs is not ahead any more, the rest of the walk renders the same on both states -/
theorem complete_agree (c : Cell) (s s' : St) (ag : Agree c s s') (rd : Rd) (g : Good s rd) (hf : ¬ Fut c rd) :
    complete s' rd = complete s rd := by
  apply complete_congr
  · intro id fns hp
    apply ag.descr _ _ _ _ (g.pendIn id fns hp)
    rintro rfl; exact hf (Or.inl ⟨rfl, Or.inr ⟨fns, hp⟩⟩)
  · intro id hi
    have hin := g.todoIn id hi
    simp only [renderFeat]
    rw [ag.fns _ _ (by rintro rfl; exact hf (Or.inl ⟨rfl, hi⟩)) hin,
      ag.descr _ _ _ (by rintro rfl; exact hf (Or.inl ⟨rfl, Or.inl hi⟩)) hin]
  · intro k hk
    obtain ⟨a, b⟩ := ag.ids k (by rintro rfl; exact hf hk)
    refine ⟨⟨a, ?_⟩, b⟩
    intro id hin
    simp only [renderFeat]
    rw [ag.fns _ _ (by rintro rfl; exact hf (Or.inr hk)) hin,
      ag.descr _ _ _ (by rintro rfl; exact hf (Or.inr hk)) hin]

/-- the dichotomy: after any number of events on s, what the rest of the walk renders on s' is the completion on s
    of the whole read (the changed cell was read already) or the completion on s' of the whole read (it is still
    ahead, and nothing read so far differs) -/
theorem dichotomy (c : Cell) (s s' : St) (h : Inv s) (ag : Agree c s s') (n : Nat) (rd0 : Rd) (g : Good s rd0) :
    complete s' (tickN s n rd0) = complete s rd0 ∨ complete s' (tickN s n rd0) = complete s' rd0 := by
  by_cases hf : Fut c (tickN s n rd0)
  · right
    have key : ∀ n, Fut c (tickN s n rd0) → tickN s' n rd0 = tickN s n rd0 := by
      intro n
      induction n with
      | zero => intro _; rfl
      | succ n ih =>
        intro hf
        rw [tickN_succ'] at hf
        obtain ⟨hf', hr⟩ := fut_tick c s _ (good_tickN s h n rd0 g) hf
        rw [tickN_succ', tickN_succ', ih hf']
        exact tick_agree c s s' ag _ (good_tickN s h n rd0 g) hr
    rw [← key n hf, complete_tickN]
  · left
    rw [complete_agree c s s' ag _ (good_tickN s h n rd0 g) hf, complete_tickN]

/-! ### what each application call changes -/

/-- the call leaves the feature lists and entity types of all slots as they are -/
def SameView (s s' : St) : Prop := ∀ j, (s'.pool j).feats = (s.pool j).feats ∧ (s'.pool j).etype = (s.pool j).etype

theorem complete_sameView (s s' : St) (hv : SameView s s') (rd : Rd) : complete s' rd = complete s rd := by
  have f1 : ∀ j id, fnsOf s' j id = fnsOf s j id := by intro j id; simp [fnsOf, (hv j).1]
  have f2 : ∀ j id fns, entryOf s' j id fns = entryOf s j id fns := by intro j id fns; simp [entryOf, (hv j).1]
  have f3 : ∀ j id, renderFeat s' j id = renderFeat s j id := by intro j id; simp [renderFeat, f1, f2]
  apply complete_congr
  · intro id fns _; exact f2 _ _ _
  · intro id _; exact f3 _ _
  · intro k _; exact ⟨⟨by simp [idsOf, (hv k).1], fun id _ => f3 _ _⟩, (hv k).2⟩

theorem find_pool_upd (s : St) (k fid : Nat) (g : Feat → Feat) (hg : ∀ f, (g f).id = f.id) (j id : Nat) :
    ((upd s.pool k { s.pool k with feats := updFeat (s.pool k).feats fid g }) j).feats.find? (·.id = id) =
      if j = k ∧ id = fid then ((s.pool k).feats.find? (·.id = fid)).map g else (s.pool j).feats.find? (·.id = id) := by
  by_cases hj : j = k
  · subst hj
    simp only [upd_same, true_and]
    exact find_updFeat _ _ _ hg _
  · simp [upd_other _ _ _ _ hj, hj]

/-- a call that rewrites one feature in place (AddFunctionType, SetDescriptionString) -/
theorem agree_updFeat (c : Cell) (s : St) (k fid : Nat) (g : Feat → Feat) (hg : ∀ f, (g f).id = f.id)
    (hfns : c ≠ .fns k fid → ∀ f, (g f).fns = f.fns)
    (hdescr : c ≠ .descr k fid → ∀ f, (g f).typ = f.typ ∧ (g f).role = f.role ∧ (g f).descr = f.descr)
    (s' : St) (hs : s'.pool = upd s.pool k { s.pool k with feats := updFeat (s.pool k).feats fid g }) :
    Agree c s s' := by
  refine ⟨?_, ?_, ?_⟩
  · intro j _
    simp only [idsOf, hs]
    by_cases hj : j = k
    · subst hj; simp only [upd_same]; exact ⟨updFeat_ids _ _ _ hg, by first | rfl | trivial⟩
    · simp [upd_other _ _ _ _ hj]
  · intro j id hc _
    simp only [fnsOf, hs, find_pool_upd s k fid g hg]
    by_cases hji : j = k ∧ id = fid
    · obtain ⟨rfl, rfl⟩ := hji
      simp only [and_self, if_true]
      cases (s.pool j).feats.find? (·.id = id) with
      | none => rfl
      | some f => simp [hfns hc f]
    · simp [hji]
  · intro j id fns hc _
    simp only [entryOf, hs, find_pool_upd s k fid g hg]
    by_cases hji : j = k ∧ id = fid
    · obtain ⟨rfl, rfl⟩ := hji
      simp only [and_self, if_true]
      cases (s.pool j).feats.find? (·.id = id) with
      | none => rfl
      | some f => obtain ⟨a, b, d⟩ := hdescr hc f; simp [a, b, d]
    · simp [hji]

theorem agree_addFn (s : St) (k fid fn : Nat) (r w cap : Bool) :
    Agree (.fns k fid) s (step s (.addFn k fid fn r w cap)).1 :=
  agree_updFeat _ s k fid (fun f => featAddFn f fn r w cap) (fun f => featAddFn_id f fn r w cap) (fun hc => absurd rfl hc)
    (fun _ f => ⟨featAddFn_typ f fn r w cap, featAddFn_role f fn r w cap, by
      unfold featAddFn; split
      · rfl
      · split <;> rfl⟩) _ rfl

theorem agree_setDescr (s : St) (k fid d : Nat) :
    Agree (.descr k fid) s (step s (.setDescr k fid d)).1 :=
  agree_updFeat _ s k fid (fun f => { f with descr := d }) (fun _ => rfl) (fun _ _ => rfl) (fun hc => absurd rfl hc) _ rfl

/-- a slot gets one more feature, with a number no feature of the slot has -/
theorem agree_append (s : St) (h : Inv s) (k : Nat) (nf : Feat) (hn : nf.id = (s.pool k).nextId) (e' : Ent)
    (he : e'.feats = (s.pool k).feats ++ [nf]) (s' : St) (hs : s'.pool = upd s.pool k e') :
    Agree (.ids k) s s' := by
  have hfind : ∀ j id, id ∈ idsOf s j → (s'.pool j).feats.find? (·.id = id) = (s.pool j).feats.find? (·.id = id) := by
    intro j id hin
    rw [hs]
    by_cases hj : j = k
    · subst hj
      simp only [upd_same, he, List.find?_append]
      obtain ⟨f, hf, rfl⟩ := List.mem_map.mp hin
      rw [find_of_nodup _ (h.1 j).1.1 f hf]; rfl
    · simp [upd_other _ _ _ _ hj]
  refine ⟨?_, ?_, ?_⟩
  · intro j hc
    have hj : j ≠ k := fun e => hc (by rw [e])
    simp [idsOf, hs, upd_other _ _ _ _ hj]
  · intro j id _ hin; simp only [fnsOf, hfind j id hin]
  · intro j id fns _ hin; simp only [entryOf, hfind j id hin]

/-- GetOrAddFeature: the existing feature (nothing changes) or a new one with a number no feature of s has -/
theorem agree_feat (s : St) (h : Inv s) (k typ role : Nat) :
    Agree (.ids k) s (step s (.feat k typ role)).1 := by
  cases hf : findTR (s.pool k) typ role with
  | some f =>
    have hp : ∀ j, (step s (.feat k typ role)).1.pool j = s.pool j := by
      intro j
      simp only [step, entGetOrAdd, hf]
      by_cases hj : j = k
      · subst hj; exact upd_same _ _ _
      · exact upd_other _ _ _ _ hj
    refine ⟨?_, ?_, ?_⟩
    · intro j _; simp [idsOf, hp]
    · intro j id _ _; simp [fnsOf, hp]
    · intro j id fns _ _; simp [entryOf, hp]
  | none =>
    apply agree_append s h k ⟨(s.pool k).nextId, typ, role, descrOf typ role, []⟩ rfl
      { s.pool k with nextId := (s.pool k).nextId + 1,
                      feats := (s.pool k).feats ++ [⟨(s.pool k).nextId, typ, role, descrOf typ role, []⟩] } rfl
    simp only [step, entGetOrAdd, hf]

theorem attached_of_pool_step (s : St) (o : Op) (h1 : ∀ k, o ≠ .attach k) (h2 : ∀ k, o ≠ .detach k) :
    (step s o).1.attached = s.attached := by
  cases o with
  | attach k => exact absurd rfl (h1 k)
  | detach k => exact absurd rfl (h2 k)
  | sub p => simp only [step]; split <;> rfl
  | feat k typ role => first | rfl | simp only [step]
  | _ => rfl

/-- every call other than GetOrAddFeature, AddFunctionType, SetDescriptionString and NewEntityLocal leaves what a
    read can see of the slots as it is -/
theorem sameView_step (s : St) (o : Op) (h1 : ∀ k t r, o ≠ .feat k t r) (h2 : ∀ k fid fn r w c, o ≠ .addFn k fid fn r w c)
    (h3 : ∀ k fid d, o ≠ .setDescr k fid d) (h4 : ∀ k et, o ≠ .renew k et) : SameView s (step s o).1 := by
  intro j
  cases o with
  | feat k t r => exact absurd rfl (h1 k t r)
  | addFn k fid fn r w c => exact absurd rfl (h2 k fid fn r w c)
  | setDescr k fid d => exact absurd rfl (h3 k fid d)
  | renew k et => exact absurd rfl (h4 k et)
  | nextId k =>
    simp only [step]
    by_cases hj : j = k
    · subst hj; simp [upd_same]
    · simp [upd_other _ _ _ _ hj]
  | sub p => simp only [step]; split <;> exact ⟨rfl, rfl⟩
  | _ => exact ⟨rfl, rfl⟩

/-- ONE application call overlapping a read, at any point of the walk: the reply is the atomic reply of the state
    before the call or of the state after it. (`renew` — a fresh object for a slot — is excluded: the read keeps the
    objects it has taken, which the slot-indexed pool does not express.) -/
theorem one_overlap (s : St) (h : Inv s) (hn : s.attached.Nodup) (o : Op) (hr : ∀ k et, o ≠ .renew k et) (p a b : Nat)
    (hd : (tickN (step s o).1 b (tickN s a (rbegin s p))).done = true) :
    ((tickN (step s o).1 b (tickN s a (rbegin s p))).outE, (tickN (step s o).1 b (tickN s a (rbegin s p))).outF) =
        (replyEnts s, replyFeats s) ∨
    ((tickN (step s o).1 b (tickN s a (rbegin s p))).outE, (tickN (step s o).1 b (tickN s a (rbegin s p))).outF) =
        (replyEnts (step s o).1, replyFeats (step s o).1) := by
  rw [← complete_done _ _ hd, complete_tickN]
  have hi' := inv_step s h o
  have viaCell : ∀ c, Agree c s (step s o).1 → (step s o).1.attached = s.attached →
      complete (step s o).1 (tickN s a (rbegin s p)) = (replyEnts s, replyFeats s) ∨
      complete (step s o).1 (tickN s a (rbegin s p)) = (replyEnts (step s o).1, replyFeats (step s o).1) := by
    intro c ag hat
    rcases dichotomy c s _ h ag a _ (good_begin s hn p) with e | e
    · left; rw [e, complete_begin s h]
    · right
      have : rbegin s p = rbegin (step s o).1 p := by simp [rbegin, hat]
      rw [e, this, complete_begin _ hi']
  by_cases c1 : ∃ k t r, o = .feat k t r
  · obtain ⟨k, t, r, rfl⟩ := c1
    exact viaCell _ (agree_feat s h k t r) (attached_of_pool_step s _ (by intro k; simp) (by intro k; simp))
  by_cases c2 : ∃ k fid fn r w c, o = .addFn k fid fn r w c
  · obtain ⟨k, fid, fn, r, w, c, rfl⟩ := c2
    exact viaCell _ (agree_addFn s k fid fn r w c) rfl
  by_cases c3 : ∃ k fid d, o = .setDescr k fid d
  · obtain ⟨k, fid, d, rfl⟩ := c3
    exact viaCell _ (agree_setDescr s k fid d) rfl
  left
  have hv := sameView_step s o (fun k t r e => c1 ⟨k, t, r, e⟩) (fun k fid fn r w c e => c2 ⟨k, fid, fn, r, w, c, e⟩)
    (fun k fid d e => c3 ⟨k, fid, d, e⟩) hr
  rw [complete_sameView s _ hv, complete_tickN, complete_begin s h]

/-! ### schedules -/

theorem foldl_ticks (n : Nat) (s : St) (rd : Rd) (os : List Obs) :
    (List.replicate n Ev.tick).foldl evStep (s, rd, os) = (s, tickN s n rd, os) := by
  induction n generalizing rd with
  | zero => rfl
  | succ n ih => rw [List.replicate_succ, List.foldl_cons]; simp only [evStep]; rw [ih]; rfl

/-- the schedule "a events of the read, the call o, b events of the read" -/
theorem runRead_one (s : St) (p a b : Nat) (o : Op) :
    runRead s p (List.replicate a .tick ++ [.app o] ++ List.replicate b .tick) =
      ((step s o).1, tickN (step s o).1 b (tickN s a (rbegin s p)), (step s o).2) := by
  simp only [runRead, List.foldl_append, foldl_ticks, List.foldl_cons, List.foldl_nil, evStep, List.nil_append]

/-! ### any schedule: the entity list of the reply is the entity list of the start -/

theorem etype_step (s : St) (o : Op) (hr : ∀ k et, o ≠ .renew k et) (j : Nat) :
    ((step s o).1.pool j).etype = (s.pool j).etype := by
  by_cases c1 : ∃ k t r, o = .feat k t r
  · obtain ⟨k, t, r, rfl⟩ := c1
    simp only [step, entGetOrAdd]
    by_cases hj : j = k
    · subst hj; simp only [upd_same]; split <;> rfl
    · simp [upd_other _ _ _ _ hj]
  by_cases c2 : ∃ k fid fn r w c, o = .addFn k fid fn r w c
  · obtain ⟨k, fid, fn, r, w, c, rfl⟩ := c2
    simp only [step]
    by_cases hj : j = k
    · subst hj; simp [upd_same]
    · simp [upd_other _ _ _ _ hj]
  by_cases c3 : ∃ k fid d, o = .setDescr k fid d
  · obtain ⟨k, fid, d, rfl⟩ := c3
    simp only [step]
    by_cases hj : j = k
    · subst hj; simp [upd_same]
    · simp [upd_other _ _ _ _ hj]
  exact (sameView_step s o (fun k t r e => c1 ⟨k, t, r, e⟩) (fun k fid fn r w c e => c2 ⟨k, fid, fn, r, w, c, e⟩)
    (fun k fid d e => c3 ⟨k, fid, d, e⟩) hr j).2

def noRenewEv : Ev → Prop
  | .app (.renew _ _) => False
  | _ => True

theorem completeE_evStep (x : St × Rd × List Obs) (e : Ev) (he : noRenewEv e) :
    completeE (evStep x e).1 (evStep x e).2.1 = completeE x.1 x.2.1 := by
  cases e with
  | tick => exact congrArg Prod.fst (complete_tick x.1 x.2.1)
  | app o =>
    simp only [evStep, completeE]
    congr 1
    apply List.map_congr_left
    intro k _
    rw [etype_step x.1 o (by intro k et hc; subst hc; exact he)]

theorem completeE_fold (evs : List Ev) (he : ∀ e ∈ evs, noRenewEv e) (x : St × Rd × List Obs) :
    completeE (evs.foldl evStep x).1 (evs.foldl evStep x).2.1 = completeE x.1 x.2.1 := by
  induction evs generalizing x with
  | nil => rfl
  | cons e es ih =>
    rw [List.foldl_cons, ih (fun e' h' => he e' (List.mem_cons_of_mem _ h')), completeE_evStep x e (he e List.mem_cons_self)]

/-- ANY schedule of events of the read and application calls (any number of overlapping calls, `renew` excepted):
    when the read is over, its entity list is the entity list of the state it started in -/
theorem overlapped_entities (s : St) (p : Nat) (evs : List Ev) (he : ∀ e ∈ evs, noRenewEv e)
    (hd : (runRead s p evs).2.1.done = true) : (runRead s p evs).2.1.outE = replyEnts s := by
  have h1 := completeE_fold evs he (s, rbegin s p, [])
  have h2 := congrArg Prod.fst (complete_done (runRead s p evs).1 _ hd)
  simp only [complete] at h2
  rw [← h2]
  exact h1

/-! ### any schedule: the feature part of the reply lies between the tree at the start and the tree at the end -/

/-- g is f later: same number, type and role; the functions of f are the first functions of g (functions are only
    added, and a function keeps the operations of its first addition) -/
def FLe (f g : Feat) : Prop := f.id = g.id ∧ f.typ = g.typ ∧ f.role = g.role ∧ f.fns <+: g.fns

theorem FLe.refl (f : Feat) : FLe f f := ⟨rfl, rfl, rfl, List.prefix_refl _⟩
theorem FLe.trans {f g h : Feat} (a : FLe f g) (b : FLe g h) : FLe f h :=
  ⟨a.1.trans b.1, a.2.1.trans b.2.1, a.2.2.1.trans b.2.2.1, a.2.2.2.trans b.2.2.2⟩

/-- every feature of s is still there in s', grown -/
def SLe (s s' : St) : Prop :=
  ∀ k id f, (s.pool k).feats.find? (·.id = id) = some f → ∃ g, (s'.pool k).feats.find? (·.id = id) = some g ∧ FLe f g

theorem SLe.refl (s : St) : SLe s s := fun _ _ f h => ⟨f, h, FLe.refl f⟩
theorem SLe.trans {a b c : St} (x : SLe a b) (y : SLe b c) : SLe a c := by
  intro k id f h
  obtain ⟨g, hg, fg⟩ := x k id f h
  obtain ⟨g', hg', fg'⟩ := y k id g hg
  exact ⟨g', hg', fg.trans fg'⟩

theorem featAddFn_FLe (f : Feat) (fn : Nat) (r w cap : Bool) : FLe f (featAddFn f fn r w cap) := by
  refine ⟨(featAddFn_id f fn r w cap).symm, (featAddFn_typ f fn r w cap).symm, (featAddFn_role f fn r w cap).symm, ?_⟩
  unfold featAddFn
  split
  · exact List.prefix_refl _
  · split
    · exact List.prefix_refl _
    · exact List.prefix_append _ _

theorem sle_updFeat (s : St) (k fid : Nat) (g : Feat → Feat) (hg : ∀ f, FLe f (g f)) (s' : St)
    (hs : s'.pool = upd s.pool k { s.pool k with feats := updFeat (s.pool k).feats fid g }) : SLe s s' := by
  intro j id f hf
  rw [hs, find_pool_upd s k fid g (fun f => (hg f).1.symm)]
  by_cases hji : j = k ∧ id = fid
  · obtain ⟨rfl, rfl⟩ := hji
    simp only [and_self, if_true, hf, Option.map_some]
    exact ⟨g f, rfl, hg f⟩
  · simp only [hji, if_false]
    exact ⟨f, hf, FLe.refl f⟩

/-- every application call (a fresh object for a slot excepted) only lets the features grow -/
theorem sle_step (s : St) (o : Op) (hr : ∀ k et, o ≠ .renew k et) : SLe s (step s o).1 := by
  by_cases c1 : ∃ k t r, o = .feat k t r
  · obtain ⟨k, t, r, rfl⟩ := c1
    intro j id f hf
    simp only [step, entGetOrAdd]
    by_cases hj : j = k
    · subst hj
      simp only [upd_same]
      split
      · exact ⟨f, hf, FLe.refl f⟩
      · exact ⟨f, by simp [List.find?_append, hf], FLe.refl f⟩
    · simp only [upd_other _ _ _ _ hj]
      exact ⟨f, hf, FLe.refl f⟩
  by_cases c2 : ∃ k fid fn r w c, o = .addFn k fid fn r w c
  · obtain ⟨k, fid, fn, r, w, c, rfl⟩ := c2
    exact sle_updFeat s k fid _ (fun f => featAddFn_FLe f fn r w c) _ rfl
  by_cases c3 : ∃ k fid d, o = .setDescr k fid d
  · obtain ⟨k, fid, d, rfl⟩ := c3
    exact sle_updFeat s k fid (fun f => { f with descr := d }) (fun f => ⟨rfl, rfl, rfl, List.prefix_refl _⟩) _ rfl
  have hv := sameView_step s o (fun k t r e => c1 ⟨k, t, r, e⟩) (fun k fid fn r w c e => c2 ⟨k, fid, fn, r, w, c, e⟩)
    (fun k fid d e => c3 ⟨k, fid, d, e⟩) hr
  intro j id f hf
  exact ⟨f, by rw [(hv j).1]; exact hf, FLe.refl f⟩

/-- the entry e of slot k is not ahead of the state: the feature exists, with that type and role, and has every
    function of the entry (as its first functions) -/
def Up (s : St) (k : Nat) (e : Feat) : Prop :=
  ∃ g, (s.pool k).feats.find? (·.id = e.id) = some g ∧ e.typ = g.typ ∧ e.role = g.role ∧ e.fns <+: g.fns

structure UpInv (s : St) (rd : Rd) : Prop where
  out : ∀ k e, (k, e) ∈ rd.outF → Up s k e
  pend : ∀ id fns, rd.pend = some (id, fns) → ∃ g, (s.pool rd.cur).feats.find? (·.id = id) = some g ∧ fns <+: g.fns
  todo : ∀ id ∈ rd.todo, ∃ g, (s.pool rd.cur).feats.find? (·.id = id) = some g

theorem find_id_of_mem (fs : List Feat) (f : Feat) (hf : f ∈ fs) : ∃ g, fs.find? (·.id = f.id) = some g := by
  cases h : fs.find? (·.id = f.id) with
  | some g => exact ⟨g, rfl⟩
  | none => have := List.find?_eq_none.mp h f hf; simp at this

theorem find_id (fs : List Feat) (id : Nat) (g : Feat) (h : fs.find? (·.id = id) = some g) : g.id = id ∧ g ∈ fs := by
  have := List.find?_some h
  exact ⟨by simpa using this, List.mem_of_find?_eq_some h⟩

theorem upInv_tick (s : St) (rd : Rd) (u : UpInv s rd) : UpInv s (tick s rd) := by
  unfold tick
  cases hp : rd.pend with
  | some pf =>
    obtain ⟨id, fns⟩ := pf
    obtain ⟨g, hg, hpre⟩ := u.pend id fns hp
    refine ⟨?_, ?_, u.todo⟩
    · intro k e hm
      simp only [tickDescr, List.mem_append, List.mem_singleton, Prod.mk.injEq] at hm
      rcases hm with hm | ⟨rfl, rfl⟩
      · exact u.out k e hm
      · simp only [Up, entryOf, hg]
        exact ⟨g, rfl, rfl, rfl, hpre⟩
    · intro i f hh; simp [tickDescr] at hh
  | none =>
    cases ht : rd.todo with
    | cons id t =>
      refine ⟨u.out, ?_, ?_⟩
      · intro i f hh
        simp only [tickOps, Option.some.injEq, Prod.mk.injEq] at hh
        obtain ⟨rfl, rfl⟩ := hh
        obtain ⟨g, hg⟩ := u.todo id (by rw [ht]; exact List.mem_cons_self)
        exact ⟨g, hg, by simp [fnsOf, hg]⟩
      · intro i hi; exact u.todo i (by rw [ht]; exact List.mem_cons_of_mem _ hi)
    | nil =>
      cases he : rd.ents with
      | cons k es =>
        refine ⟨?_, ?_, ?_⟩
        · intro j e hm; exact u.out j e hm
        · intro i f hh; simp [tickEnt, hp] at hh
        · intro i hi
          simp only [tickEnt, List.mem_map] at hi
          obtain ⟨f, hf, rfl⟩ := hi
          exact find_id_of_mem _ f hf
      | nil => exact u

theorem upInv_mono (s s' : St) (hs : SLe s s') (rd : Rd) (u : UpInv s rd) : UpInv s' rd := by
  refine ⟨?_, ?_, ?_⟩
  · intro k e hm
    obtain ⟨g, hg, a, b, c⟩ := u.out k e hm
    obtain ⟨g', hg', fg⟩ := hs k e.id g hg
    exact ⟨g', hg', a.trans fg.2.1, b.trans fg.2.2.1, c.trans fg.2.2.2⟩
  · intro id fns hp
    obtain ⟨g, hg, c⟩ := u.pend id fns hp
    obtain ⟨g', hg', fg⟩ := hs _ id g hg
    exact ⟨g', hg', c.trans fg.2.2.2⟩
  · intro id hi
    obtain ⟨g, hg⟩ := u.todo id hi
    obtain ⟨g', hg', _⟩ := hs _ id g hg
    exact ⟨g', hg'⟩

/-- every feature of the start (of an entity of the start's list) is accounted for: rendered already, not smaller
    than it was; or being rendered; or still ahead -/
structure LowInv (s0 : St) (s : St) (rd : Rd) : Prop where
  sle : SLe s0 s
  acc : ∀ k ∈ s0.attached, ∀ id f0, (s0.pool k).feats.find? (·.id = id) = some f0 →
    (∃ e, (k, e) ∈ rd.outF ∧ e.id = id ∧ e.typ = f0.typ ∧ e.role = f0.role ∧ f0.fns <+: e.fns) ∨
    (rd.cur = k ∧ ∃ fns, rd.pend = some (id, fns) ∧ f0.fns <+: fns) ∨
    (rd.cur = k ∧ id ∈ rd.todo) ∨ k ∈ rd.ents

theorem lowInv_tick (s0 s : St) (rd : Rd) (l : LowInv s0 s rd) : LowInv s0 s (tick s rd) := by
  refine ⟨l.sle, ?_⟩
  intro k hk id f0 h0
  have hacc := l.acc k hk id f0 h0
  obtain ⟨g, hg, fg⟩ := l.sle k id f0 h0
  unfold tick
  cases hp : rd.pend with
  | some pf =>
    obtain ⟨i, fns⟩ := pf
    simp only [tickDescr]
    rcases hacc with ⟨e, hm, he⟩ | ⟨hc, fns', hp', hpre⟩ | hc | hc
    · exact Or.inl ⟨e, List.mem_append_left _ hm, he⟩
    · rw [hp] at hp'
      simp only [Option.some.injEq, Prod.mk.injEq] at hp'
      obtain ⟨rfl, rfl⟩ := hp'
      refine Or.inl ⟨entryOf s rd.cur i fns, ?_, ?_⟩
      · rw [hc]; exact List.mem_append_right _ (List.mem_singleton.mpr rfl)
      · rw [hc]; simp only [entryOf, hg]
        exact ⟨by first | rfl | trivial, fg.2.1.symm, fg.2.2.1.symm, hpre⟩
    · exact Or.inr (Or.inr (Or.inl hc))
    · exact Or.inr (Or.inr (Or.inr hc))
  | none =>
    cases ht : rd.todo with
    | cons i t =>
      simp only [tickOps]
      rcases hacc with h1 | ⟨_, fns', hp', _⟩ | ⟨hc, hi⟩ | hc
      · exact Or.inl h1
      · rw [hp] at hp'; simp at hp'
      · rw [ht] at hi
        rcases List.mem_cons.mp hi with rfl | hi
        · refine Or.inr (Or.inl ⟨hc, fnsOf s rd.cur id, rfl, ?_⟩)
          rw [hc]; simp only [fnsOf, hg]; exact fg.2.2.2
        · exact Or.inr (Or.inr (Or.inl ⟨hc, hi⟩))
      · exact Or.inr (Or.inr (Or.inr hc))
    | nil =>
      cases he : rd.ents with
      | cons k' es =>
        simp only [tickEnt]
        rcases hacc with h1 | ⟨_, fns', hp', _⟩ | ⟨_, hi⟩ | hc
        · exact Or.inl h1
        · rw [hp] at hp'; simp at hp'
        · rw [ht] at hi; simp at hi
        · rw [he] at hc
          rcases List.mem_cons.mp hc with rfl | hc
          · refine Or.inr (Or.inr (Or.inl ⟨rfl, ?_⟩))
            obtain ⟨hid, hmem⟩ := find_id _ _ _ hg
            exact List.mem_map.mpr ⟨g, hmem, hid⟩
          · exact Or.inr (Or.inr (Or.inr hc))
      | nil => exact hacc

theorem sandwich_fold (s0 : St) (evs : List Ev) (he : ∀ e ∈ evs, noRenewEv e) (x : St × Rd × List Obs)
    (u : UpInv x.1 x.2.1) (l : LowInv s0 x.1 x.2.1) :
    UpInv (evs.foldl evStep x).1 (evs.foldl evStep x).2.1 ∧ LowInv s0 (evs.foldl evStep x).1 (evs.foldl evStep x).2.1 := by
  induction evs generalizing x with
  | nil => exact ⟨u, l⟩
  | cons e es ih =>
    rw [List.foldl_cons]
    apply ih (fun e' h' => he e' (List.mem_cons_of_mem _ h'))
    · cases e with
      | tick => exact upInv_tick _ _ u
      | app o =>
        exact upInv_mono _ _ (sle_step x.1 o (by intro k et hc; subst hc; exact he _ List.mem_cons_self)) _ u
    · cases e with
      | tick => exact lowInv_tick _ _ _ l
      | app o =>
        exact ⟨l.sle.trans (sle_step x.1 o (by intro k et hc; subst hc; exact he _ List.mem_cons_self)), l.acc⟩

/-- ANY schedule (any number of overlapping calls; a fresh object for a slot excepted): every feature entry of the
    reply is a feature the tree has at the end, with that type and role and with every function of the entry; and
    every feature the tree had at the start, in an entity of the start's list, has an entry with that type and role
    and at least the functions it had then. -/
theorem sandwich (s : St) (h : Inv s) (p : Nat) (evs : List Ev) (he : ∀ e ∈ evs, noRenewEv e)
    (hd : (runRead s p evs).2.1.done = true) :
    (∀ k e, (k, e) ∈ (runRead s p evs).2.1.outF →
      ∃ g ∈ ((runRead s p evs).1.pool k).feats, g.id = e.id ∧ g.typ = e.typ ∧ g.role = e.role ∧ e.fns <+: g.fns) ∧
    (∀ k ∈ s.attached, ∀ f0 ∈ (s.pool k).feats,
      ∃ e, (k, e) ∈ (runRead s p evs).2.1.outF ∧ e.id = f0.id ∧ e.typ = f0.typ ∧ e.role = f0.role ∧ f0.fns <+: e.fns) := by
  have u0 : UpInv s (rbegin s p) := ⟨by intro k e hm; simp [rbegin] at hm, by intro id fns hp; simp [rbegin] at hp,
    by intro id hi; simp [rbegin] at hi⟩
  have l0 : LowInv s s (rbegin s p) := ⟨SLe.refl s, fun k hk _ _ _ => Or.inr (Or.inr (Or.inr hk))⟩
  obtain ⟨u, l⟩ := sandwich_fold s evs he (s, rbegin s p, []) u0 l0
  refine ⟨?_, ?_⟩
  · intro k e hm
    obtain ⟨g, hg, a, b, c⟩ := u.out k e hm
    obtain ⟨hid, hmem⟩ := find_id _ _ _ hg
    exact ⟨g, hmem, hid, a.symm, b.symm, c⟩
  · intro k hk f0 hf0
    have h0 := find_of_nodup _ (h.1 k).1.1 f0 hf0
    simp only [Rd.done, Bool.and_eq_true, Option.isNone_iff_eq_none, List.isEmpty_iff] at hd
    obtain ⟨⟨hp, ht⟩, hen⟩ := hd
    rcases l.acc k hk f0.id f0 h0 with h1 | ⟨_, fns, hp', _⟩ | ⟨_, hi⟩ | hc
    · exact h1
    · simp only [runRead] at hp; rw [hp] at hp'; simp at hp'
    · simp only [runRead] at ht; rw [ht] at hi; simp at hi
    · simp only [runRead] at hen; rw [hen] at hc; simp at hc

end Spine.LTree
