import Spine.Dur
/-! C19, durations at the level of the SPINE text (ISO 8601 / xs:duration as written by rickb777/date
    v1.21.1): `NewDurationType d = period.NewOf(d).String()` and
    `GetTimeDuration s = period.Parse(s).DurationApprox()`, transcribed byte by byte.

    * `render`   — `period64.String` (`period/format.go:107-155`): sign, `P`, years, months, weeks (when the
      days are a whole number of weeks) or days, `T` when a clock field follows, hours, minutes, seconds;
      a field is written as an integer, or with one decimal when its tenths are non-zero (`%g` of
      `float32(field)/10`, which for |field| < 32768 is the shortest decimal `i.f`; compared with the real
      text on every run).
    * `parse`    — `period.Parse` (`period/parse.go`): sign, `P`, then a loop over `T` and
      number+designator fields (`scanDigits`, `parseDecimalNumber`, the Unready/Armed/Set state of each
      designator, "only the last field may have a fraction"), weeks folded into days, `normalise64(true)`
      (`rippleUp` + `moveFractionToRight`, `period/period64.go:78-152`), `toPeriod` (int16 overflow = error).
    * `approxNs` — `Period.DurationApprox` in nanoseconds (`period/period.go:407-442`).

    A text is a list of byte codes (ASCII; Go strings are byte strings, the parser looks at bytes only on
    ASCII input). Fields are fixed point with one decimal (the library's representation): a value `v`
    stands for `v / 10`. Integer parts above `10^12` are outside the model (`Res.range`): beyond
    `2^63 / 10` the library's `integer*10 + fraction` wraps around.
    Core Lean only (imported by `Drivers/Num.lean`). -/
namespace Spine.DurText

abbrev Text := List Nat

/-- `period64`: absolute field values (fixed point, one decimal) and the sign -/
structure P64 where
  years : Nat
  months : Nat
  days : Nat
  hours : Nat
  minutes : Nat
  seconds : Nat
  neg : Bool
deriving DecidableEq, Repr

def P64.allZero (p : P64) : Bool :=
  p.years == 0 && p.months == 0 && p.days == 0 && p.hours == 0 && p.minutes == 0 && p.seconds == 0

/-! ## Writing -/

/-- decimal digits of `n`, most significant first (`fuel > n` suffices) -/
def digitsF : Nat → Nat → Text
  | 0, _ => []
  | f + 1, n => if n < 10 then [48 + n] else digitsF f (n / 10) ++ [48 + n % 10]

/-- `%d` -/
def natText (n : Nat) : Text := digitsF (n + 1) n

/-- `writeField64`: nothing for zero, `%d` of the whole part when the tenths are zero, else `i.f` -/
def writeField (f des : Nat) : Text :=
  if f = 0 then []
  else if f % 10 = 0 then natText (f / 10) ++ [des]
  else natText (f / 10) ++ 46 :: natText (f % 10) ++ [des]

/-- the days: as weeks when they are a whole number of weeks -/
def writeDays (d : Nat) : Text :=
  if d = 0 then [] else if d % 70 = 0 then writeField (d / 7) 87 else writeField d 68

def tMark (p : P64) : Text := if p.hours ≠ 0 ∨ p.minutes ≠ 0 ∨ p.seconds ≠ 0 then [84] else []

/-- `period64.String` -/
def render (p : P64) : Text :=
  if p.allZero then [80, 48, 68]
  else
    (if p.neg then [45] else []) ++ 80 :: (writeField p.years 89 ++ (writeField p.months 77 ++
      (writeDays p.days ++ (tMark p ++ (writeField p.hours 72 ++ (writeField p.minutes 77 ++
        writeField p.seconds 83))))))

/-! ## Reading -/

def isDigit (b : Nat) : Bool := 48 ≤ b && b ≤ 57

/-- `isDigit` of `parse.go`: a digit, a dot or a comma -/
def isDigitish (b : Nat) : Bool := isDigit b || b == 46 || b == 44

def valOf (ds : Text) : Nat := ds.foldl (fun a b => a * 10 + (b - 48)) 0

/-- `strconv.ParseInt(s, 10, 64)` on a text without sign: `none` = error (empty, a non-digit, ≥ 2^63) -/
def parseNat (ds : Text) : Option Nat :=
  if ds = [] then none
  else if ds.all isDigit then (if valOf ds < 2 ^ 63 then some (valOf ds) else none)
  else none

/-- the text before and after the first occurrence of `b` (`strings.IndexByte`) -/
def splitFirst (b : Nat) : Text → Option (Text × Text)
  | [] => none
  | c :: cs => if c = b then some ([], cs) else
      match splitFirst b cs with
      | some (x, y) => some (c :: x, y)
      | none => none

def parseFrac (i : Nat) : Text → Option (Nat × Nat)
  | [] => some (i, 0)
  | c :: _ => match parseNat [c] with
    | some f => some (i, f)
    | none => none

def parseSplit (ip fp : Text) : Option (Nat × Nat) :=
  match parseNat ip with
  | none => none
  | some i => parseFrac i fp

/-- `parseDecimalNumber`: integer part and first decimal; the separator is the first dot, else the first
    comma; further decimals are ignored -/
def parseDecimal (number : Text) : Option (Nat × Nat) :=
  match splitFirst 46 number with
  | some (ip, fp) => parseSplit ip fp
  | none =>
    match splitFirst 44 number with
    | some (ip, fp) => parseSplit ip fp
    | none => parseSplit number []

inductive Tok where
  | tmark
  | field (i f des : Nat)
deriving DecidableEq, Repr

def consTok (t : Tok) : Option (List Tok) → Option (List Tok)
  | some l => some (t :: l)
  | none => none

def fieldTok (des : Nat) (rest : Option (List Tok)) : Option (Nat × Nat) → Option (List Tok)
  | some (i, f) => consTok (.field i f des) rest
  | none => none

/-- the scanner of `parse` / `parseNextField`: `T` where a field may start is the time mark; otherwise the
    digit-ish bytes up to the next other byte are a number and that byte its designator; digits without
    a designator at the end are an error (`acc` = the number read so far) -/
def lexGo : Text → Text → Option (List Tok)
  | [], acc => if acc = [] then some [] else none
  | c :: cs, acc =>
    if isDigitish c then lexGo cs (acc ++ [c])
    else if c = 84 ∧ acc = [] then consTok .tmark (lexGo cs [])
    else fieldTok c (lexGo cs []) (parseDecimal acc)

inductive ISt where
  | unready | armed | set
deriving DecidableEq, Repr

/-- the parser's variables: the seven values, the state of the seven designators, `isHMS`, whether an
    earlier field had a fraction, the number of fields -/
structure PS where
  years : Nat := 0
  months : Nat := 0
  weeks : Nat := 0
  days : Nat := 0
  hours : Nat := 0
  minutes : Nat := 0
  seconds : Nat := 0
  sy : ISt := .armed
  smo : ISt := .armed
  sw : ISt := .armed
  sd : ISt := .armed
  sh : ISt := .unready
  smi : ISt := .unready
  ss : ISt := .unready
  isHMS : Bool := false
  prevFrac : Bool := false
  n : Nat := 0
deriving DecidableEq, Repr

def PS.bump (s : PS) (f : Nat) : PS := { s with n := s.n + 1, prevFrac := s.prevFrac || f != 0 }

/-- one field: `testAndSet` of its designator -/
def stepField (s : PS) (i f des : Nat) : Option PS :=
  if s.prevFrac ∧ f ≠ 0 then none else
  let v := i * 10 + f
  if des = 89 then (if s.sy = .armed then some ({ s with years := v, sy := .set }.bump f) else none)
  else if des = 87 then (if s.sw = .armed then some ({ s with weeks := v, sw := .set }.bump f) else none)
  else if des = 68 then (if s.sd = .armed then some ({ s with days := v, sd := .set }.bump f) else none)
  else if des = 72 then (if s.sh = .armed then some ({ s with hours := v, sh := .set }.bump f) else none)
  else if des = 83 then (if s.ss = .armed then some ({ s with seconds := v, ss := .set }.bump f) else none)
  else if des = 77 then
    (if s.isHMS then (if s.smi = .armed then some ({ s with minutes := v, smi := .set }.bump f) else none)
     else (if s.smo = .armed then some ({ s with months := v, smo := .set }.bump f) else none))
  else none

def step (s : PS) : Tok → Option PS
  | .tmark => if s.isHMS then none else
      some { s with isHMS := true, sy := .unready, smo := .unready, sw := .unready, sd := .unready,
                    sh := .armed, smi := .armed, ss := .armed }
  | .field i f des => stepField s i f des

def run (s : PS) : List Tok → Option PS
  | [] => some s
  | t :: ts => match step s t with
    | some s' => run s' ts
    | none => none

/-- `rippleUp(precise = true)` -/
def rippleUp (p : P64) : P64 :=
  let minutes := p.minutes + p.seconds / 600 * 10
  let seconds := p.seconds % 600
  let hours := p.hours + minutes / 600 * 10
  let minutes := minutes % 600
  let days := if hours > 32204 then p.days + hours / 240 * 10 else p.days
  let hours := if hours > 32204 then hours % 240 else hours
  let months := if days > 32760 then p.months + days * 100000 / 30436875 * 10 else p.months
  let days := if days > 32760 then days * 100000 % 30436875 / 100000 else days
  ⟨p.years + months / 120 * 10, months % 120, days, hours, minutes, seconds, p.neg⟩

def mfYears (p : P64) : P64 :=
  if p.years % 10 ≠ 0 ∧ (p.months ≠ 0 ∨ p.days ≠ 0 ∨ p.hours ≠ 0 ∨ p.minutes ≠ 0 ∨ p.seconds ≠ 0) then
    { p with months := p.months + p.years % 10 * 12, years := p.years / 10 * 10 } else p
def mfMonths (p : P64) : P64 :=
  if p.months % 10 ≠ 0 ∧ (p.days ≠ 0 ∨ p.hours ≠ 0 ∨ p.minutes ≠ 0 ∨ p.seconds ≠ 0) then
    { p with days := p.days + p.months % 10 * 30436875 / 1000000, months := p.months / 10 * 10 } else p
def mfDays (p : P64) : P64 :=
  if p.days % 10 ≠ 0 ∧ (p.hours ≠ 0 ∨ p.minutes ≠ 0 ∨ p.seconds ≠ 0) then
    { p with hours := p.hours + p.days % 10 * 24, days := p.days / 10 * 10 } else p
def mfHours (p : P64) : P64 :=
  if p.hours % 10 ≠ 0 ∧ (p.minutes ≠ 0 ∨ p.seconds ≠ 0) then
    { p with minutes := p.minutes + p.hours % 10 * 60, hours := p.hours / 10 * 10 } else p
def mfMinutes (p : P64) : P64 :=
  if p.minutes % 10 ≠ 0 ∧ p.seconds ≠ 0 then
    { p with seconds := p.seconds + p.minutes % 10 * 60, minutes := p.minutes / 10 * 10 } else p

/-- `moveFractionToRight` -/
def moveFractionToRight (p : P64) : P64 := mfMinutes (mfHours (mfDays (mfMonths (mfYears p))))

def normalise (p : P64) : P64 := moveFractionToRight (rippleUp p)

/-- `toPeriod`: a field above `math.MaxInt16` is an error; a zero period has no sign -/
def toPeriod (p : P64) : Option P64 :=
  if p.years > 32767 ∨ p.months > 32767 ∨ p.days > 32767 ∨ p.hours > 32767 ∨ p.minutes > 32767 ∨
     p.seconds > 32767 then none
  else some { p with neg := p.neg && !p.allZero }

/-- the end of `parse`: at least one field, weeks into days, normalise, narrow -/
def finish (neg : Bool) (s : PS) : Option P64 :=
  if s.n = 0 then none
  else toPeriod (normalise ⟨s.years, s.months, s.days + s.weeks * 7, s.hours, s.minutes, s.seconds, neg⟩)

def parseBody (neg : Bool) : Text → Option P64
  | 80 :: body => match lexGo body [] with
    | some toks => match run {} toks with
      | some s => finish neg s
      | none => none
    | none => none
  | _ => none

/-- `period.Parse(s)` (normalising): `none` = error -/
def parse (s : Text) : Option P64 :=
  if s = [] ∨ s = [45] ∨ s = [43] then none
  else if s = [80, 48] then some ⟨0, 0, 0, 0, 0, 0, false⟩
  else match s with
    | 45 :: r => parseBody true r
    | 43 :: r => parseBody false r
    | r => parseBody false r

/-- does some maximal run of digits in the text exceed 12 digits? (then the text is outside the model:
    `integer*10 + fraction` may wrap around in the library) -/
def longRun : Text → Nat → Bool
  | [], _ => false
  | c :: cs, k => if isDigit c then (k + 1 > 12 || longRun cs (k + 1)) else longRun cs 0

/-- `Period.DurationApprox` in nanoseconds, absolute value -/
def approxAbs (p : P64) : Nat :=
  (p.years * 365242500 + p.months * 30436875 + p.days * 1000000) * 8640 * 1000 +
  (p.hours * 360000 + p.minutes * 6000 + p.seconds * 100) * 1000000

/-- two's-complement wrap-around of `int64` (the library computes with `time.Duration` = `int64`;
    sums and products only, so the result is the exact value modulo 2^64: a text of more than 292 years
    is read as a meaningless duration without an error) -/
def wrap64 (x : Int) : Int := (x + 9223372036854775808) % 18446744073709551616 - 9223372036854775808

def approxNs (p : P64) : Int :=
  wrap64 (if p.neg then -((approxAbs p : Nat) : Int) else (approxAbs p : Nat))

/-! ## The two functions of `model/commondatatypes_additions.go` -/

/-- a `Period` of `Spine.Dur` (whole years … minutes, seconds in tenths) as a `period64` -/
def lift (p : Dur.Period) (neg : Bool) : P64 :=
  ⟨p.years * 10, p.months * 10, p.days * 10, p.hours * 10, p.minutes * 10, p.tenths, neg⟩

/-- `period.NewOf(d).toPeriod64`: `NewOf` of the absolute value in units of 100 ms; the sign only when a
    field is non-zero -/
def newOf64 (ns : Int) : P64 :=
  let p := Dur.newOf (ns.natAbs / 100000000)
  let q := lift p false
  { q with neg := decide (ns < 0) && !q.allZero }

/-- `string(*NewDurationType(d))`, `d` in nanoseconds -/
def newDurationType (ns : Int) : Text := render (newOf64 ns)

/-- `GetTimeDuration` / `getTimeDurationFromString`: `none` = error, else nanoseconds -/
def getTimeDuration (s : Text) : Option Int :=
  match parse s with
  | some p => some (approxNs p)
  | none => none

end Spine.DurText
