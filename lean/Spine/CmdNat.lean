import Spine.CmdThm
/-!
# The command model commutes with every renaming of values

`Spine.Cmd` is polymorphic in the type `α` of payload / selectors / elements values. This file proves
what that polymorphism is worth: for every `g : α → β`, building, encoding, decoding and recognising
commute with mapping `g` over the values (`roundtrip_map`). Consequence (`roundtrip_of_tok`): a round-trip
equation that the kernel decides for the five distinct tokens `tok : Args Nat` holds for EVERY choice of
values of EVERY type — the table theorems of `Spine.Props.C18Shapes` are not about tokens.
Independent of the content of the regenerated tables.
-/
namespace Spine.Cmd
open Spine.Json Spine.Generated

variable {α β : Type} (g : α → β)

def Typed.map (t : Typed α) : Typed β := ⟨t.ty, g t.val⟩
def mapSet (l : List (Nat × α)) : List (Nat × β) := l.map fun p => (p.1, g p.2)
def Filter.map (f : Filter α) : Filter β := ⟨f.ctl, f.part, f.delete, mapSet g f.set⟩
def Cmd.map (c : Cmd α) : Cmd β := ⟨c.function, c.filter.map (Filter.map g), mapSet g c.data⟩
def exMap {ε : Type} {γ δ : Type} (f : γ → δ) : Except ε γ → Except ε δ
  | .ok x => .ok (f x)
  | .error e => .error e

@[simp] theorem mapSet_nil : mapSet g ([] : List (Nat × α)) = [] := rfl
@[simp] theorem mapSet_cons (p : Nat × α) (l) : mapSet g (p :: l) = (p.1, g p.2) :: mapSet g l := rfl

theorem insertAt_map (i : Nat) (a : α) (l : List (Nat × α)) :
    mapSet g (insertAt i a l) = insertAt i (g a) (mapSet g l) := by
  induction l with
  | nil => rfl
  | cons p l ih =>
    obtain ⟨j, b⟩ := p
    simp only [insertAt, mapSet_cons]
    split
    · rfl
    · split
      · rfl
      · simp only [mapSet_cons, ih]

theorem setCmdData_map (c : Cmd α) (k : Key) (d : Typed α) :
    exMap (Cmd.map g) (setCmdData c k d) = setCmdData (Cmd.map g c) k (Typed.map g d) := by
  unfold setCmdData
  cases cmdFieldFor k with
  | none => rfl
  | some r =>
    simp only [Typed.map]
    by_cases h : (r.ty == d.ty) = true
    · simp [h, exMap, Cmd.map, insertAt_map]
    · simp [h, exMap]

theorem createCmd_map (k : Key) (d : Typed α) :
    exMap (Cmd.map g) (createCmd k d) = createCmd k (Typed.map g d) := by
  unfold createCmd
  exact setCmdData_map g {} k d

theorem setFilterData_map (f : Filter α) (typ : Nat) (k : Key) (d : Typed α) (byRef : Bool) :
    exMap (Filter.map g) (setFilterData f typ k d byRef) = setFilterData (Filter.map g f) typ k (Typed.map g d) byRef := by
  unfold setFilterData
  cases filterFieldFor typ k with
  | none => rfl
  | some r =>
    simp only [Typed.map]
    by_cases hb : byRef = true
    · simp [hb, exMap]
    · by_cases h : (r.ty == d.ty) = true
      · simp [hb, h, exMap, Filter.map, insertAt_map]
      · simp [hb, h, exMap]

theorem addToFilter_map (typ : Nat) (k : Key) (byRef : Bool) (f : Filter α) (o : Option (Typed α)) :
    exMap (Filter.map g) (addToFilter typ k byRef f o) =
      addToFilter typ k byRef (Filter.map g f) (o.map (Typed.map g)) := by
  cases o with
  | none => rfl
  | some d => exact setFilterData_map g f typ k d byRef


@[simp] theorem isSome_map_typed (o : Option (Typed α)) : (o.map (Typed.map g)).isSome = o.isSome := by
  cases o <;> rfl

def mapFilters (fs : List (Filter α)) : List (Filter β) := fs.map (Filter.map g)

theorem deleteFilters_map (cfg : Cfg) (k : Key) (delSel delEl : Option (Typed α)) :
    exMap (mapFilters g) (deleteFilters cfg k delSel delEl) =
      deleteFilters cfg k (delSel.map (Typed.map g)) (delEl.map (Typed.map g)) := by
  unfold deleteFilters
  simp only [isSome_map_typed]
  by_cases h : (delSel.isSome || delEl.isSome) = true
  · simp only [h, if_true]
    have h1 := addToFilter_map g 1 k cfg.deleteByRef { delete := true } delSel
    have e0 : Filter.map g ({ delete := true } : Filter α) = ({ delete := true } : Filter β) := rfl
    rw [e0] at h1
    rw [← h1]
    cases addToFilter 1 k cfg.deleteByRef ({ delete := true } : Filter α) delSel with
    | error e => rfl
    | ok f =>
      simp only [exMap]
      have h2 := addToFilter_map g 2 k cfg.deleteByRef f delEl
      rw [← h2]
      cases addToFilter 2 k cfg.deleteByRef f delEl with
      | error e => rfl
      | ok f' => rfl
  · simp only [h, if_false, Bool.false_eq_true]
    rfl

theorem partialFilters_map (k : Key) (partSel readEl : Option (Typed α)) :
    exMap (mapFilters g) (partialFilters k partSel readEl) =
      partialFilters k (partSel.map (Typed.map g)) (readEl.map (Typed.map g)) := by
  unfold partialFilters
  simp only [isSome_map_typed]
  by_cases h : (partSel.isSome || readEl.isSome) = true
  · simp only [h, if_true]
    have h1 := addToFilter_map g 1 k false { part := true } partSel
    have e0 : Filter.map g ({ part := true } : Filter α) = ({ part := true } : Filter β) := rfl
    rw [e0] at h1
    rw [← h1]
    cases addToFilter 1 k false ({ part := true } : Filter α) partSel with
    | error e => rfl
    | ok f =>
      simp only [exMap]
      have h2 := addToFilter_map g 2 k false f readEl
      rw [← h2]
      cases addToFilter 2 k false f readEl with
      | error e => rfl
      | ok f' => rfl
  · simp only [h, if_false, Bool.false_eq_true]
    rfl

theorem filtersFor_map (cfg : Cfg) (k : Key) (filters : List (Filter α))
    (delSel partSel delEl readEl : Option (Typed α)) :
    exMap (mapFilters g) (filtersFor cfg k filters delSel partSel delEl readEl) =
      filtersFor cfg k (mapFilters g filters) (delSel.map (Typed.map g)) (partSel.map (Typed.map g))
        (delEl.map (Typed.map g)) (readEl.map (Typed.map g)) := by
  unfold filtersFor
  rw [← deleteFilters_map, ← partialFilters_map]
  cases deleteFilters cfg k delSel delEl with
  | error e => rfl
  | ok d =>
    cases partialFilters k partSel readEl with
    | error e => rfl
    | ok p => simp [exMap, mapFilters]

theorem withFilters_map (cmd : Cmd α) (fn : Key) (filters : List (Filter α)) :
    Cmd.map g (withFilters cmd fn filters) = withFilters (Cmd.map g cmd) fn (mapFilters g filters) := by
  unfold withFilters
  cases filters with
  | nil => rfl
  | cons f fs => rfl

theorem readCmd_map (cfg : Cfg) (fn : FnRow) (empty : α) (sel el : Option (Typed α)) :
    exMap (Cmd.map g) (readCmd cfg fn empty sel el) =
      readCmd cfg fn (g empty) (sel.map (Typed.map g)) (el.map (Typed.map g)) := by
  unfold readCmd
  have h1 := createCmd_map g fn.key ⟨fn.payloadKey, empty⟩
  simp only [Typed.map] at h1
  rw [← h1]
  cases createCmd fn.key (⟨fn.payloadKey, empty⟩ : Typed α) with
  | error e => rfl
  | ok cmd =>
    simp only [exMap]
    have h2 := filtersFor_map g cfg fn.key [] none sel none el
    simp only [Option.map_none, mapFilters, List.map_nil] at h2
    rw [← h2]
    cases filtersFor cfg fn.key [] none sel none el with
    | error e => rfl
    | ok fs => simp only [exMap, withFilters_map, mapFilters]

theorem replyCmd_map (fn : FnRow) (data : α) (part : Bool) :
    exMap (Cmd.map g) (replyCmd fn data part) = replyCmd fn (g data) part := by
  unfold replyCmd
  have h1 := createCmd_map g fn.key ⟨fn.payloadKey, data⟩
  simp only [Typed.map] at h1
  rw [← h1]
  cases createCmd fn.key (⟨fn.payloadKey, data⟩ : Typed α) with
  | error e => rfl
  | ok cmd => cases part <;> rfl

theorem notifyOrWriteCmd_map (cfg : Cfg) (fn : FnRow) (data : α) (delSel partSel : Option (Typed α))
    (pws : Bool) (delEl : Option (Typed α)) :
    exMap (Cmd.map g) (notifyOrWriteCmd cfg fn data delSel partSel pws delEl) =
      notifyOrWriteCmd cfg fn (g data) (delSel.map (Typed.map g)) (partSel.map (Typed.map g)) pws
        (delEl.map (Typed.map g)) := by
  unfold notifyOrWriteCmd
  have h1 := createCmd_map g fn.key ⟨fn.payloadKey, data⟩
  simp only [Typed.map] at h1
  rw [← h1]
  cases createCmd fn.key (⟨fn.payloadKey, data⟩ : Typed α) with
  | error e => rfl
  | ok cmd =>
    simp only [exMap]
    cases pws with
    | true => rfl
    | false =>
      simp only [Bool.false_eq_true, if_false]
      have h2 := filtersFor_map g cfg fn.key [] delSel partSel delEl none
      simp only [Option.map_none, mapFilters, List.map_nil] at h2
      rw [← h2]
      cases filtersFor cfg fn.key [] delSel partSel delEl none with
      | error e => rfl
      | ok fs => simp only [exMap, withFilters_map, mapFilters]

def Args.map (a : Args α) : Args β := ⟨g a.empty, g a.data, g a.sel, g a.el, g a.sel2⟩

theorem build_map (cfg : Cfg) (fn : FnRow) (sh : Shape) (a : Args α) :
    exMap (Cmd.map g) (build cfg fn sh a) = build cfg fn sh (Args.map g a) := by
  have hs : ∀ x : α, ((selTy? fn).map fun t => (⟨t, x⟩ : Typed α)).map (Typed.map g) =
      (selTy? fn).map fun t => (⟨t, g x⟩ : Typed β) := by
    intro x; cases selTy? fn <;> rfl
  have he : ∀ x : α, ((elTy? fn).map fun t => (⟨t, x⟩ : Typed α)).map (Typed.map g) =
      (elTy? fn).map fun t => (⟨t, g x⟩ : Typed β) := by
    intro x; cases elTy? fn <;> rfl
  cases sh <;> simp only [build, Args.map, readCmd_map, replyCmd_map, notifyOrWriteCmd_map, hs, he, Option.map_none]


/-! ### the wire -/

mutual
def W.map : W α → W β
  | .val a => .val (g a)
  | .name k => .name k
  | .obj kvs => .obj (W.mapKVs kvs)
  | .arr xs => .arr (W.mapList xs)
def W.mapKVs : List (Key × W α) → List (Key × W β)
  | [] => []
  | (k, w) :: rest => (k, W.map w) :: W.mapKVs rest
def W.mapList : List (W α) → List (W β)
  | [] => []
  | w :: ws => W.map w :: W.mapList ws
end

theorem W.mapKVs_eq (kvs : List (Key × W α)) : W.mapKVs g kvs = kvs.map fun p => (p.1, W.map g p.2) := by
  induction kvs with
  | nil => rfl
  | cons p rest ih => obtain ⟨k, w⟩ := p; simp [W.mapKVs, ih]

theorem W.mapList_eq (ws : List (W α)) : W.mapList g ws = ws.map (W.map g) := by
  induction ws with
  | nil => rfl
  | cons w rest ih => simp [W.mapList, ih]

theorem W.mapKVs_append (a b : List (Key × W α)) : W.mapKVs g (a ++ b) = W.mapKVs g a ++ W.mapKVs g b := by
  simp [W.mapKVs_eq]

theorem lookupW_map (k : Key) (kvs : List (Key × W α)) :
    lookupW k (W.mapKVs g kvs) = (lookupW k kvs).map (W.map g) := by
  induction kvs with
  | nil => rfl
  | cons p rest ih =>
    obtain ⟨k', w⟩ := p
    simp only [W.mapKVs, lookupW]
    split
    · rfl
    · exact ih

theorem filter_mapSet (p : Nat → Bool) (l : List (Nat × α)) :
    (mapSet g l).filter (fun q => p q.1) = mapSet g (l.filter fun q => p q.1) := by
  induction l with
  | nil => rfl
  | cons q l ih =>
    simp only [mapSet_cons, List.filter_cons]
    split
    · simp [ih]
    · exact ih

theorem encodeSet_map (j : Nat → Key) (l : List (Nat × α)) :
    (mapSet g l).map (fun p => (j p.1, W.val p.2)) = W.mapKVs g (l.map fun p => (j p.1, W.val p.2)) := by
  induction l with
  | nil => rfl
  | cons q l ih => simp [W.mapKVs, W.map, ih]

theorem encodeFilter_map (f : Filter α) : encodeFilter (Filter.map g f) = W.map g (encodeFilter f) := by
  obtain ⟨ctl, part, del, set⟩ := f
  unfold encodeFilter
  simp only [Filter.map, W.map, W.mapKVs_append]
  rw [filter_mapSet g (fun i => Nat.beq i 0), filter_mapSet g (fun i => !Nat.beq i 0), encodeSet_map, encodeSet_map]
  congr 2
  congr 1
  cases ctl with
  | false => rfl
  | true => cases del <;> cases part <;> rfl

theorem encodeFilters_map (fs : List (Filter α)) :
    (mapFilters g fs).map encodeFilter = W.mapList g (fs.map encodeFilter) := by
  induction fs with
  | nil => rfl
  | cons f fs ih => simp only [mapFilters, List.map_cons, W.mapList, encodeFilter_map] at *; rw [ih]

theorem encodeCmd_map (c : Cmd α) : encodeCmd (Cmd.map g c) = W.map g (encodeCmd c) := by
  obtain ⟨fn, filter, data⟩ := c
  unfold encodeCmd
  simp only [Cmd.map, W.map, W.mapKVs_append, encodeSet_map]
  congr 2
  congr 1
  · cases fn <;> rfl
  · cases filter with
    | nil => rfl
    | cons f fs =>
      simp only [List.map_cons, List.isEmpty_cons, Bool.false_eq_true, if_false, W.mapKVs, W.map]
      have := encodeFilters_map g (f :: fs)
      simp only [mapFilters, List.map_cons] at this
      rw [this]


theorem decodeFilterStep_map (f : Filter α) (k : Key) (w : W α) :
    decodeFilterStep (Filter.map g f) (k, W.map g w) = Filter.map g (decodeFilterStep f (k, w)) := by
  unfold decodeFilterStep
  simp only
  cases filterRowByJson? k with
  | none => rfl
  | some r =>
    simp only
    by_cases h1 : (r.skipped && Nat.beq r.ty keyCmdControlType) = true
    · simp only [h1, if_true]
      cases w with
      | obj cs => simp [W.map, Filter.map, lookupW_map]
      | val a => rfl
      | name n => rfl
      | arr xs => rfl
    · simp only [h1, if_false, Bool.false_eq_true]
      by_cases h2 : r.isPtr = true
      · simp only [h2, if_true]
        cases w with
        | val a => simp [W.map, Filter.map, insertAt_map]
        | obj cs => rfl
        | name n => rfl
        | arr xs => rfl
      · simp only [h2, if_false, Bool.false_eq_true]

theorem decodeFilter_foldl_map (kvs : List (Key × W α)) (f : Filter α) :
    (W.mapKVs g kvs).foldl decodeFilterStep (Filter.map g f) = Filter.map g (kvs.foldl decodeFilterStep f) := by
  induction kvs generalizing f with
  | nil => rfl
  | cons p rest ih =>
    obtain ⟨k, w⟩ := p
    simp only [W.mapKVs, List.foldl_cons, decodeFilterStep_map, ih]

theorem decodeFilter_map (w : W α) : decodeFilter (W.map g w) = (decodeFilter w).map (Filter.map g) := by
  cases w with
  | obj kvs =>
    simp only [W.map, decodeFilter, Option.map_some]
    have := decodeFilter_foldl_map g kvs { ctl := false }
    exact congrArg some this
  | val a => rfl
  | name n => rfl
  | arr xs => rfl

theorem decodeFilters_map (ws : List (W α)) :
    decodeFilters (W.mapList g ws) = (decodeFilters ws).map (mapFilters g) := by
  induction ws with
  | nil => rfl
  | cons w ws ih =>
    simp only [W.mapList, decodeFilters, decodeFilter_map, ih]
    cases decodeFilter w <;> cases decodeFilters ws <;> rfl

theorem decodeCmdStep_map (c : Option (Cmd α)) (k : Key) (w : W α) :
    decodeCmdStep (c.map (Cmd.map g)) (k, W.map g w) = (decodeCmdStep c (k, w)).map (Cmd.map g) := by
  cases c with
  | none => rfl
  | some c =>
    unfold decodeCmdStep
    simp only [Option.map_some]
    cases cmdRowByJson? k with
    | none => rfl
    | some r =>
      simp only
      by_cases h1 : r.skipped = true
      · simp only [h1, if_true]
        by_cases h2 : r.isPtr = true
        · simp only [h2, if_true]
          cases w <;> rfl
        · simp only [h2, if_false, Bool.false_eq_true]
          cases w with
          | arr ws =>
            simp only [W.map, decodeFilters_map]
            cases decodeFilters ws <;> rfl
          | val a => rfl
          | name n => rfl
          | obj cs => rfl
      · simp only [h1, if_false, Bool.false_eq_true]
        by_cases h2 : r.isPtr = true
        · simp only [h2, if_true]
          cases w with
          | val a => simp [W.map, Cmd.map, insertAt_map]
          | arr ws => rfl
          | name n => rfl
          | obj cs => rfl
        · simp only [h2, if_false, Bool.false_eq_true]
          rfl

theorem decodeCmd_foldl_map (kvs : List (Key × W α)) (c : Option (Cmd α)) :
    (W.mapKVs g kvs).foldl decodeCmdStep (c.map (Cmd.map g)) = (kvs.foldl decodeCmdStep c).map (Cmd.map g) := by
  induction kvs generalizing c with
  | nil => rfl
  | cons p rest ih =>
    obtain ⟨k, w⟩ := p
    simp only [W.mapKVs, List.foldl_cons, decodeCmdStep_map, ih]

theorem decodeCmd_map (w : W α) : decodeCmd (W.map g w) = (decodeCmd w).map (Cmd.map g) := by
  cases w with
  | obj kvs =>
    simp only [W.map, decodeCmd]
    exact decodeCmd_foldl_map g kvs (some {})
  | val a => rfl
  | name n => rfl
  | arr xs => rfl


/-! ### the recognisers -/

def CmdData.map (d : CmdData α) : CmdData β := ⟨d.field, d.function, d.ty, g d.value⟩
def FilterData.map (d : FilterData α) : FilterData β :=
  ⟨d.function, d.selector.map (Typed.map g), d.elements.map (Typed.map g)⟩
def pairMap (p : Option (Typed α) × Option (Typed α)) : Option (Typed β) × Option (Typed β) :=
  (p.1.map (Typed.map g), p.2.map (Typed.map g))
def Recognised.map (r : Recognised α) : Recognised β :=
  ⟨r.function, r.payloadTy, g r.payload, r.part.map (pairMap g), r.delete.map (pairMap g)⟩

theorem cmdData_map (c : Cmd α) : cmdData (Cmd.map g c) = (cmdData c).map (CmdData.map g) := by
  obtain ⟨fn, filter, data⟩ := c
  unfold cmdData
  simp only [Cmd.map]
  induction data with
  | nil => rfl
  | cons p rest ih =>
    obtain ⟨i, a⟩ := p
    simp only [mapSet_cons, List.findSome?_cons]
    cases cmdRow? i with
    | none => simpa using ih
    | some r =>
      simp only
      by_cases h : (r.isPtr && !r.skipped && r.hasFct) = true
      · simp [h, CmdData.map]
      · simp only [h, if_false, Bool.false_eq_true]
        simpa using ih

def accMap (a : Key × Option (Typed α) × Option (Typed α)) : Key × Option (Typed β) × Option (Typed β) :=
  (a.1, a.2.1.map (Typed.map g), a.2.2.map (Typed.map g))

theorem filterDataStep_map (acc : Key × Option (Typed α) × Option (Typed α)) (p : Nat × α) :
    filterDataStep (accMap g acc) (p.1, g p.2) = accMap g (filterDataStep acc p) := by
  unfold filterDataStep
  simp only
  cases filterRow? p.1 with
  | none => rfl
  | some r =>
    simp only
    by_cases h : (r.isPtr && !r.skipped && r.hasFct && r.fct != 0 && r.hasTyp && r.typ != 0) = true
    · simp only [h, if_true, accMap]
      by_cases h1 : (r.typ == 1) = true <;> by_cases h2 : (r.typ == 2) = true <;> simp [h1, h2, Typed.map]
    · simp only [h, if_false, Bool.false_eq_true]

theorem filterData_foldl_map (l : List (Nat × α)) (acc : Key × Option (Typed α) × Option (Typed α)) :
    (mapSet g l).foldl filterDataStep (accMap g acc) = accMap g (l.foldl filterDataStep acc) := by
  induction l generalizing acc with
  | nil => rfl
  | cons p rest ih =>
    simp only [mapSet_cons, List.foldl_cons]
    rw [filterDataStep_map g acc p, ih]

theorem filterData_map (f : Filter α) : filterData (Filter.map g f) = (filterData f).map (FilterData.map g) := by
  unfold filterData
  simp only [Filter.map]
  have h := filterData_foldl_map g f.set (0, none, none)
  have e0 : accMap g ((0, none, none) : Key × Option (Typed α) × Option (Typed α)) = (0, none, none) := rfl
  rw [e0] at h
  simp only [h, accMap]
  split <;> rfl

theorem filterPair_map (f : Filter α) : filterPair (Filter.map g f) = pairMap g (filterPair f) := by
  unfold filterPair
  rw [filterData_map]
  cases filterData f <;> rfl

theorem filterFunctionOk_map (k : Key) (f : Option (Filter α)) :
    filterFunctionOk k (f.map (Filter.map g)) = filterFunctionOk k f := by
  cases f with
  | none => rfl
  | some f =>
    simp only [Option.map_some, filterFunctionOk, filterData_map]
    cases filterData f <;> rfl

def efMap (p : Option (Filter α) × Option (Filter α)) : Option (Filter β) × Option (Filter β) :=
  (p.1.map (Filter.map g), p.2.map (Filter.map g))

theorem extractStep_map (acc : Except Panic (Option (Filter α) × Option (Filter α))) (f : Filter α) :
    extractStep (exMap (efMap g) acc) (Filter.map g f) = exMap (efMap g) (extractStep acc f) := by
  cases acc with
  | error e => rfl
  | ok pd =>
    obtain ⟨p, d⟩ := pd
    obtain ⟨ctl, part, del, set⟩ := f
    cases ctl <;> cases part <;> cases del <;> rfl

theorem extractFilter_foldl_map (fs : List (Filter α)) (acc : Except Panic (Option (Filter α) × Option (Filter α))) :
    (mapFilters g fs).foldl extractStep (exMap (efMap g) acc) = exMap (efMap g) (fs.foldl extractStep acc) := by
  induction fs generalizing acc with
  | nil => rfl
  | cons f fs ih =>
    simp only [mapFilters, List.map_cons, List.foldl_cons]
    rw [extractStep_map g acc f]
    exact ih _

theorem extractFilter_map (c : Cmd α) :
    extractFilter (Cmd.map g c) = exMap (efMap g) (extractFilter c) := by
  unfold extractFilter
  exact extractFilter_foldl_map g c.filter (.ok (none, none))

theorem recognise_map (c : Cmd α) :
    recognise (Cmd.map g c) = exMap (Option.map (Recognised.map g)) (recognise c) := by
  unfold recognise
  rw [extractFilter_map, cmdData_map]
  cases extractFilter c with
  | error e => rfl
  | ok pd =>
    obtain ⟨p, d⟩ := pd
    simp only [exMap, efMap]
    cases cmdData c with
    | none => rfl
    | some cd =>
      simp only [Option.map_some, CmdData.map]
      cases hfn : cd.function with
      | none =>
        simp only [if_true]
        simp [exMap, Recognised.map, Option.map_map, Function.comp_def, filterPair_map]
      | some k =>
        simp only [filterFunctionOk_map]
        by_cases h : (filterFunctionOk k p && filterFunctionOk k d) = true
        · simp [h, exMap, Recognised.map, Option.map_map, Function.comp_def, filterPair_map]
        · simp [h, exMap]

theorem expected_map (fn : FnRow) (sh : Shape) (a : Args α) :
    expected fn sh (Args.map g a) = Recognised.map g (expected fn sh a) := by
  unfold expected
  cases sh <;> cases selTy? fn <;> cases elTy? fn <;> rfl

/-- Building, encoding, decoding and recognising commute with every renaming of the values. -/
theorem roundtrip_map (cfg : Cfg) (fn : FnRow) (sh : Shape) (a : Args α) :
    roundtrip cfg fn sh (Args.map g a) = exMap (Option.map (Recognised.map g)) (roundtrip cfg fn sh a) := by
  unfold roundtrip
  rw [← build_map]
  cases build cfg fn sh a with
  | error e => rfl
  | ok c =>
    simp only [exMap]
    rw [encodeCmd_map, decodeCmd_map]
    cases decodeCmd (encodeCmd c) with
    | none => rfl
    | some c' =>
      simp only [Option.map_some, recognise_map]
      cases recognise c' <;> rfl

/-- the value a token stands for -/
def Args.get (a : Args α) : Nat → α
  | 0 => a.empty
  | 1 => a.data
  | 2 => a.sel
  | 3 => a.el
  | _ => a.sel2

theorem Args.map_get_tok (a : Args α) : Args.map a.get tok = a := rfl

/-- What the kernel decides for the tokens holds for every choice of values of every type. -/
theorem roundtrip_of_tok (cfg : Cfg) (fn : FnRow) (sh : Shape)
    (h : roundtrip cfg fn sh tok = .ok (some (expected fn sh tok))) (a : Args α) :
    roundtrip cfg fn sh a = .ok (some (expected fn sh a)) := by
  have := roundtrip_map a.get cfg fn sh tok
  rw [Args.map_get_tok, h] at this
  rw [this]
  simp only [exMap, Option.map_some]
  rw [← expected_map, Args.map_get_tok]

/-- … and a panic for the tokens is a panic for every choice of values. -/
theorem roundtrip_error_of_tok (cfg : Cfg) (fn : FnRow) (sh : Shape) (e : Panic)
    (h : roundtrip cfg fn sh tok = .error e) (a : Args α) :
    roundtrip cfg fn sh a = .error e := by
  have := roundtrip_map a.get cfg fn sh tok
  rw [Args.map_get_tok, h] at this
  exact this

end Spine.Cmd
