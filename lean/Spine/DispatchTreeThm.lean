import Spine.DispatchTree
import Spine.DispatchData
/-! Lemmas for the local tree operations (`Spine/DispatchTree.lean`): node management's computed data is changed by
    nothing but a local tree / use-case operation (frame), a read of it is answered with the current value, hence - over
    every history that interleaves datagrams, registry traffic and local operations - with the value of the LAST local
    operation that changed it; exactness of the responses (C01) holds in the world of every moment of such a history. -/
namespace Spine.Disp

theorem nmData_record (w : W) (b : Bool) (d : Dg) : (record w b d).nmData = w.nmData := by
  unfold record; split <;> rfl

theorem nmData_processCmd (w : W) (p : Nat) (d : Dg) : (processCmd w p d).1.nmData = w.nmData := by
  unfold processCmd
  cases srcF w p d with
  | none => rfl
  | some rf =>
    cases dstF w d with
    | none =>
      simp only []
      split
      · rfl
      · split <;> rfl
    | some lf =>
      simp only []
      split
      · rfl
      · split
        · cases request ((bump (record (setPeer w p (answered (w.peers p) d.ref)) (applies w p lf d) d)
              ((if applies w p lf d = true then notifs w d else []) ++ tag p (responses w p lf rf d))).peers p) d.src d.fn with
          | mk pr' sent => simp only [setPeer, bump, nmData_record]
        · simp only [setPeer, bump, nmData_record]

/-- Frame: no datagram, registry call, discovery notification, disconnect, connect or data set of the application
    changes what node management reports for discovery / use cases / destination list -/
theorem nmData_step (w : W) (op : Op) : (step w op).1.nmData = w.nmData := by
  cases op with
  | dg p d => exact nmData_processCmd w p d
  | call p ctr ack k =>
    simp only [step, processCall]
    split
    · rfl
    · split
      · cases k <;> rfl
      · rfl
  | entRem p e ctr ack =>
    simp only [step, processEntRem]
    split
    · rfl
    · simp only [bump]; split <;> rfl
  | entAdd p e ctr ack => simp only [step, processEntAdd]; split <;> rfl
  | drop p => rfl
  | conn p => simp only [step, connPeer]; split <;> rfl
  | setData a fn v =>
    simp only [step, localSet]
    split
    · split <;> rfl
    · rfl
  | reann p ctr ref ack => simp only [step, processReann]; split <;> rfl
  | full p keep ctr ack =>
    simp only [step, processFull]
    split
    · rfl
    · split <;> rfl

/-- a read of detailed discovery / use-case / destination-list data at node management is answered with exactly one
    reply, and it carries the value node management's data has at that moment -/
theorem c01_nm_reply_current (w : W) (p : Nat) (d : Dg) (lf : LF) (rf : RF) (hsrc : srcF w p d = some rf)
    (hdst : dstF w d = some lf) (hr : d.cls = .read) (hnm : lf.nm = true)
    (hfn : d.fn = 901 ∨ d.fn = 902 ∨ d.fn = 903) (hnc : NoCrash w d) :
    (processCmd w p d).2 = [(p, .reply d.ctr d.fn d.dst d.src (w.nmData d.fn) (some 0))] := by
  have hpan : crashes w p lf rf d = false := crashes_false w p lf rf d hnc
  have hh : handle lf rf d = (none, true) := by
    rcases hfn with h | h | h <;> simp [handle, hnm, handleNM, hr, h]
  have hresp : responses w p lf rf d = [.reply d.ctr d.fn d.dst d.src (w.nmData d.fn) (some 0)] := by
    rcases hfn with h | h | h <;> simp [responses, hr, hh, replyVal, hnm, h]
  have hwr : wantsRead w p lf rf d = false := by simp [wantsRead, hr]
  have happ : applies w p lf d = false := by simp [applies, hr]
  unfold processCmd
  simp [hsrc, hdst, hpan, hresp, hwr, happ, tag]

/-! ### the local operations -/

theorem applyNm_lastNm (sets : List (Nat × Nat)) : ∀ (f : Nat → Nat) (fn : Nat), applyNm f sets fn = lastNm fn (f fn) sets := by
  induction sets with
  | nil => intro f fn; rfl
  | cons s sets ih =>
    intro f fn
    simp only [applyNm, lastNm, List.foldl_cons]
    have := ih (fun x => if x = s.1 then s.2 else f x) fn
    simp only [applyNm, lastNm] at this
    rw [this]
    by_cases h : fn = s.1
    · simp [h]
    · have h' : ¬ s.1 = fn := fun hh => h hh.symm
      simp [h, h']

theorem lastNm_append (fn init : Nat) (a b : List (Nat × Nat)) : lastNm fn init (a ++ b) = lastNm fn (lastNm fn init a) b := by
  simp [lastNm, List.foldl_append]

theorem nmData_ucSet (w : W) (v : Nat) : (ucSet w v).1.nmData = applyNm w.nmData [(902, v)] := rfl

/-- what one operation does to node management's data: exactly the sets `nmSets` names -/
theorem nmData_tstep (w : W) (op : TOp) : (tstep w op).1.nmData = applyNm w.nmData (nmSets w op) := by
  cases op with
  | op o => exact nmData_step w o
  | addFeat lf v =>
    simp only [tstep, addFeatW, nmSets, nmSet, applyNm, List.foldl_cons, List.foldl_nil]
    split <;> rfl
  | addFn a fn wr v => rfl
  | descr a v => rfl
  | addUc v => rfl
  | remUc v =>
    simp only [tstep, nmSets]
    split
    · rfl
    · rfl
  | addEnt lfs v => rfl
  | remEnt e vu v =>
    simp only [tstep, remEntW, nmSets]
    split
    · rfl
    · rfl

theorem nmData_trun (ops : List TOp) : ∀ (w : W) (fn : Nat),
    (trun w ops).nmData fn = lastNm fn (w.nmData fn) (nmTrace w ops) := by
  induction ops with
  | nil => intro w fn; rfl
  | cons op ops ih =>
    intro w fn
    show (trun (tstep w op).1 ops).nmData fn = _
    rw [ih, nmData_tstep, applyNm_lastNm]
    simp only [nmTrace]
    rw [lastNm_append]

theorem cfg_ucSet (w : W) (v : Nat) : (ucSet w v).1.cfg = w.cfg := rfl
theorem loc_ucSet (w : W) (v : Nat) : (ucSet w v).1.loc = w.loc := rfl

theorem cfg_tstep (w : W) (op : TOp) : (tstep w op).1.cfg = w.cfg := by
  cases op with
  | op o => exact (step_frame w o).1
  | addFeat lf v => simp only [tstep, addFeatW, nmSet]; split <;> rfl
  | addFn a fn wr v => rfl
  | descr a v => rfl
  | addUc v => rfl
  | remUc v => simp only [tstep]; split <;> rfl
  | addEnt lfs v => rfl
  | remEnt e vu v => simp only [tstep, remEntW]; split <;> rfl

theorem cfg_trun (ops : List TOp) : ∀ w : W, (trun w ops).cfg = w.cfg := by
  induction ops with
  | nil => intro w; rfl
  | cons op ops ih => intro w; exact (ih (tstep w op).1).trans (cfg_tstep w op)

theorem addFnLF_nm (a : Addr) (fn : Nat) (wr : Bool) (lf : LF) (h : (addFnLF a fn wr lf).nm = true) :
    addFnLF a fn wr lf = lf := by
  unfold addFnLF at h ⊢
  split
  · rename_i hc
    rw [if_pos hc] at h
    simp only [Bool.and_eq_true, Bool.not_eq_true'] at hc
    have : lf.nm = true := h
    rw [hc.1.1.2] at this; cases this
  · rfl

/-- node management stays read-only: no local operation of the model announces a writable function on it -/
theorem nmReadOnly_tstep (w : W) (op : TOp) (h : nmReadOnly w) : nmReadOnly (tstep w op).1 := by
  cases op with
  | op o =>
    intro lf hlf
    have hlf' : lf ∈ (step w o).1.loc := hlf
    rw [loc_step] at hlf'; exact h lf hlf'
  | addFeat lf v =>
    intro lf' hlf' hnm
    simp only [tstep, addFeatW, nmSet] at hlf'
    split at hlf'
    · exact h lf' hlf' hnm
    · rename_i hc
      simp only [List.mem_append, List.mem_singleton] at hlf'
      rcases hlf' with hm | rfl
      · exact h lf' hm hnm
      · simp only [Bool.or_eq_true, not_or, Bool.not_eq_true] at hc
        rw [hc.1] at hnm; cases hnm
  | addFn a fn wr v =>
    intro lf' hlf' hnm
    simp only [tstep, addFnW, nmSet, List.mem_map] at hlf'
    obtain ⟨lf0, hm, rfl⟩ := hlf'
    have e := addFnLF_nm a fn wr lf0 hnm
    intro o ho
    rw [e] at hnm ho
    exact h lf0 hm hnm o ho
  | descr a v => exact h
  | addUc v => exact h
  | remUc v =>
    simp only [tstep]
    split
    · exact h
    · exact h
  | addEnt lfs v =>
    intro lf' hlf' hnm
    simp only [tstep, addEntW, nmSet, bump, List.mem_append, List.mem_filter] at hlf'
    rcases hlf' with hm | ⟨_, hc⟩
    · exact h lf' hm hnm
    · simp only [Bool.and_eq_true, Bool.not_eq_true'] at hc
      rw [hc.1] at hnm; cases hnm
  | remEnt e vu v =>
    intro lf' hlf' hnm
    simp only [tstep, remEntW, nmSet, bump] at hlf'
    split at hlf'
    · simp only [List.mem_filter] at hlf'; exact h lf' hlf'.1 hnm
    · simp only [List.mem_filter, loc_ucSet] at hlf'; exact h lf' hlf'.1 hnm

theorem nmReadOnly_trun (ops : List TOp) : ∀ w : W, nmReadOnly w → nmReadOnly (trun w ops) := by
  induction ops with
  | nil => intro w h; exact h
  | cons op ops ih => intro w h; exact ih (tstep w op).1 (nmReadOnly_tstep w op h)

end Spine.Disp
