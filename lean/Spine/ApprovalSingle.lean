import Spine.ApprovalFrame
/-! C12, the historical member: the code AS WRITTEN (the peer's tally map re-created when the current write has no
    entry: `tallyReset = true`; any `ignoreStop`) with ANY number of callbacks, when writes are pending ONE AT A TIME
    and no verdict sits between lookup and commit for a write that is no longer armed: its outcomes are those of the
    repaired member. (With two pending writes the reset loses the other write's approvals — refuted in `Props/C12`;
    with one, the map it throws away holds nothing that is still needed.) The states differ (the tally maps), so this
    is a simulation, not an equality of runs as `c12_partial`. -/
namespace Spine.ApprS
open Spine.Appr

abbrev Tally := Option (List (Nat × Nat))

/-- the approvals counted for write `w`, if the map has an entry -/
def look (t : Tally) (w : Nat) : Option Nat :=
  match t with
  | none => none
  | some m => (m.find? (·.1 = w)).map (·.2)

theorem find_filter_ne (m : List (Nat × Nat)) (k k' : Nat) :
    (m.filter (·.1 ≠ k)).find? (·.1 = k') = if k' = k then none else m.find? (·.1 = k') := by
  induction m with
  | nil => simp
  | cons x xs ih =>
    simp only [List.filter_cons]
    by_cases hx : x.1 = k
    · simp only [hx, ne_eq, not_true_eq_false, decide_false, Bool.false_eq_true, if_false, ih, List.find?_cons]
      by_cases h : k' = k
      · simp [h]
      · have : ¬ k = k' := fun h' => h h'.symm
        simp [h, this]
    · simp only [hx, ne_eq, not_false_eq_true, decide_true, if_true, List.find?_cons, ih]
      by_cases h : k' = k
      · subst h; simp [hx]
      · simp [h]

/-- the count a bump returns depends only on the entry of the write itself — in every member -/
theorem bump_n (c : Cfg) (t : Tally) (w : Nat) : (bump c t w).2 = (look t w).getD 0 + 1 := by
  unfold bump look
  cases t with
  | none => rfl
  | some m =>
    simp only
    cases h : m.find? (·.1 = w) with
    | none => simp only [Option.map_none, Option.getD_none]; split <;> rfl
    | some x => obtain ⟨a, n⟩ := x; simp

/-- after a bump the write's own entry is the new count — in every member -/
theorem bump_look_self (c : Cfg) (t : Tally) (w : Nat) : look (some (bump c t w).1) w = some ((look t w).getD 0 + 1) := by
  unfold bump look
  cases t with
  | none => simp
  | some m =>
    simp only
    cases h : m.find? (·.1 = w) with
    | none =>
      simp only [Option.map_none, Option.getD_none]
      split
      · simp
      · simp [List.find?_append, h]
    | some x =>
      obtain ⟨a, n⟩ := x
      simp only [Option.map_some, Option.getD_some]
      rw [List.find?_append, find_filter_ne]
      simp

/-- entries that a bump leaves or creates: the write's own, or entries that were there -/
theorem bump_keys (c : Cfg) (t : Tally) (w k : Nat) (h : look (some (bump c t w).1) k ≠ none) :
    k = w ∨ look t k ≠ none := by
  by_cases hk : k = w
  · exact Or.inl hk
  · right
    revert h
    unfold bump look
    cases t with
    | none =>
      have : ¬ w = k := fun h' => hk h'.symm
      simp [this]
    | some m =>
      simp only
      have hwk : ¬ w = k := fun h' => hk h'.symm
      cases hf : m.find? (·.1 = w) with
      | none =>
        simp only
        split
        · simp [hwk]
        · simp only [List.find?_append]
          cases m.find? (·.1 = k) <;> simp [hwk]
      | some x =>
        obtain ⟨a, n⟩ := x
        simp only [List.find?_append, find_filter_ne, hk, if_false]
        cases m.find? (·.1 = k) <;> simp [hwk]

theorem filter_look (t : Tally) (w k : Nat) :
    look (t.map (·.filter (·.1 ≠ w))) k = if k = w then none else look t k := by
  unfold look
  cases t with
  | none => simp
  | some m =>
    simp only [Option.map_some, find_filter_ne]
    by_cases h : k = w <;> simp [h]

/-- the two runs agree on everything but the tally map, and on the tally of every write that is still armed -/
structure Rel (s s' : St) : Prop where
  nCb : s.nCb = s'.nCb
  seen : s.seen = s'.seen
  pending : s.pending = s'.pending
  armed : s.armed = s'.armed
  lookups : s.lookups = s'.lookups
  fired : s.fired = s'.fired
  outcomes : s.outcomes = s'.outcomes
  presented : s.presented = s'.presented
  one : s.armed.length ≤ 1
  sub : ∀ w ∈ s.armed, w ∈ s.seen
  keys : ∀ w, look s.tally w ≠ none → w ∈ s.seen
  keys' : ∀ w, look s'.tally w ≠ none → w ∈ s'.seen
  tally : ∀ w ∈ s.armed, look s.tally w = look s'.tally w

/-- a schedule of member `c` in which no verdict is stale (`NoStale`, as in `c12_partial`) and a write arrives only
    when no other write is armed -/
def Single (c : Cfg) : St → List Ev → Prop
  | _, [] => True
  | s, e :: es => NoStale s ∧ (∀ w, e = .arrive w → s.armed = []) ∧ Single c (step c s e) es

theorem armed_eq_single {l : List Nat} {w : Nat} (h1 : l.length ≤ 1) (hw : w ∈ l) : l = [w] := by
  match l, h1, hw with
  | [x], _, hw => simp only [List.mem_singleton] at hw; rw [hw]
  | _ :: _ :: _, h1, _ => simp at h1

theorem rel_finish (c : Cfg) {s s' : St} (h : Rel s s') (w : Nat) (a : Bool) (hw : w ∈ s.armed) :
    Rel (finish c s w a) (finish Cfg.clean s' w a) := by
  rw [finish_cfg_agree c s w a hw]
  have hc : s.armed.contains w = true := by simpa using hw
  have hc' : s'.armed.contains w = true := by rw [← h.armed]; exact hc
  have hl := armed_eq_single h.one hw
  simp only [finish, hc, hc', Cfg.clean, Bool.or_true, Bool.false_or, if_true]
  refine ⟨h.nCb, h.seen, ?_, ?_, h.lookups, h.fired, ?_, h.presented, ?_, ?_, ?_, ?_, ?_⟩
  · simp only [h.pending]
  · simp only [h.armed]
  · simp only [h.outcomes]
  · exact Nat.le_trans (List.length_filter_le _ _) h.one
  · intro x hx; exact h.sub x (List.mem_filter.mp hx).1
  · intro k hk
    simp only [filter_look] at hk
    by_cases hkw : k = w
    · simp [hkw] at hk
    · simp only [hkw, if_false] at hk; exact h.keys k hk
  · intro k hk
    simp only [filter_look] at hk
    by_cases hkw : k = w
    · simp [hkw] at hk
    · simp only [hkw, if_false] at hk; exact h.keys' k hk
  · intro x hx
    rw [hl] at hx
    simp at hx

theorem rel_step (c : Cfg) {s s' : St} (h : Rel s s') (e : Ev) (hs : NoStale s)
    (ha : ∀ w, e = .arrive w → s.armed = []) : Rel (step c s e) (step Cfg.clean s' e) := by
  cases e with
  | arrive w =>
    simp only [step]
    cases hc : s.seen.contains w with
    | true =>
      have hc2 : s'.seen.contains w = true := by rw [← h.seen]; exact hc
      simp only [hc2, if_true]; exact h
    | false =>
      have hc2 : s'.seen.contains w = false := by rw [← h.seen]; exact hc
      have hns : w ∉ s.seen := by simpa using hc
      have hnil := ha w rfl
      simp only [hc2, Bool.false_eq_true, if_false]
      refine ⟨h.nCb, ?_, ?_, ?_, h.lookups, h.fired, h.outcomes, ?_, ?_, ?_, ?_, ?_, ?_⟩
      · simp only [h.seen]
      · simp only [h.pending]
      · simp only [h.armed]
      · simp only [h.presented, h.nCb]
      · simp [hnil]
      · intro x hx
        simp only [hnil, List.mem_singleton] at hx
        rw [hx]; exact List.mem_cons_self
      · intro k hk; exact List.mem_cons_of_mem _ (h.keys k hk)
      · intro k hk; exact List.mem_cons_of_mem _ (h.keys' k hk)
      · intro x hx
        simp only [hnil, List.mem_singleton] at hx
        subst hx
        have h1 : look s.tally x = none := by
          cases h0 : look s.tally x with
          | none => rfl
          | some v => exact absurd (h.keys x (by rw [h0]; simp)) hns
        have h2 : look s'.tally x = none := by
          cases h0 : look s'.tally x with
          | none => rfl
          | some v => exact absurd (h.seen ▸ h.keys' x (by rw [h0]; simp)) hns
        simp only [h1, h2]
  | lookup op w =>
    simp only [step]
    cases hc : s.pending.contains w with
    | true =>
      have hc2 : s'.pending.contains w = true := by rw [← h.pending]; exact hc
      simp only [hc2, if_true]
      exact ⟨h.nCb, h.seen, h.pending, h.armed, by simp only [h.lookups], h.fired, h.outcomes, h.presented, h.one, h.sub,
        h.keys, h.keys', h.tally⟩
    | false =>
      have hc2 : s'.pending.contains w = false := by rw [← h.pending]; exact hc
      simp only [hc2, Bool.false_eq_true, if_false]; exact h
  | timeoutTake w =>
    simp only [step]
    cases hc : s.armed.contains w with
    | true =>
      have hc2 : s'.armed.contains w = true := by rw [← h.armed]; exact hc
      simp only [hc2, if_true]
      refine ⟨h.nCb, h.seen, ?_, ?_, h.lookups, ?_, h.outcomes, h.presented, ?_, ?_, h.keys, h.keys', ?_⟩
      · simp only [h.pending]
      · simp only [h.armed]
      · simp only [h.fired]
      · exact Nat.le_trans (List.length_filter_le _ _) h.one
      · intro x hx; exact h.sub x (List.mem_filter.mp hx).1
      · intro x hx; exact h.tally x (List.mem_filter.mp hx).1
    | false =>
      have hc2 : s'.armed.contains w = false := by rw [← h.armed]; exact hc
      simp only [hc2, Bool.false_eq_true, if_false]; exact h
  | timeoutSend w =>
    simp only [step]
    cases hc : s.fired.contains w with
    | true =>
      have hc2 : s'.fired.contains w = true := by rw [← h.fired]; exact hc
      simp only [hc2, if_true]
      exact ⟨h.nCb, h.seen, h.pending, h.armed, h.lookups, by simp only [h.fired], by simp only [h.outcomes], h.presented,
        h.one, h.sub, h.keys, h.keys', h.tally⟩
    | false =>
      have hc2 : s'.fired.contains w = false := by rw [← h.fired]; exact hc
      simp only [hc2, Bool.false_eq_true, if_false]; exact h
  | drop =>
    simp only [step]
    refine ⟨h.nCb, h.seen, rfl, rfl, h.lookups, h.fired, h.outcomes, h.presented, by simp, ?_, ?_, ?_, ?_⟩
    · intro x hx; cases hx
    · intro k hk; exact absurd rfl hk
    · intro k hk; exact absurd rfl hk
    · intro x hx; cases hx
  | commit op a =>
    simp only [step]
    have hlk : s'.lookups.find? (·.1 = op) = s.lookups.find? (·.1 = op) := by rw [h.lookups]
    rw [hlk]
    cases hf : s.lookups.find? (·.1 = op) with
    | none => exact h
    | some x =>
      obtain ⟨o, w⟩ := x
      have hmem : (o, w) ∈ s.lookups := List.mem_of_find?_eq_some hf
      have harmed : w ∈ s.armed := hs _ hmem
      have hl := armed_eq_single h.one harmed
      simp only
      have h1 : Rel { s with lookups := s.lookups.filter (·.1 ≠ op) } { s' with lookups := s'.lookups.filter (·.1 ≠ op) } :=
        ⟨h.nCb, h.seen, h.pending, h.armed, by simp only [h.lookups], h.fired, h.outcomes, h.presented, h.one, h.sub,
          h.keys, h.keys', h.tally⟩
      have hcb : (decide (s'.nCb > 1) && a) = (decide (s.nCb > 1) && a) := by rw [h.nCb]
      by_cases hb : (decide (s.nCb > 1) && a) = true
      · have hb' : (decide (s'.nCb > 1) && a) = true := hcb.trans hb
        simp only [hb, hb', if_true]
        have hn : (bump c s.tally w).2 = (bump Cfg.clean s'.tally w).2 := by
          rw [bump_n, bump_n, h.tally w harmed]
        have h2 : Rel { s with lookups := s.lookups.filter (·.1 ≠ op), tally := some (bump c s.tally w).1 }
            { s' with lookups := s'.lookups.filter (·.1 ≠ op), tally := some (bump Cfg.clean s'.tally w).1 } := by
          refine ⟨h.nCb, h.seen, h.pending, h.armed, by simp only [h.lookups], h.fired, h.outcomes, h.presented, h.one,
            h.sub, ?_, ?_, ?_⟩
          · intro k hk
            rcases bump_keys c s.tally w k hk with rfl | hk'
            · exact h.sub _ harmed
            · exact h.keys k hk'
          · intro k hk
            rcases bump_keys Cfg.clean s'.tally w k hk with rfl | hk'
            · rw [← h.seen]; exact h.sub _ harmed
            · exact h.keys' k hk'
          · intro x hx
            simp only at hx ⊢
            rw [hl] at hx
            simp only [List.mem_singleton] at hx
            subst hx
            rw [bump_look_self, bump_look_self, h.tally x harmed]
        by_cases hlt : (bump c s.tally w).2 < s.nCb
        · have hlt' : (bump Cfg.clean s'.tally w).2 < s'.nCb := by rw [← hn, ← h.nCb]; exact hlt
          simp only [hlt, hlt', if_true]; exact h2
        · have hlt' : ¬ (bump Cfg.clean s'.tally w).2 < s'.nCb := by rw [← hn, ← h.nCb]; exact hlt
          simp only [hlt, hlt', if_false]
          exact rel_finish c h2 w a harmed
      · have hb' : ¬ (decide (s'.nCb > 1) && a) = true := by rw [hcb]; exact hb
        simp only [hb, hb', Bool.false_eq_true, if_false]
        exact rel_finish c h1 w a harmed

theorem rel_init (n : Nat) : Rel { nCb := n } { nCb := n } := by
  refine ⟨rfl, rfl, rfl, rfl, rfl, rfl, rfl, rfl, by simp, ?_, ?_, ?_, ?_⟩
  · intro x hx; cases hx
  · intro k hk; exact absurd rfl hk
  · intro k hk; exact absurd rfl hk
  · intro x hx; cases hx

theorem rel_run (c : Cfg) (evs : List Ev) : ∀ s s', Rel s s' → Single c s evs →
    Rel (evs.foldl (step c) s) (evs.foldl (step Cfg.clean) s') := by
  induction evs with
  | nil => intro s s' h _; exact h
  | cons e es ih =>
    intro s s' h hs
    simp only [List.foldl_cons]
    exact ih _ _ (rel_step c h e hs.1 hs.2.1) hs.2.2

end Spine.ApprS
