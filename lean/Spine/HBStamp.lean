/-! C16, "carrying … a current timestamp": which instant the timestamp text of a refresh denotes.

    The text has the layout `2006-01-02T15:04:05Z`: a wall-clock reading, rounded to the second, followed by the literal
    `Z` — every reader takes it as UTC. It denotes the instant of the refresh only if the reading is the UTC reading. A
    reading of the process's LOCAL wall clock, formatted with the same literal `Z`, denotes an instant that is off by the
    zone's offset (invisible in a process whose local zone is UTC).

    Instants in milliseconds since the epoch (UTC); `zone` = offset of the process's local zone, in seconds east. -/
namespace Spine.HBS

structure Cfg where
  utc : Bool := true      -- the reading is converted to UTC before it is formatted (`time.Now().UTC()` / `.UTC().Format`)
  deriving DecidableEq, Repr

/-- `t.Round(time.Second)` -/
def roundS (ms : Int) : Int := (ms + 500) / 1000 * 1000

/-- the instant the text denotes when read as UTC -/
def denoted (c : Cfg) (now zone : Int) : Int := roundS (if c.utc then now else now + zone * 1000)

theorem roundS_near (ms : Int) : roundS ms - ms ≤ 500 ∧ ms - roundS ms ≤ 500 := by
  unfold roundS; omega

theorem roundS_shift (ms z : Int) : roundS (ms + z * 1000) = roundS ms + z * 1000 := by
  unfold roundS; omega

/-- "a current timestamp": with the UTC reading the text denotes the instant of the refresh up to the resolution of the
    text (half a second), whatever the local zone of the process -/
theorem current (now zone : Int) : denoted {} now zone - now ≤ 500 ∧ now - denoted {} now zone ≤ 500 := by
  simp only [denoted, if_true]; exact roundS_near now

/-- with the local reading the text is off by exactly the zone's offset -/
theorem local_reading_off (now zone : Int) : denoted { utc := false } now zone = denoted {} now zone + zone * 1000 := by
  simp [denoted, roundS_shift]

/-- hence: current in every zone ⇔ the UTC reading is used (a zone of a quarter of an hour or more is far outside the
    resolution) -/
theorem current_iff (c : Cfg) (now zone : Int) (hz : 900 ≤ zone ∨ zone ≤ -900) :
    (denoted c now zone - now ≤ 500 ∧ now - denoted c now zone ≤ 500) ↔ c.utc = true := by
  cases hc : c.utc with
  | true =>
    have : c = {} := by cases c; simp_all
    subst this; simp [current]
  | false =>
    have : c = { utc := false } := by cases c; simp_all
    subst this
    rw [local_reading_off]
    have := current now zone
    constructor
    · intro h; omega
    · intro h; cases h

end Spine.HBS
