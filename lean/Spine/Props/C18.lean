import Spine.Cmd
import Spine.Json
import Spine.SchemaLookup
/-!
# C18 — wire format and function tables are coherent for every function

Property theorems only, in four modules that build in parallel: this one (G1/G2 table theorems),
`Spine.Props.C18Shapes` (the command shapes), `Spine.Props.C18Json` (the data model's JSON) and
`Spine.Props.C18Period` (which time periods the JSON round trip may re-express). Model: `Spine.Cmd` (the command builders and recognisers of spine-go as table
lookups) over the tables REGENERATED from the tree under test on every run
(`Spine.Generated.functions` — G1, the function factory executed for every feature type;
`cmdFields` / `filterFields` — G2, the `eebus` tags as parsed by the repository's own parser;
`schema` — G5, the JSON schema of every type reachable from `model.Datagram`), and `Spine.Json`
(schema-directed model of `encoding/json`; generic round-trip theorem in `Spine/JsonThm.lean`).

Every theorem below that mentions a `Generated` table is re-checked by the kernel (`decide +kernel`)
against what the code says NOW. A tag row that is broken on the tree appears in the regenerated list
`tagFailing`; the theorems are stated for every function outside that list, the list itself is proved to
contain only rows that really fail (`c18_tag_failing_exact`), and the harness (go/comp/wire_test.go)
reproduces every listed row on the real code and reports it under the key `tag:<FilterType field>` — a
row that is not a recorded known finding is a VIOLATION there. So the build stays green while the set of
broken rows is exactly what is reported.

Status:
* PROVED for every registered function (127 on the pinned tree), all rows outside `tagFailing`:
  `c18_cmd_field_unique`, `c18_selector_tag_ok`, `c18_elements_tag_ok`, `c18_roundtrip_cmd`
  (repaired member, all nine shapes + three combinations, EVERY choice of values: decided by the kernel for
  five distinct tokens and lifted by the hand-proved naturality theorem `Spine.Cmd.roundtrip_map`),
  `c18_roundtrip_cmd_partial` (member as written, the shapes without a delete filter).
* REFUTED on the code as written: `c18_delete_refuted` (every delete selector / delete elements panics —
  defect flag `deleteByRef`, function_data_cmd.go:68,71) and `c18_roundtrip_cmd_refuted` (on every row of
  `tagFailing` the selectors / elements are silently dropped).
* PROVED for every value of every type of the schema: `c18_decode_encode` with `c18_schema_wf`,
  `c18_schema_fragment`; `c18_norm_equiv` (the decoded value differs from the original only in absent
  versus empty lists).
* NOT covered by a theorem: that the key-level wire model of `Spine.Cmd` is what `Spine.Json.encode` does
  on the schema of `CmdType` (only the key lists are proved equal, `c18_tables_match_schema`; the JSON
  keys of every built command are compared with the real text by the harness, exhaustively);
  `encoding/json` itself (assumption A-json, tied by the differential run `TestWireJson`).
  `TimePeriodType`'s custom JSON is modelled at the level of shapes in `Spine.PeriodJson` (theorems in
  `Spine.Props.C18Period`, compared with the real (un)marshaler for every period in every generated
  value); parsing, formatting and rounding of the time strings are C19.
-/
namespace Spine.Props.C18
open Spine.Json Spine.Generated Spine.Cmd

/-! ## G1 — the factory -/

def keysDistinct (fs : List FnRow) : Bool := namesDistinct (fs.map (·.key))

/-- Every feature type constant has a factory entry, no function is registered with two payload types,
    function names are non-empty and pairwise distinct. -/
theorem c18_factory_total :
    featureTypesUnknown = [] ∧ factoryConflicts = [] ∧ keysDistinct functions = true ∧
    (functions.all fun f => f.key != 0 && f.payloadKey != 0) = true ∧
    (featureFunctions.all fun p => p.2.all fun k => functions.any fun f => f.key == k) = true := by
  decide +kernel

/-- non-vacuity: there are registered functions and feature types -/
example : 0 < functions.length ∧ 0 < featureFunctions.length := by decide +kernel

/-! ## G2 — one payload field per function -/

/-- exactly one `CmdType` field carries the function's `fct` tag; its json name is the function name and
    its Go type is the type the factory registers -/
def cmdFieldOk (f : FnRow) : Bool :=
  (cmdFields.filter (cmdMatch f.key)).length == 1 &&
  (match cmdFieldFor f.key with
   | some r => r.json == f.key && r.ty == f.payloadKey
   | none => false)

/-- For every registered function: one payload field, tag = json name, type = factory type. -/
theorem c18_cmd_field_unique : ∀ f ∈ functions, cmdFieldOk f = true := by decide +kernel

/-- No two `CmdType` fields name the same function, and json names of `CmdType` and of `FilterType` are
    pairwise distinct (so `CmdType.Data` on a decoded command finds the field that was set). -/
theorem c18_cmd_tags_distinct :
    namesDistinct ((cmdFields.filter fun r => r.hasFct && r.fct != 0).map (·.fct)) = true ∧
    namesDistinct (cmdFields.map (·.json)) = true ∧ namesDistinct (filterFields.map (·.json)) = true := by
  decide +kernel

example : ∃ f ∈ functions, ∃ r, cmdFieldFor f.key = some r ∧ r.idx ≥ 2 := by decide +kernel

/-! `util.IsNil` decides whether a selectors / elements argument is absent. Until the deepening round a
    theorem here pinned the regenerated list of its callers to
    `["spine/function_data_cmd.go:filtersForSelectorsElements"]` — a purely syntactic fact (the NAME of the
    calling function), which raised a false alarm on a behaviour-preserving extraction of a helper
    (benign/C18-2). It is no proof obligation any more: WHAT the builders do with each form of nil is
    decided on every run by the harness (every non-empty subset of the absent argument positions of every
    shape passed as nil pointers of the concrete selectors / elements type, compared with the untyped-nil
    build and with the model, `c18_builder_nil_forms_agree`; `util.IsNil` itself on every form of nil), for
    whichever functions the builders are made of. The callers are still listed by the translator, in its
    summary line (evidence notes), as information only. -/

/-! ## G2 — selector and elements tags -/

/-- A selectors field exists for the function where the data model defines one, the code's own lookup
    finds it: its `fct` names exactly that function and `typ` is `selector` — for every function that has
    no row in the regenerated list of failing tags. -/
theorem c18_selector_tag_ok : ∀ f ∈ functions, selFailing f = false → selectorTagOk f = true := by
  decide +kernel

/-- The same for elements. -/
theorem c18_elements_tag_ok : ∀ f ∈ functions, elFailing f = false → elementsTagOk f = true := by
  decide +kernel

/-- The regenerated list of failing rows lists only rows that do fail: each names a registered function
    whose selectors (1) resp. elements (2) lookup does not find the expected field. Together with the two
    theorems above: `tagFailing` is exactly the set of broken rows. -/
theorem c18_tag_failing_exact :
    (tagFailing.all fun r => functions.any fun f =>
      f.key == r.1 && ((r.2.1 == 1 && !selectorTagOk f) || (r.2.1 == 2 && !elementsTagOk f))) = true := by
  decide +kernel

/-- A tag that is well-formed names a registered function or at least a function of `CmdType`: every
    `FilterType` field with a non-empty `fct` and `typ` refers to a function some `CmdType` field carries
    — except the fields of functions listed in `tagFailing`. (A dangling `fct` is how
    `networkManagementFeatureDescriptionList` and `sessionIdentificationData` show up.) -/
def filterTagDangling (r : FilterRow) : Bool :=
  r.hasFct && r.fct != 0 && r.hasTyp && r.typ != 0 && !(cmdFields.any fun c => c.hasFct && c.fct == r.fct)

theorem c18_filter_tags_resolve :
    ∀ r ∈ filterFields, filterTagDangling r = true → (tagFailing.any fun t => t.2.2 == r.idx) = true := by
  decide +kernel

/-! ### the naming convention, cross-checked

Which `FilterType` field "the data model provides" for a function is decided from Go type names
(`*<P>SelectorsType`, `*<P>ElementsType` or the list item's) — a convention, independent of the tags that are
being checked. The two theorems below tie the convention to two further independent sources, so that it is
not merely assumed: the tag table itself in the converse direction, and the structure of the types. -/

/-- a well-formed tag row (`fct` names a registered function, `typ` is selector / elements) sits on the
    field the naming convention expects for that function -/
def tagRowConv (r : FilterRow) : Bool :=
  !(r.isPtr && !r.skipped && r.hasFct && r.fct != 0 && r.hasTyp && (r.typ == 1 || r.typ == 2)) ||
  match functions.find? (·.key == r.fct) with
  | none => true        -- no registered function: `c18_filter_tags_resolve`
  | some f => match expectRow? f with
    | some e => (if r.typ == 1 then e.sel else e.el) == some r.idx
    | none => false

/-- CONVERSE of `c18_selector_tag_ok` / `c18_elements_tag_ok`: every tag that names a registered function
    is on the field the convention expects. With the two theorems above: on the rows outside `tagFailing`
    the convention and the tag table (243 fields, written independently of the Go type names) say the same
    in both directions — a convention that picked a wrong field for some function would contradict its tag. -/
theorem c18_tags_imply_convention : ∀ r ∈ filterFields, tagRowConv r = true := by decide +kernel

/-- non-vacuity: tags naming registered functions exist, of both kinds -/
example : (∃ r ∈ filterFields, r.typ = 1 ∧ (functions.find? (·.key == r.fct)).isSome) ∧
    (∃ r ∈ filterFields, r.typ = 2 ∧ (functions.find? (·.key == r.fct)).isSome) := by decide +kernel

/-- STRUCTURE: the elements type the convention picks for a function fits the function's payload — every
    field of it has the json name of a field of the payload's list item (of the payload itself where it is
    no list). Regenerated by reflection (`conventionFits`); a type picked wrongly by name would not fit. -/
theorem c18_convention_elements_fit :
    (conventionFits.all fun r => r.2.2 != some false) = true ∧
    conventionFits.map (·.1) = functions.map (·.key) := by decide +kernel

example : ∃ r ∈ conventionFits, r.2.2 = some true ∧ r.2.1 = some true := by decide +kernel

/-- non-vacuity: functions with a selectors field and functions with an elements field exist and pass -/
example : (∃ f ∈ functions, (selTy? f).isSome ∧ selFailing f = false) ∧
    (∃ f ∈ functions, (elTy? f).isSome ∧ elFailing f = false) := by decide +kernel

/-! ## tables versus schema -/

def keyCmdType : Key := 0x436d6454797065                 -- "CmdType"
def keyFilterType : Key := 0x46696c74657254797065        -- "FilterType"

/-- The key lists the wire model of `Spine.Cmd` uses are the field names of the regenerated schema of
    `CmdType`, `FilterType` and `CmdControlType`, in the same order, and every one of these fields is
    `omitempty` (a nil field is absent from the object). -/
theorem c18_tables_match_schema :
    (schemaTy? keyCmdType).map (fun t => names (fieldsOf t)) = some (cmdFields.map (·.json)) ∧
    (schemaTy? keyFilterType).map (fun t => names (fieldsOf t)) = some (filterFields.map (·.json)) ∧
    (schemaTy? keyCmdControlType).map (fun t => names (fieldsOf t)) = some [keyDelete, keyPartial] ∧
    ((schemaTy? keyCmdType).map fun t => (fieldsOf t).all (·.2.1)) = some true ∧
    ((schemaTy? keyFilterType).map fun t => (fieldsOf t).all (·.2.1)) = some true := by decide +kernel

end Spine.Props.C18
