import Spine.PeriodJson
/-!
# C18, part 4 — which time periods may be re-expressed by the JSON round trip

Second sentence of the property: "… a relative end time of a time period may be re-expressed against
the current time". `TimePeriodType` has its own (un)marshaler; model `Spine.PeriodJson` (as written),
tied to the code by `TestWireJson` (every shape {start: none / absolute / relative / unparsable} ×
{end: …}, bare and nested in payloads, compared with the model's prediction on the wire and after
decoding) and judged by a SPEC monitor that allows a change ONLY for an end-only period.
All theorems PROVED (hand-written model, nothing regenerated).
-/
namespace Spine.Props.C18
open Spine.PeriodJson

/-- Every period that has a start time, has no end time, or has an unparsable end time is written to the
    wire unchanged and decodes to itself, whenever it is encoded and decoded. -/
theorem c18_period_identity (n n' : Int) (p : TP)
    (h : p.start.isSome = true ∨ p.stop = none ∨ p.stop = some .junk) :
    marshal n p = p ∧ roundtrip n n' p = p := identity_unless_end_only n n' p h

/-- non-vacuity — the shape a weakened guard would rewrite: start and absolute end -/
example : roundtrip 100 105 ⟨some (.abs 50), some (.abs 5000)⟩ = ⟨some (.abs 50), some (.abs 5000)⟩ ∧
    marshal 100 ⟨some (.rel 7), some (.abs 5000)⟩ = ⟨some (.rel 7), some (.abs 5000)⟩ := by decide

/-- The start time is never changed and no time appears or disappears. -/
theorem c18_period_start_unchanged (n n' : Int) (p : TP) :
    (marshal n p).start = p.start ∧ (roundtrip n n' p).start = p.start ∧
    (roundtrip n n' p).stop.isSome = p.stop.isSome := start_unchanged n n' p

/-- The allowed re-expression: an end-only period with a relative end time comes back anchored at the
    receiver's clock (`n' + d`). -/
theorem c18_period_relative_reanchored (n n' d : Int) :
    marshal n ⟨none, some (.rel d)⟩ = ⟨none, some (.rel d)⟩ ∧
    roundtrip n n' ⟨none, some (.rel d)⟩ = ⟨none, some (.abs (n' + d))⟩ := relative_reanchored n n' d

/-- An end-only period with an absolute end time is sent as a duration from now and comes back as the
    same instant up to the transit time `n' - n` (and, in the code, the rounding to whole seconds). -/
theorem c18_period_absolute_kept (n n' t : Int) :
    marshal n ⟨none, some (.abs t)⟩ = ⟨none, some (.rel (t - n))⟩ ∧
    roundtrip n n' ⟨none, some (.abs t)⟩ = ⟨none, some (.abs (t + (n' - n)))⟩ := absolute_kept n n' t

example : roundtrip 100 103 ⟨none, some (.rel 60)⟩ = ⟨none, some (.abs 163)⟩ ∧
    roundtrip 100 103 ⟨none, some (.abs 1000)⟩ = ⟨none, some (.abs 1003)⟩ := by decide

end Spine.Props.C18
