import Spine.DiscoveryThm
import Spine.DiscoveryWritten
import Spine.DiscoveryPartialEvents
import Spine.DiscoveryHistory
import Spine.DiscoveryGuardThm
/-!
# C06 — the remote device tree converges to what the peer announced

Property theorems only (lemmas: `Spine/Discovery*.lean`).
Model: `Spine.Disc` — the entity list of one remote device (`Tree`: per entity address, type, description and the
feature list with id, type, role, description, operations) under discovery replies, partial and full notifications;
the world around it (`World`: the trees of all peers, the subscription and binding registries of the local device, the
client-side bookkeeping of local client features). The model is a family (`Cfg`); a flag that is `true` transcribes
the code AS WRITTEN = the pinned commit a1767d0, `false` the repair that is in the tree now:
* `wholeMessage`     — for an `added` entry the whole message is added, for a `removed` entry every entry is removed
                       (repaired by 437adab: each entry on its own);
* `bindEntityOnly`   — `RemoveBindingsForEntity` compares the entity address only (repaired by d78a414);
* `removesDevInfo`   — a `removed` entry about the device-information entity [0] removes it (repaired by 711ee79: the
                       entry is skipped, the loop goes on);
* `refreshUnguarded` — a re-announcement of [0] without feature 0 takes node management away (repaired by 6fceef1: it
                       is ignored for [0], the rest of the message is processed).
`Cfg.clean` (all off) is the REPAIRED TREE (HEAD). Its handlers are `replyG` / `notifyG` / `notifyFullG`
(`treeStepG`, `World.stepG`, file `DiscoveryGuard.lean`); they also model what the repaired code does with entries it
rejects (empty address, unknown entity without entityType, entry without state change: the handler returns an error AT
that entry — the entries before it are applied, the entries after it are not; ee6520e, aaa2de7) and with malformed
feature elements (skipped when the message is unmarshalled, `MsgG.ofWire`; d6e3a1a, 8f63d7d, 211169e).
`notifyPartial` / `notifyFull` are the pinned handlers, `notifyPartialFixed` / `notifyFullFixed` the member with only
`wholeMessage` off (theorems about it are kept: the HEAD member is that member except at address [0]).

SPEC, one address at a time: `specEntityG` (one entry; = `specEntity` except that [0] is never removed and never loses
feature 0), `specFull` (full notification), `specAnnG` (one message), `applyTo` / `appearances` (known / unknown and
events), `specOps` (operations of one function).

Status: every clause is PROVED for `Cfg.clean` — all trees, well-formed messages, addresses, histories
(`c06_history_head`); the device-information entity is kept over ALL histories, well formed or not
(`c06_device_information_kept`); entries after a skipped [0] entry are applied (`c06_entries_after_devinfo_applied`).
For the pinned commit the tree, event and cascade clauses are REFUTED (kernel-checked witnesses) with partial theorems.
Rejected entries are outside the statement's quantifier (announcements a peer can make): what the code does with them
is modelled and compared with the code, `c06_rejected_entry_stops` shows by a witness that "entries in order" would NOT
hold for them (the suffix is dropped; in a reply the entities created before the rejected entry get no event).
Missing: a content-level partial theorem for multi-entry all-`added` notifications of the pinned handler; the device
part of addresses and `maxResponseDelay` are not in the model (the harness monitors the device part).
-/
namespace Spine.Props.C06
open Spine Spine.Disc

/-! ## the tree clause -/

/-- C06, tree clause, partial notification, repaired member, FULL STRENGTH: for every tree, every well-formed
    notification and every address, what the tree holds at that address afterwards — entity type, description and the
    features with their ids, types, roles, descriptions and operations — is what the specification obtains by applying
    the entries in order to what the tree held there before. -/
theorem c06_tree (m : Msg) (t : Tree) (a : List Nat) (hne : m.ents ≠ [])
    (hall : m.ents.any (·.chg = .none) = false) :
    findE (notifyPartialFixed m t).1 a = m.ents.foldl (specEntity m a) (findE t a) :=
  c06_tree_notification m t a hne hall

/-- the notification that goes wrong as written: [1] announced as added with a feature, [2] as removed -/
def mAR : Msg := { ents := [⟨[1], 1, .added, some 2⟩, ⟨[2], 1, .removed, none⟩], feats := [⟨[1], 1, 1, 0, some 1, [(1, 4)]⟩] }
/-- the same two entries in the other order -/
def mRA : Msg := { ents := [⟨[2], 1, .removed, none⟩, ⟨[1], 1, .added, some 2⟩], feats := [⟨[1], 1, 1, 0, some 1, [(1, 4)]⟩] }

/-- non-vacuity of `c06_tree`: in both orders the repaired member ends with [0] and [1] (with its feature), [2] gone -/
example : (notifyPartialFixed mAR t0).1 = [⟨[0], 0, none, [⟨[0], 0, 0, 2, none, []⟩]⟩, ⟨[1], 1, some 2, [⟨[1], 1, 1, 0, some 1, [(1, 4)]⟩]⟩] ∧
    addrs (notifyPartialFixed mRA t0).1 = [[0], [1]] := by decide

/-- REFUTED for the code as written, order [added, removed]: the announced entity [1] is not in the tree afterwards
    (`wholeMessage`; known finding `mixed-add-remove-notification`). -/
theorem c06_tree_refuted_added_first :
    findE (notifyPartial mAR t0).1 [1] = none ∧
    mAR.ents.foldl (specEntity mAR [1]) (findE t0 [1]) = some ⟨[1], 1, some 2, [⟨[1], 1, 1, 0, some 1, [(1, 4)]⟩]⟩ := by
  decide

/-- REFUTED for the code as written, order [removed, added]: the entity [2] announced as removed is in the tree
    afterwards, re-created without features. -/
theorem c06_tree_refuted_removed_first :
    findE (notifyPartial mRA t0).1 [2] = some ⟨[2], 1, none, []⟩ ∧
    mRA.ents.foldl (specEntity mRA [2]) (findE t0 [2]) = none := by
  decide

/-- hence the full-strength statement is false for the member as written -/
theorem c06_tree_refuted :
    ¬ ∀ (m : Msg) (t : Tree) (a : List Nat), m.ents ≠ [] → m.ents.any (·.chg = .none) = false →
      findE (notifyPartial m t).1 a = m.ents.foldl (specEntity m a) (findE t a) := by
  intro h
  have := h mAR t0 [1] (by decide) (by decide)
  rw [c06_tree_refuted_added_first.1, c06_tree_refuted_added_first.2] at this
  exact absurd this (by decide)

/-- the lifted witnesses of the design phase (both orders, address level) -/
theorem c06_mixed_add_remove_witness :
    ((notifyPartial { ents := [⟨[1], 1, .added, none⟩, ⟨[2], 1, .removed, none⟩], feats := [⟨[1], 1, 1, 0, none, []⟩] } t0).1.map (·.addr))
      = [[0]] := mixed_add_remove_witness
theorem c06_mixed_remove_add_witness :
    ((notifyPartial { ents := [⟨[2], 1, .removed, none⟩, ⟨[1], 1, .added, none⟩], feats := [⟨[1], 1, 1, 0, none, []⟩] } t0).1.map (·.addr))
      = [[0], [2], [1]] := mixed_remove_add_witness

/-- PARTIAL (code as written), content level: a notification with one entry — the shape every fixture of the repository
    has — is handled exactly as by the repaired member (tree, events and outcome), so `c06_tree` applies to it. -/
theorem c06_tree_partial_single (ei : EI) (feats : List F) (t : Tree) :
    notifyPartial ⟨[ei], feats⟩ t = notifyPartialFixed ⟨[ei], feats⟩ t :=
  single_entry_same ei feats t

/-- PARTIAL (code as written), address level: a notification whose entries share one state change ends with exactly
    the known addresses the specification demands. -/
theorem c06_tree_partial (m : Msg) (t : Tree) (a : List Nat) (hne : m.ents ≠ [])
    (h : (∀ ei ∈ m.ents, ei.chg = .added) ∨ (∀ ei ∈ m.ents, ei.chg = .removed)) :
    decide (a ∈ addrs (notifyPartial m t).1) = m.ents.foldl (applyTo a) (decide (a ∈ addrs t)) := by
  cases h with
  | inl h => exact written_all_added m t a hne h
  | inr h => exact written_all_removed m t a hne h

/-- non-vacuity: two entities added by one notification as written -/
example : addrs (notifyPartial ⟨[⟨[1], 1, .added, none⟩, ⟨[1, 1], 2, .added, none⟩], []⟩ t0).1 = [[0], [2], [1], [1, 1]] := by
  decide

/-- PARTIAL (all members, lifted): a notification whose entries are all `added` removes no entity. -/
theorem c06_all_added_keeps (m : Msg) (t : Tree) (e : E) (he : e ∈ t) : ∃ e' ∈ (addAll m t).1, e'.addr = e.addr :=
  all_added_keeps m t e he

/-- C06, partial notification, repaired member, address level (lifted): per address the entries are applied in order. -/
theorem c06_partial_notification (m : Msg) (t : Tree) (a : List Nat) (hne : m.ents ≠ [])
    (hall : m.ents.any (·.chg = .none) = false) :
    decide (a ∈ addrs (notifyPartialFixed m t).1) = m.ents.foldl (applyTo a) (decide (a ∈ addrs t)) :=
  Disc.c06_partial_notification m t a hne hall

/-- C06, "nothing else", repaired member (lifted, and at content level): an address no entry names is known afterwards
    iff it was before, and the entity there is untouched — same type, description, features. -/
theorem c06_partial_nothing_else (m : Msg) (t : Tree) (a : List Nat) (hne : m.ents ≠ [])
    (hall : m.ents.any (·.chg = .none) = false) (hun : ∀ ei ∈ m.ents, ei.addr ≠ a) :
    (a ∈ addrs (notifyPartialFixed m t).1 ↔ a ∈ addrs t) ∧ findE (notifyPartialFixed m t).1 a = findE t a :=
  ⟨Disc.c06_partial_nothing_else m t a hne hall hun, c06_tree_nothing_else m t a hne hall hun⟩

example : findE (notifyPartialFixed mAR t0).1 [0] = findE t0 [0] ∧ (∀ ei ∈ mAR.ents, ei.addr ≠ [0]) := by decide

/-- C06, discovery reply (both members — the reply handler has no flag): every entry is applied as `added`. -/
theorem c06_tree_reply (m : Msg) (t : Tree) (a : List Nat) :
    findE (reply m t).1 a = m.ents.foldl (fun cur ei => specEntity m a cur { ei with chg := .added }) (findE t a) :=
  Disc.c06_tree_reply m t a

example : (reply ⟨[⟨[0], 0, .none, none⟩, ⟨[1], 1, .none, some 3⟩], [⟨[0], 0, 9, 2, none, []⟩, ⟨[1], 2, 4, 1, none, [(3, 1)]⟩]⟩
    [⟨[0], 0, none, []⟩]) = ([⟨[0], 0, none, [⟨[0], 0, 9, 2, none, []⟩]⟩, ⟨[1], 1, some 3, [⟨[1], 2, 4, 1, none, [(3, 1)]⟩]⟩], [.add [1]]) := by
  decide

/-- C06, full notification, repaired member, convergence (lifted): whatever the tree held, afterwards it holds exactly
    the announced addresses. -/
theorem c06_full_converges (m : Msg) (t : Tree) (a : List Nat) :
    a ∈ addrs (notifyFullFixed m t).1 ↔ a ∈ m.ents.map (·.addr) :=
  Disc.c06_full_converges m t a

/-- C06, full notification, repaired member, content level: entities not listed are absent, listed-and-known entities
    are exactly as they were, listed-and-unknown entities exist with exactly the listed features. -/
theorem c06_full_tree (m : Msg) (t : Tree) (a : List Nat) :
    findE (notifyFullFixed m t).1 a = specFull m a (findE t a) :=
  Disc.c06_full_tree m t a

/-- non-vacuity: [1] known and not listed, [2] unknown and listed -/
example : addrs (notifyFullFixed ⟨[⟨[0], 1, .none, none⟩, ⟨[2], 3, .none, none⟩], []⟩ [⟨[0], 1, none, []⟩, ⟨[1], 2, none, []⟩]).1
    = [[0], [2]] := by decide

/-- REFUTED for the code as written: a full notification that lists a new entity and drops a known one loses the new
    entity as well (the diff is a mixed notification, added entries first). -/
theorem c06_full_refuted :
    addrs (notifyFull ⟨[⟨[0], 0, .none, none⟩, ⟨[1], 1, .none, none⟩], []⟩ t0).1 = [[0]] ∧
    ¬ ([1] ∈ addrs (notifyFull ⟨[⟨[0], 0, .none, none⟩, ⟨[1], 1, .none, none⟩], []⟩ t0).1 ↔
        [1] ∈ ([⟨[0], 0, .none, none⟩, ⟨[1], 1, .none, none⟩] : List EI).map (·.addr)) := by
  decide

/-- C06, announced operations (all members): the operations the tree reports for a function are those of the last
    announcement of that function that carries `possibleOperations`; a function never announced with them is absent. -/
theorem c06_operations (fn : Nat) (l : List (Nat × Option Nat)) : opsLookup fn (setOps l) = specOps fn l :=
  Disc.c06_operations fn l

example : opsLookup 5 (setOps [(5, some 3), (6, none), (5, some 4), (5, none)]) = some 4 ∧
    opsLookup 6 (setOps [(5, some 3), (6, none), (5, some 4), (5, none)]) = none := by decide

/-! ## histories -/

/-- C06 over histories, repaired member, FULL STRENGTH: after any sequence of discovery replies, partial and full
    notifications (partial ones well formed) the entity at any address — with type, description and features — is
    the one obtained by applying the announcements in order to what the tree held there before. By induction over the
    list of messages. -/
theorem c06_history (h : List Ann) (t : Tree) (a : List Nat) (hw : ∀ x ∈ h, x.WF) :
    findE (treeRun Cfg.clean t h) a = h.foldl (specAnn a) (findE t a) :=
  Disc.c06_history h t a hw

/-- non-vacuity: reply, mixed partial notification, full notification — [1] added then dropped by the full one,
    [2] removed, [1,1] introduced by the full one -/
def exHist : List Ann :=
  [⟨.reply, ⟨[⟨[0], 0, .none, none⟩, ⟨[2], 1, .none, none⟩], [⟨[0], 0, 9, 2, none, []⟩]⟩⟩, ⟨.part, mAR⟩,
   ⟨.full, ⟨[⟨[0], 0, .none, none⟩, ⟨[1, 1], 2, .none, some 1⟩], [⟨[1, 1], 1, 4, 1, none, [(3, 1)]⟩]⟩⟩]
example : (∀ x ∈ exHist, x.WF) ∧ addrs (treeRun Cfg.clean [⟨[0], 0, none, []⟩] exHist) = [[0], [1, 1]] := by
  refine ⟨?_, by decide⟩
  intro x hx
  simp only [exHist, List.mem_cons, List.not_mem_nil, or_false] at hx
  rcases hx with rfl | rfl | rfl
  · intro h; exact absurd h (by decide)
  · intro _; exact ⟨by decide, by decide⟩
  · intro h; exact absurd h (by decide)

/-- PARTIAL (code as written) over histories, address level: as long as every message is a discovery reply or a partial
    notification whose entries share one state change (full notifications excluded: their diff is in general mixed),
    the set of known addresses after the history is the one the announcements demand. -/
theorem c06_history_partial (h : List Ann) (t : Tree) (a : List Nat) (hu : ∀ x ∈ h, x.Uniform) :
    decide (a ∈ addrs (treeRun {} t h)) = h.foldl (specKnown a) (decide (a ∈ addrs t)) :=
  c06_history_written h t a hu

/-- non-vacuity: reply, two entities added in one notification, both removed in one notification -/
def exHistW : List Ann :=
  [⟨.reply, ⟨[⟨[0], 0, .none, none⟩, ⟨[2], 1, .none, none⟩], []⟩⟩,
   ⟨.part, ⟨[⟨[1], 1, .added, none⟩, ⟨[1, 1], 2, .added, none⟩], []⟩⟩,
   ⟨.part, ⟨[⟨[1], 1, .removed, none⟩, ⟨[2], 1, .removed, none⟩], []⟩⟩]
example : addrs (treeRun {} [⟨[0], 0, none, []⟩] exHistW) = [[0], [1, 1]] := by decide
example : ∀ x ∈ exHistW, x.Uniform := by
  intro x hx
  simp only [exHistW, List.mem_cons, List.not_mem_nil, or_false] at hx
  rcases hx with rfl | rfl | rfl
  · exact ⟨by decide, fun h => absurd h (by decide)⟩
  · exact ⟨by decide, fun _ => ⟨by decide, Or.inl (by decide)⟩⟩
  · exact ⟨by decide, fun _ => ⟨by decide, Or.inr (by decide)⟩⟩

/-- All members, all histories (no well-formedness needed): no entity address is ever listed twice — the entity list
    is a finite map, so the per-address statements above describe the whole tree. -/
theorem c06_history_nodup (c : Cfg) (h : List Ann) (t : Tree) (hn : (addrs t).Nodup) : (addrs (treeRun c t h)).Nodup :=
  Disc.c06_history_nodup c h t hn

example : (addrs ([⟨[0], 0, none, []⟩] : Tree)).Nodup ∧ (addrs (treeRun {} [⟨[0], 0, none, []⟩] exHist)).Nodup := by
  decide

/-! ## the event clause -/

/-- C06, events of a full notification, repaired member (lifted): exactly one entity-added event for every announced
    address that was unknown, exactly one entity-removed event for every known address no longer announced, no other. -/
theorem c06_full_events (m : Msg) (t : Tree) (a : List Nat) :
    (notifyFullFixed m t).2.1.count (.add a) = (if a ∈ m.ents.map (·.addr) ∧ a ∉ addrs t then 1 else 0) ∧
    (notifyFullFixed m t).2.1.count (.rem a) = (if a ∈ addrs t ∧ a ∉ m.ents.map (·.addr) then 1 else 0) :=
  Disc.c06_full_events m t a

example : (notifyFullFixed ⟨[⟨[0], 1, .none, none⟩, ⟨[2], 3, .none, none⟩], []⟩ [⟨[0], 1, none, []⟩, ⟨[1], 2, none, []⟩]).2.1
    = [.add [2], .rem [1]] := by decide

/-- C06, events of a partial notification, repaired member: per address, one entity-added event each time an entry makes
    it known and one entity-removed event each time an entry makes it unknown, no other. -/
theorem c06_partial_events (m : Msg) (t : Tree) (a : List Nat) (hne : m.ents ≠ [])
    (hall : m.ents.any (·.chg = .none) = false) :
    (notifyPartialFixed m t).2.1.count (.add a) = (appearances a (decide (a ∈ addrs t)) m.ents).1 ∧
    (notifyPartialFixed m t).2.1.count (.rem a) = (appearances a (decide (a ∈ addrs t)) m.ents).2 :=
  Disc.c06_partial_events m t a hne hall

/-- … which, for an address named by at most one entry, is the symmetric difference of the entity sets: one added event
    iff it was unknown and is known, one removed event iff it was known and is unknown. -/
theorem c06_partial_events_once (m : Msg) (t : Tree) (a : List Nat) (hne : m.ents ≠ [])
    (hall : m.ents.any (·.chg = .none) = false) (honce : (m.ents.filter (·.addr = a)).length ≤ 1) :
    (notifyPartialFixed m t).2.1.count (.add a)
      = (if (!decide (a ∈ addrs t) && decide (a ∈ addrs (notifyPartialFixed m t).1)) then 1 else 0) ∧
    (notifyPartialFixed m t).2.1.count (.rem a)
      = (if (decide (a ∈ addrs t) && !decide (a ∈ addrs (notifyPartialFixed m t).1)) then 1 else 0) := by
  have h := Disc.c06_partial_events m t a hne hall
  rw [appearances_once a m.ents _ honce] at h
  rw [Disc.c06_partial_notification m t a hne hall]
  exact h

example : (notifyPartialFixed mAR t0).2.1 = [.add [1], .rem [2]] ∧ (notifyPartialFixed mRA t0).2.1 = [.rem [2], .add [1]] := by
  decide

/-- REFUTED for the code as written: for the mixed notification an entity-removed event is published for [1], which
    was not known before and is not known after, besides the events for what really happened. -/
theorem c06_events_refuted :
    (notifyPartial mAR t0).2.1 = [.add [1], .rem [1], .rem [2]] ∧
    (appearances [1] (decide ([1] ∈ addrs t0)) mAR.ents) = (1, 0) := by
  decide

/-! ## the cascade clause -/

/-- C06, cascade, repaired member, FULL STRENGTH: after any discovery message of peer `p`, in any world, the two
    registries and the client-side bookkeeping are exactly what they were minus the entries that refer to
    (`p`, an entity the message removed) — nothing else disappears, nothing is left behind, nothing appears. -/
theorem c06_cascade (w : World) (p : Nat) (k : Kind) (m : Msg) :
    let r := w.step Cfg.clean p k m
    r.1.subs = w.subs.filter (fun e => !(e.peer = p && (removed r.2).contains e.cEnt)) ∧
    r.1.binds = w.binds.filter (fun e => !(e.peer = p && (removed r.2).contains e.cEnt)) ∧
    r.1.csubs = w.csubs.filter (fun e => !(e.peer = p && (removed r.2).contains e.rEnt)) ∧
    r.1.cbinds = w.cbinds.filter (fun e => !(e.peer = p && (removed r.2).contains e.rEnt)) := by
  refine ⟨step_subs _ w p k m, ?_, step_csubs _ w p k m, step_cbinds _ w p k m⟩
  have := step_binds Cfg.clean w p k m
  simpa [Cfg.clean] using this

/-- the removed addresses are those for which the step published an entity-removed event -/
theorem c06_cascade_removed_iff (a : List Nat) (evs : List Evt) : a ∈ removed evs ↔ Evt.rem a ∈ evs :=
  mem_removed a evs

/-- two peers with identical numbering: each has entity [1] with feature 1 subscribed and bound to local servers, a
    local client feature subscribed and bound to feature 2 of both -/
def wEx : World :=
  { trees := fun _ => [⟨[0], 0, none, []⟩, ⟨[1], 1, none, [⟨[1], 1, 6, 0, none, []⟩, ⟨[1], 2, 1, 1, none, []⟩]⟩],
    subs := [⟨1, [1], 1, [1], 1⟩, ⟨2, [1], 1, [1], 1⟩], binds := [⟨1, [1], 1, [1], 1⟩, ⟨2, [1], 1, [1], 2⟩],
    csubs := [⟨[1], 5, 1, [1], 2⟩, ⟨[1], 5, 2, [1], 2⟩], cbinds := [⟨[1], 5, 1, [1], 2⟩, ⟨[1], 5, 2, [1], 2⟩] }
def mRem1 : Msg := ⟨[⟨[1], 1, .removed, none⟩], []⟩

/-- non-vacuity: peer 1 announces [1] as removed; exactly its four entries go, peer 2 keeps everything -/
example : let r := wEx.step Cfg.clean 1 .part mRem1
    r.2 = [.rem [1]] ∧ r.1.subs = [⟨2, [1], 1, [1], 1⟩] ∧ r.1.binds = [⟨2, [1], 1, [1], 2⟩] ∧
    r.1.csubs = [⟨[1], 5, 2, [1], 2⟩] ∧ r.1.cbinds = [⟨[1], 5, 2, [1], 2⟩] := by decide

/-- REFUTED for the code as written (`bindEntityOnly`; key `cascade-binding-other-peer`): the removal of entity [1] of
    peer 1 deletes the binding of peer 2, whose client is on *its* entity [1]. -/
theorem c06_cascade_refuted :
    (wEx.step {} 1 .part mRem1).1.binds = [] ∧
    wEx.binds.filter (fun e => !(e.peer = 1 && (removed (wEx.step {} 1 .part mRem1).2).contains e.cEnt))
      = [⟨2, [1], 1, [1], 2⟩] := by decide

/-- PARTIAL (all members): subscriptions and both kinds of client-side bookkeeping are exact whatever the flags;
    bindings are exact as long as no *other* peer holds a binding from an entity numbered like a removed one. -/
theorem c06_cascade_partial (c : Cfg) (w : World) (p : Nat) (k : Kind) (m : Msg) :
    let r := w.step c p k m
    r.1.subs = w.subs.filter (fun e => !(e.peer = p && (removed r.2).contains e.cEnt)) ∧
    r.1.csubs = w.csubs.filter (fun e => !(e.peer = p && (removed r.2).contains e.rEnt)) ∧
    r.1.cbinds = w.cbinds.filter (fun e => !(e.peer = p && (removed r.2).contains e.rEnt)) ∧
    ((∀ e ∈ w.binds, e.peer ≠ p → e.cEnt ∉ removed r.2) →
      r.1.binds = w.binds.filter (fun e => !(e.peer = p && (removed r.2).contains e.cEnt))) := by
  refine ⟨step_subs c w p k m, step_csubs c w p k m, step_cbinds c w p k m, ?_⟩
  intro h
  rw [step_binds]
  apply List.filter_congr
  intro e he
  by_cases hp : e.peer = p
  · simp [hp]
  · have := h e he hp
    simp [hp, this]

/-- C06, "and nothing else", all members: a message of peer `p` leaves the tree of every other peer untouched. -/
theorem c06_other_peers_trees (c : Cfg) (w : World) (p q : Nat) (hq : q ≠ p) (k : Kind) (m : Msg) :
    (w.step c p k m).1.trees q = w.trees q :=
  step_other_trees c w p q hq k m

example : (wEx.step {} 1 .part mRem1).1.trees 2 = wEx.trees 2 ∧ (wEx.step {} 1 .part mRem1).1.trees 1 ≠ wEx.trees 1 := by
  decide

/-! ## the repaired tree (HEAD): device-information guards, rejected entries -/

/-- `c06_device_information_kept`, ALL histories, well formed or not: whatever sequence of discovery replies, partial
    and full notifications a peer sends — listing [0] as removed at any position, omitting it from a full notification
    alone or with other entities, re-announcing it without feature 0, with entries that are rejected — entity [0]
    with feature 0 (node management) stays in the tree, so the peer's next message finds its source feature. -/
theorem c06_device_information_kept (h : List AnnG) (t : Tree) (ht : DevInfoOK t) : DevInfoOK (treeRunG Cfg.clean t h) :=
  devInfo_history h t ht

/-- a peer that lists [0] as removed between [1] and [2], re-announces [0] with feature 1 only, omits it from a full
    notification and sends a rejected entry: [0] is as it was -/
def exHistG : List AnnG :=
  [⟨.part, ⟨[⟨[1], none, .removed, none⟩, ⟨[0], none, .removed, none⟩, ⟨[2], none, .removed, none⟩], []⟩⟩,
   ⟨.part, ⟨[⟨[0], some 0, .added, some 1⟩, ⟨[1, 1], some 2, .added, none⟩], [⟨[0], 1, 1, 1, none, []⟩]⟩⟩,
   ⟨.full, ⟨[⟨[1, 2], some 1, .none, none⟩], []⟩⟩,
   ⟨.part, ⟨[⟨[], some 1, .added, none⟩, ⟨[1], some 1, .added, none⟩], []⟩⟩]
def tG : Tree := [⟨[0], 0, none, [⟨[0], 0, 9, 2, none, []⟩]⟩, ⟨[1], 1, none, []⟩, ⟨[2], 1, none, []⟩]
example : DevInfoOK tG ∧ treeRunG Cfg.clean tG exHistG = [⟨[0], 0, none, [⟨[0], 0, 9, 2, none, []⟩]⟩, ⟨[1, 2], 1, none, []⟩] := by
  decide
/-- the pinned commit loses it (C05's wedge) -/
example : ¬ DevInfoOK (treeStepG { wholeMessage := false } .part ⟨[⟨[0], none, .removed, none⟩], []⟩ tG).1 := by decide

/-- `c06_entries_after_devinfo_applied`: a `removed` entry about [0] is skipped and nothing else — the loop handles the
    entries before it and the entries AFTER it exactly as if the entry were not in the list (the guard is `continue`,
    not `return`), for every list, every position and every state. -/
theorem c06_entries_after_devinfo_applied (feats : List F) (e0 : EW) (h0 : e0.addr = [0]) (hc : e0.chg = .removed)
    (pre post : List EW) (acc : Tree × List Evt) :
    runG (entryG Cfg.clean feats) (pre ++ e0 :: post) acc = runG (entryG Cfg.clean feats) (pre ++ post) acc :=
  runG_skips_devInfo_removal feats e0 h0 hc pre post acc

example : (notifyG Cfg.clean ⟨[⟨[1], none, .removed, none⟩, ⟨[0], none, .removed, none⟩, ⟨[2], none, .removed, none⟩], []⟩ tG)
    = ([⟨[0], 0, none, [⟨[0], 0, 9, 2, none, []⟩]⟩], [.rem [1], .rem [2]], true) := by decide

/-- C06, tree clause, partial notification, REPAIRED TREE, FULL STRENGTH: for every tree, every well-formed
    notification (entries may be about [0]) and every address, the entity afterwards is what `specEntityG` obtains by
    applying the entries in order. -/
theorem c06_tree_head (m : MsgG) (t : Tree) (a : List Nat) (hw : m.WFpart) :
    findE (notifyG Cfg.clean m t).1 a = (m.ents.map EW.toEI).foldl (specEntityG m.feats a) (findE t a) :=
  guard_tree_notification m t a hw

/-- … discovery reply of the repaired tree -/
theorem c06_tree_reply_head (m : MsgG) (t : Tree) (a : List Nat) (hw : m.WFreply) :
    findE (replyG Cfg.clean m t).1 a
      = (m.ents.map EW.toEI).foldl (fun cur ei => specEntityG m.feats a cur { ei with chg := .added }) (findE t a) :=
  guard_tree_reply m t a hw

/-- … full notification of the repaired tree: at every address but [0] `specFull`; a known [0] stays exactly as it was
    whether the notification lists it or omits it -/
theorem c06_full_tree_head (m : MsgG) (t : Tree) (hw : m.WFfull) (hn : NoEmpty t) :
    (∀ a, a ≠ [0] → findE (notifyFullG Cfg.clean m t).1 a = specFull m.toMsg a (findE t a)) ∧
    ([0] ∈ addrs t → findE (notifyFullG Cfg.clean m t).1 [0] = findE t [0]) :=
  ⟨fun a ha => guard_full_tree m t a ha hw hn, fun h0 => guard_full_devInfo m t h0 hw hn⟩

/-- non-vacuity: a full notification that omits [0] and [1] and lists the unknown [1,1] -/
example : (notifyFullG Cfg.clean ⟨[⟨[2], some 1, .none, none⟩, ⟨[1, 1], some 2, .none, some 3⟩], [⟨[1, 1], 1, 1, 1, none, [(1, 4)]⟩]⟩ tG)
    = ([⟨[0], 0, none, [⟨[0], 0, 9, 2, none, []⟩]⟩, ⟨[2], 1, none, []⟩, ⟨[1, 1], 2, some 3, [⟨[1, 1], 1, 1, 1, none, [(1, 4)]⟩]⟩],
       [.add [1, 1], .rem [1]], true) := by decide

/-- C06 over histories, REPAIRED TREE, FULL STRENGTH: after any sequence of well-formed replies, partial and full
    notifications — [0] listed as removed anywhere, omitted, re-announced with or without feature 0 included — the
    entity at every address is the one obtained by applying the announcements in order. By induction over the list of
    messages; `NoEmpty` (no entity with the empty address: none can be created) and `DevInfoOK` are invariants. -/
theorem c06_history_head (h : List AnnG) (t : Tree) (a : List Nat) (hn : NoEmpty t) (hd : DevInfoOK t)
    (hw : ∀ x ∈ h, x.WF) : findE (treeRunG Cfg.clean t h) a = h.foldl (specAnnG a) (findE t a) :=
  guard_history h t a hn hd hw

example : NoEmpty tG ∧ DevInfoOK tG := by decide

/-- the well-formed part of `exHistG` -/
example : ∀ x ∈ exHistG.take 3, x.WF := by
  intro x hx
  simp only [exHistG, List.take, List.mem_cons, List.not_mem_nil, or_false] at hx
  rcases hx with rfl | rfl | rfl
  · refine ⟨by decide, ?_⟩
    intro e he
    simp only [List.mem_cons, List.not_mem_nil, or_false] at he
    rcases he with rfl | rfl | rfl <;> exact ⟨⟨by decide, fun h => absurd rfl h⟩, by decide⟩
  · refine ⟨by decide, ?_⟩
    intro e he
    simp only [List.mem_cons, List.not_mem_nil, or_false] at he
    rcases he with rfl | rfl <;> exact ⟨⟨by decide, fun _ => rfl⟩, by decide⟩
  · intro e he
    simp only [List.mem_cons, List.not_mem_nil, or_false] at he
    rcases he with rfl
    exact ⟨by decide, rfl⟩

/-- C06, events, REPAIRED TREE: for a well-formed partial notification, at every address but [0] one entity-added
    event each time an entry makes the address known and one entity-removed event each time an entry makes it unknown;
    for [0] — present with feature 0 — no entity event at all. -/
theorem c06_events_head (m : MsgG) (t : Tree) (hw : m.WFpart) :
    (∀ a, a ≠ [0] →
      (notifyG Cfg.clean m t).2.1.count (.add a) = (appearances a (decide (a ∈ addrs t)) (m.ents.map EW.toEI)).1 ∧
      (notifyG Cfg.clean m t).2.1.count (.rem a) = (appearances a (decide (a ∈ addrs t)) (m.ents.map EW.toEI)).2) ∧
    (DevInfoOK t → (notifyG Cfg.clean m t).2.1.count (.add [0]) = 0 ∧ (notifyG Cfg.clean m t).2.1.count (.rem [0]) = 0) := by
  have he : m.ents.isEmpty = false := by cases h : m.ents with | nil => exact absurd h hw.1 | cons _ _ => rfl
  have hrun : (notifyG Cfg.clean m t).2.1 = ((m.ents.map EW.toEI).foldl (stepGd Cfg.clean m.feats) (t, [])).2 := by
    unfold notifyG
    rw [he]
    simp only [Bool.false_eq_true, if_false]
    rw [runG_entry_wf Cfg.clean m.feats m.ents (t, []) hw.2]
  rw [hrun]
  refine ⟨fun a ha => ?_, fun hd => ?_⟩
  · have := guard_events_refine m.feats a ha (m.ents.map EW.toEI) (t, [])
    simpa using this
  · have := guard_events_devInfo m.feats (m.ents.map EW.toEI) (t, []) hd
    simpa using this

/-- C06, cascade, REPAIRED TREE, FULL STRENGTH: after any discovery message of peer `p` (of any shape), in any world,
    registries and client-side bookkeeping are exactly the previous ones minus the entries that refer to (`p`, an
    entity the message removed); the trees of the other peers are untouched. -/
theorem c06_cascade_head (w : World) (p : Nat) (k : Kind) (m : MsgG) :
    let r := w.stepG Cfg.clean p k m
    r.1.subs = w.subs.filter (fun e => !(e.peer = p && (removed r.2).contains e.cEnt)) ∧
    r.1.binds = w.binds.filter (fun e => !(e.peer = p && (removed r.2).contains e.cEnt)) ∧
    r.1.csubs = w.csubs.filter (fun e => !(e.peer = p && (removed r.2).contains e.rEnt)) ∧
    r.1.cbinds = w.cbinds.filter (fun e => !(e.peer = p && (removed r.2).contains e.rEnt)) ∧
    (∀ q, q ≠ p → r.1.trees q = w.trees q) := by
  refine ⟨stepG_subs _ w p k m, ?_, stepG_csubs _ w p k m, stepG_cbinds _ w p k m,
    fun q hq => stepG_other_trees _ w p q hq k m⟩
  have := stepG_binds Cfg.clean w p k m
  simpa [Cfg.clean] using this

/-- non-vacuity: peer 1 lists [0] and [1] as removed; its four entries on [1] go, peer 2 keeps everything, [0] stays -/
example : let r := wEx.stepG Cfg.clean 1 .part ⟨[⟨[0], none, .removed, none⟩, ⟨[1], none, .removed, none⟩], []⟩
    r.2 = [.rem [1]] ∧ r.1.subs = [⟨2, [1], 1, [1], 1⟩] ∧ r.1.binds = [⟨2, [1], 1, [1], 2⟩] ∧
    r.1.csubs = [⟨[1], 5, 2, [1], 2⟩] ∧ r.1.cbinds = [⟨[1], 5, 2, [1], 2⟩] ∧ addrs (r.1.trees 1) = [[0]] := by decide

/-- OUTSIDE the statement (an entry no peer can meaningfully announce), recorded because the behaviour is modelled: an
    entry the handler rejects ends the processing of the message. [2] before it is added with its event, [1,1] after it
    is NOT — "the entries applied in order" does not hold for such a message; and in a reply the entity created before
    the rejected entry is in the tree without any entity-added event. -/
theorem c06_rejected_entry_stops :
    notifyG Cfg.clean ⟨[⟨[2], some 1, .added, none⟩, ⟨[], some 1, .added, none⟩, ⟨[1, 1], some 1, .added, none⟩], []⟩
        [⟨[0], 0, none, []⟩]
      = ([⟨[0], 0, none, []⟩, ⟨[2], 1, none, []⟩], [.add [2]], false) ∧
    replyG Cfg.clean ⟨[⟨[2], some 1, .none, none⟩, ⟨[1], none, .none, none⟩, ⟨[1, 1], some 1, .none, none⟩], []⟩
        [⟨[0], 0, none, []⟩]
      = ([⟨[0], 0, none, []⟩, ⟨[2], 1, none, []⟩], []) := by decide

end Spine.Props.C06
