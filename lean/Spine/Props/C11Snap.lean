import Spine.UseCaseSnapThm
import Spine.UseCaseSnapRefine
import Spine.SnapFacts
/-!
# C11, clause 1 for the use-case helpers and for snapshots read concurrently — theorems about hand-written models

(`Spine.Props.C11` holds the list stores; `Spine.Props.C11Gen` the facts regenerated from the source.)

Model `Spine.UCS`: NodeManagementUseCaseData on a heap with both slice levels shared between the store and every value
handed out; the helpers as programs of heap writes in the order of the code. Model `Spine.SnapConc`: `DataCopy`
against in-place updates, micro-step interleavings.
-/
namespace Spine.Props.C11Snap
open Spine.UC Spine.UCS

/-- CLAUSE 1 (use-case data; code as it is = `Cfg.clean`), FULL STRENGTH: along ANY history of helper calls
    (`AddUseCaseSupport`, `SetUseCaseAvailability`, `RemoveUseCaseSupport`, `RemoveAllUseCaseSupports` through
    EntityLocal; the helpers of package model run by the application on a fresh copy of its own (`scratch`) or on a
    value it was handed earlier (`own`: that holder's value becomes the helper's result, the value AS HANDED OUT is
    what the theorem speaks about); hand-outs), every value
    handed out at ANY point — and the store's value at that point — reads the same after ANY later history. -/
theorem c11_usecase_snapshots_stable (pre post : List Ev) :
    let s1 := runEvs .clean {} pre
    ∀ v ∈ s1.store :: s1.handles, (runEvs .clean s1 post).h.view v = s1.h.view v := by
  intro s1 v hv
  have hg : Good s1 := runEvs_good pre {} good_init
  refine runEvs_stable post s1 hg v ?_
  simp only [List.mem_cons] at hv
  rcases hv with rfl | hv
  · exact hg.2.1
  · exact hg.2.2 v hv

/-- non-vacuity: three entities, a value handed out, the FIRST entity removes its use cases, a support of the second
    is switched off, the third gets a new use case: the value still shows all three as they were, the store differs -/
example :
    let pre : List Ev := [.op (.add [1] 1 ⟨1, 0, true, [1, 2], 1⟩), .op (.add [2] 1 ⟨1, 0, true, [], 1⟩),
                          .op (.add [1, 1] 1 ⟨2, 0, true, [3], 1⟩), .copy]
    let post : List Ev := [.op (.removeAll [1]), .op (.setAvail [2] 1 1 false), .op (.add [1, 1] 1 ⟨3, 0, true, [], 1⟩)]
    let s1 := runEvs .clean {} pre
    let s2 := runEvs .clean s1 post
    s1.handles.map s2.h.view = s1.handles.map s1.h.view ∧ (s1.handles.map s1.h.view).map List.length = [3] ∧
      (s2.h.view s2.store).map (fun i => (i.ent, i.sup.map (·.name), i.sup.map (·.avail))) =
        [([2], [1], [false]), ([1, 1], [2, 3], [true, true])] := by decide

/-- non-vacuity with the application modifying a value it holds: two holders of the same hand-out state; the first
    adds a use case to ITS value (append from the same base the store appends from) — the second holder's value and
    the store are unaffected -/
example :
    let pre : List Ev := [.op (.add [1] 1 ⟨1, 0, true, [], 1⟩), .op (.add [1] 1 ⟨2, 0, true, [], 1⟩), .op (.add [1] 1 ⟨3, 0, true, [], 1⟩),
                          .copy, .copy, .op (.add [1] 1 ⟨0, 0, true, [], 1⟩)]
    let s1 := runEvs .clean {} pre
    let s2 := step .clean s1 (.own 0 (.add [1] 1 ⟨0, 2, false, [], 1⟩))
    (s2.handles.map s2.h.view).map (·.map (·.sup.map (·.version))) = [[[0, 0, 0, 2]], [[0, 0, 0]]] ∧
      s2.h.view s2.store = s1.h.view s1.store ∧ (s1.h.view s1.store).map (·.sup.map (·.version)) = [[0, 0, 0, 0]] := by decide

/-- THE BRIDGE between the regenerated fact "the helpers write only through slices they allocated"
    (`Props.C11Gen.c11_helpers_write_only_own_slices`) and the snapshot clause: ANY program of heap writes — not only
    the five modelled ones — all of whose element assignments go to arrays it allocated itself leaves every value
    valid before it as it was -/
theorem c11_owned_writes_keep_snapshots (h : H) (ws : List W)
    (ho : ∀ w ∈ ws, w.owned h.outer.length h.inner.length = true)
    (v : Hdr) (hv : hdrOk h v) (hc : cellsBound h h.inner.length) : (h.run ws).view v = h.view v :=
  run_stable h ws ho v hv hc

/-- … and the modelled programs of the code as it is are of that kind, on every well-formed heap and every input -/
theorem c11_usecase_programs_write_owned (h : H) (v : Hdr) (o : Op) (hc : cellsBound h h.inner.length) (hv : hdrOk h v) :
    ∀ w ∈ (prog .clean h v o).1, w.owned h.outer.length h.inner.length = true :=
  (prog_ok h v o hc hv).owned

/-- non-vacuity: the programs do assign elements (clone, then write into the clone) -/
example :
    let s := runEvs .clean {} [.op (.add [1] 1 ⟨1, 0, true, [], 1⟩), .op (.add [2] 1 ⟨1, 0, true, [], 1⟩)]
    (prog .clean s.h s.store (.setAvail [2] 1 1 false)).1.length = 4 ∧
      (prog .clean s.h s.store (.add [1] 1 ⟨1, 2, false, [], 1⟩)).1.length = 4 := by decide

/-- a helper run by the application on a DataCopy of its own never changes what the store reads -/
theorem c11_scratch_helper_keeps_store (pre : List Ev) (o : Op) :
    let s1 := runEvs .clean {} pre
    (step .clean s1 (.scratch o)).h.view (step .clean s1 (.scratch o)).store = s1.h.view s1.store := by
  intro s1
  have hg : Good s1 := runEvs_good pre {} good_init
  exact (step_stable s1 (.scratch o) hg s1.store hg.2.1).1

/-- CROSS-MODEL AGREEMENT with C20's value-level registry `Spine.UC` (every well-formed heap, every input): what the
    store reads after a helper program of the code as it is equals the registry operation applied to what it read
    before — the heap model and the registry model describe the same helpers from two sides -/
theorem c11_usecase_program_is_the_registry_operation (h : H) (v : Hdr) (o : Op) (hc : cellsBound h h.inner.length) :
    (h.run (prog .clean h v o).1).view (prog .clean h v o).2 = Spine.UC.apply (h.view v) o :=
  prog_refines h v o hc

/-- … and along ANY history from the empty store the store reads the fold of the registry operations of the
    EntityLocal helper calls; hand-outs and whatever the application does with its own values play no role -/
theorem c11_usecase_store_is_the_registry (evs : List Ev) :
    (runEvs .clean {} evs).h.view (runEvs .clean {} evs).store = (storeOps evs).foldl Spine.UC.apply [] :=
  runEvs_refines evs {} good_init

/-- non-vacuity: a history with hand-outs, a scratch helper and the application's own change in between -/
example :
    let evs : List Ev := [.op (.add [1] 1 ⟨1, 0, true, [], 1⟩), .copy, .scratch (.removeAll [1]), .op (.add [2] 1 ⟨2, 0, true, [], 1⟩),
                          .own 0 (.add [3] 1 ⟨1, 0, true, [], 1⟩), .op (.setAvail [1] 1 1 false), .op (.remove [2] 1 2)]
    storeOps evs = [.add [1] 1 ⟨1, 0, true, [], 1⟩, .add [2] 1 ⟨2, 0, true, [], 1⟩, .setAvail [1] 1 1 false, .remove [2] 1 2] ∧
      ((runEvs .clean {} evs).h.view (runEvs .clean {} evs).store).map (fun i => (i.ent, i.sup.map (·.avail))) = [([1], [false])] := by
  decide

def threeEntities : List Ev :=
  [.op (.add [1] 1 ⟨1, 0, true, [1, 2], 1⟩), .op (.add [2] 1 ⟨1, 0, true, [], 1⟩), .op (.add [1, 1] 1 ⟨2, 0, true, [3], 1⟩), .copy]

/-- REFUTED for the member that filters in place (`list[:0]`, seeded class C11-r4-1): the value handed out before
    shows the following entity twice and the removed one not at all, while the store is correct -/
theorem c11_usecase_snapshots_refuted_removeAllInPlace :
    let c : Cfg := { removeAllInPlace := true }
    let s1 := runEvs c {} threeEntities
    let s2 := step c s1 (.op (.removeAll [1]))
    (s1.handles.map s1.h.view).map (·.map (·.ent)) = [[[1], [2], [1, 1]]] ∧
      (s1.handles.map s2.h.view).map (·.map (·.ent)) = [[[2], [1, 1], [1, 1]]] ∧
      (s2.h.view s2.store).map (·.ent) = [[2], [1, 1]] := by decide

/-- … and nothing is visible when the LAST element is the one removed (why value-after-update tests pass) -/
theorem c11_removeAllInPlace_invisible_for_last :
    let c : Cfg := { removeAllInPlace := true }
    let s1 := runEvs c {} threeEntities
    let s2 := step c s1 (.op (.removeAll [1, 1]))
    s1.handles.map s2.h.view = s1.handles.map s1.h.view := by decide

/-- REFUTED for the members before /repo 478c80b (fixed findings usecase-helper-inplace:*) -/
theorem c11_usecase_snapshots_refuted_inplace_helpers :
    (let c : Cfg := { availInPlace := true }
     let s1 := runEvs c {} threeEntities
     let s2 := step c s1 (.op (.setAvail [2] 1 1 false))
     s1.handles.map s2.h.view ≠ s1.handles.map s1.h.view) ∧
    (let c : Cfg := { addInPlace := true }
     let s1 := runEvs c {} threeEntities
     let s2 := step c s1 (.op (.add [1] 1 ⟨1, 5, false, [], 1⟩))
     s1.handles.map s2.h.view ≠ s1.handles.map s1.h.view) := by decide

/-- the store itself is computed alike by every member on these witnesses (the defect is invisible in the store) -/
theorem c11_members_agree_on_store :
    let c : Cfg := { removeAllInPlace := true }
    (step c (runEvs c {} threeEntities) (.op (.removeAll [1]))).h.view (step c (runEvs c {} threeEntities) (.op (.removeAll [1]))).store =
      (step .clean (runEvs .clean {} threeEntities) (.op (.removeAll [1]))).h.view (step .clean (runEvs .clean {} threeEntities) (.op (.removeAll [1]))).store := by
  decide

/-! ### the snapshot under concurrency (model `Spine.SnapConc`) -/

open Spine.SnapConc in
/-- CLAUSE 1, "including updates applied concurrently with the snapshot being read": with the copy inside the critical
    section, on EVERY schedule of the reader against any number of in-place updaters, every word the reader has copied
    is the word of the store as it was when the reader took the mutex, and that store is one of the recorded states -/
theorem c11_snapshot_is_one_state (mem : List Nat) (evs : List Spine.SnapConc.Ev) (s : Spine.SnapConc.St)
    (hr : run ⟨true⟩ (init mem) evs = some s) :
    (∀ p ∈ s.buf, (s.snap[p.1]?).getD 0 = p.2) ∧ (s.snap = [] ∨ s.snap ∈ s.quies) :=
  snapshot_is_one_state mem evs s hr

open Spine.SnapConc in
/-- non-vacuity: a complete copy between two updates -/
example : (run ⟨true⟩ (init [0, 0]) [.wAcq 0, .wWrite 0 0 7, .wWrite 0 1 7, .wRel 0, .rAcq, .rCopy 0, .rCopy 1, .rRel,
    .wAcq 1, .wWrite 1 0 9]).map (fun s => (s.copied 0, s.copied 1, s.mem, s.snap)) = some (some 7, some 7, [9, 7], [7, 7]) := by
  decide

open Spine.SnapConc in
/-- REFUTED for the member that fetches the pointer under the mutex and copies after the unlock (seeded class
    C11-r4-2): the copy holds (7, 0), neither the state before nor the state after the update; the same schedule is
    impossible in the locked member -/
theorem c11_snapshot_refuted_copy_after_unlock :
    (run ⟨false⟩ (init [0, 0]) tornSchedule).map (fun s => (s.copied 0, s.copied 1, s.mem)) = some (some 7, some 0, [7, 7]) ∧
      run ⟨true⟩ (init [0, 0]) tornSchedule = none :=
  ⟨unlocked_copy_tears, locked_excludes_torn_schedule⟩

end Spine.Props.C11Snap
