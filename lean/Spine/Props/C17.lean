import Spine.Lock
import Spine.Race
import Spine.RaceRW
import Spine.LockTables
import Spine.LockRW
import Spine.LockObs
import Spine.RaceHB
import Spine.SliceCow
import Spine.Generated.Locks
/-!
# C17 — concurrent use is free of data races and of deadlocks on the stack's own locks

Property theorems only. Two layers:

* **abstract** (hand-written models `Spine.Lock`, `Spine.Race`, `Spine.RaceRW`, bridge
  `Spine.LockTables`; proved once, for every number of threads, mutexes, locations and every
  trace): `c17_ranked_no_deadlock`, `c17_guarded_accesses_ordered`, `c17_guarded_trace_ordered`,
  `c17_rw_guarded_accesses_ordered` (reader/writer locks), `c17_guarded_no_data_race` (happens-before
  relation and data race defined, `Spine.RaceHB`), `c17_disciplined_fields_no_data_race` (instance);
* **instances over the regenerated tables** `Spine.Generated.Locks` (written by `go/lockgraph`
  from the tree under test on every run; `decide`, so a code change that alters a row re-checks
  them): `c17_lock_order_ranked`, `c17_no_lock_leak`, `c17_guarded_by`, `c17_common_lock_sound`,
  `c17_undisciplined_exact`, `c17_tables_wellformed`, `c17_package_state_guarded`,
  `c17_no_shared_address_escapes`, `c17_escaped_containers_copy_on_write`,
  `c17_container_tables_wellformed` (slice/map fields: no header that escapes its critical section
  belongs to a field whose backing store is written in place);
* **why that suffices** (`Spine.SliceCow`, abstract): `c17_cow_header_stays_valid`,
  `c17_inplace_write_hits_handed_out_header`;
* **connection** of the two: `c17_no_deadlock`, `c17_disciplined_fields_ordered` (exclusive mutex
  model), `c17_disciplined_fields_ordered_rw` (reader/writer model, covers every disciplined field);
* **reader/writer deadlocks** (`Spine.LockRW`: Go's blocking rule with queued writers, refinement to
  the plain model): `c17_no_rw_deadlock`, `c17_no_self_edge`, `c17_no_reacquisition` (recursive
  `RLock` included), `c17_recursive_rlock_deadlocks` (why it matters);
* **what the dynamic cross-check of the analyser establishes** (`Spine.LockObs`; the driver
  `drv_lockobs` evaluates `acqOk` / `accOk` over these very tables on every observation of the
  instrumented runs): `c17_observed_no_deadlock`, `c17_rejected_acquisition_breaks_assumption`,
  `c17_monitored_trace_guarded`, `c17_monitored_fields_ordered`.

What is proved: for every state of the abstract thread/lock model whose "holds h, waits for m"
pairs are among the extracted edges, no set of threads waits cyclically; for every trace respecting
mutual exclusion in which the accesses to a *disciplined* field are made under the mutex the table
names, any two accesses to that field by different threads are ordered by happens-before.

What is NOT proved (PARTIAL, see also `props/C17.py`):
* the race-freedom clause holds only for the fields outside `undisciplined`; each undisciplined
  field is a candidate data race that the harness (`go/comp/race_test.go`) tries to reproduce under
  the race detector — a reproduced race on the unchanged tree is a known finding;
* the assumptions `RespectsEdges` / `TableGuarded` ARE the trusted translator: the analyser
  (go/ssa + class-hierarchy call resolution, may-held sets for edges, must-held sets for rows)
  abstracts object identity to (struct type, field), treats calls leaving the module as opaque and
  does not see reflection; nothing in Lean checks the analyser against the Go semantics;
* blocking on channels, `WaitGroup`s, timers or application callbacks is outside the statement
  (the property speaks of the stack's own locks).
-/
namespace Spine.Props.C17
open Spine Spine.Generated.Locks Spine.LockTables

/-! ## abstract theorems (restated) -/

/-- If every pending acquisition asks for a lock of strictly higher rank than all locks the thread
    holds, no set of threads waits cyclically. Any number of threads and locks. -/
theorem c17_ranked_no_deadlock (rank : Nat → Nat) (thrs : List Lock.Thr)
    (hd : Lock.Disciplined rank thrs) : ¬ Lock.Deadlocked thrs :=
  Lock.ranked_no_deadlock rank thrs hd

/-- non-vacuity: a disciplined state with a waiting thread; and an undisciplined one that is deadlocked -/
example : Lock.Disciplined id [⟨[1], some 2⟩, ⟨[2], none⟩] := by
  intro t ht m hm h hh
  simp only [List.mem_cons, List.not_mem_nil, or_false] at ht
  rcases ht with rfl | rfl
  · simp only [Option.some.injEq] at hm; subst hm
    simp only [List.mem_singleton] at hh; subst hh; decide
  · simp at hm
example : Lock.Deadlocked [⟨[1], some 2⟩, ⟨[2], some 1⟩] :=
  ⟨[⟨[1], some 2⟩, ⟨[2], some 1⟩], by simp, fun _ h => h, by
    intro t ht
    simp only [List.mem_cons, List.not_mem_nil, or_false] at ht
    rcases ht with rfl | rfl
    · exact ⟨2, rfl, ⟨[2], some 1⟩, by simp, by simp⟩
    · exact ⟨1, rfl, ⟨[1], some 2⟩, by simp, by simp⟩⟩

/-- In any trace respecting mutual exclusion, two accesses to one location by different threads
    that both hold a common mutex are separated by a release by the first and a later acquisition
    by the second: ordered by happens-before. -/
theorem c17_guarded_accesses_ordered (m x t1 t2 : Nat) (w1 w2 : Bool) (hne : t1 ≠ t2)
    (earlier mid : List Race.Ev)
    (hwf : Race.WF (Race.Ev.acc t2 x w2 :: (mid ++ Race.Ev.acc t1 x w1 :: earlier)))
    (h1 : Race.owner earlier m = some t1)
    (h2 : Race.owner (mid ++ Race.Ev.acc t1 x w1 :: earlier) m = some t2) :
    ∃ mid2 mid1 mid0, mid = mid2 ++ Race.Ev.acq t2 m :: (mid1 ++ Race.Ev.rel t1 m :: mid0) :=
  Race.guarded_accesses_ordered m x t1 t2 w1 w2 hne earlier mid hwf h1 h2

/-- The same for a whole trace: if every access to `x` is made under `m` (`Guarded`), any two
    accesses to `x` by different threads anywhere in the trace are so separated. -/
theorem c17_guarded_trace_ordered (m x t1 t2 : Nat) (w1 w2 : Bool) (hne : t1 ≠ t2)
    (later mid earlier : List Race.Ev)
    (hwf : Race.WF (later ++ Race.Ev.acc t2 x w2 :: (mid ++ Race.Ev.acc t1 x w1 :: earlier)))
    (hg : Guarded m x (later ++ Race.Ev.acc t2 x w2 :: (mid ++ Race.Ev.acc t1 x w1 :: earlier))) :
    ∃ mid2 mid1 mid0, mid = mid2 ++ Race.Ev.acq t2 m :: (mid1 ++ Race.Ev.rel t1 m :: mid0) :=
  guarded_trace_ordered m x t1 t2 w1 w2 hne later mid earlier hwf hg

/-- non-vacuity: a well-formed guarded trace with two conflicting accesses (latest event first):
    thread 1 locks 7, writes location 3, unlocks; thread 2 locks 7, reads 3 -/
def exTrace : List Race.Ev :=
  [.acc 2 3 false, .acq 2 7, .rel 1 7, .acc 1 3 true, .acq 1 7]
example : Race.WF exTrace ∧ Guarded 7 3 exTrace := by
  simp [exTrace, Race.WF, Race.owner, Guarded]
/-- … and an unguarded one (the second access without the mutex) is rejected by `Guarded` -/
example : ¬ Guarded 7 3 [.acc 2 3 false, .rel 1 7, .acc 1 3 true, .acq 1 7] := by
  simp [Race.owner, Guarded]

/-- Reader/writer locks (`sync.RWMutex`): two accesses to one location by different threads, at
    least one of them a write, writes made under the exclusive hold of `m` and reads under some
    hold of `m` (Lock or RLock), are separated by a release of `m` by the first thread and a later
    acquisition of `m` by the second. -/
theorem c17_rw_guarded_accesses_ordered (m x t1 t2 : Nat) (w1 w2 : Bool) (hne : t1 ≠ t2)
    (hconf : w1 = true ∨ w2 = true) (earlier mid : List RaceRW.Ev)
    (hwf : RaceRW.WF (RaceRW.Ev.acc t2 x w2 :: (mid ++ RaceRW.Ev.acc t1 x w1 :: earlier)))
    (h1 : RaceRW.Protected earlier m t1 w1)
    (h2 : RaceRW.Protected (mid ++ RaceRW.Ev.acc t1 x w1 :: earlier) m t2 w2) :
    ∃ mid2 e2 mid1 e1 mid0, mid = mid2 ++ e2 :: (mid1 ++ e1 :: mid0) ∧
      RaceRW.IsAcq e2 t2 m ∧ RaceRW.IsRel e1 t1 m :=
  RaceRW.rw_guarded_accesses_ordered m x t1 t2 w1 w2 hne hconf earlier mid hwf h1 h2

/-- non-vacuity: thread 1 reads location 3 under RLock of 7 together with thread 3, both RUnlock,
    thread 2 Locks 7 and writes 3 — well-formed and protected; a write under RLock only (what
    `DatagramForMsgCounter` does to the notify cache) is rejected by `GuardedRW` -/
def exTraceRW : List RaceRW.Ev :=
  [.acc 2 3 true, .acq 2 7, .rrel 3 7, .rrel 1 7, .acc 1 3 false, .racq 3 7, .racq 1 7]
example : RaceRW.WF exTraceRW ∧ GuardedRW 7 3 exTraceRW := by
  simp [exTraceRW, RaceRW.WF, RaceRW.excl, RaceRW.shared, GuardedRW, RaceRW.Protected, RaceRW.Holds]
example : ¬ GuardedRW 7 3 [.acc 1 3 true, .racq 1 7] := by
  simp [RaceRW.excl, GuardedRW, RaceRW.Protected]

/-! ## instances over the regenerated tables -/

/-- decidable form of "the table is well-formed": every id used is in the name tables -/
def tablesWellformed : Bool :=
  lockEdges.all (fun e => e.1 < mutexNames.length && e.2 < mutexNames.length) &&
  accesses.all (fun a => sharedFields.contains a.field && a.held.all (· < mutexNames.length)) &&
  sharedFields.all (· < fieldNames.length) &&
  undisciplined.all (sharedFields.contains ·) &&
  (List.range mutexNames.length == mutexNames.map (·.1)) &&
  (List.range fieldNames.length == fieldNames.map (·.1)) &&
  (sharedFields == List.range fieldNames.length)

/-- every mutex / field id used in an edge or a row is named, ids are dense, every row belongs to
    a listed shared field -/
theorem c17_tables_wellformed : tablesWellformed = true := by decide +kernel

/-- **Lock order (instance).** The rank emitted by the analyser strictly increases along every
    extracted lock-order edge: the lock graph of the tree under test is acyclic and has no
    self-edge. (When the graph is cyclic the analyser emits rank 0 and this fails, naming the
    cycle in `Generated/Locks.lean`.) -/
theorem c17_lock_order_ranked : ∀ e ∈ lockEdges, rank e.1 < rank e.2 := by decide +kernel

/-- non-vacuity: there are edges to rank, and nested acquisitions among them
    (a chain of length ≥ 2 exists: some mutex has rank ≥ 2) -/
example : lockEdges ≠ [] ∧ (mutexNames.map (fun p => rank p.1)).any (· ≥ 2) = true := by
  decide +kernel

/-- **No lock leak (instance).** No function of the module may return while holding a mutex it
    acquired without a deferred release, every Lock/Unlock site was identified with a (type, field)
    mutex, and no function releases a mutex it did not acquire — the side conditions under which
    the per-function lock regions, and hence the edges, are meaningful. -/
theorem c17_no_lock_leak : lockLeaks = [] ∧ unknownLockSites = [] ∧ unbalancedUnlocks = [] := by
  decide

/-- No self-edge (an object's mutex held while the same-typed mutex of another object is acquired)
    was taken out of `lockEdges` by hand: `c17_lock_order_ranked` speaks about every extracted edge.
    If one is ever resolved in `go/lockgraph/selfedges.json`, this theorem is to be replaced by the
    list, which then belongs to the trusted base. -/
theorem c17_no_hand_resolved_self_edge : resolvedSelfEdges = [] := by decide

/-- **No address of a shared field escapes; no field is used both atomically and plainly
    (instance).** The guarded-by rows attribute loads and stores through a field's address inside
    the function that takes it. No function of the tree under test lets the address of a field that
    is written after construction leave it (passed to a call, stored, returned, captured, made an
    interface) other than as operand of `sync/atomic` or receiver of a method of the module — so no
    access through a stray pointer is missing from the rows — and no field that is used atomically
    also has a plain access after construction (a mixed atomic/plain pair is a data race that no
    mutex row would show). -/
theorem c17_no_shared_address_escapes : addressEscapes = [] ∧ mixedAtomic = [] := by decide

/-- non-vacuity (independent of the generated rows): the same predicate fails on a table with an
    escaping address -/
example : ¬ (["spine.X.f: address passed to g in X.m (x.go:1)"] = ([] : List String) ∧ ([] : List String) = []) := by
  decide

/-- the post-construction rows of a field -/
def postRows (f : Nat) : List Access := accesses.filter (fun a => a.field == f && a.post)

/-- mutex `m` is held (Lock or RLock) at every post-construction access of field `f`, and
    exclusively (Lock) at every write -/
def guardedBy (f m : Nat) : Bool :=
  (postRows f).all (fun a => a.held.contains m && (!a.write || a.excl.contains m))

/-- mutex `m` is held exclusively at every post-construction access of field `f` -/
def exclGuardedBy (f m : Nat) : Bool := (postRows f).all (fun a => a.excl.contains m)

/-- disciplined fields some of whose reads hold the common lock only in shared mode (RWMutex):
    outside the exclusive-mutex theorem, inside the reader/writer one -/
def rwFields : List Nat :=
  sharedFields.filter fun f => match commonLock f with
    | some m => !exclGuardedBy f m
    | none => false

/-- **Guarded-by (instance).** Every field of the analysed structs that is written after
    construction and is not listed as undisciplined has a common lock. -/
theorem c17_guarded_by : ∀ f ∈ sharedFields, f ∉ undisciplined → commonLock f ≠ none := by
  decide +kernel

/-- The common lock the analyser names really is in the held set of every post-construction
    access row of the field (the claim is re-computed from the rows, not believed). -/
theorem c17_common_lock_sound :
    ∀ f ∈ sharedFields, ∀ m ∈ (commonLock f).toList, guardedBy f m = true := by
  decide +kernel

/-- `undisciplined` is exact: each listed field has at least one post-construction write and no
    mutex at all is common to its post-construction rows (so the list hides no disciplined field,
    and `c17_guarded_by` excludes nothing it need not exclude). -/
theorem c17_undisciplined_exact :
    ∀ f ∈ undisciplined, (postRows f).any (·.write) = true ∧
      ∀ m ∈ List.range mutexNames.length, guardedBy f m = false := by
  decide +kernel

/-- **Process-wide state (instance).** Every package-level variable of the module (map, slice,
    pointer, scalar; model/, util/, spine/, api/) that is written after package initialisation is
    accessed under a common lock on EVERY path — none is listed as undisciplined. Such state is
    shared by all devices, features and connections, so a race on it needs no common object and
    shows only on first use; it is therefore an obligation, not a finding candidate. On the tree
    this was written for no such variable exists at all (`packageVars = []`); a memoisation map
    added later must be guarded everywhere or this fails. -/
theorem c17_package_state_guarded : ∀ v ∈ packageVars, v ∉ undisciplined := by decide +kernel

/-- non-vacuity (independent of the generated rows): the same predicate over a small table with a
    variable read once without its lock fails, with all accesses locked it holds -/
example : ¬ (∀ v ∈ [3], v ∉ [1, 3]) ∧ (∀ v ∈ [3], v ∉ [1]) := by decide

/-- every shared field has a post-construction write (that is what makes it shared) -/
theorem c17_shared_written : ∀ f ∈ sharedFields, (postRows f).any (·.write) = true := by
  decide +kernel

/-- non-vacuity: there are shared fields, and at least one of them is disciplined with an
    exclusively held lock (so `c17_disciplined_fields_ordered` applies to something) -/
example : sharedFields ≠ [] ∧
    (sharedFields.any fun f => (commonLock f).isSome && !rwFields.contains f && !undisciplined.contains f) = true := by
  decide +kernel

/-! ## containers (slices, maps): a header that escapes its critical section is copy-on-write -/

/-- no container field has both an escape of its header and an in-place writer of its backing store -/
def containersCow (esc inp : List (Nat × String)) : Bool :=
  esc.all fun e => inp.all fun w => e.1 != w.1

/-- every row of the three container tables belongs to a named container field, ids are dense -/
theorem c17_container_tables_wellformed :
    (containerEscapes ++ containerInPlace ++ containerCowWrites).all (fun r => decide (r.1 < containerNames.length)) = true ∧
      List.range containerNames.length = containerNames.map (·.1) := by
  decide +kernel

/-- **Escaped containers are copy-on-write (instance).** The guarded-by rows cover the loads and
    stores of a FIELD; for a slice- or map-typed field the elements live in a backing store shared by
    every copy of the header. On the tree under test no slice/map field of the analysed structs has
    BOTH a site where the header of its current value leaves the critical section without a copy of
    the elements (returned by a getter, stored elsewhere, sent, handed to a goroutine, elements read
    where the field's common lock is not held: `containerEscapes`) AND a site that modifies the
    backing store in place after construction (element assignment, `copy` into it, `clear`, map
    update / delete, `append` onto a reslice, a reslice stored back, a callee that does one of these
    to its parameter — `slices.Delete*`, `Insert`, `Compact*`, `Reverse`, `Sort*` recognised from
    their SSA bodies: `containerInPlace`). So every writer of a field whose header escapes is one of
    the copy-on-write writers of `Spine.SliceCow` (`containerCowWrites`: replaced by a value that
    does not share the old store, or `f = append(f, x)` on the whole value), for which
    `c17_cow_header_stays_valid` shows that the lock-free reader never sees a cell written after the
    hand-out. Regenerated by go/lockgraph/containers.go on every run. -/
theorem c17_escaped_containers_copy_on_write : containersCow containerEscapes containerInPlace = true := by
  decide +kernel

/-- non-vacuity (independent of the generated rows): a getter that returns the list and an in-place
    deletion on the same field are rejected; on different fields they are accepted -/
example : containersCow [(5, "Entities returns d.entities")] [(5, "slices.DeleteFunc(d.entities, …)")] = false ∧
    containersCow [(5, "Entities returns d.entities")] [(4, "remoteDevices[ski] = d")] = true := by decide

/-- **A handed-out header stays valid under copy-on-write writers (abstract).** In the model of one
    slice field (`Spine.SliceCow`: backing arrays, headers handed out, cells written per operation),
    from the initial state every sequence of operations that are all copy-on-write — hand-outs,
    `f = append(f, x)` in place or reallocating, replacement by a fresh list — never writes a cell
    covered by a header handed out earlier: any length, any number of readers. The operations all
    run under the field's mutex (`c17_common_lock_sound`), so each write to a covered cell precedes
    the hand-out in the mutex order and happens-before every access of the reader. PARTIAL: the
    last step (mutex order ⇒ `RaceHB.HB` for the reader's lock-free accesses) is an argument, the
    cells are not locations of `Spine.Race`. -/
theorem c17_cow_header_stays_valid (ops : List SliceCow.Op) (hc : ∀ op ∈ ops, SliceCow.isCow op = true) :
    SliceCow.violations SliceCow.init ops = [] :=
  SliceCow.cow_no_violation SliceCow.init SliceCow.inv_init ops hc

/-- non-vacuity: a run with hand-outs, in-place appends and a removal by replacement -/
example : (∀ op ∈ SliceCow.cowRun, SliceCow.isCow op = true) ∧ SliceCow.cowRun.length = 8 :=
  ⟨SliceCow.cowRun_ok.1, rfl⟩

/-- **… and not under in-place writers**: an in-place deletion (`slices.Delete`/`DeleteFunc`) after
    a hand-out rewrites cells the reader walks; a reslice stored back lets the next append do so.
    This is why `containerInPlace` must be empty for the fields of `containerEscapes`. -/
theorem c17_inplace_write_hits_handed_out_header :
    SliceCow.violations SliceCow.init [.replace 3, .handOut, .deleteInPlace 1] ≠ [] ∧
    SliceCow.violations SliceCow.init [.replace 3, .handOut, .cutBack 2, .appendOwn true] ≠ [] := by
  rw [SliceCow.inplace_delete_violates, SliceCow.append_after_cut_violates]; decide

/-- non-vacuity: the two runs differ from a copy-on-write run only in the offending operation -/
example : SliceCow.violations SliceCow.init [.replace 3, .handOut, .replace 2, .appendOwn true] = [] := by decide

/-! ## connection of instance and abstract theorem -/

/-- **No deadlock on the stack's own locks.** In the abstract thread/lock model, every state
    whose waiting threads respect the extracted edge table (`RespectsEdges lockEdges`: whenever a
    thread holds `h` and waits for `m`, `(h, m)` is an extracted edge — THE TRUSTED-TRANSLATOR
    ASSUMPTION: the analyser's edges over-approximate the real acquisitions, mutexes identified by
    (type, field)) is free of cyclic waiting. -/
theorem c17_no_deadlock (thrs : List Lock.Thr) (he : RespectsEdges lockEdges thrs) :
    ¬ Lock.Deadlocked thrs :=
  ranked_edges_no_deadlock rank lockEdges c17_lock_order_ranked thrs he

/-- the generated table satisfies the hypothesis of `ranked_no_deadlock` for every state that
    respects it -/
theorem c17_table_disciplined (thrs : List Lock.Thr) (he : RespectsEdges lockEdges thrs) :
    Lock.Disciplined rank thrs :=
  respects_ranked_disciplined rank lockEdges c17_lock_order_ranked thrs he

/-- **Every wait can end.** In every state that respects the extracted edges in which some thread
    waits, some waiting thread wants a mutex that is free or held only by running (not waiting)
    threads. Together with `c17_no_lock_leak` (a running holder releases before it returns) this is
    the state-level content of "none blocking forever on the stack's own locks"; the induction over
    time under a fair scheduler is NOT formalised (see the audit in `props/C17.py`). -/
theorem c17_some_waiter_can_proceed (thrs : List Lock.Thr) (he : RespectsEdges lockEdges thrs)
    (hw : ∃ t ∈ thrs, t.waiting ≠ none) :
    ∃ t ∈ thrs, ∃ m, t.waiting = some m ∧ ∀ t' ∈ thrs, m ∈ t'.held → t'.waiting = none :=
  some_waiter_can_proceed thrs (c17_no_deadlock thrs he) hw

/-- non-vacuity of the assumption (independent of the generated rows): an edge table, a state with
    nested waiting that respects it, and the conclusion applies; a cyclic table admits deadlock -/
example : RespectsEdges [(1, 2), (2, 3), (1, 3)] [⟨[1], some 2⟩, ⟨[1, 2], some 3⟩, ⟨[3], none⟩] := by decide
example : ∃ thrs, RespectsEdges [(1, 2), (2, 1)] thrs ∧ Lock.Deadlocked thrs :=
  two_cycle_deadlocks 1 2 _ (by decide) (by decide)

/-- a trace respects the guarded-by table: every access to a field with a common lock is made by
    a thread owning that lock (THE TRUSTED-TRANSLATOR ASSUMPTION for the race clause: the rows'
    held sets under-approximate what is really held, and the (type, field) mutex is the instance
    belonging to the object accessed) -/
def TableGuarded (tr : List Race.Ev) : Prop :=
  ∀ f m, commonLock f = some m → exclGuardedBy f m = true → Guarded m f tr

/-- **Race freedom for the disciplined fields.** In every trace that respects mutual exclusion and
    the guarded-by table, two accesses by different threads to a shared field that is not listed
    as undisciplined are separated by a release and a later acquisition of one mutex, hence ordered
    by happens-before: no data race on that field. PARTIAL: says nothing about the fields in
    `undisciplined`, nor about `rwFields` (common lock held in shared mode by some reads: those are
    covered by `c17_disciplined_fields_ordered_rw` below), nor about memory the analyser does not
    see (reflection). -/
theorem c17_disciplined_fields_ordered (f : Nat) (hf : f ∈ sharedFields) (hd : f ∉ undisciplined)
    (hrw : f ∉ rwFields) (t1 t2 : Nat) (w1 w2 : Bool) (hne : t1 ≠ t2) (later mid earlier : List Race.Ev)
    (hwf : Race.WF (later ++ Race.Ev.acc t2 f w2 :: (mid ++ Race.Ev.acc t1 f w1 :: earlier)))
    (ht : TableGuarded (later ++ Race.Ev.acc t2 f w2 :: (mid ++ Race.Ev.acc t1 f w1 :: earlier))) :
    ∃ m mid2 mid1 mid0, mid = mid2 ++ Race.Ev.acq t2 m :: (mid1 ++ Race.Ev.rel t1 m :: mid0) := by
  have hc := c17_guarded_by f hf hd
  cases hm : commonLock f with
  | none => exact absurd hm hc
  | some m =>
    have hex : exclGuardedBy f m = true := by
      cases hx : exclGuardedBy f m with
      | true => rfl
      | false =>
        exfalso; apply hrw
        simp only [rwFields, List.mem_filter]
        exact ⟨hf, by simp [hm, hx]⟩
    exact ⟨m, guarded_trace_ordered m f t1 t2 w1 w2 hne later mid earlier hwf (ht f m hm hex)⟩

/-- **No data race, in the sense of the memory model (abstract).** With happens-before defined as
    the transitive closure of program order and "an Unlock is synchronised before every later Lock
    of the same mutex" (`RaceHB.HB`) and a data race as two conflicting accesses by different threads
    not ordered by it (`RaceHB.DataRace`): a location all of whose accesses are made under one mutex
    has no data race, in every trace respecting mutual exclusion — all schedules, any number of
    threads. -/
theorem c17_guarded_no_data_race (m x : Nat) (tr : List Race.Ev) (hwf : Race.WF tr)
    (hg : Guarded m x tr) : ¬ RaceHB.DataRace tr x :=
  RaceHB.guarded_no_data_race m x tr hwf hg

/-- non-vacuity: `DataRace` is satisfiable — two unguarded writes by different threads race — and
    the guarded example trace satisfies the hypotheses -/
example : Race.WF RaceHB.racy ∧ RaceHB.DataRace RaceHB.racy 3 := RaceHB.racy_has_data_race
example : ¬ RaceHB.DataRace exTrace 3 :=
  c17_guarded_no_data_race 7 3 exTrace (by simp [exTrace, Race.WF, Race.owner])
    (by simp [exTrace, Race.owner, Guarded])

/-- **No data race on a disciplined field (instance, happens-before form).** In every trace that
    respects mutual exclusion and the guarded-by table there is no data race on a shared field that
    is not listed as undisciplined. PARTIAL: exclusive-mutex model, so `rwFields` (common lock held
    in shared mode by some reads) are excluded here — for them `c17_disciplined_fields_ordered_rw`
    gives the release/acquire witness, a happens-before RELATION over the reader/writer model is
    not defined; nothing about `undisciplined` or memory the analyser does not see. -/
theorem c17_disciplined_fields_no_data_race (f : Nat) (hf : f ∈ sharedFields) (hd : f ∉ undisciplined)
    (hrw : f ∉ rwFields) (tr : List Race.Ev) (hwf : Race.WF tr) (ht : TableGuarded tr) :
    ¬ RaceHB.DataRace tr f := by
  have hc := c17_guarded_by f hf hd
  cases hm : commonLock f with
  | none => exact absurd hm hc
  | some m =>
    have hex : exclGuardedBy f m = true := by
      cases hx : exclGuardedBy f m with
      | true => rfl
      | false =>
        exfalso; apply hrw
        simp only [rwFields, List.mem_filter]
        exact ⟨hf, by simp [hm, hx]⟩
    exact RaceHB.guarded_no_data_race m f tr hwf (ht f m hm hex)

/-- a reader/writer trace respects the guarded-by table: every access to a field with a common lock
    is protected by it — writes under the exclusive hold, reads under some hold; that the table's
    rows say so is `c17_common_lock_sound` (THE TRUSTED-TRANSLATOR ASSUMPTION as in `TableGuarded`) -/
def TableGuardedRW (tr : List RaceRW.Ev) : Prop :=
  ∀ f m, commonLock f = some m → GuardedRW m f tr

/-- **Race freedom for every disciplined field, reader/writer locks included.** In every trace
    that respects reader/writer exclusion and the guarded-by table, two accesses by different
    threads to a shared field that is not listed as undisciplined, at least one of them a write,
    are separated by a release and a later acquisition of one mutex: ordered by happens-before, no
    data race on that field. Covers `rwFields` too (on the pinned tree `Sender.reqMsgCache`, read
    under `RLock`). PARTIAL as above: nothing about `undisciplined`, nothing about memory the
    analyser does not see. -/
theorem c17_disciplined_fields_ordered_rw (f : Nat) (hf : f ∈ sharedFields) (hd : f ∉ undisciplined)
    (t1 t2 : Nat) (w1 w2 : Bool) (hne : t1 ≠ t2) (hconf : w1 = true ∨ w2 = true)
    (later mid earlier : List RaceRW.Ev)
    (hwf : RaceRW.WF (later ++ RaceRW.Ev.acc t2 f w2 :: (mid ++ RaceRW.Ev.acc t1 f w1 :: earlier)))
    (ht : TableGuardedRW (later ++ RaceRW.Ev.acc t2 f w2 :: (mid ++ RaceRW.Ev.acc t1 f w1 :: earlier))) :
    ∃ m mid2 e2 mid1 e1 mid0, mid = mid2 ++ e2 :: (mid1 ++ e1 :: mid0) ∧
      RaceRW.IsAcq e2 t2 m ∧ RaceRW.IsRel e1 t1 m := by
  have hc := c17_guarded_by f hf hd
  cases hm : commonLock f with
  | none => exact absurd hm hc
  | some m =>
    exact ⟨m, guardedRW_trace_ordered m f t1 t2 w1 w2 hne hconf later mid earlier hwf (ht f m hm)⟩

/-! ## reader/writer locks in the deadlock clause -/

/-- **No self-edge.** No extracted edge leads from a mutex to itself: on the (struct type, field)
    level no function may ask for a mutex while a mutex of the same type and field is held — neither
    the same instance (certain self-deadlock, or recursive `RLock`) nor that of another object
    (same-type nesting, which the identity abstraction could not order). Regenerated: follows from
    the rank over the current table. -/
theorem c17_no_self_edge : ∀ e ∈ lockEdges, e.1 ≠ e.2 :=
  LockRW.ranked_no_self_edge rank lockEdges c17_lock_order_ranked

/-- **No deadlock with reader/writer locks.** In the model with Go's `sync.RWMutex` blocking rule
    (a `Lock` waits for every holder in either mode; an `RLock` waits for an exclusive holder AND
    for every queued writer), no state whose mode-forgetting image respects the extracted edges —
    the analyser counts an `RLock` as an acquisition and a shared hold as a hold — contains a
    non-empty set of threads each blocked by a member of the set. Any number of goroutines. -/
theorem c17_no_rw_deadlock (thrs : List LockRW.Thr)
    (he : RespectsEdges lockEdges (thrs.map LockRW.abs)) : ¬ LockRW.Deadlocked thrs :=
  LockRW.ranked_edges_no_rw_deadlock rank lockEdges c17_lock_order_ranked thrs he

/-- **No re-acquisition**, recursive read lock included: in every state that respects the extracted
    edges no goroutine asks for a mutex it already holds, in any combination of modes (`Lock` in
    `Lock`, upgrade `Lock` in `RLock`, `RLock` in `Lock`, `RLock` in `RLock`). -/
theorem c17_no_reacquisition (thrs : List LockRW.Thr)
    (he : RespectsEdges lockEdges (thrs.map LockRW.abs)) :
    ∀ t ∈ thrs, ∀ w, t.waiting = some w → w.mutex ∉ t.wheld ∧ w.mutex ∉ t.rheld :=
  LockRW.ranked_no_reacquire rank lockEdges c17_lock_order_ranked thrs he

/-- why the previous theorem is needed (non-vacuity of the finer model): a goroutine holding
    `RLock m` that asks for `RLock m` again is deadlocked as soon as a writer has queued, although
    nobody holds `m` exclusively; alone it is not -/
theorem c17_recursive_rlock_deadlocks :
    LockRW.Deadlocked LockRW.recursiveRLock ∧ ¬ LockRW.Deadlocked [⟨[], [1], some (.rlock 1)⟩] :=
  ⟨LockRW.recursiveRLock_deadlocked, LockRW.reader_alone_not_deadlocked⟩

/-- non-vacuity of `c17_no_rw_deadlock` over the regenerated table: a state with a reader, a queued
    writer and nested waiting along real edges respects the table (`decide` over the current rows:
    uses the first extracted edge, whatever it is) -/
example : ∀ e ∈ lockEdges.head?.toList,
    RespectsEdges lockEdges ([⟨[], [e.1], some (.lock e.2)⟩, ⟨[e.2], [], none⟩, ⟨[], [], some (.rlock e.1)⟩].map LockRW.abs) := by
  decide +kernel

/-! ## what the dynamic cross-check of the analyser establishes -/

/-- **Observed acquisitions.** If the driver accepted every observed "holds `held`, asks for `m`"
    (`LockObs.acqOk lockEdges`, the predicate `drv_lockobs` evaluates on each distinct observation
    of the instrumented runs), then the state in which ALL observed acquisitions are pending at
    once — in any number of goroutines, together with any threads that only hold — is not
    deadlocked. -/
theorem c17_observed_no_deadlock (obs : List LockObs.Obs) (holders : List (List Nat))
    (h : ∀ o ∈ obs, LockObs.acqOk lockEdges o.1 o.2 = true) :
    ¬ Lock.Deadlocked (LockObs.obsState obs holders) :=
  LockObs.observed_no_deadlock rank lockEdges c17_lock_order_ranked obs holders h

/-- … and an observation the driver rejects refutes the trusted-translator assumption: no state
    containing that thread respects the edges (the harness reports it as a broken tie). -/
theorem c17_rejected_acquisition_breaks_assumption (o : LockObs.Obs) (thrs : List Lock.Thr)
    (hrej : LockObs.acqOk lockEdges o.1 o.2 = false) (hin : (⟨o.1, some o.2⟩ : Lock.Thr) ∈ thrs) :
    ¬ RespectsEdges lockEdges thrs :=
  LockObs.rejected_breaks_assumption lockEdges o thrs hrej hin

/-- non-vacuity over the regenerated table: the first edge is an accepted observation, its reverse
    a rejected one -/
example : ∀ e ∈ lockEdges.head?.toList,
    LockObs.acqOk lockEdges [e.1] e.2 = true ∧ LockObs.acqOk lockEdges [e.2] e.1 = false := by
  decide +kernel

/-- **Observed accesses.** A trace in which every access to a field with a common lock was recorded
    with held sets that are inside the real ones (`LockObs.Faithful`: the recorder of the
    instrumented copy under-approximates) and accepted by the driver (`LockObs.accOk`) satisfies
    `TableGuardedRW`, the hypothesis of `c17_disciplined_fields_ordered_rw`. -/
theorem c17_monitored_trace_guarded (tr : List RaceRW.Ev)
    (h : ∀ f m, commonLock f = some m → LockObs.AllAccepted m f tr) : TableGuardedRW tr :=
  fun f m hc => LockObs.accepted_guardedRW m f tr (h f m hc)

/-- … so on such a trace every two conflicting accesses to a disciplined field are ordered by
    happens-before: the race-freedom clause for the disciplined fields with the trusted-translator
    assumption replaced by "the monitor accepted every access of this execution". -/
theorem c17_monitored_fields_ordered (f : Nat) (hf : f ∈ sharedFields) (hd : f ∉ undisciplined)
    (t1 t2 : Nat) (w1 w2 : Bool) (hne : t1 ≠ t2) (hconf : w1 = true ∨ w2 = true)
    (later mid earlier : List RaceRW.Ev)
    (hwf : RaceRW.WF (later ++ RaceRW.Ev.acc t2 f w2 :: (mid ++ RaceRW.Ev.acc t1 f w1 :: earlier)))
    (h : ∀ g m, commonLock g = some m →
      LockObs.AllAccepted m g (later ++ RaceRW.Ev.acc t2 f w2 :: (mid ++ RaceRW.Ev.acc t1 f w1 :: earlier))) :
    ∃ m mid2 e2 mid1 e1 mid0, mid = mid2 ++ e2 :: (mid1 ++ e1 :: mid0) ∧
      RaceRW.IsAcq e2 t2 m ∧ RaceRW.IsRel e1 t1 m :=
  c17_disciplined_fields_ordered_rw f hf hd t1 t2 w1 w2 hne hconf later mid earlier hwf
    (c17_monitored_trace_guarded _ h)

/-- non-vacuity: the reader/writer example trace is accepted access by access (held sets as a
    faithful recorder reports them), and the write under `RLock` only is rejected by `accOk` -/
example : LockObs.AllAccepted 7 3 exTraceRW := by
  refine ⟨fun _ => ⟨[7], [7], ⟨?_, ?_⟩, by decide⟩, ⟨fun _ => ⟨[7], [], ⟨?_, ?_⟩, by decide⟩, trivial⟩⟩ <;>
    simp [RaceRW.Holds, RaceRW.excl, RaceRW.shared]
example : LockObs.accOk (some 7) true [7] [] = false ∧ LockObs.accOk (some 7) false [7] [] = true := by
  decide

end Spine.Props.C17
