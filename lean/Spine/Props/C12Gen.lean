import Spine.ApprovalLive
import Spine.LockTables
import Spine.Generated.Locks
import Spine.Generated.ApprovalLocks
/-!
# C12 — lock order of the approval machinery, regenerated on every run (tie b1)

"Every write gets exactly one of these outcomes … regardless of the order in which approvals, denials and the timeout
interleave" needs every step of the approval model to be able to run: a verdict, a timeout and the two clean-ups
(peer disconnected, remote entity removed) take the mutexes of `FeatureLocal` (`muxWriteReceived`, `muxResponseCB`,
`mux` — whatever they are called); if two of these paths take two of them in opposite orders, a verdict evaluated
while a clean-up runs blocks the feature for good: no write on it gets an outcome any more, not even by its
timeout (the timer function needs the same mutex).

The lock-order edges come from `go/lockgraph` (the analyser of C17, run on the tree under test by a pre-command of
this check: go/ssa, may-held sets closed over the call graph); `tools/apprlocks.py` restricts them to the mutexes of
struct `spine.FeatureLocal` and proposes a rank. Nothing of the script is trusted: the restriction is re-derived
here from C17's table and the rank is checked by the kernel.
-/
namespace Spine.Props.C12Gen
open Spine Spine.LockTables

/-- the restricted table is exactly C17's edge table cut down to the mutexes of FeatureLocal -/
theorem c12_approval_edges_are_the_extracted_ones :
    Generated.ApprovalLocks.edges =
      Generated.Locks.lockEdges.filter (fun e => Generated.ApprovalLocks.mutexes.contains e.1 &&
        Generated.ApprovalLocks.mutexes.contains e.2) := by decide +kernel

/-- the mutexes of FeatureLocal are taken in ONE order on every path of the tree under test: the rank increases
    along every extracted edge among them (no cycle, no self-edge) -/
theorem c12_approval_lock_order_ranked :
    Ranked Generated.ApprovalLocks.rank Generated.ApprovalLocks.edges := by
  unfold Ranked; decide +kernel

/-- non-vacuity: there is nesting to rank — the verdict path holds one approval mutex while it takes the other -/
example : Generated.ApprovalLocks.edges ≠ [] ∧ Generated.ApprovalLocks.mutexes.length ≥ 2 := by decide

/-- "acyclic approval lock order ⇒ no step of the approval model blocks forever": in every state of any number of
    threads (verdict goroutines, timer goroutines, clean-ups) that hold and wait for mutexes of FeatureLocal only
    and whose "holds h, asks for m" pairs are among the extracted edges (trusted analyser: RespectsEdges), no set
    of threads waits cyclically — in every non-empty set of waiting threads one waits for a mutex whose holder is
    not waiting, and gets it (A-mutex). -/
theorem c12_approval_steps_never_deadlock (thrs : List Lock.Thr)
    (hw : ApprL.Within Generated.ApprovalLocks.mutexes thrs)
    (he : RespectsEdges Generated.Locks.lockEdges thrs) : ¬ Lock.Deadlocked thrs := by
  have h := ApprL.respects_restrict _ _ thrs hw he
  rw [← c12_approval_edges_are_the_extracted_ones] at h
  exact ranked_edges_no_deadlock _ _ c12_approval_lock_order_ranked thrs h

/-- non-vacuity: a verdict holding muxWriteReceived and asking for muxResponseCB next to a clean-up holding
    muxResponseCB respects the table of the unchanged tree and is within the mutexes of FeatureLocal -/
example :
    let thrs : List Lock.Thr := [⟨[13], some 12⟩, ⟨[12], none⟩]
    ApprL.Within Generated.ApprovalLocks.mutexes thrs ∧ RespectsEdges Generated.Locks.lockEdges thrs := by
  refine ⟨?_, ?_⟩
  · intro t ht; simp at ht; rcases ht with rfl | rfl <;> decide
  · intro t ht; simp at ht; rcases ht with rfl | rfl
    · show ∀ h ∈ [13], (h, 12) ∈ Generated.Locks.lockEdges
      decide +kernel
    · trivial

/-- … ⇒ every pending write gets an outcome in every schedule: with the steps able to run, the model-level progress
    theorem applies — from every reachable state a write that has arrived is resolved by the two halves of its own
    timeout (`Appr.resolvable`), whatever verdicts, other writes and timeouts came before. -/
theorem c12_every_pending_write_gets_an_outcome (n : Nat) (evs : List Appr.Ev) (hnd : ∀ e ∈ evs, e ≠ .drop)
    (w : Nat) (hw : w ∈ (Appr.run Appr.Cfg.clean n evs).seen) :
    Ranked Generated.ApprovalLocks.rank Generated.ApprovalLocks.edges ∧
    ((Appr.run Appr.Cfg.clean n (evs ++ [.timeoutTake w, .timeoutSend w])).outcomes.map (·.1)).count w = 1 :=
  ⟨c12_approval_lock_order_ranked, Appr.resolvable n evs hnd w hw⟩

/-- non-vacuity: two callbacks, one approval so far, a verdict past its lookup: the timeout still resolves it -/
example : ((Appr.run Appr.Cfg.clean 2 ([.arrive 1, .lookup 10 1, .commit 10 true, .lookup 11 1] ++
    [.timeoutTake 1, .timeoutSend 1])).outcomes.map (·.1)).count 1 = 1 := by decide

end Spine.Props.C12Gen
