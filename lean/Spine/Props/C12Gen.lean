import Spine.ApprovalLive
import Spine.LockTables
import Spine.Generated.Locks
import Spine.Generated.ApprovalLocks
import Spine.Generated.Approval
import Spine.ApprovalThm
import Spine.ApprovalConn
/-!
# C12 — lock order of the approval machinery, regenerated on every run (tie b1)

"Every write gets exactly one of these outcomes … regardless of the order in which approvals, denials and the timeout
interleave" needs every step of the approval model to be able to run: a verdict, a timeout and the two clean-ups
(peer disconnected, remote entity removed) take the mutexes of `FeatureLocal` (`muxWriteReceived`, `muxResponseCB`,
`mux` — whatever they are called); if two of these paths take two of them in opposite orders, a verdict evaluated
while a clean-up runs blocks the feature for good: no write on it gets an outcome any more, not even by its
timeout (the timer function needs the same mutex).

The lock-order edges come from `go/lockgraph` (the analyser of C17, run on the tree under test by a pre-command of
this check: go/ssa, may-held sets closed over the call graph); `tools/apprlocks.py` restricts them to the mutexes of
struct `spine.FeatureLocal` and proposes a rank. Nothing of the script is trusted: the restriction is re-derived
here from C17's table and the rank is checked by the kernel.
-/
namespace Spine.Props.C12Gen
open Spine Spine.LockTables

/-- the restricted table is exactly C17's edge table cut down to the mutexes of FeatureLocal -/
theorem c12_approval_edges_are_the_extracted_ones :
    Generated.ApprovalLocks.edges =
      Generated.Locks.lockEdges.filter (fun e => Generated.ApprovalLocks.mutexes.contains e.1 &&
        Generated.ApprovalLocks.mutexes.contains e.2) := by decide +kernel

/-- the mutexes of FeatureLocal are taken in ONE order on every path of the tree under test: the rank increases
    along every extracted edge among them (no cycle, no self-edge) -/
theorem c12_approval_lock_order_ranked :
    Ranked Generated.ApprovalLocks.rank Generated.ApprovalLocks.edges := by
  unfold Ranked; decide +kernel

/-- non-vacuity: there is nesting to rank — the verdict path holds one approval mutex while it takes the other -/
example : Generated.ApprovalLocks.edges ≠ [] ∧ Generated.ApprovalLocks.mutexes.length ≥ 2 := by decide

/-- "acyclic approval lock order ⇒ no step of the approval model blocks forever": in every state of any number of
    threads (verdict goroutines, timer goroutines, clean-ups) that hold and wait for mutexes of FeatureLocal only
    and whose "holds h, asks for m" pairs are among the extracted edges (trusted analyser: RespectsEdges), no set
    of threads waits cyclically — in every non-empty set of waiting threads one waits for a mutex whose holder is
    not waiting, and gets it (A-mutex). -/
theorem c12_approval_steps_never_deadlock (thrs : List Lock.Thr)
    (hw : ApprL.Within Generated.ApprovalLocks.mutexes thrs)
    (he : RespectsEdges Generated.Locks.lockEdges thrs) : ¬ Lock.Deadlocked thrs := by
  have h := ApprL.respects_restrict _ _ thrs hw he
  rw [← c12_approval_edges_are_the_extracted_ones] at h
  exact ranked_edges_no_deadlock _ _ c12_approval_lock_order_ranked thrs h

/-- non-vacuity (independent of how the mutexes are numbered): there is nesting among the mutexes of FeatureLocal, and
    for every extracted edge (h, m) the state "a verdict holds h and asks for m, a clean-up holds m" is within those
    mutexes and respects C17's table -/
example : Generated.ApprovalLocks.edges ≠ [] ∧
    ∀ e ∈ Generated.ApprovalLocks.edges, e.1 ∈ Generated.ApprovalLocks.mutexes ∧ e.2 ∈ Generated.ApprovalLocks.mutexes ∧
      e ∈ Generated.Locks.lockEdges := by decide +kernel

example (h m : Nat) (hh : h ∈ Generated.ApprovalLocks.mutexes) (hm : m ∈ Generated.ApprovalLocks.mutexes)
    (he : (h, m) ∈ Generated.Locks.lockEdges) :
    ApprL.Within Generated.ApprovalLocks.mutexes [⟨[h], some m⟩, ⟨[m], none⟩] ∧
    RespectsEdges Generated.Locks.lockEdges [⟨[h], some m⟩, ⟨[m], none⟩] := by
  refine ⟨?_, ?_⟩
  · intro t ht
    simp only [List.mem_cons, List.mem_nil_iff, or_false] at ht
    rcases ht with rfl | rfl
    · exact ⟨by intro x hx; simp at hx; exact hx ▸ hh, by intro x hx; injection hx with hx; exact hx ▸ hm⟩
    · exact ⟨by intro x hx; simp at hx; exact hx ▸ hm, by intro x hx; cases hx⟩
  · intro t ht
    simp only [List.mem_cons, List.mem_nil_iff, or_false] at ht
    rcases ht with rfl | rfl
    · show ∀ x ∈ [h], (x, m) ∈ Generated.Locks.lockEdges
      intro x hx; simp at hx; exact hx ▸ he
    · trivial

/-- … ⇒ every pending write gets an outcome in every schedule: with the steps able to run, the model-level progress
    theorem applies — from every reachable state a write that has arrived is resolved by the two halves of its own
    timeout (`Appr.resolvable`), whatever verdicts, other writes and timeouts came before. -/
theorem c12_every_pending_write_gets_an_outcome (n : Nat) (evs : List Appr.Ev) (hnd : ∀ e ∈ evs, e ≠ .drop)
    (w : Nat) (hw : w ∈ (Appr.run Appr.Cfg.clean n evs).seen) :
    Ranked Generated.ApprovalLocks.rank Generated.ApprovalLocks.edges ∧
    ((Appr.run Appr.Cfg.clean n (evs ++ [.timeoutTake w, .timeoutSend w])).outcomes.map (·.1)).count w = 1 :=
  ⟨c12_approval_lock_order_ranked, Appr.resolvable n evs hnd w hw⟩

/-- non-vacuity: two callbacks, one approval so far, a verdict past its lookup: the timeout still resolves it -/
example : ((Appr.run Appr.Cfg.clean 2 ([.arrive 1, .lookup 10 1, .commit 10 true, .lookup 11 1] ++
    [.timeoutTake 1, .timeoutSend 1])).outcomes.map (·.1)).count 1 = 1 := by decide

/-! ### event granularity and flags of the model, regenerated (translator generator `approval`)

`Spine.Appr` splits a verdict into `lookup` / `commit` and the timeout into `timeoutTake` / `timeoutSend`; the family
flags `ignoreStop` and `recheck` say whether the result of `timer.Stop()` is used and whether the pending entry is
looked at again before the tally is touched. The probe phase of the harness selects the member by running witnesses;
here the same is read off the source (semantically: registries by their types, helpers inlined) and re-checked. -/

/-- a verdict is two critical sections (pending lookup under the registry's mutex alone; then tally, Stop, removal,
    result / apply in ONE section of the tally mutex), the timeout function is two halves (removal under the
    registry's mutex, result with no mutex of the feature held): the events of `Spine.Appr` -/
theorem c12_events_match_source :
    Generated.Approval.verdictTwoSections = true ∧ Generated.Approval.commitOneSection = true ∧
    Generated.Approval.timeoutTwoHalves = true := by decide

/-- the member of the family the SOURCE is, for the two flags that are visible in the text: the result of Stop() is
    used — and guards EVERY result: nothing is sent or applied after the Stop() on a path that has not tested its result,
    for the approval and for the denial alike — and the pending entry is re-checked — the repaired values (the tally flag and the message-identity flag are
    probed by witnesses only) -/
theorem c12_source_member_flags :
    (!(Generated.Approval.stopResultUsed && Generated.Approval.stopGuardsEveryResult)) = Appr.Cfg.clean.ignoreStop ∧
    Generated.Approval.recheck = ({} : ApprE.Cfg).recheck := by decide

/-- "no write ever has two outcomes", all schedules, for the member whose `ignoreStop` flag is READ FROM THE SOURCE
    (tally flag as probed: repaired) -/
theorem c12_at_most_one_outcome_source (n : Nat) (evs : List Appr.Ev) (w : Nat) :
    ((Appr.run { tallyReset := false,
                 ignoreStop := !(Generated.Approval.stopResultUsed && Generated.Approval.stopGuardsEveryResult) }
        n evs).outcomes.filter (·.1 = w)).length ≤ 1 := by
  have h : (!(Generated.Approval.stopResultUsed && Generated.Approval.stopGuardsEveryResult)) = false := by decide
  rw [h]
  exact Appr.c12_at_most_one_outcome n evs w

/-- non-vacuity: on a source that discards the result of Stop() the same statement is false (the racing schedule) -/
example : ¬ ((Appr.run { tallyReset := false, ignoreStop := !false } 1
    [.arrive 1, .lookup 10 1, .timeoutTake 1, .timeoutSend 1, .commit 10 true]).outcomes.filter (·.1 = 1)).length ≤ 1 := by
  decide

/-! ### the arrival event, regenerated (round 5 follow-up)

`Spine.Appr`'s event `arrive w` registers the write (pending entry, timer armed) AND presents it to every callback in
one step. A callback may answer at once - from inside the callback, while the stack is still inside `HandleMessage`
for the write -, and a verdict whose lookup finds no pending entry is dropped without a trace. One atomic event is a
faithful model of the two effects exactly when the source registers before it presents: then every lookup a callback
can make comes after the registration. The order is read off the source on every run (generator `approval`: from the
exported `HandleMessage`, helpers inlined, the callbacks field found by its type, `go cb(msg)` / a call of an element
of that field - directly, over a local copy of the slice, or inside a wrapping closure). -/

/-- the two effects of an arrival, separately -/
def registerOnly (s : Appr.St) (w : Nat) : Appr.St :=
  { s with seen := w :: s.seen, pending := w :: s.pending, armed := w :: s.armed }
def presentOnly (s : Appr.St) (w : Nat) : Appr.St :=
  { s with presented := s.presented ++ (List.range s.nCb).map (fun i => (w, i)) }

/-- the source registers the pending entry and arms the timer of a write BEFORE it presents the write to any
    approval callback (every path from HandleMessage) -/
theorem c12_arrival_order_matches_source :
    Generated.Approval.registeredBeforePresented = true ∧ Generated.Approval.armedBeforePresented = true := by decide

/-- the model's arrival event IS register-then-present (every member, every state, a write not seen before) -/
theorem c12_arrive_is_register_then_present (c : Appr.Cfg) (s : Appr.St) (w : Nat) (h : s.seen.contains w = false) :
    Appr.step c s (.arrive w) = presentOnly (registerOnly s w) w := by
  simp only [Appr.step, h, Bool.false_eq_true, if_false, presentOnly, registerOnly]

/-- in that order no verdict can be lost: once the write has been presented - after `arrive`, at the earliest - a
    lookup for it finds it pending (every member, every state): the verdict is taken up -/
theorem c12_verdict_right_after_presentation_is_taken_up (c : Appr.Cfg) (s : Appr.St) (w op : Nat)
    (h : s.seen.contains w = false) :
    (op, w) ∈ (Appr.step c (Appr.step c s (.arrive w)) (.lookup op w)).lookups ∧
    w ∈ (Appr.step c s (.arrive w)).armed := by
  rw [c12_arrive_is_register_then_present c s w h]
  have hp : (presentOnly (registerOnly s w) w).pending.contains w = true := by simp [presentOnly, registerOnly]
  refine ⟨?_, by simp [presentOnly, registerOnly]⟩
  simp only [Appr.step, hp, if_true]
  exact List.mem_cons_self

/-- … and in every reachable state of every member a write that has been presented to a callback has been registered -/
theorem c12_presented_write_is_registered (c : Appr.Cfg) (n : Nat) (evs : List Appr.Ev) (w i : Nat)
    (h : (w, i) ∈ (Appr.run c n evs).presented) : w ∈ (Appr.run c n evs).seen := by
  have hc := Appr.presInv_run c n evs w i
  by_cases hs : w ∈ (Appr.run c n evs).seen
  · exact hs
  · have h0 : (Appr.run c n evs).presented.count (w, i) = 0 := by rw [hc]; simp [hs]
    exact absurd h (List.count_eq_zero.mp h0)

/-- the OTHER order refuted (why the fact is needed): presented first, the sole callback approves at once - its lookup
    finds nothing pending -, registered afterwards: the write approved by every callback times out (repaired member) -/
theorem c12_present_before_register_refuted :
    let s₁ := presentOnly { nCb := 1 } 1
    let s₂ := Appr.step Appr.Cfg.clean (Appr.step Appr.Cfg.clean s₁ (.lookup 10 1)) (.commit 10 true)
    let s₃ := registerOnly s₂ 1
    ([Appr.Ev.timeoutTake 1, .timeoutSend 1].foldl (Appr.step Appr.Cfg.clean) s₃).outcomes = [(1, .error)] := by decide

/-- non-vacuity: the same verdict in the source's order applies the write -/
example :
    let s₁ := presentOnly (registerOnly { nCb := 1 } 1) 1
    let s₂ := Appr.step Appr.Cfg.clean (Appr.step Appr.Cfg.clean s₁ (.lookup 10 1)) (.commit 10 true)
    ([Appr.Ev.timeoutTake 1, .timeoutSend 1].foldl (Appr.step Appr.Cfg.clean) s₂).outcomes = [(1, .applied)] := by decide

example : (Appr.run {} 2 [.arrive 4]).presented = [(4, 0), (4, 1)] ∧ 4 ∈ (Appr.run {} 2 [.arrive 4]).seen := by decide

example : (Appr.step {} { nCb := 2 } (.arrive 3)).presented = (presentOnly (registerOnly { nCb := 2 } 3) 3).presented ∧
    (Appr.step {} { nCb := 2 } (.arrive 3)).pending = [3] := by decide

example : (7, 3) ∈ (Appr.step {} (Appr.step {} { nCb := 1 } (.arrive 3)) (.lookup 7 3)).lookups := by decide

end Spine.Props.C12Gen
