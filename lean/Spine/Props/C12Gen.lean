import Spine.ApprovalLive
import Spine.LockTables
import Spine.Generated.Locks
import Spine.Generated.ApprovalLocks
import Spine.Generated.Approval
import Spine.ApprovalThm
import Spine.ApprovalConn
/-!
# C12 — lock order of the approval machinery, regenerated on every run (tie b1)

"Every write gets exactly one of these outcomes … regardless of the order in which approvals, denials and the timeout
interleave" needs every step of the approval model to be able to run: a verdict, a timeout and the two clean-ups
(peer disconnected, remote entity removed) take the mutexes of `FeatureLocal` (`muxWriteReceived`, `muxResponseCB`,
`mux` — whatever they are called); if two of these paths take two of them in opposite orders, a verdict evaluated
while a clean-up runs blocks the feature for good: no write on it gets an outcome any more, not even by its
timeout (the timer function needs the same mutex).

The lock-order edges come from `go/lockgraph` (the analyser of C17, run on the tree under test by a pre-command of
this check: go/ssa, may-held sets closed over the call graph); `tools/apprlocks.py` restricts them to the mutexes of
struct `spine.FeatureLocal` and proposes a rank. Nothing of the script is trusted: the restriction is re-derived
here from C17's table and the rank is checked by the kernel.
-/
namespace Spine.Props.C12Gen
open Spine Spine.LockTables

/-- the restricted table is exactly C17's edge table cut down to the mutexes of FeatureLocal -/
theorem c12_approval_edges_are_the_extracted_ones :
    Generated.ApprovalLocks.edges =
      Generated.Locks.lockEdges.filter (fun e => Generated.ApprovalLocks.mutexes.contains e.1 &&
        Generated.ApprovalLocks.mutexes.contains e.2) := by decide +kernel

/-- the mutexes of FeatureLocal are taken in ONE order on every path of the tree under test: the rank increases
    along every extracted edge among them (no cycle, no self-edge) -/
theorem c12_approval_lock_order_ranked :
    Ranked Generated.ApprovalLocks.rank Generated.ApprovalLocks.edges := by
  unfold Ranked; decide +kernel

/-- non-vacuity: there is nesting to rank — the verdict path holds one approval mutex while it takes the other -/
example : Generated.ApprovalLocks.edges ≠ [] ∧ Generated.ApprovalLocks.mutexes.length ≥ 2 := by decide

/-- "acyclic approval lock order ⇒ no step of the approval model blocks forever": in every state of any number of
    threads (verdict goroutines, timer goroutines, clean-ups) that hold and wait for mutexes of FeatureLocal only
    and whose "holds h, asks for m" pairs are among the extracted edges (trusted analyser: RespectsEdges), no set
    of threads waits cyclically — in every non-empty set of waiting threads one waits for a mutex whose holder is
    not waiting, and gets it (A-mutex). -/
theorem c12_approval_steps_never_deadlock (thrs : List Lock.Thr)
    (hw : ApprL.Within Generated.ApprovalLocks.mutexes thrs)
    (he : RespectsEdges Generated.Locks.lockEdges thrs) : ¬ Lock.Deadlocked thrs := by
  have h := ApprL.respects_restrict _ _ thrs hw he
  rw [← c12_approval_edges_are_the_extracted_ones] at h
  exact ranked_edges_no_deadlock _ _ c12_approval_lock_order_ranked thrs h

/-- non-vacuity (independent of how the mutexes are numbered): there is nesting among the mutexes of FeatureLocal, and
    for every extracted edge (h, m) the state "a verdict holds h and asks for m, a clean-up holds m" is within those
    mutexes and respects C17's table -/
example : Generated.ApprovalLocks.edges ≠ [] ∧
    ∀ e ∈ Generated.ApprovalLocks.edges, e.1 ∈ Generated.ApprovalLocks.mutexes ∧ e.2 ∈ Generated.ApprovalLocks.mutexes ∧
      e ∈ Generated.Locks.lockEdges := by decide +kernel

example (h m : Nat) (hh : h ∈ Generated.ApprovalLocks.mutexes) (hm : m ∈ Generated.ApprovalLocks.mutexes)
    (he : (h, m) ∈ Generated.Locks.lockEdges) :
    ApprL.Within Generated.ApprovalLocks.mutexes [⟨[h], some m⟩, ⟨[m], none⟩] ∧
    RespectsEdges Generated.Locks.lockEdges [⟨[h], some m⟩, ⟨[m], none⟩] := by
  refine ⟨?_, ?_⟩
  · intro t ht
    simp only [List.mem_cons, List.mem_nil_iff, or_false] at ht
    rcases ht with rfl | rfl
    · exact ⟨by intro x hx; simp at hx; exact hx ▸ hh, by intro x hx; injection hx with hx; exact hx ▸ hm⟩
    · exact ⟨by intro x hx; simp at hx; exact hx ▸ hm, by intro x hx; cases hx⟩
  · intro t ht
    simp only [List.mem_cons, List.mem_nil_iff, or_false] at ht
    rcases ht with rfl | rfl
    · show ∀ x ∈ [h], (x, m) ∈ Generated.Locks.lockEdges
      intro x hx; simp at hx; exact hx ▸ he
    · trivial

/-- … ⇒ every pending write gets an outcome in every schedule: with the steps able to run, the model-level progress
    theorem applies — from every reachable state a write that has arrived is resolved by the two halves of its own
    timeout (`Appr.resolvable`), whatever verdicts, other writes and timeouts came before. -/
theorem c12_every_pending_write_gets_an_outcome (n : Nat) (evs : List Appr.Ev) (hnd : ∀ e ∈ evs, e ≠ .drop)
    (w : Nat) (hw : w ∈ (Appr.run Appr.Cfg.clean n evs).seen) :
    Ranked Generated.ApprovalLocks.rank Generated.ApprovalLocks.edges ∧
    ((Appr.run Appr.Cfg.clean n (evs ++ [.timeoutTake w, .timeoutSend w])).outcomes.map (·.1)).count w = 1 :=
  ⟨c12_approval_lock_order_ranked, Appr.resolvable n evs hnd w hw⟩

/-- non-vacuity: two callbacks, one approval so far, a verdict past its lookup: the timeout still resolves it -/
example : ((Appr.run Appr.Cfg.clean 2 ([.arrive 1, .lookup 10 1, .commit 10 true, .lookup 11 1] ++
    [.timeoutTake 1, .timeoutSend 1])).outcomes.map (·.1)).count 1 = 1 := by decide

/-! ### event granularity and flags of the model, regenerated (translator generator `approval`)

`Spine.Appr` splits a verdict into `lookup` / `commit` and the timeout into `timeoutTake` / `timeoutSend`; the family
flags `ignoreStop` and `recheck` say whether the result of `timer.Stop()` is used and whether the pending entry is
looked at again before the tally is touched. The probe phase of the harness selects the member by running witnesses;
here the same is read off the source (semantically: registries by their types, helpers inlined) and re-checked. -/

/-- a verdict is two critical sections (pending lookup under the registry's mutex alone; then tally, Stop, removal,
    result / apply in ONE section of the tally mutex), the timeout function is two halves (removal under the
    registry's mutex, result with no mutex of the feature held): the events of `Spine.Appr` -/
theorem c12_events_match_source :
    Generated.Approval.verdictTwoSections = true ∧ Generated.Approval.commitOneSection = true ∧
    Generated.Approval.timeoutTwoHalves = true := by decide

/-- the member of the family the SOURCE is, for the two flags that are visible in the text: the result of Stop() is
    used — and guards EVERY result: nothing is sent or applied after the Stop() on a path that has not tested its result,
    for the approval and for the denial alike — and the pending entry is re-checked — the repaired values (the tally flag and the message-identity flag are
    probed by witnesses only) -/
theorem c12_source_member_flags :
    (!(Generated.Approval.stopResultUsed && Generated.Approval.stopGuardsEveryResult)) = Appr.Cfg.clean.ignoreStop ∧
    Generated.Approval.recheck = ({} : ApprE.Cfg).recheck := by decide

/-- "no write ever has two outcomes", all schedules, for the member whose `ignoreStop` flag is READ FROM THE SOURCE
    (tally flag as probed: repaired) -/
theorem c12_at_most_one_outcome_source (n : Nat) (evs : List Appr.Ev) (w : Nat) :
    ((Appr.run { tallyReset := false,
                 ignoreStop := !(Generated.Approval.stopResultUsed && Generated.Approval.stopGuardsEveryResult) }
        n evs).outcomes.filter (·.1 = w)).length ≤ 1 := by
  have h : (!(Generated.Approval.stopResultUsed && Generated.Approval.stopGuardsEveryResult)) = false := by decide
  rw [h]
  exact Appr.c12_at_most_one_outcome n evs w

/-- non-vacuity: on a source that discards the result of Stop() the same statement is false (the racing schedule) -/
example : ¬ ((Appr.run { tallyReset := false, ignoreStop := !false } 1
    [.arrive 1, .lookup 10 1, .timeoutTake 1, .timeoutSend 1, .commit 10 true]).outcomes.filter (·.1 = 1)).length ≤ 1 := by
  decide

end Spine.Props.C12Gen
