import Spine.Heartbeat
import Spine.HBCounter
import Spine.Period
import Spine.HBPace
import Spine.HBStampSrc
import Spine.Generated.Heartbeat
/-!
# C16 — facts regenerated from spine/heartbeat_manager.go on every run (tie b1)

The event granularity of `Spine.HB` (start and stop as ONE event each), the shape of the atomic events (close only
when running; close before make before go; the goroutine listens on the channel made in the same section), the
two-step refresh of `Spine.HBC` (atomic draw, then store) and the period rule of `Spine.HB.period` are facts about the
source text. The translator (generator `heartbeat`, go/cmd/translate/gen_heartbeat.go) re-extracts them from the tree
under test — semantically: the manager is the type with `StartHeartbeat`/`StopHeartbeat`, its channel and mutexes are
found by their types, helpers are inlined, `defer` and explicit unlocks are the same — and these theorems are
re-checked by every `./check C16`. A code change that alters one of them breaks the obligation named here.
-/
namespace Spine.Props.C16Gen
open Spine

/-- StartHeartbeat and StopHeartbeat are one critical section each, of the mutex that IsHeartbeatRunning takes too:
    this is why the model of the current code has `startAtomic` / `stopAtomic` as single events -/
theorem c16_start_stop_one_critical_section_each :
    Generated.Heartbeat.startOneSection = true ∧ Generated.Heartbeat.stopOneSection = true ∧
    Generated.Heartbeat.sameMutex = true := by decide

/-- the shape of the atomic events: a close happens only after the running test (not nil, not closed) in the same
    section (`stopAtomic = if running then closeCur`), and a start is close-if-running, then make, then go, the
    goroutine being handed the channel by the go statement inside the section (`startAtomic`) -/
theorem c16_atomic_events_match_source :
    Generated.Heartbeat.closeGuarded = true ∧ Generated.Heartbeat.startOrder = true ∧
    Generated.Heartbeat.spawnGetsChannel = true ∧ Generated.Heartbeat.loopExitsOnStop = true := by decide

/-- "starting it again never produces two concurrent streams; start and stop … in any order without panicking", for
    the code AS REGENERATED: every event list admitted by the facts extracted from the tree under test — all
    interleavings of any number of starts, stops and goroutine exits — has no panic and at most one stream that has
    not been told to stop. (If a fact turns false this theorem no longer type-checks; `HB.admitted_split_refutes`
    shows the witnesses of the split code are then admitted.) -/
theorem c16_single_stream_no_panic_source (evs : List HB.Ev)
    (h : ∀ e ∈ evs, HB.admitted Generated.Heartbeat.startOneSection Generated.Heartbeat.stopOneSection e = true) :
    (HB.run evs).panicked = false ∧ (HB.live (HB.run evs)).length ≤ 1 :=
  HB.c16_single_stream_no_panic_of_facts _ _ (by decide) (by decide) evs h

/-- non-vacuity: an admitted list with restarts, stops and exits -/
example :
    let evs : List HB.Ev := [.startAtomic, .startAtomic, .exit 0, .stopAtomic, .stopAtomic, .startAtomic, .exit 1]
    (∀ e ∈ evs, HB.admitted Generated.Heartbeat.startOneSection Generated.Heartbeat.stopOneSection e = true) ∧
      HB.live (HB.run evs) = [2] := by decide

/-- a refresh is the two steps of `Spine.HBC`: the counter is drawn by an atomic add (one `draw` event), then the
    data is stored under the manager's lock (one `store` event) -/
theorem c16_refresh_is_draw_then_store :
    Generated.Heartbeat.refreshDrawThenStore = true ∧ Generated.Heartbeat.counterAtomic = true ∧
    Generated.Heartbeat.storeUnderManagerLock = true := by decide

/-- the period rule of the model is the source's: `if d > 2 s { d -= 2 s }` with the source's two constants -/
theorem c16_period_rule_matches_source (t : Nat) :
    HB.period t = if t > Generated.Heartbeat.thresholdMs then t - Generated.Heartbeat.cutMs else t := by
  have h1 : Generated.Heartbeat.thresholdMs = 2000 := by decide
  have h2 : Generated.Heartbeat.cutMs = 2000 := by decide
  rw [h1, h2]; rfl

/-- hence "period not exceeding the announced timeout" for the constants of the tree under test (any cut that does
    not exceed the threshold keeps the period positive) -/
theorem c16_period_le_timeout_source (t : Nat) (ht : 0 < t) :
    0 < (if t > Generated.Heartbeat.thresholdMs then t - Generated.Heartbeat.cutMs else t) ∧
    (if t > Generated.Heartbeat.thresholdMs then t - Generated.Heartbeat.cutMs else t) ≤ t := by
  have hc : Generated.Heartbeat.cutMs ≤ Generated.Heartbeat.thresholdMs := by decide
  split <;> omega

example : HB.period 2300 = 300 ∧ Generated.Heartbeat.thresholdMs = 2000 := by decide

/-- what paces the loop of the tree under test is NOT a timer armed anew in every iteration (`time.After` in the
    select, a timer / ticker created or reset inside the loop): the translator found no such construction on the path
    from a `time.*` constructor to the channel the refresh case receives from -/
theorem c16_not_paced_per_iteration_source :
    HBP.paceOf Generated.Heartbeat.pacing ≠ some .perIteration := by decide

/-- hence, for the pacing read off the source (when recognised): consecutive refreshes begin exactly one period apart
    — at most the announced timeout — however long a refresh takes (up to a period) -/
theorem c16_refresh_gap_le_timeout_source (p : HBP.Pace) (hp : HBP.paceOf Generated.Heartbeat.pacing = some p)
    (t : Nat) (ht : 0 < t) (r : Nat → Nat) (hr : ∀ k, r k ≤ HB.period t) (k : Nat) :
    HBP.begins p (HB.period t) r (k + 1) - HBP.begins p (HB.period t) r k ≤ t := by
  cases p with
  | ticker => exact (HBP.gap_le_timeout t ht r hr k).2
  | perIteration => exact absurd hp c16_not_paced_per_iteration_source

example : HBP.begins .ticker (HB.period 1000) (fun _ => 150) 2 - HBP.begins .ticker (HB.period 1000) (fun _ => 150) 1 = 1000 := by
  decide

/-- "carrying … a current timestamp", the source of the reading: in the tree under test the value that is formatted into
    the data a refresh stores does NOT derive from the value received from the ticker's channel, from a clock reading
    taken before the tick was received (before the loop, at the top of the loop) or from one carried over from an earlier
    iteration. The translator follows the data argument of the store back through locals, helpers and conversions to the
    calls it derives from (generator `heartbeat`, fact stampSource). -/
theorem c16_timestamp_not_from_tick_source :
    HBS.srcOf Generated.Heartbeat.stampSource ≠ some .tick := by decide

/-- hence, for the source read off the tree under test (when recognised): the timestamp text of EVERY refresh denotes
    the instant that refresh begins, up to the resolution of the text — however long earlier refreshes were held up by
    a back-pressured subscriber (`r` arbitrary), in every local zone -/
theorem c16_timestamp_current_source (s : HBS.Src) (hs : HBS.srcOf Generated.Heartbeat.stampSource = some s)
    (d : Nat) (r : Nat → Nat) (k : Nat) (zone : Int) :
    HBS.denoted {} (HBS.reading s d r k : Nat) zone - (HBP.begins .ticker d r k : Nat) ≤ 500 ∧
    (HBP.begins .ticker d r k : Nat) - HBS.denoted {} (HBS.reading s d r k : Nat) zone ≤ 500 := by
  cases s with
  | clock => exact HBS.clock_current d r k zone
  | tick => exact absurd hs c16_timestamp_not_from_tick_source

/-- non-vacuity: period 1 s, refresh 1 held up for 3.5 s; refresh 2 begins at 5.5 s and its text denotes 5 s or 6 s -/
example : HBS.srcOf Generated.Heartbeat.stampSource = some .clock ∧
    HBP.begins .ticker 1000 (fun k => if k = 1 then 3500 else 0) 2 = 5500 ∧
    HBS.denoted {} (HBS.reading .clock 1000 (fun k => if k = 1 then 3500 else 0) 2 : Nat) 7200 = 6000 := by decide

/-- and this is what the fact excludes: with the tick's value the refresh that follows a hold-up of a period plus more
    than a second carries a timestamp that lies more than the resolution before the refresh began (for every period,
    every history of refresh durations) — while on an undisturbed heartbeat the two sources cannot be told apart -/
theorem c16_timestamp_from_tick_refuted (d : Nat) (r : Nat → Nat) (k s : Nat) (hr : d + s ≤ r k) (hs : 1000 < s)
    (zone : Int) :
    500 < ((HBP.begins .ticker d r (k + 1) : Nat) : Int) - HBS.denoted {} (HBS.reading .tick d r (k + 1) : Nat) zone :=
  HBS.tick_not_current d r k s hr hs zone

example : HBS.reading .tick 1000 (fun k => if k = 1 then 3500 else 0) 2 = 3000 ∧
    HBP.begins .ticker 1000 (fun k => if k = 1 then 3500 else 0) 2 = 5500 := by decide

theorem c16_timestamp_sources_agree_when_prompt (d : Nat) (hd : 0 < d) (r : Nat → Nat) (hr : ∀ k, r k ≤ d) (k : Nat) :
    HBS.reading .tick d r k = HBS.reading .clock d r k :=
  HBS.tick_is_clock_when_prompt d hd r hr k

example : HBS.reading .tick 400 (fun _ => 150) 3 = 1600 ∧ HBS.reading .clock 400 (fun _ => 150) 3 = 1600 := by decide

end Spine.Props.C16Gen
