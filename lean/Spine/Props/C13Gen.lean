import Spine.Sender
import Spine.SenderEvThm
import Spine.Generated.Sender
/-!
# C13 — facts regenerated from spine/send.go on every run (tie b1)

The hand-written models `Spine.Snd` / `Spine.SndEv` / `Spine.Ctr` rest on facts about the source text: which
statements are one critical section, in which order a send draws, stores and writes, which lock the response path
takes. The translator (generator `sender`) re-establishes them from `/repo`'s current tree by ABSTRACT INTERPRETATION
of the Sender's methods over go/ast (go/cmd/translate/absint.go: helpers of the package inlined, deferred calls run
at frame end, both arms of undecidable branches explored; the request mutex, the request cache, the cache lock and
the counter are identified by what they are, not by name). Extracted helpers, renames of unexported identifiers,
moved files, `defer` vs explicit unlock, if/else vs early return leave the facts unchanged. These theorems are
re-checked by every `./check C13`. A code change that alters one of them breaks the obligation named here.
-/
namespace Spine.Props.C13Gen
open Spine

/-- the model's eviction limit and LRU capacity are the source's literals -/
theorem c13_params_match_source :
    Generated.Sender.reqCacheLimit = ({} : Snd.St).limit ∧ Generated.Sender.notifyCacheCap = ({} : Snd.St).cap := by
  decide

/-- `Request` is one critical section (lookup → send → insert under `muxRequestSend`): this is why
    the model has `request` as ONE event and `c13_cache_bounded` / `c13_withheld_only_if` cover
    concurrent callers of `Request` -/
theorem c13_request_is_one_event : Generated.Sender.requestOneRegion = true := by decide

/-- the counter is drawn by a single atomic add and each send draws exactly once: this is why the
    event-sourced model `Spine.Ctr` has `take` as one event per send and `c13_unique` covers all
    interleavings -/
theorem c13_counter_draw_is_atomic :
    Generated.Sender.counterAtomic = true ∧ Generated.Sender.oneDrawPerSend = true := by decide

/-- ... and the draw precedes the write in every sending method: `take` before `emit` in `Spine.Ctr`, and what the
    deterministic overlapping groups of the harness rely on (a send that is about to write has drawn already) -/
theorem c13gen_draw_precedes_write : Generated.Sender.drawPrecedesWrite = true := by decide

/-- The event split of `Spine.SndEv`: the response path does not take the request mutex and `Request` writes to the
    connection while the cache lock is free — so a response CAN be processed between the write and the insertion, and
    `reqBegin` / `reqEnd` / `plain (response r)` are the right events; every access to the request cache is under the
    cache lock, so each of the three is atomic with respect to the others. -/
theorem c13gen_response_interleaves_with_request :
    Generated.Sender.responsePathSkipsRequestMutex = true ∧ Generated.Sender.writeOutsideCacheLock = true ∧
    Generated.Sender.cacheAccessUnderCacheLock = true := by decide

/-- The family member: the tree under test remembers a request either after the write (as written: the member
    `insertFirst = false`, for which `c13_answer_overtakes_insert_refuted` and `c13_dedup_sound_partial` hold) or
    before it (repaired: `insertFirst = true`, `c13_dedup_sound_all_interleavings`) — exactly one of the two. The
    harness probes the same flag dynamically (`insertAfterWrite`); the driver reports this static value (`member`) and
    the harness records a mismatch if the two disagree. -/
theorem c13gen_request_member :
    (Generated.Sender.requestRemembersBeforeWrite = true ∧ Generated.Sender.requestRemembersAfterWrite = false) ∨
    (Generated.Sender.requestRemembersBeforeWrite = false ∧ Generated.Sender.requestRemembersAfterWrite = true) := by
  decide

/-- for the member the source says it is, the de-duplication clauses hold under every interleaving that is calm for
    that member (for the repaired member: every interleaving) -/
theorem c13gen_member_sound (evs : List SndEv.Ev)
    (hcalm : Generated.Sender.requestRemembersBeforeWrite = false →
      SndEv.calm Generated.Sender.requestRemembersBeforeWrite {} evs = true) :
    (Snd.Spec.run [] (SndEv.observations Generated.Sender.requestRemembersBeforeWrite {} evs)).isSome :=
  SndEv.run_coupled _ evs {} [] (SndEv.init_coupled _) hcalm

/-- non-vacuity: the interleaving with a response to another counter inside the window is calm in both members -/
example : ∀ f : Bool, SndEv.calm f {} [.reqBegin 1 7, .reqEnd 1, .reqBegin 2 8, .plain (.response 1), .reqEnd 2] = true := by
  decide

/-- "Notify stores the datagram before sending": why `Snd.notify` puts the counter into the LRU in the same event
    that draws it, and why `c13_notify_retrievable_at_once` speaks about the code -/
theorem c13gen_notify_stores_before_write : Generated.Sender.notifyStoresBeforeWrite = true := by decide

end Spine.Props.C13Gen
