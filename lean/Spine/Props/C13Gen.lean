import Spine.Sender
import Spine.Generated.Sender
/-!
# C13 — facts regenerated from spine/send.go on every run (tie b1)

The hand-written model `Spine.Snd` / `Spine.Ctr` rests on five facts about the source text. The
translator re-extracts them from `/repo`'s current tree; these theorems are re-checked by every
`./check C13`. A code change that alters one of them breaks the obligation named here.
-/
namespace Spine.Props.C13Gen
open Spine

/-- the model's eviction limit and LRU capacity are the source's literals -/
theorem c13_params_match_source :
    Generated.Sender.reqCacheLimit = ({} : Snd.St).limit ∧ Generated.Sender.notifyCacheCap = ({} : Snd.St).cap := by
  decide

/-- `Request` is one critical section (lookup → send → insert under `muxRequestSend`): this is why
    the model has `request` as ONE event and `c13_cache_bounded` / `c13_withheld_only_if` cover
    concurrent callers of `Request` -/
theorem c13_request_is_one_event : Generated.Sender.requestOneRegion = true := by decide

/-- the counter is drawn by a single atomic add and each send draws exactly once: this is why the
    event-sourced model `Spine.Ctr` has `take` as one event per send and `c13_unique` covers all
    interleavings -/
theorem c13_counter_draw_is_atomic :
    Generated.Sender.counterAtomic = true ∧ Generated.Sender.oneDrawPerSend = true := by decide

end Spine.Props.C13Gen
