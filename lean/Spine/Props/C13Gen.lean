import Spine.Sender
import Spine.SenderEvThm
import Spine.Generated.Sender
/-!
# C13 — facts regenerated from spine/send.go on every run (tie b1)

The hand-written models `Spine.Snd` / `Spine.SndEv` / `Spine.Ctr` rest on facts about the source text: which
statements are one critical section, in which order a send draws, stores and writes, which lock the response path
takes. The translator (generator `sender`) re-establishes them from `/repo`'s current tree by ABSTRACT INTERPRETATION
of the Sender's methods over go/ast (go/cmd/translate/absint.go: helpers of the package inlined, deferred calls run
at frame end, both arms of undecidable branches explored; the request mutex, the request cache, the cache lock and
the counter are identified by what they are, not by name). Extracted helpers, renames of unexported identifiers,
moved files, `defer` vs explicit unlock, if/else vs early return leave the facts unchanged. These theorems are
re-checked by every `./check C13`. A code change that alters one of them breaks the obligation named here.
-/
namespace Spine.Props.C13Gen
open Spine

/-- the model's eviction limit and LRU capacity are the source's literals -/
theorem c13_params_match_source :
    Generated.Sender.reqCacheLimit = ({} : Snd.St).limit ∧ Generated.Sender.notifyCacheCap = ({} : Snd.St).cap := by
  decide

/-- `Request` is one critical section (lookup → send → insert under `muxRequestSend`): this is why
    the model has `request` as ONE event and `c13_cache_bounded` / `c13_withheld_only_if` cover
    concurrent callers of `Request` -/
theorem c13_request_is_one_event : Generated.Sender.requestOneRegion = true := by decide

/-- the counter is drawn by a single atomic add and each send draws exactly once: this is why the
    event-sourced model `Spine.Ctr` has `take` as one event per send and `c13_unique` covers all
    interleavings -/
theorem c13_counter_draw_is_atomic :
    Generated.Sender.counterAtomic = true ∧ Generated.Sender.oneDrawPerSend = true := by decide

/-- ... and the draw precedes the write in every sending method: `take` before `emit` in `Spine.Ctr`, and what the
    deterministic overlapping groups of the harness rely on (a send that is about to write has drawn already) -/
theorem c13gen_draw_precedes_write : Generated.Sender.drawPrecedesWrite = true := by decide

/-- The events of `Spine.SndEv` are atomic with respect to each other: every access to the request cache — the lookup
    and the insertion of `Request`, the removal of the response path — happens under the cache lock, stores and deletes
    under its write lock. (Whether a response can fall BETWEEN the write and the insertion is the next fact; the
    event-sourced model allows it in any case, so its theorems over-approximate the schedules of a tree where it
    cannot.) -/
theorem c13gen_cache_events_atomic : Generated.Sender.cacheAccessUnderCacheLock = true := by decide

/-- The window: when the response path does not take the request mutex, `Request` writes to the connection while the
    cache lock is free and remembers the request after the write, a response can be processed between write and
    insertion — then the refutation of the member as written is a schedule of the tree under test. (In a tree without
    the window — the response path serialised behind the request mutex, say — the hypothesis is false, requests and
    responses do not overlap and the sequential theorems `c13_model_satisfies_spec` apply.) -/
theorem c13gen_window_realises_witness
    (_h : (Generated.Sender.responsePathSkipsRequestMutex && Generated.Sender.writeOutsideCacheLock &&
      Generated.Sender.requestRemembersAfterWrite) = true) :
    Snd.Spec.run [] (SndEv.observations false {}
      [.reqBegin 1 7, .plain (.response 1), .reqEnd 1, .reqBegin 2 7]) = none := by decide

/-- The family member: the tree under test remembers a request either after the write (as written: the member
    `insertFirst = false`, for which `c13_answer_overtakes_insert_refuted` and `c13_dedup_sound_partial` hold) or
    before it (repaired: `insertFirst = true`, `c13_dedup_sound_all_interleavings`) — exactly one of the two. The
    harness probes the same flag dynamically (`insertAfterWrite`); the driver reports the static member (`member`:
    before / after with the window / after without a window) and the harness records a mismatch if the probe disagrees. -/
theorem c13gen_request_member :
    (Generated.Sender.requestRemembersBeforeWrite = true ∧ Generated.Sender.requestRemembersAfterWrite = false) ∨
    (Generated.Sender.requestRemembersBeforeWrite = false ∧ Generated.Sender.requestRemembersAfterWrite = true) := by
  decide

/-- for the member the source says it is, the de-duplication clauses hold under every interleaving that is calm for
    that member (for the repaired member: every interleaving) -/
theorem c13gen_member_sound (evs : List SndEv.Ev)
    (hcalm : Generated.Sender.requestRemembersBeforeWrite = false →
      SndEv.calm Generated.Sender.requestRemembersBeforeWrite {} evs = true) :
    (Snd.Spec.run [] (SndEv.observations Generated.Sender.requestRemembersBeforeWrite {} evs)).isSome :=
  SndEv.run_coupled _ evs {} [] (SndEv.init_coupled _) hcalm

/-- non-vacuity: the interleaving with a response to another counter inside the window is calm in both members -/
example : ∀ f : Bool, SndEv.calm f {} [.reqBegin 1 7, .reqEnd 1, .reqBegin 2 8, .plain (.response 1), .reqEnd 2] = true := by
  decide

/-- "Notify stores the datagram before sending": why `Snd.notify` puts the counter into the LRU in the same event
    that draws it, and why `c13_notify_retrievable_at_once` speaks about the code -/
theorem c13gen_notify_stores_before_write : Generated.Sender.notifyStoresBeforeWrite = true := by decide

end Spine.Props.C13Gen
