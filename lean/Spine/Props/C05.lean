import Spine.Header
import Spine.Wedge
import Spine.Dispatch
/-!
# C05 — no inbound byte sequence can crash or wedge the stack

Property theorems only (lemmas: `Spine/Header.lean`, `Spine/Wedge.lean`, `Spine/DiscoveryThm.lean`).

What is a theorem here and what is not:

* **Header layer** (`Spine.Hdr.pre`: everything `DeviceLocal.ProcessCmd` and the sender's `PrintMessageOverview`
  dereference before the feature layer is reached, over a datagram whose every such part is optional; validated
  against the real code on the exhaustive grid of 10 080 datagrams on every run). *Proved*: the exact set of
  panicking datagrams of the code as written (`c05_hdr_characterisation`), of every member of the repair family
  (`c05_hdr_family`), totality of every member that has the three guards (`c05_hdr_total`), and that each guard
  is needed (`c05_hdr_each_guard_needed`). *Refuted* for the code as written: totality
  (`c05_hdr_total_refuted`, one witness per site).
* **Still serves** (`Spine.Disc` remote tree + `Spine.Disp.processCmd`). *Proved*: a discovery read is answered
  with exactly one reply iff the peer's node-management feature is still known (`c05_still_serves`,
  `c05_wedged_is_silent`). The invariant `c05_nm_present` is *refuted* for the code as written by three witnesses
  (`c05_nm_present_refuted`), holds on the region `c05_nm_present_partial`, and is *proved* for the member with
  the two guards (`c05_nm_present`).
* **Not a theorem**: panic freedom below the header layer (discovery descriptions, request bodies, selectors,
  function tables) is explored by the structured mutator of the harness (monitor), and totality over *all byte
  strings* rests on assumption A-json (`encoding/json` returns an error instead of panicking); `c05_total` for the
  whole handler is the target after the repairs, it is not stated here because the model below the header
  layer is not an `Except PanicSite` model yet.
-/
namespace Spine.Props.C05
open Spine

/-! ## header layer -/

/-- a valid read from a known source to a known destination that the feature answers -/
def okRead : Hdr.Raw :=
  { src := some ([1], 1), dst := some ([1], 1), cls := some .read, ref := none, msgCounter := true, cmds := 1,
    filterWithoutCmdControl := false, resultData := false, errorNumber := false, srcKnown := true, dstKnown := true,
    responds := true }

/-- C05, header layer, code as written: exactly these datagrams panic — absent destination; a filter without
    `cmdControl`; absent source; a request without `msgCounter` that is answered (error result or the feature's
    reply / result); `reply` / `result` without `msgCounterReference`; `result` without `resultData.errorNumber`. -/
theorem c05_hdr_characterisation (d : Hdr.Raw) :
    (∃ s, Hdr.pre Hdr.Cfg.asWritten d = .panic s) ↔
      (d.dst = none ∨
       (d.cmds ≠ 0 ∧ d.filterWithoutCmdControl = true) ∨
       (d.cmds ≠ 0 ∧ d.src = none) ∨
       (d.cmds ≠ 0 ∧ d.src ≠ none ∧ d.srcKnown = true ∧ d.msgCounter = false ∧
          (d.cls = none ∨ d.dstKnown = false ∨ d.responds = true)) ∨
       (d.cmds ≠ 0 ∧ d.src ≠ none ∧ d.srcKnown = true ∧ d.dstKnown = true ∧
          (((d.cls = some .reply ∨ d.cls = some .result) ∧ d.ref = none) ∨
           (d.cls = some .result ∧ (d.resultData = false ∨ d.errorNumber = false))))) :=
  Hdr.pre_panics_iff d

/-- non-vacuity: both sides occur — the valid read proceeds, the same read without `msgCounter` panics in the
    sender's overview -/
example : Hdr.pre Hdr.Cfg.asWritten okRead = .proceed ∧
    Hdr.pre Hdr.Cfg.asWritten { okRead with msgCounter := false } = .panic "PrintMessageOverview(nil reference, outgoing)" := by
  decide

/-- C05, header layer, the family: for every combination of repairs, exactly which datagrams panic. -/
theorem c05_hdr_family (c : Hdr.Cfg) (d : Hdr.Raw) : (∃ s, Hdr.pre c d = .panic s) ↔ Hdr.PanicGuard c d :=
  Hdr.pre_panics_iff_cfg c d

/-- non-vacuity: a member with one repair still panics on another site -/
example : Hdr.pre ⟨true, false, true, false⟩ { okRead with filterWithoutCmdControl := true } = .panic "ExtractFilter(nil cmdControl)" := by
  decide

/-- C05, header layer, repaired: a member with the three guards (address check, `ExtractFilter`, nil-safe
    `PrintMessageOverview`) panics on no datagram, whatever the state of the C01 repair. -/
theorem c05_hdr_total (c : Hdr.Cfg) (ha : c.addr = true) (hf : c.filter = true) (hp : c.pmo = true) (d : Hdr.Raw) :
    ∀ s, Hdr.pre c d ≠ .panic s :=
  Hdr.pre_total c ha hf hp d

/-- non-vacuity: the repaired member is not constant — it drops, answers with an error result, and proceeds -/
example : Hdr.pre Hdr.Cfg.repaired { okRead with dst := none } = .dropped ∧
    Hdr.pre Hdr.Cfg.repaired { okRead with cls := none, msgCounter := false } = .errorResult ∧
    Hdr.pre Hdr.Cfg.repaired { okRead with msgCounter := false } = .proceed := by
  decide

/-- REFUTED on the code as written (known findings `panic:device_local.go:FeatureByAddress`,
    `…:ProcessCmd`, `panic:commandframe_additions.go:ExtractFilter`, `panic:datagram_additions.go:PrintMessageOverview`):
    header-layer totality. One witness per site; each is a grid point of the harness and a corpus entry. -/
theorem c05_hdr_total_refuted :
    Hdr.pre Hdr.Cfg.asWritten { okRead with dst := none } = .panic "FeatureByAddress(nil destination)" ∧
    Hdr.pre Hdr.Cfg.asWritten { okRead with src := none } = .panic "ProcessCmd(nil source)" ∧
    Hdr.pre Hdr.Cfg.asWritten { okRead with filterWithoutCmdControl := true } = .panic "ExtractFilter(nil cmdControl)" ∧
    Hdr.pre Hdr.Cfg.asWritten { okRead with cls := some .reply } = .panic "PrintMessageOverview(nil reference)" ∧
    Hdr.pre Hdr.Cfg.asWritten { okRead with cls := some .result, ref := some 7, resultData := true } = .panic "PrintMessageOverview(nil result data)" ∧
    Hdr.pre Hdr.Cfg.asWritten { okRead with dstKnown := false, msgCounter := false } = .panic "PrintMessageOverview(nil reference, outgoing)" ∧
    Hdr.pre Hdr.Cfg.asWritten { okRead with cls := none, msgCounter := false } = .panic "PrintMessageOverview(nil reference, outgoing)" := by
  decide

/-- each of the three guards is needed: with the other two in place, leaving one out still admits a panic -/
theorem c05_hdr_each_guard_needed :
    (∃ d s, Hdr.pre ⟨false, true, true, true⟩ d = .panic s) ∧
    (∃ d s, Hdr.pre ⟨true, false, true, true⟩ d = .panic s) ∧
    (∃ d s, Hdr.pre ⟨true, true, false, true⟩ d = .panic s) :=
  ⟨⟨{ okRead with dst := none }, "FeatureByAddress(nil destination)", by decide⟩,
   ⟨{ okRead with filterWithoutCmdControl := true }, "ExtractFilter(nil cmdControl)", by decide⟩,
   ⟨{ okRead with cls := some .reply }, "PrintMessageOverview(nil reference)", by decide⟩⟩

/-! ## still serves -/

/-- a well-formed detailed-discovery read (payload function 901 of the dispatch model) -/
def discRead (src dst : List Nat × Nat) (ctr : Nat) : Disp.Dg :=
  { src := src, dst := dst, ctr := some ctr, ref := none, cls := .read, ack := false, fn := 901 }

/-- C05, second sentence: a valid detailed-discovery read from a connected peer whose source feature is known,
    addressed to the local node-management feature, is answered with exactly one reply that references the
    read, goes back to its source and names the local device — in every member of the dispatch family. -/
theorem c05_still_serves (w : Disp.W) (p : Nat) (src dst : List Nat × Nat) (ctr : Nat) (rf : Disp.RF) (lf : Disp.LF)
    (hs : Disp.srcF w p (discRead src dst ctr) = some rf) (hd : Disp.dstF w (discRead src dst ctr) = some lf)
    (hnm : lf.nm = true) :
    (Disp.processCmd w p (discRead src dst ctr)).2 = [(p, .reply (some ctr) 901 dst src 0 (some 0))] := by
  unfold Disp.processCmd
  simp only [hs, hd]
  simp [discRead, Disp.crashes, Disp.inPanics, Disp.responses, Disp.handle, Disp.handleNM, Disp.wantsRead,
    Disp.applies, Disp.tag, Disp.replyVal, hnm]

/-- … and this is *not* a corollary of panic freedom: a peer whose source feature is not known any more is
    answered nothing at all, whatever it sends (the wedge). -/
theorem c05_wedged_is_silent (w : Disp.W) (p : Nat) (d : Disp.Dg) (h : Disp.srcF w p d = none) :
    (Disp.processCmd w p d).2 = [] := by
  unfold Disp.processCmd
  simp only [h]

/-- a world with one node-management feature on each side -/
def exW : Disp.W :=
  { loc := [{ ent := [0], feat := 0, typ := 0, role := .special, fds := [], ops := [], nm := true }],
    peers := fun _ => { feats := [{ ent := [0], feat := 0, fds := [] }], msgNum := 0, req := [] },
    binds := [] }

/-- non-vacuity of both: the hypotheses of `c05_still_serves` are met in `exW`; with the peer's feature list
    wiped those of `c05_wedged_is_silent` are -/
example : (Disp.srcF exW 1 (discRead ([0], 0) ([0], 0) 5)).isSome = true ∧
    (Disp.dstF exW (discRead ([0], 0) ([0], 0) 5)).isSome = true ∧
    (Disp.srcF { exW with peers := fun _ => { feats := [], msgNum := 0, req := [] } } 1 (discRead ([0], 0) ([0], 0) 5)).isNone = true := by
  decide

/-- the tree of a freshly connected peer: entity `[0]` with node management, one more entity -/
def tree0 : Disc.Tree := Disc.t0

/-- REFUTED on the code as written (known findings `wedge:device-information-removed`,
    `wedge:node-management-feature-removed`): "every connected peer keeps entity `[0]` with its node-management
    feature under every inbound discovery message". Three structurally valid messages break it: a full
    notification that lists nothing, a partial notification that marks `[0]` removed, and a reply that announces
    `[0]` without feature `0`. -/
theorem c05_nm_present_refuted :
    Disc.nmPresent tree0 = true ∧
    Disc.nmPresent (Disc.notifyFull { ents := [], feats := [] } tree0).1 = false ∧
    Disc.nmPresent (Disc.notifyPartial { ents := [Disc.mkEI [0] 0 .removed], feats := [] } tree0).1 = false ∧
    Disc.nmPresent (Disc.reply { ents := [Disc.mkEI [0] 0 .none], feats := [] } tree0).1 = false := by
  decide

/-- C05 (partial, code as written): the invariant survives every reply and every partial notification that does
    not name entity `[0]`, and every full notification that lists it. -/
theorem c05_nm_present_partial (m : Disc.Msg) (t : Disc.Tree) (h : Disc.nmPresent t = true) :
    ((∀ ei ∈ m.ents, ei.addr ≠ [0]) → Disc.nmPresent (Disc.reply m t).1 = true ∧ Disc.nmPresent (Disc.notifyPartial m t).1 = true) ∧
    ([0] ∈ m.ents.map (·.addr) → Disc.nmPresent (Disc.notifyFull m t).1 = true) := by
  refine ⟨fun hn => ⟨?_, ?_⟩, fun hl => ?_⟩
  · rw [Disc.nmPresent_of_find _ _ (Disc.reply_other m t [0] hn)]; exact h
  · rw [Disc.nmPresent_of_find _ _ (Disc.notifyPartial_other m t [0] hn)]; exact h
  · have hk : (Disc.findE t [0]).isSome = true := by
      unfold Disc.nmPresent at h
      cases hf : Disc.findE t [0] with
      | none => simp [hf] at h
      | some _ => rfl
    rw [Disc.nmPresent_of_find _ _ (Disc.notifyFull_listed m t [0] hk hl)]; exact h

/-- non-vacuity: a notification that adds entity `[1]` and removes entity `[2]` meets the hypothesis and changes
    the tree -/
example : (∀ ei ∈ ([Disc.mkEI [1] 1 .added, Disc.mkEI [2] 1 .removed] : List Disc.EI), ei.addr ≠ [0]) ∧
    (Disc.notifyPartial { ents := [Disc.mkEI [1] 1 .added, Disc.mkEI [2] 1 .removed], feats := [] } tree0).1 ≠ tree0 := by
  decide

/-- C05, repaired member (removal loop skips entity `[0]`; a re-announcement of `[0]` without feature `0` does not
    replace its features): the invariant holds under every reply, every partial and every full notification —
    no hypothesis on the message. -/
theorem c05_nm_present (m : Disc.Msg) (t : Disc.Tree) (h : Disc.nmPresent t = true) :
    Disc.nmPresent (Disc.replyKeep m t).1 = true ∧
    Disc.nmPresent (Disc.notifyPartialKeep m t).1 = true ∧
    Disc.nmPresent (Disc.notifyFullKeep m t).1 = true :=
  ⟨Disc.replyKeep_nm m t h, Disc.notifyPartialKeep_nm m t h, Disc.notifyPartialKeep_nm _ t h⟩

/-- non-vacuity: on the three refuting messages the repaired member keeps node management, and it still removes
    other entities -/
example :
    Disc.nmPresent (Disc.notifyFullKeep { ents := [], feats := [] } tree0).1 = true ∧
    Disc.nmPresent (Disc.notifyPartialKeep { ents := [Disc.mkEI [0] 0 .removed], feats := [] } tree0).1 = true ∧
    Disc.nmPresent (Disc.replyKeep { ents := [Disc.mkEI [0] 0 .none], feats := [] } tree0).1 = true ∧
    ((Disc.notifyFullKeep { ents := [], feats := [] } tree0).1.map (·.addr)) = [[0]] := by
  decide

end Spine.Props.C05
