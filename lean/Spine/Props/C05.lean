import Spine.Header
import Spine.RobThm
import Spine.RobEv
import Spine.Wedge
import Spine.Dispatch
import Spine.DispatchServe
/-!
# C05 — no inbound byte sequence can crash or wedge the stack

Property theorems only (lemmas: `Spine/Header.lean`, `Spine/RobThm.lean`, `Spine/Wedge.lean`, `Spine/DiscoveryThm.lean`).
"As written" = the pinned commit a1767d0 (tree of 5099313 plus the add-only hooks) = every flag of a family `false`;
"repaired" = the `fix:` commits of /repo = every flag `true`; the harness probes which member the tree under test is.

What is a theorem here and what is not:

* **Header layer** (`Spine.Hdr.pre`: everything `DeviceLocal.ProcessCmd` and the sender's `PrintMessageOverview`
  dereference before the feature layer is reached, over a datagram whose every such part is optional; validated
  against the real code on the exhaustive grid of 10 080 datagrams on every run). *Proved*: the exact set of
  panicking datagrams of the code as written (`c05_hdr_characterisation`), of every member of the repair family
  (`c05_hdr_family`), totality of every member that has the three guards (`c05_hdr_total`), and that each guard
  is needed (`c05_hdr_each_guard_needed`). *Refuted* for the code as written: totality
  (`c05_hdr_total_refuted`, one witness per site).
* **Discovery layer** and **request-body layer** (`Spine.Rob`: reply / notification handlers down to
  `AddEntityAndFeatures`, `unmarshalFeature`, `NewEntity`, `SetOperations`, `CreateFunctionData`; the four
  node-management call handlers and the four manager functions behind them; over abstract payloads in which every
  dereferenced part is optional; tied to the real code on the exhaustive single-position grid of 14 580 mutants
  on every run, and once on the pinned commit, where the as-written member predicted the site of every one of
  the 1 926 panicking grid points, `evidence/C05-layer-tie-pinned-a1767d0.json`). *Proved*: for every member
  exactly which payloads panic at which site (`c05_disc_characterisation`, `c05_req_characterisation`, flat
  as-written forms `c05_disc_feature_asWritten`, `c05_disc_entity_asWritten`), the repaired members panic on
  nothing (`c05_disc_total`, `c05_req_total`), each guard is needed (`c05_disc_each_guard_needed`,
  `c05_req_each_guard_needed`). *Refuted* for the code as written: totality (`c05_disc_total_refuted`,
  `c05_req_total_refuted`, one witness per catalogued site).
* **Composition** `c05_total_partial`: with the repaired members, `Spine.Rob.handle` (header layer, then the layer
  of the payload, then the answer through the sender) panics on no abstract datagram whose payload is a
  detailed-discovery read / reply / notification or one of the four subscription / binding calls addressed to
  node management, or that the header layer already decides.
* **Event layer** (`Spine/RobEv.lean`: the events a discovery arrival publishes, with `Feature : Option`, over the
  repaired discovery member; event-shape table recorded on HEAD). *Proved*: every published event has the table's
  non-nil shape, so no core or application handler dereferences a nil field (`c05_event_shape_total`); *refuted*
  for the member that resolves the Feature after the tree update (`c05_event_shape_late_refuted`). Tied on every
  run: the table against every event of every delivery, the event lists against 192 discovery arrivals whose
  header is varied independently of the payload.
* **Still serves** (`Spine.Disc` remote tree + `Spine.Disp.processCmd`). *Proved*: a discovery read is answered
  with exactly one reply iff the peer's node-management feature is still known (`c05_still_serves`,
  `c05_wedged_is_silent`). The invariant `c05_nm_present` is *refuted* for the code as written by three witnesses
  (`c05_nm_present_refuted`), holds on the region `c05_nm_present_partial`, and is *proved* for the member with
  the two guards (`c05_nm_present`). The bridge between the two models is a theorem (`c05_nm_bridge`, composition
  `c05_still_serves_after_discovery`), and in the dispatch model the clause holds at full strength — all histories
  of operations of any peers, every peer that is not itself disconnected (`c05_still_serves_every_peer`; lemmas
  `Spine/DispatchServe.lean`).
* **Not a theorem here** (`Res.outside` of `handle`): payloads handled by the generic feature layer and the update
  engine (read / reply / notify / write of function data with filters: the model of C02 / C04, whose repaired
  member is total at the two sites the mutator found there — `Spine.Props.C02.c02_repaired_selectormatch_never_panics`,
  `c02_repaired_selectors_total`), result, use-case and destination-list data, subscription / binding data calls,
  datagrams to other local features; the cleanup after an entity removal (registries, caches); `period.Parse`
  (A-period); and the step from bytes to the abstract datagram: `encoding/json` returns an error instead of
  panicking (A-json) and the abstraction function of the harness (`robAbstract`) is trusted. There the claim stays
  the monitor's (structured mutator, byte stream).
-/
namespace Spine.Props.C05
open Spine

/-! ## header layer -/

/-- a valid read from a known source to a known destination that the feature answers -/
def okRead : Hdr.Raw :=
  { src := some ([1], 1), dst := some ([1], 1), cls := some .read, ref := none, msgCounter := true, cmds := 1,
    filterWithoutCmdControl := false, resultData := false, errorNumber := false, srcKnown := true, dstKnown := true,
    responds := true }

/-- C05, header layer, code as written: exactly these datagrams panic — absent destination; a filter without
    `cmdControl`; absent source; a request without `msgCounter` that is answered (error result or the feature's
    reply / result); `reply` / `result` without `msgCounterReference`; `result` without `resultData.errorNumber`. -/
theorem c05_hdr_characterisation (d : Hdr.Raw) :
    (∃ s, Hdr.pre Hdr.Cfg.asWritten d = .panic s) ↔
      (d.dst = none ∨
       (d.cmds ≠ 0 ∧ d.filterWithoutCmdControl = true) ∨
       (d.cmds ≠ 0 ∧ d.src = none) ∨
       (d.cmds ≠ 0 ∧ d.src ≠ none ∧ d.srcKnown = true ∧ d.msgCounter = false ∧
          (d.cls = none ∨ d.dstKnown = false ∨ d.responds = true)) ∨
       (d.cmds ≠ 0 ∧ d.src ≠ none ∧ d.srcKnown = true ∧ d.dstKnown = true ∧
          (((d.cls = some .reply ∨ d.cls = some .result) ∧ d.ref = none) ∨
           (d.cls = some .result ∧ (d.resultData = false ∨ d.errorNumber = false))))) :=
  Hdr.pre_panics_iff d

/-- non-vacuity: both sides occur — the valid read proceeds, the same read without `msgCounter` panics in the
    sender's overview -/
example : Hdr.pre Hdr.Cfg.asWritten okRead = .proceed ∧
    Hdr.pre Hdr.Cfg.asWritten { okRead with msgCounter := false } = .panic "PrintMessageOverview(nil reference, outgoing)" := by
  decide

/-- C05, header layer, the family: for every combination of repairs, exactly which datagrams panic. -/
theorem c05_hdr_family (c : Hdr.Cfg) (d : Hdr.Raw) : (∃ s, Hdr.pre c d = .panic s) ↔ Hdr.PanicGuard c d :=
  Hdr.pre_panics_iff_cfg c d

/-- non-vacuity: a member with one repair still panics on another site -/
example : Hdr.pre ⟨true, false, true, false⟩ { okRead with filterWithoutCmdControl := true } = .panic "ExtractFilter(nil cmdControl)" := by
  decide

/-- C05, header layer, repaired: a member with the three guards (address check, `ExtractFilter`, nil-safe
    `PrintMessageOverview`) panics on no datagram, whatever the state of the C01 repair. -/
theorem c05_hdr_total (c : Hdr.Cfg) (ha : c.addr = true) (hf : c.filter = true) (hp : c.pmo = true) (d : Hdr.Raw) :
    ∀ s, Hdr.pre c d ≠ .panic s :=
  Hdr.pre_total c ha hf hp d

/-- non-vacuity: the repaired member is not constant — it drops, answers with an error result, and proceeds -/
example : Hdr.pre Hdr.Cfg.repaired { okRead with dst := none } = .dropped ∧
    Hdr.pre Hdr.Cfg.repaired { okRead with cls := none, msgCounter := false } = .errorResult ∧
    Hdr.pre Hdr.Cfg.repaired { okRead with msgCounter := false } = .proceed := by
  decide

/-- REFUTED on the code as written (known findings `panic:device_local.go:FeatureByAddress`,
    `…:ProcessCmd`, `panic:commandframe_additions.go:ExtractFilter`, `panic:datagram_additions.go:PrintMessageOverview`):
    header-layer totality. One witness per site; each is a grid point of the harness and a corpus entry. -/
theorem c05_hdr_total_refuted :
    Hdr.pre Hdr.Cfg.asWritten { okRead with dst := none } = .panic "FeatureByAddress(nil destination)" ∧
    Hdr.pre Hdr.Cfg.asWritten { okRead with src := none } = .panic "ProcessCmd(nil source)" ∧
    Hdr.pre Hdr.Cfg.asWritten { okRead with filterWithoutCmdControl := true } = .panic "ExtractFilter(nil cmdControl)" ∧
    Hdr.pre Hdr.Cfg.asWritten { okRead with cls := some .reply } = .panic "PrintMessageOverview(nil reference)" ∧
    Hdr.pre Hdr.Cfg.asWritten { okRead with cls := some .result, ref := some 7, resultData := true } = .panic "PrintMessageOverview(nil result data)" ∧
    Hdr.pre Hdr.Cfg.asWritten { okRead with dstKnown := false, msgCounter := false } = .panic "PrintMessageOverview(nil reference, outgoing)" ∧
    Hdr.pre Hdr.Cfg.asWritten { okRead with cls := none, msgCounter := false } = .panic "PrintMessageOverview(nil reference, outgoing)" := by
  decide

/-- each of the three guards is needed: with the other two in place, leaving one out still admits a panic -/
theorem c05_hdr_each_guard_needed :
    (∃ d s, Hdr.pre ⟨false, true, true, true⟩ d = .panic s) ∧
    (∃ d s, Hdr.pre ⟨true, false, true, true⟩ d = .panic s) ∧
    (∃ d s, Hdr.pre ⟨true, true, false, true⟩ d = .panic s) :=
  ⟨⟨{ okRead with dst := none }, "FeatureByAddress(nil destination)", by decide⟩,
   ⟨{ okRead with filterWithoutCmdControl := true }, "ExtractFilter(nil cmdControl)", by decide⟩,
   ⟨{ okRead with cls := some .reply }, "PrintMessageOverview(nil reference)", by decide⟩⟩

/-! ## discovery layer -/

/-- a well-formed feature element of entity `[1]` with one supported function -/
def okFeat : Rob.Feat :=
  { description := true, featureAddress := true, entity := some [1], feature := some 1, ftype := some .known, role := true,
    fns := [{ function := true, ops := true }] }

/-- a well-formed entry for the new entity `[1]` -/
def okEnt : Rob.Ent :=
  { description := true, entityAddress := true, entity := some [1], etype := true, chg := none, devMismatch := false }

/-- a well-formed discovery payload announcing entity `[1]` with one feature -/
def okPayload : Rob.Payload := { deviceInformation := true, deviceDescription := true, ents := [okEnt], feats := [okFeat] }

/-- C05, discovery layer, every member of the family (as written = all flags off): exactly which payloads panic
    at which site. From the message down: the reply handler; the notification handler (the first entry that does
    not simply go on decides; only an `added` entry can panic, through `AddEntityAndFeatures`);
    `AddEntityAndFeatures` over a list of entries (first entry that does not go on); one entry; the feature loop
    (first offending element); one feature element; `unmarshalFeature` + `NewFeatureRemote`; `SetOperations`. -/
theorem c05_disc_characterisation (c : Rob.DCfg) :
    (∀ known p s, Rob.reply c known p = .panic s ↔
        (p.deviceInformation = false ∧ c.devInfo = false ∧ s = .replyDeviceInformation) ∨
        (p.deviceInformation = true ∧ p.deviceDescription = true ∧ Rob.entLoop c true p.feats p.ents known = .panic s)) ∧
    (∀ known p s, Rob.notifyPartial c known p = .panic s ↔
        ∃ pre e post k, p.ents = pre ++ e :: post ∧ Rob.notifyLoop c p.ents p.feats pre known = .next k ∧
          Rob.notifyStep c p.ents p.feats k e = .panic s) ∧
    (∀ all feats known e s, Rob.notifyStep c all feats known e = .panic s ↔
        e.description = true ∧ e.entityAddress = true ∧ e.chg = some .added ∧
          Rob.entLoop c false feats (if c.perEntry then [e] else all) known = .panic s) ∧
    (∀ initial feats ents known s, Rob.entLoop c initial feats ents known = .panic s ↔
        ∃ pre e post k, ents = pre ++ e :: post ∧ Rob.entLoop c initial feats pre known = .next k ∧
          Rob.entStep c initial feats k e = .panic s) ∧
    (∀ initial feats known e s, Rob.entStep c initial feats known e = .panic s ↔
        ∃ l, Rob.checkEnt c initial e = some l ∧
          ((known.contains l = true ∧ Rob.featLoop c (some l) feats = some s) ∨
           (known.contains l = false ∧ e.etype = false ∧ c.descr = false ∧ s = .addEntityAndFeatures) ∨
           (known.contains l = false ∧ e.etype = true ∧ l = [] ∧ s = .newEntity) ∨
           (known.contains l = false ∧ e.etype = true ∧ l ≠ [] ∧ Rob.featLoop c (some l) feats = some s))) ∧
    (∀ a feats s, Rob.featLoop c a feats = some s ↔
        ∃ pre f post, feats = pre ++ f :: post ∧ (∀ g ∈ pre, Rob.featStep c a g = none) ∧ Rob.featStep c a f = some s) ∧
    (∀ a f s, Rob.featStep c a f = some s ↔
        ((f.description = false ∨ f.featureAddress = false) ∧ c.descr = false ∧ s = .addEntityAndFeatures) ∨
        (f.description = true ∧ f.featureAddress = true ∧ f.entity = a ∧ Rob.unmarshal c f = some s)) ∧
    (∀ f s, Rob.unmarshal c f = some s ↔
        f.description = true ∧
          ((f.missing ∧ c.descr = false ∧ s = .unmarshalFeature) ∨
           (¬ f.missing ∧ f.ftype = some .unknown ∧ c.unkType = false ∧ s = .createFunctionData) ∨
           (¬ f.missing ∧ ¬ (f.ftype = some .unknown ∧ c.unkType = false) ∧ Rob.setOps c f.fns = some s))) ∧
    (∀ fns s, Rob.setOps c fns = some s ↔
        s = .setOperations ∧ c.fnNil = false ∧ ∃ fn ∈ fns, fn.ops = true ∧ fn.function = false) :=
  ⟨Rob.reply_iff c, Rob.notifyPartial_iff c, Rob.notifyStep_iff c, Rob.entLoop_iff c, Rob.entStep_iff c,
   fun a feats s => Rob.featLoop_iff c a s feats, Rob.featStep_iff c, Rob.unmarshal_iff c, Rob.setOps_iff c⟩

/-- non-vacuity: the well-formed payload is accepted by the code as written, and it is accepted because nothing is
    missing — dropping the role of its feature panics -/
example : Rob.reply .asWritten [[0]] okPayload = .done ∧
    Rob.reply .asWritten [[0]] { okPayload with feats := [{ okFeat with role := false }] } = .panic .unmarshalFeature := by
  decide

/-- the same, flat, for the code as written: one feature element of the entity with address `a` panics iff
    it lacks its description or address (`AddEntityAndFeatures`); or, belonging to the entity, lacks feature id,
    type or role (`unmarshalFeature`); or names a type without function table (`CreateFunctionData`); or carries a
    supportedFunction element with possibleOperations but without function (`SetOperations`). -/
theorem c05_disc_feature_asWritten (a : Option (List Nat)) (f : Rob.Feat) (s : Rob.Site) :
    Rob.featStep .asWritten a f = some s ↔
      ((f.description = false ∨ f.featureAddress = false) ∧ s = .addEntityAndFeatures) ∨
      (f.description = true ∧ f.featureAddress = true ∧ f.entity = a ∧
        (((f.feature = none ∨ f.ftype = none ∨ f.role = false) ∧ s = .unmarshalFeature) ∨
         (f.feature ≠ none ∧ f.role = true ∧ f.ftype = some .unknown ∧ s = .createFunctionData) ∨
         (f.feature ≠ none ∧ f.role = true ∧ f.ftype = some .known ∧
            (∃ fn ∈ f.fns, fn.ops = true ∧ fn.function = false) ∧ s = .setOperations))) := by
  rw [Rob.featStep_iff, Rob.unmarshal_iff, Rob.setOps_iff]
  simp only [Rob.DCfg.asWritten, Rob.Feat.missing, true_and]
  cases hd : f.description <;> cases ha : f.featureAddress <;> cases hf : f.feature <;> cases ht : f.ftype <;>
    cases hr : f.role <;> simp <;> (try (rename_i t; cases t <;> simp)) <;>
    (try (constructor <;> intro h <;> simp_all)) <;> (try (intro _; exact and_comm))

/-- … and one entity entry, for the code as written: it must pass `CheckEntityInformation` (description, address,
    non-nil entity list, no device mismatch unless initial); then a new entity panics without entityType
    (`AddEntityAndFeatures`) or with the empty address (`NewEntity`); otherwise its feature loop decides. -/
theorem c05_disc_entity_asWritten (initial : Bool) (feats : List Rob.Feat) (known : List (List Nat)) (e : Rob.Ent)
    (s : Rob.Site) :
    Rob.entStep .asWritten initial feats known e = .panic s ↔
      e.description = true ∧ e.entityAddress = true ∧ ¬ (initial = false ∧ e.devMismatch = true) ∧
      ∃ l, e.entity = some l ∧
        ((known.contains l = true ∧ Rob.featLoop .asWritten (some l) feats = some s) ∨
         (known.contains l = false ∧ e.etype = false ∧ s = .addEntityAndFeatures) ∨
         (known.contains l = false ∧ e.etype = true ∧ l = [] ∧ s = .newEntity) ∨
         (known.contains l = false ∧ e.etype = true ∧ l ≠ [] ∧ Rob.featLoop .asWritten (some l) feats = some s)) := by
  rw [Rob.entStep_iff]
  constructor
  · rintro ⟨l, hck, h⟩
    have hc := (Rob.checkEnt_iff _ initial e l).mp hck
    refine ⟨hc.1, hc.2.1, hc.2.2.2.2, l, hc.2.2.1, ?_⟩
    simpa [Rob.DCfg.asWritten] using h
  · rintro ⟨hd, ha, hm, l, he, h⟩
    refine ⟨l, (Rob.checkEnt_iff _ initial e l).mpr ⟨hd, ha, he, by simp [Rob.DCfg.asWritten], hm⟩, ?_⟩
    simpa [Rob.DCfg.asWritten] using h

/-- C05, discovery layer, repaired: a member with the five guards (deviceInformation, description parts, empty
    entity address, unknown feature type, supportedFunction without function) panics on no payload, in no state of
    the peer's tree — reply, partial and full notification; whatever `perEntry` and `keep0` are. -/
theorem c05_disc_total (c : Rob.DCfg) (h : c.Guarded) (known : List (List Nat)) (p : Rob.Payload) :
    Rob.reply c known p = .done ∧ Rob.notifyPartial c known p = .done ∧ Rob.notifyFull c known p = .done :=
  ⟨Rob.reply_total c h known p, Rob.notifyPartial_total c h known p, Rob.notifyFull_total c h known p⟩

/-- non-vacuity: the repaired member is `Guarded`, and a full notification is not a no-op for the model (the diff
    against the tree turns the unknown entity into an `added` entry and synthesises a `removed` one) -/
example : Rob.DCfg.repaired.Guarded ∧
    (Rob.fullDiff [[0], [2]] { okPayload with ents := [okEnt, { okEnt with entity := some [0] }] }).ents.map (·.chg)
      = [some .added, some .removed] := by
  refine ⟨⟨rfl, rfl, rfl, rfl, rfl⟩, by decide⟩

/-- REFUTED on the code as written (pinned commit; the six discovery keys of the harness): totality of the
    discovery layer — one witness per catalogued site, each a single-position mutant of the well-formed payload. -/
theorem c05_disc_total_refuted :
    Rob.reply .asWritten [[0]] { okPayload with deviceInformation := false } = .panic .replyDeviceInformation ∧
    Rob.reply .asWritten [[0]] { okPayload with ents := [{ okEnt with etype := false }] } = .panic .addEntityAndFeatures ∧
    Rob.reply .asWritten [[0]] { okPayload with feats := [{ okFeat with description := false }] } = .panic .addEntityAndFeatures ∧
    Rob.reply .asWritten [[0]] { okPayload with ents := [{ okEnt with entity := some [] }] } = .panic .newEntity ∧
    Rob.reply .asWritten [[0]] { okPayload with feats := [{ okFeat with feature := none }] } = .panic .unmarshalFeature ∧
    Rob.reply .asWritten [[0]] { okPayload with feats := [{ okFeat with ftype := some .unknown }] } = .panic .createFunctionData ∧
    Rob.reply .asWritten [[0]] { okPayload with feats := [{ okFeat with fns := [{ function := false, ops := true }] }] }
      = .panic .setOperations ∧
    Rob.notifyPartial .asWritten [[0]] { okPayload with ents := [{ okEnt with chg := some .added, etype := false }] }
      = .panic .addEntityAndFeatures ∧
    Rob.notifyFull .asWritten [[0]] { okPayload with ents := [{ okEnt with etype := false }] } = .panic .addEntityAndFeatures := by
  decide

/-- each of the five guards is needed: with the other four (and both tree-shaping repairs) in place, leaving one
    out still admits a panic -/
theorem c05_disc_each_guard_needed :
    Rob.reply ⟨false, true, true, true, true, true, true⟩ [[0]] { okPayload with deviceInformation := false } = .panic .replyDeviceInformation ∧
    Rob.reply ⟨true, false, true, true, true, true, true⟩ [[0]] { okPayload with ents := [{ okEnt with etype := false }] } = .panic .addEntityAndFeatures ∧
    Rob.reply ⟨true, true, false, true, true, true, true⟩ [[0]] { okPayload with ents := [{ okEnt with entity := some [] }] } = .panic .newEntity ∧
    Rob.reply ⟨true, true, true, false, true, true, true⟩ [[0]] { okPayload with feats := [{ okFeat with ftype := some .unknown }] } = .panic .createFunctionData ∧
    Rob.reply ⟨true, true, true, true, false, true, true⟩ [[0]] { okPayload with feats := [{ okFeat with fns := [{ function := false, ops := true }] }] } = .panic .setOperations := by
  decide

/-! ## request-body layer -/

/-- a valid subscription request from a discovered peer -/
def okReq : Rob.Req :=
  { kind := .subRequest, body := true, serverAddr := true, serverFound := true, sft := true, serverOk := true, bound := false,
    clientAddr := true, clientFound := true, devKnown := true }

/-- C05, request-body layer, every member of the family (as written = all flags off): exactly which subscription /
    binding request and delete calls panic at which site — no inner element (the call handler); request calls:
    no serverAddress (`DeviceLocal.FeatureByAddress`), subscription without serverFeatureType (`AddSubscription`),
    no clientAddress (`DeviceRemote.FeatureByAddress`), unknown client feature while the peer's device address is
    unknown (the manager function, in its error text); delete calls: no clientAddress (the manager function),
    unknown client feature while the device address is unknown, no serverAddress. -/
theorem c05_req_characterisation (c : Rob.RCfg) (r : Rob.Req) (s : Rob.Site) :
    Rob.request c r = .panic s ↔
      (r.body = false ∧ c.body = false ∧ s = Rob.bodySite r.kind) ∨
      (r.body = true ∧ (r.kind = .subRequest ∨ r.kind = .bindRequest) ∧
        ((r.serverAddr = false ∧ c.fba = false ∧ s = .featureByAddressLocal) ∨
         (r.serverAddr = true ∧ r.serverFound = true ∧ r.sft = false ∧ r.kind = .subRequest ∧ c.sft = false ∧
            s = .addSubscription) ∨
         (r.serverAddr = true ∧ r.serverFound = true ∧ r.sft = true ∧ r.serverOk = true ∧
            ¬ (r.kind = .bindRequest ∧ r.bound = true) ∧
            ((r.clientAddr = false ∧ c.fba = false ∧ s = .featureByAddressRemote) ∨
             (r.clientAddr = true ∧ r.clientFound = false ∧ r.devKnown = false ∧ c.errTxt = false ∧
                s = Rob.managerSite r.kind))))) ∨
      (r.body = true ∧ (r.kind = .subDelete ∨ r.kind = .bindDelete) ∧
        ((r.clientAddr = false ∧ c.clientAddr = false ∧ s = Rob.managerSite r.kind) ∨
         (r.clientAddr = true ∧ r.clientFound = false ∧ r.devKnown = false ∧ c.errTxt = false ∧
            s = Rob.managerSite r.kind) ∨
         (r.clientAddr = true ∧ r.clientFound = true ∧ r.serverAddr = false ∧ c.fba = false ∧
            s = .featureByAddressLocal))) := by
  rw [Rob.request_iff, Rob.addReq_iff, Rob.delReq_iff, Rob.clientLookup_iff]
  constructor
  · rintro (h | ⟨hb, hk, h⟩ | ⟨hb, hk, h⟩)
    · exact Or.inl h
    · exact Or.inr (Or.inl ⟨hb, hk, h⟩)
    · refine Or.inr (Or.inr ⟨hb, hk, ?_⟩)
      rcases h with h | ⟨hca, h | h⟩ | h
      · exact Or.inl h
      · rw [hca] at h; simp at h
      · exact Or.inr (Or.inl h)
      · exact Or.inr (Or.inr h)
  · rintro (h | ⟨hb, hk, h⟩ | ⟨hb, hk, h⟩)
    · exact Or.inl h
    · exact Or.inr (Or.inl ⟨hb, hk, h⟩)
    · refine Or.inr (Or.inr ⟨hb, hk, ?_⟩)
      rcases h with h | h | h
      · exact Or.inl h
      · exact Or.inr (Or.inl ⟨h.1, Or.inr h⟩)
      · exact Or.inr (Or.inr h)

/-- non-vacuity: the valid request is accepted as written; the same valid request before the peer's discovery
    reply (client feature not announced yet, device address unknown) panics — even a valid call did -/
example : Rob.request .asWritten okReq = .done ∧
    Rob.request .asWritten { okReq with clientFound := false, devKnown := false } = .panic .addSubscription := by
  decide

/-- C05, request-body layer, repaired: no request panics, in either connection state. -/
theorem c05_req_total (r : Rob.Req) : Rob.request .repaired r = .done := Rob.request_total r

/-- non-vacuity: the repaired member on the requests that crashed the code as written -/
example : Rob.request .repaired { okReq with body := false } = .done ∧
    Rob.request .repaired { okReq with kind := .bindDelete, clientAddr := false, devKnown := false } = .done := by
  decide

/-- REFUTED on the code as written (pinned commit; the ten request keys of the harness): totality of the
    request-body layer — one witness per catalogued site. -/
theorem c05_req_total_refuted :
    Rob.request .asWritten { okReq with body := false } = .panic .subRequestCall ∧
    Rob.request .asWritten { okReq with kind := .subDelete, body := false } = .panic .subDeleteCall ∧
    Rob.request .asWritten { okReq with kind := .bindRequest, body := false } = .panic .bindRequestCall ∧
    Rob.request .asWritten { okReq with kind := .bindDelete, body := false } = .panic .bindDeleteCall ∧
    Rob.request .asWritten { okReq with serverAddr := false } = .panic .featureByAddressLocal ∧
    Rob.request .asWritten { okReq with clientAddr := false } = .panic .featureByAddressRemote ∧
    Rob.request .asWritten { okReq with sft := false } = .panic .addSubscription ∧
    Rob.request .asWritten { okReq with kind := .subDelete, clientAddr := false } = .panic .removeSubscription ∧
    Rob.request .asWritten { okReq with kind := .bindRequest, clientFound := false, devKnown := false } = .panic .addBinding ∧
    Rob.request .asWritten { okReq with kind := .bindDelete, clientFound := false, devKnown := false } = .panic .removeBinding := by
  decide

/-- each of the five guards is needed -/
theorem c05_req_each_guard_needed :
    Rob.request ⟨false, true, true, true, true⟩ { okReq with body := false } = .panic .subRequestCall ∧
    Rob.request ⟨true, false, true, true, true⟩ { okReq with serverAddr := false } = .panic .featureByAddressLocal ∧
    Rob.request ⟨true, true, false, true, true⟩ { okReq with clientFound := false, devKnown := false } = .panic .addSubscription ∧
    Rob.request ⟨true, true, true, false, true⟩ { okReq with sft := false } = .panic .addSubscription ∧
    Rob.request ⟨true, true, true, true, false⟩ { okReq with kind := .subDelete, clientAddr := false } = .panic .removeSubscription := by
  decide

/-! ## composition -/

/-- C05, first sentence, for the layers modelled so far: with the header guards, the five discovery guards and the
    repaired request layer, `handle` — header layer, then the layer the payload belongs to, then the answer written
    through the sender — panics on no abstract datagram; it either returns (`ok`) or the payload is of a kind
    these layers do not cover (`outside`, listed in the module comment). -/
theorem c05_total_partial (hc : Hdr.Cfg) (ha : hc.addr = true) (hf : hc.filter = true) (hp : hc.pmo = true)
    (dc : Rob.DCfg) (hd : dc.Guarded) (d : Rob.Dgram) :
    Rob.handle hc dc .repaired d = .ok ∨ Rob.handle hc dc .repaired d = .outside :=
  Rob.handle_total hc ha hf hp dc hd d

/-- a subscription request without msgCounter whose acknowledgement the stack writes -/
def okDgram : Rob.Dgram :=
  { hdr := { okRead with cls := some .call, msgCounter := false, responds := true }, known := [[0]], body := .call okReq }

/-- non-vacuity: `handle` reaches all three stages — as written the datagram above panics while the answer is
    written, a malformed body panics in its layer before that, a missing destination panics in the header layer;
    the repaired members return on all three -/
example :
    Rob.handle .asWritten .asWritten .asWritten okDgram = .panicHdr "PrintMessageOverview(nil reference, outgoing)" ∧
    Rob.handle .asWritten .asWritten .asWritten { okDgram with body := .call { okReq with body := false } } = .panic .subRequestCall ∧
    Rob.handle .asWritten .asWritten .asWritten { okDgram with hdr := { okDgram.hdr with dst := none } }
      = .panicHdr "FeatureByAddress(nil destination)" ∧
    Rob.handle .repaired .repaired .repaired okDgram = .ok ∧
    Rob.handle .repaired .repaired .repaired { okDgram with body := .call { okReq with body := false } } = .ok ∧
    Rob.handle .repaired .repaired .repaired { okDgram with hdr := { okDgram.hdr with dst := none } } = .ok ∧
    Rob.handle .repaired .repaired .repaired { okDgram with body := .outside } = .outside := by
  decide


/-! ## event layer -/

/-- the peer's tree after its ordinary discovery reply: node management, entity `[1]` with features 1, 2, 3 -/
def evTree : Rob.Tree := [([0], [0]), ([1], [1, 2, 3])]

/-- a reply that announces entity `[1]` again with feature 1 only -/
def shorter : Rob.Payload :=
  { okPayload with
    ents := [{ okEnt with entity := some [0] }, okEnt],
    feats := [{ okFeat with entity := some [0], feature := some 0 }, okFeat] }

/-- C05, event layer (a crash that surfaces in another layer than the one parsing the message): for every tree,
    every source feature the datagram claims to come from and every discovery payload — reply, partial and full
    notification — each event the code publishes has exactly the non-nil shape of the table `Rob.shapeOf`, and
    therefore no handler (core: `DeviceLocal.HandleEvent`; application: every promised field) dereferences a nil
    `Device`, `Entity`, `Feature` or `LocalFeature`. -/
theorem c05_event_shape_total (t : Rob.Tree) (src : List Nat × Nat) (p : Rob.Payload) :
    (∀ e ∈ Rob.replyEvents false t src p, e.shape = Rob.shapeOf e.kind ∧ e.safe = true) ∧
    (∀ e ∈ Rob.notifyPartialEvents t p, e.shape = Rob.shapeOf e.kind ∧ e.safe = true) ∧
    (∀ e ∈ Rob.notifyFullEvents t p, e.shape = Rob.shapeOf e.kind ∧ e.safe = true) :=
  ⟨fun e he => ⟨Rob.replyEvents_shaped t src p e he, Rob.safe_of_shape e (Rob.replyEvents_shaped t src p e he)⟩,
   fun e he => ⟨Rob.notifyPartialEvents_shaped t p e he, Rob.safe_of_shape e (Rob.notifyPartialEvents_shaped t p e he)⟩,
   fun e he => ⟨Rob.notifyFullEvents_shaped t p e he, Rob.safe_of_shape e (Rob.notifyFullEvents_shaped t p e he)⟩⟩

/-- non-vacuity: arrivals do publish events — the reply sent from feature `[1]/2` that no longer announces it
    publishes the device-change event *with* its Feature; a full notification adds and removes entities -/
example :
    Rob.replyEvents false evTree ([1], 2) shorter = [⟨.deviceAdd, true, none, some ([1], 2), false⟩] ∧
    (Rob.notifyFullEvents evTree { shorter with ents := [{ okEnt with entity := some [0] }, { okEnt with entity := some [2] }] }).map (·.kind)
      = [.entityAdd, .entityRemove] := by
  decide

/-- REFUTED for the member that resolves the event's Feature again *after* the tree update (seeded change
    C05-r3-2; not the code): the same reply publishes a device-change event without Feature, which the core handler
    dereferences — while the parsing layers (`handle`) accept the datagram. With node management as source the
    member is indistinguishable from the code (feature 0 of entity `[0]` is kept), which is why only arrivals whose
    header is varied independently of the payload see it. -/
theorem c05_event_shape_late_refuted :
    Rob.replyEvents true evTree ([1], 2) shorter = [⟨.deviceAdd, true, none, none, false⟩] ∧
    (∃ e ∈ Rob.replyEvents true evTree ([1], 2) shorter, e.safe = false) ∧
    Rob.replyEvents true evTree ([0], 0) shorter = Rob.replyEvents false evTree ([0], 0) shorter ∧
    Rob.reply .repaired [[0], [1]] shorter = .done := by
  refine ⟨by decide, ⟨⟨.deviceAdd, true, none, none, false⟩, by decide, by decide⟩, by decide, by decide⟩

/-! ## still serves -/

/-- a well-formed detailed-discovery read (payload function 901 of the dispatch model) -/
def discRead (src dst : List Nat × Nat) (ctr : Nat) : Disp.Dg :=
  { src := src, dst := dst, ctr := some ctr, ref := none, cls := .read, ack := false, fn := 901 }

/-- C05, second sentence: a valid detailed-discovery read from a connected peer whose source feature is known,
    addressed to the local node-management feature, is answered with exactly one reply that references the
    read, goes back to its source and names the local device — in every member of the dispatch family. -/
theorem c05_still_serves (w : Disp.W) (p : Nat) (src dst : List Nat × Nat) (ctr : Nat) (rf : Disp.RF) (lf : Disp.LF)
    (hs : Disp.srcF w p (discRead src dst ctr) = some rf) (hd : Disp.dstF w (discRead src dst ctr) = some lf)
    (hnm : lf.nm = true) :
    (Disp.processCmd w p (discRead src dst ctr)).2 = [(p, .reply (some ctr) 901 dst src (w.nmData 901) (some 0))] := by
  unfold Disp.processCmd
  simp only [hs, hd]
  simp [discRead, Disp.crashes, Disp.inPanics, Disp.responses, Disp.handle, Disp.handleNM, Disp.wantsRead,
    Disp.applies, Disp.tag, Disp.replyVal, hnm]

/-- … and this is *not* a corollary of panic freedom: a peer whose source feature is not known any more is
    answered nothing at all, whatever it sends (the wedge). -/
theorem c05_wedged_is_silent (w : Disp.W) (p : Nat) (d : Disp.Dg) (h : Disp.srcF w p d = none) :
    (Disp.processCmd w p d).2 = [] := by
  unfold Disp.processCmd
  simp only [h]

/-- a world with one node-management feature on each side -/
def exW : Disp.W :=
  { loc := [{ ent := [0], feat := 0, typ := 0, role := .special, fds := [], ops := [], nm := true }],
    peers := fun _ => { feats := [{ ent := [0], feat := 0, fds := [] }], msgNum := 0, req := [] },
    binds := [] }

/-- non-vacuity of both: the hypotheses of `c05_still_serves` are met in `exW`; with the peer's feature list
    wiped those of `c05_wedged_is_silent` are -/
example : (Disp.srcF exW 1 (discRead ([0], 0) ([0], 0) 5)).isSome = true ∧
    (Disp.dstF exW (discRead ([0], 0) ([0], 0) 5)).isSome = true ∧
    (Disp.srcF { exW with peers := fun _ => { feats := [], msgNum := 0, req := [] } } 1 (discRead ([0], 0) ([0], 0) 5)).isNone = true := by
  decide

/-- the tree of a freshly connected peer: entity `[0]` with node management, one more entity -/
def tree0 : Disc.Tree := Disc.t0

/-- REFUTED on the code as written (known findings `wedge:device-information-removed`,
    `wedge:node-management-feature-removed`): "every connected peer keeps entity `[0]` with its node-management
    feature under every inbound discovery message". Three structurally valid messages break it: a full
    notification that lists nothing, a partial notification that marks `[0]` removed, and a reply that announces
    `[0]` without feature `0`. -/
theorem c05_nm_present_refuted :
    Disc.nmPresent tree0 = true ∧
    Disc.nmPresent (Disc.notifyFull { ents := [], feats := [] } tree0).1 = false ∧
    Disc.nmPresent (Disc.notifyPartial { ents := [Disc.mkEI [0] 0 .removed], feats := [] } tree0).1 = false ∧
    Disc.nmPresent (Disc.reply { ents := [Disc.mkEI [0] 0 .none], feats := [] } tree0).1 = false := by
  decide

/-- C05 (partial, code as written): the invariant survives every reply and every partial notification that does
    not name entity `[0]`, and every full notification that lists it. -/
theorem c05_nm_present_partial (m : Disc.Msg) (t : Disc.Tree) (h : Disc.nmPresent t = true) :
    ((∀ ei ∈ m.ents, ei.addr ≠ [0]) → Disc.nmPresent (Disc.reply m t).1 = true ∧ Disc.nmPresent (Disc.notifyPartial m t).1 = true) ∧
    ([0] ∈ m.ents.map (·.addr) → Disc.nmPresent (Disc.notifyFull m t).1 = true) := by
  refine ⟨fun hn => ⟨?_, ?_⟩, fun hl => ?_⟩
  · rw [Disc.nmPresent_of_find _ _ (Disc.reply_other m t [0] hn)]; exact h
  · rw [Disc.nmPresent_of_find _ _ (Disc.notifyPartial_other m t [0] hn)]; exact h
  · have hk : (Disc.findE t [0]).isSome = true := by
      unfold Disc.nmPresent at h
      cases hf : Disc.findE t [0] with
      | none => simp [hf] at h
      | some _ => rfl
    rw [Disc.nmPresent_of_find _ _ (Disc.notifyFull_listed m t [0] hk hl)]; exact h

/-- non-vacuity: a notification that adds entity `[1]` and removes entity `[2]` meets the hypothesis and changes
    the tree -/
example : (∀ ei ∈ ([Disc.mkEI [1] 1 .added, Disc.mkEI [2] 1 .removed] : List Disc.EI), ei.addr ≠ [0]) ∧
    (Disc.notifyPartial { ents := [Disc.mkEI [1] 1 .added, Disc.mkEI [2] 1 .removed], feats := [] } tree0).1 ≠ tree0 := by
  decide

/-- C05, repaired member (removal loop skips entity `[0]`; a re-announcement of `[0]` without feature `0` does not
    replace its features): the invariant holds under every reply, every partial and every full notification —
    no hypothesis on the message. -/
theorem c05_nm_present (m : Disc.Msg) (t : Disc.Tree) (h : Disc.nmPresent t = true) :
    Disc.nmPresent (Disc.replyKeep m t).1 = true ∧
    Disc.nmPresent (Disc.notifyPartialKeep m t).1 = true ∧
    Disc.nmPresent (Disc.notifyFullKeep m t).1 = true :=
  ⟨Disc.replyKeep_nm m t h, Disc.notifyPartialKeep_nm m t h, Disc.notifyPartialKeep_nm _ t h⟩

/-- non-vacuity: on the three refuting messages the repaired member keeps node management, and it still removes
    other entities -/
example :
    Disc.nmPresent (Disc.notifyFullKeep { ents := [], feats := [] } tree0).1 = true ∧
    Disc.nmPresent (Disc.notifyPartialKeep { ents := [Disc.mkEI [0] 0 .removed], feats := [] } tree0).1 = true ∧
    Disc.nmPresent (Disc.replyKeep { ents := [Disc.mkEI [0] 0 .none], feats := [] } tree0).1 = true ∧
    ((Disc.notifyFullKeep { ents := [], feats := [] } tree0).1.map (·.addr)) = [[0]] := by
  decide

/-! ## still serves, at full strength: every history, every other peer, and the bridge between the two models -/

/-- The bridge between the two models of "the peer's node-management feature is known" (until now: by reading): if
    the remote-tree model `Spine.Disc` and the dispatch world `Spine.Disp` describe the same peer — `Disc.AgreeD`, the
    abstraction relation that `c06_dispatch_full_agrees` shows the full announcement preserves — then the invariant
    of `c05_nm_present` (entity `[0]` of the tree carries feature `0`) IS the hypothesis of `c05_still_serves` (the
    dispatch world finds the source feature `([0], 0)` of the peer's discovery read). -/
theorem c05_nm_bridge (t : Disc.Tree) (w : Disp.W) (p : Nat) (hA : Disc.AgreeD t (w.peers p).feats) (d : Disp.Dg)
    (hs : d.src = Disp.nmAddr) : Disc.nmPresent t = (Disp.srcF w p d).isSome := by
  rw [Disp.srcF_nm_isSome w p d hs]; exact Disc.nm_bridge t w p hA

/-- non-vacuity: a tree (node management, and an entity without features) and a dispatch world that agree; the
    same tree does not agree with a world that has lost the peer's node management -/
example : Disc.AgreeD tree0 [{ ent := [0], feat := 0, fds := [] }] ∧ Disc.nmPresent tree0 = true ∧
    ¬ Disc.AgreeD tree0 [] := by
  refine ⟨?_, by decide, ?_⟩
  · intro a i
    by_cases h0 : a = [0]
    · subst h0; simp [Disc.idsAt, Disc.dispAt, tree0, Disc.t0, Disc.findE]
    · by_cases h2 : a = [2]
      · subst h2; simp [Disc.idsAt, Disc.dispAt, tree0, Disc.t0, Disc.findE]
      · have e0 : ([0] : List Nat) ≠ a := fun h => h0 h.symm
        have e2 : ([2] : List Nat) ≠ a := fun h => h2 h.symm
        simp [Disc.idsAt, Disc.dispAt, tree0, Disc.t0, Disc.findE, e0, e2]
  · intro h
    have := (h [0] 0).mp (by simp [Disc.idsAt, tree0, Disc.t0, Disc.findE])
    simp [Disc.dispAt] at this

/-- Composition of the three: whatever discovery message (reply, partial or full notification — also one that lists
    nothing, marks `[0]` removed or re-announces `[0]` without feature `0`) the repaired handlers apply to a tree
    that had node management, every dispatch world that agrees with the resulting tree answers the peer's next
    discovery read with exactly one reply. -/
theorem c05_still_serves_after_discovery (m : Disc.Msg) (t : Disc.Tree) (h : Disc.nmPresent t = true)
    (w : Disp.W) (p : Nat) (dst : List Nat × Nat) (ctr : Nat) (lf : Disp.LF)
    (hd : Disp.dstF w (discRead Disp.nmAddr dst ctr) = some lf) (hnm : lf.nm = true)
    (hA : Disc.AgreeD (Disc.replyKeep m t).1 (w.peers p).feats ∨
          Disc.AgreeD (Disc.notifyPartialKeep m t).1 (w.peers p).feats ∨
          Disc.AgreeD (Disc.notifyFullKeep m t).1 (w.peers p).feats) :
    (Disp.processCmd w p (discRead Disp.nmAddr dst ctr)).2 = [(p, .reply (some ctr) 901 dst Disp.nmAddr (w.nmData 901) (some 0))] := by
  obtain ⟨h1, h2, h3⟩ := c05_nm_present m t h
  have hs : (Disp.srcF w p (discRead Disp.nmAddr dst ctr)).isSome = true := by
    rcases hA with hA | hA | hA
    · rw [← c05_nm_bridge _ w p hA _ rfl]; exact h1
    · rw [← c05_nm_bridge _ w p hA _ rfl]; exact h2
    · rw [← c05_nm_bridge _ w p hA _ rfl]; exact h3
  cases hsf : Disp.srcF w p (discRead Disp.nmAddr dst ctr) with
  | none => rw [hsf] at hs; cases hs
  | some rf => exact c05_still_serves w p Disp.nmAddr dst ctr rf lf hsf hd hnm

/-- C05, second sentence at full strength in the dispatch model — ALL histories, EVERY peer: let `q` be a connected
    peer (its node management is known) and let `ops` be any history of operations of ANY peers — datagrams of every
    classifier with or without counter / reference / result data, to known or unknown destinations; binding and
    subscription calls; partial notifications that remove or add any entity, `[0]` included; full announcements that
    list anything; re-announcements; disconnects and connects of the OTHER peers; local data changes — in which `q`
    itself is not disconnected. Then `q`'s discovery read is answered with exactly one reply, on `q`'s connection,
    referencing the read. Every member of the family. `FreshNM`: the announcement set of a peer contains its node
    management (without it a "connected" peer never was). -/
theorem c05_still_serves_every_peer (w0 : Disp.W) (ops : List Disp.Op) (q : Nat) (dst : List Nat × Nat) (ctr : Nat)
    (lf : Disp.LF) (hc : Disp.connected w0 q = true) (hF : Disp.FreshNM w0)
    (hdrop : ∀ p, Disp.Op.drop p ∈ ops → p ≠ q)
    (hd : Disp.dstF w0 (discRead Disp.nmAddr dst ctr) = some lf) (hnm : lf.nm = true) :
    (Disp.processCmd (Disp.run w0 ops) q (discRead Disp.nmAddr dst ctr)).2 =
      [(q, .reply (some ctr) 901 dst Disp.nmAddr ((Disp.run w0 ops).nmData 901) (some 0))] := by
  have hcon := Disp.connected_run ops w0 q hc hF hdrop
  rw [← Disp.srcF_nm_isSome (Disp.run w0 ops) q (discRead Disp.nmAddr dst ctr) rfl] at hcon
  have hd' : Disp.dstF (Disp.run w0 ops) (discRead Disp.nmAddr dst ctr) = some lf := by
    unfold Disp.dstF at hd ⊢; rw [Disp.loc_run]; exact hd
  cases hsf : Disp.srcF (Disp.run w0 ops) q (discRead Disp.nmAddr dst ctr) with
  | none => rw [hsf] at hcon; cases hcon
  | some rf => exact c05_still_serves _ q Disp.nmAddr dst ctr rf lf hsf hd' hnm

/-- two peers with node management and one more entity each; the announcement set contains node management -/
def exW2 : Disp.W :=
  { exW with
    peers := fun _ => { feats := [{ ent := [0], feat := 0, fds := [] }, { ent := [1], feat := 1, fds := [] }], msgNum := 0, req := [] }
    fresh := { feats := [{ ent := [0], feat := 0, fds := [] }, { ent := [1], feat := 1, fds := [] }], msgNum := 0, req := [] }
    cfg := Disp.Cfg.clean }

/-- a history in which peer 1 does its worst: marks `[0]` removed, sends a full announcement that lists nothing,
    a result without reference or result data to an unknown feature, a read without counter, and disconnects -/
def worst : List Disp.Op :=
  [.entRem 1 [0] 7 true, .full 1 [] 8 true, .entRem 1 [1] 9 false,
   .dg 1 { src := ([0], 0), dst := ([9], 9), ctr := none, ref := none, cls := .result, ack := true, fn := 5, noErr := true },
   .dg 1 { src := ([0], 0), dst := ([0], 0), ctr := none, ref := none, cls := .read, ack := false, fn := 901 },
   .drop 1]

/-- non-vacuity: the hypotheses hold for peer 2 over `worst` (and for peer 1 up to its disconnect), the history is
    not a no-op (peer 1 loses entity `[1]`, then everything), and after its disconnect peer 1 is answered nothing -/
example : Disp.connected exW2 2 = true ∧ Disp.FreshNM exW2 ∧ (∀ p, Disp.Op.drop p ∈ worst → p ≠ 2) ∧
    (∀ p, Disp.Op.drop p ∈ worst.dropLast → p ≠ 1) ∧
    (Disp.dstF exW2 (discRead Disp.nmAddr ([0], 0) 5)).isSome = true ∧
    Disp.entsOf (Disp.run exW2 worst.dropLast) 1 = [[0]] ∧
    (Disp.processCmd (Disp.run exW2 worst.dropLast) 1 (discRead Disp.nmAddr ([0], 0) 5)).2 =
      [(1, .reply (some 5) 901 ([0], 0) ([0], 0) 0 (some 0))] ∧
    (Disp.processCmd (Disp.run exW2 worst) 2 (discRead Disp.nmAddr ([0], 0) 5)).2 =
      [(2, .reply (some 5) 901 ([0], 0) ([0], 0) 0 (some 0))] ∧
    (Disp.processCmd (Disp.run exW2 worst) 1 (discRead Disp.nmAddr ([0], 0) 5)).2 = [] := by
  refine ⟨by decide, by unfold Disp.FreshNM; decide, ?_, ?_, by decide, by decide, by decide, by decide, by decide⟩
  · intro p hp; simp [worst] at hp; omega
  · intro p hp; simp [worst] at hp

end Spine.Props.C05
