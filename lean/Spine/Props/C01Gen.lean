import Spine.DispatchThm
import Spine.Generated.AckTable
/-!
# C01 — the classifier / ack rule table of `DeviceLocal.ProcessCmd`, regenerated from the tree under test on every run

`expected` (`Spine/DispatchThm.lean`) is the hand-written rule table of the statement. The translator (generator
`acktable`, go/cmd/translate/gen_acktable.go) OBSERVES the table on the compiled code: one real datagram per
classifier × ackRequest × {destination unknown, accepted, rejected} through `DeviceRemote.HandleSpineMesssage`, the
replies and results written to the sender recorded in order. Being dynamic it does not depend on how `ProcessCmd`
decides (the slice of ack classifiers, a switch, an if-chain, negated conditions, helpers). Theorems here, re-checked
by every `./check C01`:
* `c01_rule_table_of_source`: the regenerated table IS the rule table of the property statement;
* `c01_rule_table_matches_model`: on the model replica of the generator's world, `processCmd` / `processCall` of
  `Spine.Disp` (member: repaired) emit exactly the table's responses, and `expected` prescribes them;
* `c01_rule_table_addressed`: every observed response referenced the counter, went to the source feature and named the
  addressed feature with the local device address.
A tree whose `ProcessCmd` acknowledges another set of classifiers, answers a result, or answers twice breaks the
obligation named here (and the differential run finds the failing datagram).
-/
namespace Spine.Props.C01Gen
open Spine Spine.Disp

abbrev Row := Nat × Bool × Nat × List Nat × Bool

def clsOf : Nat → Cls
  | 0 => .read | 1 => .reply | 2 => .notify | 3 => .write | 4 => .call | _ => .result

/-- the rule table of the statement, on the generator's codes (0 reply, 1 success, 2 error) -/
def prescribed (cls : Nat) (ack : Bool) (case : Nat) : List Nat :=
  if cls = 5 then []                                   -- never any result in answer to a result
  else if case = 0 then [2]                            -- destination feature does not exist: one error result
  else if case = 2 then [2]                            -- rejected: one error result
  else if cls = 0 then [0]                             -- read of a server / special feature: one reply
  else if ack then [1] else []                         -- call, reply, notify, write accepted: success iff ack requested

/-- The regenerated table is the rule table of the property statement: 36 rows, one per classifier × ack × case, and
    each row's responses are exactly the prescribed ones — one reply for an accepted read; one success result when an
    acknowledgement was requested and the call, reply, notify or write was accepted (none when not requested); one
    error result when rejected or the destination is unknown; never a result in answer to a result; never a panic. -/
theorem c01_rule_table_of_source :
    Generated.AckTable.rows.length = 36 ∧
    (Generated.AckTable.rows.map fun r => (r.1, r.2.1, r.2.2.1)) =
      ((List.range 6).flatMap fun c => [false, true].flatMap fun a => (List.range 3).map fun k => (c, a, k)) ∧
    (Generated.AckTable.rows.all fun r => r.2.2.2.1 == prescribed r.1 r.2.1 r.2.2.1) = true := by decide

/-- every response of the table was correctly addressed (reference, destination = the request's source feature,
    source = the addressed feature with the local device address) -/
theorem c01_rule_table_addressed : (Generated.AckTable.rows.all fun r => r.2.2.2.2) = true := by decide

/-! the model replica of the generator's world -/
def gNM : LF := { ent := [0], feat := 0, typ := 14, role := .special, fds := [901, 902, 903, 904, 905], ops := [(901, false)], nm := true }
def gSrv : LF := { ent := [1], feat := 1, typ := 10, role := .server, fds := [5], ops := [(5, true)] }
def gCli : LF := { ent := [1], feat := 2, typ := 10, role := .client, fds := [5], ops := [] }
def gPeer : Peer :=
  ⟨[⟨[0], 0, [901, 902, 903, 904, 905], 14, .special⟩, ⟨[1], 1, [5], 10, .client⟩, ⟨[1], 2, [5], 10, .server⟩], 3, []⟩
def genW : W :=
  { loc := [gNM, gSrv, gCli], peers := fun _ => gPeer, binds := [(([1], 1), 1, ([1], 1))], cfg := Cfg.clean, fresh := gPeer }

/-- the generator's datagram for a row (function 5 = the limit list, 6 = a function the sending feature's type does
    not have, 900 = result data) -/
def genDg (cls : Nat) (ack : Bool) (case : Nat) : Dg :=
  let c := clsOf cls
  let base : Dg := { src := ([1], 1), dst := ([1], 1), ctr := some 200, ref := if cls = 1 ∨ cls = 5 then some 77 else none,
                     cls := c, ack := ack, fn := if cls = 5 then 900 else 5, val := 9 }
  match case with
  | 0 => { base with dst := ([9], 9) }
  | 1 => if cls = 1 ∨ cls = 2 then { base with src := ([1], 2), dst := ([1], 2) } else base
  | _ =>
    if cls = 0 then { base with dst := ([1], 2) }
    else if cls = 1 ∨ cls = 2 then { base with src := ([1], 2), dst := ([1], 2), fn := 6 }
    else if cls = 3 then { base with src := ([1], 2) }
    else if cls = 5 then { base with noErr := true }
    else base

def codeOf : Resp → Nat
  | .reply _ _ => 0 | .success => 1 | .error => 2

/-- what the model emits for a row: the accepted call is the subscription request at node management
    (`processCall`), everything else one datagram through `processCmd` -/
def modelResp (cls : Nat) (ack : Bool) (case : Nat) : List Nat :=
  if cls = 4 ∧ case = 1 then
    ((processCall genW 1 200 ack (.sub ([1], 1) ([1], 1) 10)).2.filterMap kindOf).map fun r => codeOf r.2
  else ((processCmd genW 1 (genDg cls ack case)).2.filterMap kindOf).map fun r => codeOf r.2

/-- The model emits exactly the regenerated table, row by row, and (for the datagram rows) `expected` prescribes it. -/
theorem c01_rule_table_matches_model :
    (Generated.AckTable.rows.all fun r => modelResp r.1 r.2.1 r.2.2.1 == r.2.2.2.1) = true ∧
    (Generated.AckTable.rows.all fun r => (r.1 == 4 && r.2.2.1 == 1) ||
      ((expected genW 1 (genDg r.1 r.2.1 r.2.2.1)).map codeOf == r.2.2.2.1)) = true := by decide

/-- non-vacuity: the table holds every kind of answer, and the model world really accepts / rejects as labelled -/
example : (Generated.AckTable.rows.filter fun r => r.2.2.2.1 == [0]).length = 2 ∧
    (Generated.AckTable.rows.filter fun r => r.2.2.2.1 == [1]).length = 4 ∧
    (Generated.AckTable.rows.filter fun r => r.2.2.2.1 == [2]).length = 20 ∧
    (Generated.AckTable.rows.filter fun r => r.2.2.2.1 == []).length = 10 ∧
    applies genW 1 gSrv (genDg 3 true 1) = true ∧ applies genW 1 gSrv (genDg 3 true 2) = false ∧
    callOk genW 1 (.sub ([1], 1) ([1], 1) 10) = true := by decide

end Spine.Props.C01Gen
