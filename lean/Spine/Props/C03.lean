import Spine.C03Reg
import Spine.GateThm
import Spine.OpsInfo
import Spine.DispatchTreeThm
/-!
# C03 — a remote write takes effect only with a binding and write permission

Property theorems only (lemmas: `Spine/C03Thm.lean`, `Spine/C03Reg.lean`). Model: `Spine.Disp` — the write gate of
`ProcessCmd` (`gateOk`: function announced writable ∧ the registry holds (server feature, connection, client feature)),
the data effect recorded in `W.written`, the notification fan-out of an accepted write (`notifs`), and the binding
registry operations `callApply` (grant / delete), `removeEnt`, `dropPeer` as a family over the C09 / C10 defect flags.

Status: the per-step clauses (effect only through the gate; a denied write is silent and gets exactly one error;
an authorised write is applied, fanned out and acknowledged) are PROVED for every member. "Authorisation follows the
binding registry immediately" is PROVED over all histories for the member with repaired registries
(`c03_follows_registry`), REFUTED for the code as written by two kernel-checked witnesses (the C10 and C09 registry
defects lose bindings the SPEC keeps), and its security direction — never accepted without a binding in force — is
PROVED for every member (`c03_accepted_only_if_registry`).
Schedules: the sequential theorems are complemented by the event-sourced model `Spine.Gate` (section "all schedules"
below): a write is the two events gate / apply, and for EVERY interleaving with registry operations and clean-ups a
write that changed the data was writable and bound at the moment of its gate (`c03_all_schedules_bound_at_gate`), a
refused or cleaned-up write is never applied by any continuation (`c03_refused_never_applied`,
`c03_cleaned_never_applied`); `c03_gate_model_agrees` ties that model to this one. Tie: `TestGate`.
Not modelled (monitored on the real code by `TestDispatch` only): the data values themselves (digest before / after
through the public API), the data-change *event* (the model's `W` marker is compared with the observed write event),
write approval callbacks (C12), restricted-exchange payload rules (C02/C04).
`InvF` (hypothesis of the history theorems): every entity a peer announces in the initial world is one of the
announcement set `fresh` (true when all peers start disconnected).
The gate and the registry are keyed by the exact (connection, entity address, feature number): an entity address that
is a proper prefix of another is another key (non-vacuity example with [1] / [1,1] below).
Hypothesis H-devaddr: distinct connected peers announce distinct device addresses (the code compares addresses, the
model connections).
-/
namespace Spine.Props.C03
open Spine.Disp

/-- Effect only if: the data of a local feature changes only through a write datagram whose function is announced
    writable on the addressed feature, whose sending feature holds a binding to that feature at that moment, and
    which the feature holds data for. Every member, every world. -/
theorem c03_effect_only_if (w : W) (p : Nat) (d : Dg) (hch : (processCmd w p d).1.written ≠ w.written) :
    ∃ lf, dstF w d = some lf ∧ d.cls = .write ∧ writable lf d.fn = true ∧ (d.dst, p, d.src) ∈ w.binds ∧
      lf.fds.contains d.fn = true :=
  Spine.Disp.c03_effect_only_if w p d hch

/-- Denied is silent: a write from an announced feature that does not pass the gate changes no data, and the complete
    output of the step — over all connections — is exactly one error result to the writer: no subscriber is
    notified. Every member. -/
theorem c03_denied_is_silent (w : W) (p : Nat) (d : Dg) (lf : LF) (rf : RF) (hsrc : srcF w p d = some rf)
    (hdst : dstF w d = some lf) (hw : d.cls = .write) (hg : gateOk w p lf d = false) (hnc : NoCrash w d) :
    (processCmd w p d).1.written = w.written ∧ (processCmd w p d).1.data = w.data ∧
      (processCmd w p d).2 = [(p, res d 1)] :=
  Spine.Disp.c03_denied_is_silent w p d lf rf hsrc hdst hw hg hnc

/-- Accepted: a write that passes the gate, of a function the feature holds, with a payload the update engine
    accepts (`bad = false`), is applied; exactly the subscribers of
    the written feature are notified, once each; the writer gets exactly the requested acknowledgement. -/
theorem c03_accepted (w : W) (p : Nat) (d : Dg) (lf : LF) (rf : RF) (hsrc : srcF w p d = some rf)
    (hdst : dstF w d = some lf) (hw : d.cls = .write) (hg : gateOk w p lf d = true) (hnm : lf.nm = false)
    (hf : lf.fds.contains d.fn = true) (hb : d.bad = false) (hnc : NoCrash w d) :
    (processCmd w p d).1.written = (d.dst, d.fn) :: w.written ∧
      (processCmd w p d).2 = notifs w d ++ (if d.ack then [(p, res d 0)] else []) :=
  Spine.Disp.c03_accepted w p d lf rf hsrc hdst hw hg hnm hf hb hnc

/-- The gate is a function of the current registry: open iff writable and bound. -/
theorem c03_gate_iff (w : W) (p : Nat) (lf : LF) (d : Dg) :
    gateOk w p lf d = true ↔ writable lf d.fn = true ∧ (d.dst, p, d.src) ∈ w.binds :=
  Spine.Disp.gateOk_iff w p lf d

/-- Follows the registry, repaired registries (`unbindDisjunct`, `entRemovalAnyPeer` off), all histories: after any
    history of datagrams, bind / unbind / subscribe calls, entity removed / added notifications, disconnects and
    connects by any peers that starts without bindings, a write is let through iff its function is announced writable
    and the SPEC registry — folded from the registry events of the earlier operations: granted, deleted, entity gone,
    entities no longer listed by a full announcement, peer gone — holds (server, connection, client) at that moment. No caching can hide: the gate is a function of
    the state. `opOk` (decidable, `featured`): the domain of the model — every entity an operation announces as new carries a feature. -/
theorem c03_follows_registry (w0 : W) (ops : List Op) (hu : w0.cfg.unbindDisjunct = false)
    (he : w0.cfg.entRemovalAnyPeer = false) (h0 : w0.binds = []) (hF : InvF w0) (hok : ∀ op ∈ ops, opOk w0.fresh op)
    (p : Nat) (lf : LF) (d : Dg) :
    gateOk (run w0 ops) p lf d = (writable lf d.fn && specReg (trace w0 ops) (d.dst, p, d.src)) :=
  Spine.Disp.c03_follows_registry w0 ops hu he h0 hF hok p lf d

/-- Security direction, every member of the family (also the code as written), all histories: a write is never let
    through unless the SPEC registry holds the binding at that moment — the registry defects lose bindings, they never
    keep a deleted one or one whose holder is gone. -/
theorem c03_accepted_only_if_registry (w0 : W) (ops : List Op) (h0 : w0.binds = []) (hF : InvF w0)
    (hok : ∀ op ∈ ops, opOk w0.fresh op) (p : Nat) (lf : LF) (d : Dg) (hg : gateOk (run w0 ops) p lf d = true) :
    writable lf d.fn = true ∧ specReg (trace w0 ops) (d.dst, p, d.src) = true :=
  Spine.Disp.c03_accepted_only_if_registry w0 ops h0 hF hok p lf d hg

/-- Re-announcement keeps the registry and keeps it deletable: a repeated discovery reply (`Op.reann`) or a partial
    "added" notification for a known entity (`Op.entAdd`) changes no binding and no subscription — a registry event
    `other` in the SPEC — so the delete call that follows is judged by address exactly as before it. -/
theorem c03_reannounce_keeps_registry (w : W) (p ctr : Nat) (ref : Option Nat) (ack : Bool) (e : List Nat) :
    (step w (.reann p ctr ref ack)).1.binds = w.binds ∧ (step w (.entAdd p e ctr ack)).1.binds = w.binds ∧
      evOf w (.reann p ctr ref ack) = .other ∧ evOf w (.entAdd p e ctr ack) = .other :=
  ⟨(frame_processReann w p ctr ref ack).1, (frame_processEntAdd w p e ctr ack).1, rfl, rfl⟩

/-- REFUTED for the code as written ("accepted once the binding is granted … until it is deleted or the writer's
    device or entity disappears"): peer 2 announces the removal of *its* entity [1] and peer 1's binding, held by
    peer 1's equally numbered entity, is gone (`RemoveBindingsForEntity` ignores the device — the C10 defect). -/
theorem c03_follows_registry_refuted_entity :
    witW.cfg = {} ∧ witW.binds = [] ∧ writable witLF1 5 = true ∧
      specReg (trace witW witEntOps) (([1], 1), 1, ([1], 1)) = true ∧
      gateOk (run witW witEntOps) 1 witLF1 (witD ([1], 1)) = false :=
  Spine.Disp.c03_follows_registry_refuted_entity

/-- REFUTED for the code as written: a client feature bound to two server features deletes one binding and loses
    both (`RemoveBinding` keeps an entry only if it differs in client *and* server — the C09 defect). -/
theorem c03_follows_registry_refuted_unbind :
    witW.cfg = {} ∧ witW.binds = [] ∧ writable witLF2 5 = true ∧
      specReg (trace witW witUnbindOps) (([2], 2), 1, ([1], 1)) = true ∧
      gateOk (run witW witUnbindOps) 1 witLF2 (witD ([2], 2)) = false :=
  Spine.Disp.c03_follows_registry_refuted_unbind

/-! Non-vacuity: on the repaired member the same histories keep the binding, a granted binding opens the gate, its
    deletion, the holder's entity removal and the holder's disconnect close it again; `opOk` holds of these histories. -/
def cleanW : W := { witW with cfg := Cfg.clean }

example :
    gateOk (run cleanW witEntOps) 1 witLF1 (witD ([1], 1)) = true ∧
    gateOk (run cleanW witUnbindOps) 1 witLF2 (witD ([2], 2)) = true ∧
    gateOk (run cleanW [.conn 1]) 1 witLF1 (witD ([1], 1)) = false ∧
    gateOk (run cleanW (witUnbindOps ++ [.call 1 13 false (.unbind ([1], 1) ([2], 2))])) 1 witLF2 (witD ([2], 2)) = false ∧
    gateOk (run cleanW [.conn 1, .call 1 10 true (.bind ([1], 1) ([1], 1) 1), .entRem 1 [1] 11 true]) 1 witLF1 (witD ([1], 1)) = false ∧
    gateOk (run cleanW [.conn 1, .call 1 10 true (.bind ([1], 1) ([1], 1) 1), .drop 1, .conn 1]) 1 witLF1 (witD ([1], 1)) = false := by
  decide

example : InvF cleanW := by intro q e h; simp [hasEnt, cleanW, witW] at h

/-- hierarchical entity addresses with a repeated feature number: the binding of [1]/1 does not authorise [1,1]/1 nor
    the reverse; after a re-announcement (either route) the binding is still deletable and the gate closes -/
def hierW : W :=
  { cleanW with fresh := ⟨[⟨[0], 0, [], 9, .special⟩, ⟨[1], 1, [5], 1, .client⟩, ⟨[1, 1], 1, [5], 1, .client⟩], 3, []⟩ }
def hierD (src : Addr) (dst : Addr) : Dg := { witD dst with src := src }
example :
    let bindParent : List Op := [.conn 1, .call 1 10 true (.bind ([1], 1) ([1], 1) 1)]
    let bindChild : List Op := [.conn 1, .call 1 10 true (.bind ([1, 1], 1) ([1], 1) 1)]
    gateOk (run hierW bindParent) 1 witLF1 (hierD ([1], 1) ([1], 1)) = true ∧
    gateOk (run hierW bindParent) 1 witLF1 (hierD ([1, 1], 1) ([1], 1)) = false ∧
    gateOk (run hierW bindChild) 1 witLF1 (hierD ([1, 1], 1) ([1], 1)) = true ∧
    gateOk (run hierW bindChild) 1 witLF1 (hierD ([1], 1) ([1], 1)) = false ∧
    gateOk (run hierW (bindParent ++ [.reann 1 11 (some 2) true])) 1 witLF1 (hierD ([1], 1) ([1], 1)) = true ∧
    gateOk (run hierW (bindParent ++ [.reann 1 11 (some 2) true, .call 1 12 true (.unbind ([1], 1) ([1], 1))])) 1 witLF1
      (hierD ([1], 1) ([1], 1)) = false ∧
    gateOk (run hierW (bindParent ++ [.entAdd 1 [1] 11 true, .call 1 12 true (.unbind ([1], 1) ([1], 1))])) 1 witLF1
      (hierD ([1], 1) ([1], 1)) = false := by decide

/-- a FULL discovery notification that REPLACES an entity — [1] no longer listed, [1,1] new: the count of entities stays
    the same — is the registry event `entitiesGone`: the binding held by [1]/1 is gone, a write from [1]/1 is no longer
    let through, also not after [1] is announced again (without a new binding); a full notification that changes nothing
    is an error and changes nothing -/
def fullW : W :=
  { cleanW with fresh := ⟨[⟨[0], 0, [901], 9, .special⟩, ⟨[1], 1, [5], 1, .client⟩, ⟨[1, 1], 1, [5], 1, .client⟩], 3, []⟩ }
example :
    let pre : List Op := [.conn 1, .full 1 [[0], [1]] 9 false, .call 1 10 true (.bind ([1], 1) ([1], 1) 1)]
    entsOf (run fullW pre) 1 = [[0], [1]] ∧
    gateOk (run fullW pre) 1 witLF1 (hierD ([1], 1) ([1], 1)) = true ∧
    evOf (run fullW pre) (.full 1 [[0], [1, 1]] 11 true) = .entitiesGone 1 [[1]] ∧
    entsOf (run fullW (pre ++ [.full 1 [[0], [1, 1]] 11 true])) 1 = [[0], [1, 1]] ∧
    gateOk (run fullW (pre ++ [.full 1 [[0], [1, 1]] 11 true])) 1 witLF1 (hierD ([1], 1) ([1], 1)) = false ∧
    gateOk (run fullW (pre ++ [.full 1 [[0], [1, 1]] 11 true, .full 1 [[0], [1], [1, 1]] 12 true])) 1 witLF1
      (hierD ([1], 1) ([1], 1)) = false ∧
    (step (run fullW pre) (.full 1 [[0], [1]] 11 true)).2 =
      [(1, .result (some 11) 1 ([0], 0) ([0], 0) (some 0)), (1, .readReq 901 ([0], 0) ([0], 0))] ∧
    gateOk (step (run fullW pre) (.full 1 [[0], [1]] 11 true)).1 1 witLF1 (hierD ([1], 1) ([1], 1)) = true := by decide

example : ∀ op ∈ witEntOps ++ [Op.entAdd 2 [1] 12 true, Op.full 1 [[0], [1]] 13 true], opOk cleanW.fresh op := by decide

/-- outside the domain: an "added" entry for an entity the announcement set has no feature for -/
example : ¬ opOk cleanW.fresh (Op.entAdd 2 [7] 12 true) := by decide

/-- a removal entry for the device-information entity [0] is skipped, as in the code: the peer stays connected, nothing
    is a registry event, the acknowledgement is sent -/
example :
    connected (step (run cleanW [.conn 1]) (.entRem 1 [0] 9 true)).1 1 = true ∧
    evOf (run cleanW [.conn 1]) (.entRem 1 [0] 9 true) = .other ∧
    (step (run cleanW [.conn 1]) (.entRem 1 [0] 9 true)).2 = [(1, .result (some 9) 0 ([0], 0) ([0], 0) (some 0))] := by decide

/-- a denied and an accepted write in a concrete world: the denied one yields exactly one error and no notification
    although a subscriber exists -/
def exW : W :=
  { loc := [witLF1], peers := fun _ => ⟨[⟨[0], 0, [], 9, .special⟩, ⟨[1], 1, [5], 1, .client⟩], 3, []⟩,
    binds := [(([1], 1), 1, ([1], 1))], subs := [(([1], 1), 2, ([1], 1))] }

example :
    (processCmd exW 2 (witD ([1], 1))).2 = [(2, .result (some 50) 1 ([1], 1) ([1], 1) (some 0))] ∧
    (processCmd exW 2 (witD ([1], 1))).1.written = [] ∧
    (processCmd exW 1 (witD ([1], 1))).2 = [(2, .notify 5 ([1], 1) ([1], 1) 7), (1, .result (some 50) 0 ([1], 1) ([1], 1) (some 0))] ∧
    (processCmd exW 1 (witD ([1], 1))).1.written = [(([1], 1), 5)] := by decide

/-- a write that passes the gate but whose payload the update engine rejects (`bad`) is as silent as a denied one -/
example :
    (processCmd exW 1 { witD ([1], 1) with bad := true }).2 = [(1, .result (some 50) 1 ([1], 1) ([1], 1) (some 0))] ∧
    (processCmd exW 1 { witD ([1], 1) with bad := true }).1.written = [] := by decide

/-! ## "at the moment it is processed" — all schedules (`Spine.Gate`)

The theorems above are about sequential histories: one operation is one step. In the code the gate and the data
change are two moments (`BindingsOnFeature` takes a snapshot of the registry in one region of the manager's mutex;
`processWrite` runs later — at once, or when the application's write approval arrives), and registry operations of
other connections and of the application run in between. `Spine.Gate` splits a write into the events `gate` and
`apply`; every list of events is a schedule. -/

/-- All schedules, every member of the family: whatever the interleaving of any number of writes with grants, deletes,
    entity removals and clean-ups, a write that changed the data (i) was of a function announced writable and (ii) its
    sender held the binding in the registry as it stood at the moment of its gate — after exactly the `seen` registry
    operations executed before the snapshot, none later. A binding granted after the snapshot does not authorise it,
    a deletion after the snapshot does not un-authorise it: the moment of processing decides. -/
theorem c03_all_schedules_bound_at_gate (cfg : Cfg) (b0 : List Entry) (evs : List Gate.Ev) (w : Gate.Pend)
    (hw : w ∈ (Gate.run (Gate.init cfg b0) evs).applied) :
    w.wr = true ∧ w.seen ≤ (Gate.run (Gate.init cfg b0) evs).hist.length ∧
      w.e ∈ Gate.regFold cfg b0 ((Gate.run (Gate.init cfg b0) evs).hist.take w.seen) :=
  Gate.applied_bound_at_gate cfg b0 evs w hw

/-- … and the data changes only through the write's own `apply` event, only if the gate let it through: no registry
    operation, no other write's event, no clean-up applies a write. -/
theorem c03_applied_only_by_own_apply (s : Gate.St) (ev : Gate.Ev) (w : Gate.Pend) (hw : w ∈ (Gate.step s ev).applied) :
    w ∈ s.applied ∨ (ev = .apply w.id ∧ w ∈ s.pend ∧ w.ok = true) :=
  Gate.applied_step_mono s ev w hw

/-- "rejected again as soon as … the writer's device or entity disappears", for a write that is still waiting: the
    clean-up of the writer's entity discards it, a later approval applies nothing. -/
theorem c03_pending_discarded_when_entity_gone (s : Gate.St) (p : Nat) (ent : List Nat) (w : Gate.Pend)
    (hw : w ∈ (Gate.stepClean s p ent).pend) (hp : w.e.2.1 = p) (he : w.e.2.2.1 = ent) : w.ok = false :=
  Gate.clean_discards s p ent w hw hp he

/-- … lifted to ALL continuations: once the clean-up of the writer's entity has run, a write of that entity that had
    passed the gate and was still waiting is never applied, whatever follows — a late approval, a new binding granted to
    the re-announced entity, a later gate event that re-uses the id. -/
theorem c03_cleaned_never_applied (s : Gate.St) (p : Nat) (ent : List Nat) (i : Nat) (hu : i ∈ s.used)
    (hmine : ∀ w ∈ s.pend, w.id = i → w.e.2.1 = p ∧ w.e.2.2.1 = ent) (hna : ∀ w ∈ s.applied, w.id ≠ i)
    (evs : List Gate.Ev) : ∀ w ∈ (Gate.run (Gate.stepClean s p ent) evs).applied, w.id ≠ i :=
  Gate.cleaned_never_applied s p ent i hu hmine hna evs

/-- "otherwise the data is unchanged", all continuations: a write the gate refused (not writable, or not bound at that
    moment) is never applied, whatever follows — in particular not by a binding granted afterwards. -/
theorem c03_refused_never_applied (s : Gate.St) (i : Nat) (e : Entry) (wr : Bool) (hfresh : s.used.contains i = false)
    (hv : Gate.verdict s.binds e wr = false) (hna : ∀ w ∈ s.applied, w.id ≠ i) (hnp : ∀ w ∈ s.pend, w.id ≠ i)
    (evs : List Gate.Ev) : ∀ w ∈ (Gate.run (Gate.stepGate s i e wr) evs).applied, w.id ≠ i :=
  Gate.refused_never_applied s i e wr hfresh hv hna hnp evs

/-- non-vacuity of the two: the state after `gate 1` (bound) meets the hypotheses of the first for (1, [1]) and the
    write IS applied if the clean-up does not run; the empty registry meets those of the second -/
example :
    let s := Gate.run (Gate.init Cfg.clean [(([1], 1), 1, ([1], 1))]) [.gate 1 (([1], 1), 1, ([1], 1)) true]
    (1 ∈ s.used) ∧ (∀ w ∈ s.pend, w.id = 1 → w.e.2.1 = 1 ∧ w.e.2.2.1 = [1]) ∧ s.applied.map (·.id) = [] ∧
    (Gate.run s [.apply 1]).applied.map (·.id) = [1] ∧
    (Gate.run (Gate.stepClean s 1 [1]) [.reg (.grant (([1], 1), 1, ([1], 1))), .apply 1]).applied.map (·.id) = [] ∧
    Gate.verdict (Gate.init Cfg.clean []).binds (([1], 1), 1, ([1], 1)) true = false := by
  refine ⟨by decide, ?_, by decide, by decide, by decide, by decide⟩
  intro w hw hid
  simp [Gate.run, Gate.step, Gate.stepGate, Gate.init, Gate.verdict] at hw
  subst hw
  exact ⟨rfl, rfl⟩

/-- Cross-model agreement: the sequential dispatch world is the schedule "gate immediately followed by apply" of this
    model — the gate event's verdict is `gateOk` on the same registry, the registry operations are `callApply` /
    `removeEnt` of the dispatch world (same family over the C09 / C10 flags). -/
theorem c03_gate_model_agrees (w : W) (p : Nat) (lf : LF) (d : Dg) (c s : Addr) (t : Nat) (ent : List Nat) :
    gateOk w p lf d = Gate.verdict w.binds (d.dst, p, d.src) (writable lf d.fn) ∧
    (callApply w p (.bind c s t)).binds = Gate.regApply w.cfg w.binds (.grant (s, p, c)) ∧
    (callApply w p (.unbind c s)).binds = Gate.regApply w.cfg w.binds (.delete s p c) ∧
    (removeEnt w p ent).binds = Gate.regApply w.cfg w.binds (.entGone p ent) :=
  ⟨Gate.gate_agrees w p lf d, Gate.reg_agrees w p c s t ent⟩

/-- non-vacuity, four schedules over the binding `eB` of ([1],1) on connection 1 to server ([1],1):
    (a) gate, then the binding is deleted, then the approval arrives: applied — it was processed while bound;
    (b) deleted first, gate, granted again, apply: refused — a later grant does not authorise it;
    (c) gate, the writer's entity disappears (registry pass and clean-up), approval: nothing is applied;
    (d) two writers interleaved, only the bound one is applied, whatever the order of the apply events -/
def eB : Entry := (([1], 1), 1, ([1], 1))
def eOther : Entry := (([1], 1), 2, ([1], 1))
example :
    ((Gate.run (Gate.init Cfg.clean [eB]) [.gate 1 eB true, .reg (.delete ([1], 1) 1 ([1], 1)), .apply 1]).applied.map (·.id)) = [1] ∧
    ((Gate.run (Gate.init Cfg.clean [eB]) [.gate 1 eB true, .reg (.delete ([1], 1) 1 ([1], 1)), .apply 1]).binds) = [] ∧
    (let s := Gate.run (Gate.init Cfg.clean [eB]) [.reg (.delete ([1], 1) 1 ([1], 1)), .gate 1 eB true, .reg (.grant eB), .apply 1]
     s.applied.map (·.id) = [] ∧ s.refused = [1] ∧ s.binds = [eB]) ∧
    (let s := Gate.run (Gate.init Cfg.clean [eB]) [.gate 1 eB true, .reg (.entGone 1 [1]), .clean 1 [1], .apply 1]
     s.applied.map (·.id) = [] ∧ s.refused = [] ∧ s.pend.map (·.id) = []) ∧
    (let s := Gate.run (Gate.init Cfg.clean [eB]) [.gate 1 eB true, .gate 2 eOther true, .reg (.delete ([1], 1) 1 ([1], 1)), .apply 2, .apply 1]
     s.applied.map (·.id) = [1] ∧ s.refused = [2]) ∧
    ((Gate.run (Gate.init Cfg.clean [eB]) [.gate 1 eB false, .apply 1]).refused) = [1] := by decide

/-! ## the announcement, and the device a header claims (second deepening round) -/

/-- "the written function is ANNOUNCED as writable on that feature": the flag the gate reads (`writable`:
    `Operations()[fn].Write()`) is, for every local feature and every function, exactly what the feature's detailed
    discovery information says (`OpsInfo.announce`: one `possibleOperations` per announced function, rendered by the
    transcription of `Operations.Information()`; write element present), whatever the read and partial flags — a
    WRITE-ONLY function included, a function that is not announced excluded. That `OpsInfo.info` is the
    `Information()` of the tree under test, and that `AddFunctionType` → `Information()` / `Operations()` agree on a
    real feature, is re-checked over regenerated tables in `Props/C03Gen.lean`. -/
theorem c03_gate_reads_the_announcement (rd : Nat → Bool × Bool) (wp : Nat → Bool) (lf : LF) (fn : Nat) :
    writable lf fn = OpsInfo.announcedWritable (OpsInfo.announce rd wp lf) fn :=
  OpsInfo.writable_iff_announced rd wp lf fn

/-- … so the first clause, restated on the announcement: whatever changes the data was a write of a function the
    feature announces as writable, by a writer bound at that moment (every member, every world) -/
theorem c03_effect_only_if_announced (rd : Nat → Bool × Bool) (wp : Nat → Bool) (w : W) (p : Nat) (d : Dg)
    (h : (processCmd w p d).1.written ≠ w.written) :
    ∃ lf, dstF w d = some lf ∧ d.cls = .write ∧
      OpsInfo.announcedWritable (OpsInfo.announce rd wp lf) d.fn = true ∧ (d.dst, p, d.src) ∈ w.binds := by
  obtain ⟨lf, hl, hc, hw, hb, _⟩ := Spine.Disp.c03_effect_only_if w p d h
  exact ⟨lf, hl, hc, by rw [← OpsInfo.writable_iff_announced]; exact hw, hb⟩

/-- non-vacuity: a feature announcing 5 read-write, 6 read-only, 7 WRITE-ONLY and holding data for 8 without
    announcing it: writable per the announcement are exactly 5 and 7 -/
example :
    let lf : LF := { ent := [1], feat := 1, typ := 1, role := .server, fds := [5, 6, 7, 8], ops := [(5, true), (6, false), (7, true)] }
    let rd : Nat → Bool × Bool := fun fn => (fn ≠ 7, false)
    [5, 6, 7, 8].map (OpsInfo.announcedWritable (OpsInfo.announce rd (fun _ => false) lf)) = [true, false, true, false] ∧
    (OpsInfo.announce rd (fun _ => false) lf).map (·.2) = [⟨some false, some false⟩, ⟨some false, none⟩, ⟨none, some false⟩] := by decide

/-- The device a header CLAIMS for its source is read by nothing: the source feature is resolved on the SENDING
    connection, the gate compares the resolved feature — omitted, the sender's own or another peer's device address in
    the header, the step is the same: same outputs, same registry, same data (every member, every world, every
    datagram). With `c03_effect_only_if` (binding `(server, p, client)` of the sending connection `p`): an unbound peer
    naming the binding holder's device is refused, a bound peer omitting its device is served. -/
theorem c03_claimed_source_device_irrelevant (w : W) (p : Nat) (d : Dg) (sd : Option Nat) :
    (processCmd w p { d with srcDev := sd }).2 = (processCmd w p d).2 ∧
    (processCmd w p { d with srcDev := sd }).1.binds = (processCmd w p d).1.binds ∧
    (processCmd w p { d with srcDev := sd }).1.written = (processCmd w p d).1.written ∧
    (processCmd w p { d with srcDev := sd }).1.data = (processCmd w p d).1.data := by
  have : processCmd w p { d with srcDev := sd } = processCmd w p d := by cases d; rfl
  rw [this]; exact ⟨rfl, rfl, rfl, rfl⟩

/-- non-vacuity: peer 1 holds the binding, peer 2 (same numbering) names peer 1's device and is refused; peer 1
    omits its device and is served -/
example :
    let w : W := { loc := [{ ent := [1], feat := 1, typ := 1, role := .server, fds := [5], ops := [(5, true)] }],
                   peers := fun _ => ⟨[⟨[1], 1, [5], 1, .client⟩], 0, []⟩, binds := [(([1], 1), 1, ([1], 1))], cfg := Cfg.clean }
    let d : Dg := { src := ([1], 1), dst := ([1], 1), ctr := some 9, ref := none, cls := .write, ack := true, fn := 5, val := 3 }
    (processCmd w 2 { d with srcDev := some 1 }).2 = [(2, .result (some 9) 1 ([1], 1) ([1], 1) (some 0))] ∧
    (processCmd w 1 { d with srcDev := none }).2 = [(1, .result (some 9) 0 ([1], 1) ([1], 1) (some 0))] ∧
    (processCmd w 1 { d with srcDev := none }).1.written = [(([1], 1), 5)] := by decide

/-- Announced LATER: after the application announces a function writable on an existing feature (`TOp.addFn`), the
    bound writer's write of that function passes the gate from that moment on (and did not before) — the gate reads the
    announcement of the moment, for every history before it (`c01_history_with_local_changes` gives the responses). -/
theorem c03_announced_later_is_writable (w : W) (a : Addr) (fn v : Nat) (lf : LF) (h : locF w a = some lf)
    (hnm : lf.nm = false) (hrole : lf.role ≠ .client) :
    ∃ lf', locF (tstep w (.addFn a fn true v)).1 a = some lf' ∧ (lf'.ops.any fun o => o.1 = fn) = true := by
  have hmem := List.find?_some h
  simp only [Bool.and_eq_true, decide_eq_true_eq] at hmem
  refine ⟨addFnLF a fn true lf, ?_, ?_⟩
  · show List.find? _ (w.loc.map (addFnLF a fn true)) = _
    unfold locF at h
    rw [List.find?_map]
    have hcongr : ((fun f : LF => decide (f.ent = a.1) && decide (f.feat = a.2)) ∘ addFnLF a fn true) =
        (fun f : LF => decide (f.ent = a.1) && decide (f.feat = a.2)) := by
      funext f; simp only [Function.comp, addFnLF]; split <;> rfl
    rw [hcongr, h]; rfl
  · unfold addFnLF
    split
    · simp
    · rename_i hc
      simp only [hmem.1, hmem.2, hnm, decide_true, Bool.not_false, Bool.true_and, Bool.and_eq_true, decide_eq_true_eq,
        Bool.not_eq_true', not_and, Bool.not_eq_false] at hc
      exact hc hrole

end Spine.Props.C03
