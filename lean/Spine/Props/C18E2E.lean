import Spine.CmdJsonTok
import Spine.JsonNorm
/-!
# C18, part 5 — END TO END: builders → `Spine.Json.encode` → `Spine.Json.decode` → recognisers

First sentence of the property with the wire being the JSON model itself, over the REGENERATED schema of
`model.CmdType` (G5) — not the key-level wire `W` of `Spine.Cmd`: the command a builder returns is turned into
the Go value it stands for (`Spine.CmdJson.cmdToV`: a value of the schema's `CmdType`, 147 fields, filters as
values of the schema's `FilterType`, 245 fields), encoded by `Spine.Json.encode`, decoded by
`Spine.Json.decode`, read back (`cmdOfV`) and handed to the recognisers of `Spine.Cmd`.

* `c18_cmd_schema_is_tables` (kernel, regenerated): the types the tag tables G2 predict for `CmdType`,
  `FilterType`, `CmdControlType` ARE the schema's types (field by field: json name, `omitempty`, and the
  schema of the Go type the table names), field indices are distinct, the special fields exist.
* `c18_wire_any_command` (hand-proved, all values): every well-formed, well-typed command survives the wire
  up to `norm` of its values.
* `c18_e2e` (kernel over tokens + hand-proved lifting): for every registered function, every one of the 15
  shapes and EVERY choice of payload / selectors / elements values of the function's types:
  `recognise (decode (encode (build f shape args)))` = (f, payload type, same filters) with every value the
  normal form of the value put in; `c18_e2e_equiv`, `c18_e2e_exact`: the normal forms are equivalent to the
  values (absent / empty lists), and identical when no `omitempty` field holds an empty non-nil list.
* `c18_e2e_every_call`: the same for all 22 ways of calling the three builders.

Tie to the code: `TestWireCmd` asks `drv_cmd` (op `e2e`) for `cmdToV (build …)`, its JSON and what is
recognised, with REAL values generated for the function's types, and compares all three with the real
builders, `encoding/json` and the real recognisers.
-/
namespace Spine.Props.C18
open Spine.Json Spine.Generated Spine.Cmd Spine.CmdJson

/-- The tag tables and the schema describe the same Go types: `tCmd` / `tFilter`, assembled from `cmdFields` /
    `filterFields` (json name, always `omitempty`, pointer to the schema of the Go type the row names;
    `Function *string`, `Filter []FilterType`, `CmdControl *CmdControlType{delete, partial}`,
    `FilterId *uint`), are EQUAL to the regenerated schema's `CmdType` and `FilterType`; field indices are
    pairwise distinct. So the value `cmdToV` assembles from the tables is a value of the schema's type. -/
theorem c18_cmd_schema_is_tables : tablesOk = true := by decide +kernel

/-- non-vacuity: the schema's `CmdType` has one field per table row, and many of them -/
example : (fieldsOf tCmdSchema).length = cmdFields.length ∧ 100 < cmdFields.length ∧
    100 < filterFields.length := by decide +kernel

/-- the schema's `CmdType` is well formed (instance of `c18_schema_wf`, decided directly) -/
theorem c18_cmd_schema_wf : wf tCmdSchema = true := by decide +kernel

/-- ANY command, not only the built ones: a command whose set fields follow the field order and name tagged
    pointer fields, whose filters have a `CmdControl`, whose function name is a representable string and
    whose values are typed by the fields they sit in, comes back from
    `cmdOfV ∘ Json.decode CmdType ∘ Json.encode CmdType ∘ cmdToV` as the same command with every value
    normalised under its field's type. -/
theorem c18_wire_any_command (c : Cmd V) (hs : CmdShape c) (ht : CmdTyped c) : wire c = some (normCmd c) :=
  wire_eq c18_cmd_schema_is_tables c18_cmd_schema_wf c hs ht

/-- what the kernel decides per function and shape, over the regenerated tables, for the command built from
    the five tokens: it is built, its skeleton fits the tables (indices in field order on tagged pointer
    fields, every token sits in a field of the Go type the data model provides for it, filters have a
    `CmdControl`, the function name survives the string coding) and it is recognised as demanded -/
def e2eTokOk (f : FnRow) (sh : Shape) : Bool :=
  match build clean f sh tok with
  | .ok ct => cmdSkel (tokTy f) ct && decide (recognise ct = .ok (some (expected f sh tok)))
  | .error _ => false

theorem c18_e2e_tok :
    ∀ f ∈ functions, ∀ sh ∈ Shape.all, applicable f sh = true → tagBad f sh = false → e2eTokOk f sh = true := by
  decide +kernel

/-- END TO END (repaired member): for every registered function, every shape and every choice of values
    typed by the schema types of the function's payload / selectors / elements:
    `recognise (cmdOfV (decode CmdType (encode CmdType (cmdToV (build f sh a)))))` is the function, its
    payload type and the filters the property demands, carrying the normal forms of the values. -/
theorem c18_e2e (a : Args V) :
    ∀ f ∈ functions, ∀ sh ∈ Shape.all, applicable f sh = true → tagBad f sh = false → argsTyped f a = true →
      e2e clean f sh a = .ok (some (expected f sh (normArgs f a))) := by
  intro f hf sh hsh hap hbad ha
  have h := c18_e2e_tok f hf sh hsh hap hbad
  unfold e2eTokOk at h
  cases hb : build clean f sh tok with
  | error e => rw [hb] at h; exact absurd h (by simp)
  | ok ct =>
    rw [hb] at h
    simp only [Bool.and_eq_true, decide_eq_true_eq] at h
    exact e2e_of_tok c18_cmd_schema_is_tables c18_cmd_schema_wf clean f sh ct hb h.1 h.2 a ha

/-- non-vacuity: a concrete function with selectors and elements, concrete well-typed values (one of them with
    an empty `omitempty` list, which comes back absent), all shapes applicable -/
example : ∃ f ∈ functions, (∀ sh ∈ Shape.all, applicable f sh = true ∧ tagBad f sh = false) ∧
    (selTy? f).isSome = true ∧ (elTy? f).isSome = true := by decide +kernel

/-- the values recognised are equivalent to the values put in: they differ only in absent versus empty lists -/
def argsEquiv (a b : Args V) : Bool :=
  equivV a.empty b.empty && equivV a.data b.data && equivV a.sel b.sel && equivV a.el b.el && equivV a.sel2 b.sel2

theorem c18_e2e_equiv (f : FnRow) (a : Args V) (ha : argsTyped f a = true) :
    argsEquiv (normArgs f a) a = true := by
  simp only [argsTyped, Bool.and_eq_true] at ha
  obtain ⟨⟨⟨⟨h0, h1⟩, h2⟩, h3⟩, h4⟩ := ha
  simp only [argsEquiv, normArgs, Bool.and_eq_true]
  exact ⟨⟨⟨⟨norm_equiv _ _ h0, norm_equiv _ _ h1⟩, norm_equiv _ _ h2⟩, norm_equiv _ _ h3⟩, norm_equiv _ _ h4⟩

/-- no value holds an empty non-nil list in an `omitempty` field -/
def argsClean (f : FnRow) (a : Args V) : Bool :=
  !hasEmptyOmit (tyOf f.payloadKey) a.empty && !hasEmptyOmit (tyOf f.payloadKey) a.data &&
  !hasEmptyOmit (tyOf ((selTy? f).getD 0)) a.sel && !hasEmptyOmit (tyOf ((elTy? f).getD 0)) a.el &&
  !hasEmptyOmit (tyOf ((selTy? f).getD 0)) a.sel2

/-- EXACT: when no value holds an empty non-nil `omitempty` list (in particular: for everything that has been
    decoded once), what is recognised is exactly what was put in. -/
theorem c18_e2e_exact (a : Args V) :
    ∀ f ∈ functions, ∀ sh ∈ Shape.all, applicable f sh = true → tagBad f sh = false → argsTyped f a = true →
      argsClean f a = true → e2e clean f sh a = .ok (some (expected f sh a)) := by
  intro f hf sh hsh hap hbad ha hc
  have := c18_e2e a f hf sh hsh hap hbad ha
  have hn : normArgs f a = a := by
    simp only [argsTyped, Bool.and_eq_true] at ha
    obtain ⟨⟨⟨⟨h0, h1⟩, h2⟩, h3⟩, h4⟩ := ha
    simp only [argsClean, Bool.and_eq_true, Bool.not_eq_true'] at hc
    obtain ⟨⟨⟨⟨c0, c1⟩, c2⟩, c3⟩, c4⟩ := hc
    simp only [normArgs, norm_eq_self _ _ h0 c0, norm_eq_self _ _ h1 c1, norm_eq_self _ _ h2 c2,
      norm_eq_self _ _ h3 c3, norm_eq_self _ _ h4 c4]
  rw [hn] at this
  exact this

/-! ### non-vacuity of the hypotheses on values -/

mutual
/-- the zero value of a type (`emptyLists`: every slice an empty non-nil list) -/
def zeroV (emptyLists : Bool) : Ty → V
  | .str => .str ""
  | .num => .num 0
  | .bool => .bool false
  | .ptr _ => .nil
  | .slice _ => if emptyLists then .list [] else .nil
  | .struct fs => .strct (zeroFields emptyLists fs)
def zeroFields (emptyLists : Bool) : List (Key × Bool × Ty) → List V
  | [] => []
  | (_, _, t) :: fs => zeroV emptyLists t :: zeroFields emptyLists fs
end

/-- the first registered function to which all 15 shapes apply -/
def probeFn : FnRow :=
  (functions.find? fun f => Shape.all.all fun sh => applicable f sh && !tagBad f sh).getD ⟨"", 0, "", 0, false⟩

/-- its arguments: a payload with every list empty but not nil, zero selectors and elements -/
def probeArgs : Args V :=
  ⟨zeroV false (tyOf probeFn.payloadKey), zeroV true (tyOf probeFn.payloadKey),
   zeroV false (tyOf ((selTy? probeFn).getD 0)), zeroV false (tyOf ((elTy? probeFn).getD 0)),
   zeroV false (tyOf ((selTy? probeFn).getD 0))⟩

/-- The hypotheses of `c18_e2e` are met by concrete values of a concrete registered function with selectors
    and elements; its payload holds an empty `omitempty` list, so the payload recognised differs from the
    payload sent (`c18_e2e` applies, `c18_e2e_exact` does not). -/
example : probeFn ∈ functions ∧ (selTy? probeFn).isSome = true ∧ (elTy? probeFn).isSome = true ∧
    argsTyped probeFn probeArgs = true ∧ argsClean probeFn probeArgs = false ∧
    hasEmptyOmit (tyOf probeFn.payloadKey) probeArgs.data = true := by decide +kernel

example : norm (tyOf probeFn.payloadKey) probeArgs.data ≠ probeArgs.data :=
  norm_ne_self _ _ (by decide +kernel)

end Spine.Props.C18
