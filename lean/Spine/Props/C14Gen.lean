import Spine.CallbacksConc
import Spine.CallbacksReent
import Spine.Generated.Callbacks
/-!
# C14 — facts regenerated from spine/feature_local.go on every run (tie b1)

`Spine.CB` treats a registration (`AddResponseCallback`: duplicate check + insertion) and a delivery
(`processResponseMsgCallbacks`: lookup + asynchronous invocation + removal) as ONE event each. That is a fact about
the source: each is one exclusive critical section of one and the same mutex. The translator (generator `callbacks`,
go/cmd/translate/gen_callbacks.go) re-extracts it from the tree under test — the registry is found by its type
(the map-of-slices field of FeatureLocal), helpers are inlined, `defer` and explicit unlocks are the same — and these
theorems are re-checked by every `./check C14`.
-/
namespace Spine.Props.C14Gen
open Spine

/-- duplicate check and insertion are one exclusive critical section; the check comes first and can refuse -/
theorem c14_registration_is_one_critical_section :
    Generated.Callbacks.registerOneSection = true ∧ Generated.Callbacks.registerChecksFirst = true := by decide

/-- lookup, invocation and removal on delivery are one exclusive critical section of the same mutex: two arrivals
    for one counter cannot both find the registration -/
theorem c14_delivery_is_one_critical_section :
    Generated.Callbacks.deliverOneSection = true ∧ Generated.Callbacks.sameMutex = true := by decide

/-- "Registering the same callback twice for one counter is refused", for the code AS REGENERATED and ALL schedules:
    every event list admitted by the fact extracted from the tree under test — any number of goroutines registering
    concurrently with each other and with arrivals — never has the same function waiting twice for one counter of
    one feature. (If the fact turns false this no longer type-checks; `c14_check_then_act_refuted` shows what the
    split registration then admits.) -/
theorem c14_duplicate_refused_all_schedules (b : Bool) (evs : List CBC.Ev)
    (h : ∀ e ∈ evs, CBC.admitted Generated.Callbacks.registerOneSection e = true) :
    CBC.NoDupWaiting (CBC.run b evs).core.regs :=
  CBC.no_duplicate_waiting b evs (by
    have hf : Generated.Callbacks.registerOneSection = true := by decide
    rw [hf] at h; exact h)

/-- non-vacuity: eight concurrent registrations of one function for one counter, one is accepted; the reply invokes
    it once -/
example :
    let evs : List CBC.Ev := (List.replicate 8 (CBC.Ev.atomic (.register 1 5 7))) ++ [.atomic (.arrive 100 1 5 true true 3 2)]
    (∀ e ∈ evs, CBC.admitted Generated.Callbacks.registerOneSection e = true) ∧
    (CBC.run true evs).core.fired = [⟨0, 100, 3, 2⟩] := by decide

/-- REFUTED for a registration whose check and insertion are separate critical sections: one reply invokes the
    function twice (kernel-checked schedule; the harness races N registering goroutines on every run) -/
theorem c14_check_then_act_refuted :
    let evs : List CBC.Ev := [.regCheck 1 1 5 7, .regCheck 2 1 5 7, .regInsert 1, .regInsert 2,
      .atomic (.arrive 100 1 5 true true 3 2)]
    (∀ e ∈ evs, CBC.admitted false e = true) ∧ (CBC.run true evs).core.fired = [⟨0, 100, 3, 2⟩, ⟨1, 100, 3, 2⟩] :=
  CBC.split_registration_witness

/-! ## Where the callbacks run (round 5)

A callback may call back into the feature (the request chain: it registers the follow-up callback). Regenerated: every
invocation of a function VALUE taken out of a callback registry of FeatureLocal — followed through locals, range
variables, helper methods / functions and function literals — is either in a spawned goroutine or happens with no
mutex of the struct held (`invocationSites` lists them). -/

/-- no registered callback (response or result) is invoked on the delivering goroutine while a mutex of the feature —
    in particular the registry mutex — is held; and the extraction is not empty: invocation sites of both kinds exist -/
theorem c14_callbacks_run_outside_the_registry_lock :
    Generated.Callbacks.invocationsAsyncOrUnlocked = true ∧ Generated.Callbacks.noInvocationUnderRegistryMutex = true ∧
    Generated.Callbacks.invokedUnderLock = [] ∧
    0 < Generated.Callbacks.responseInvocationSites ∧ 0 < Generated.Callbacks.resultInvocationSites := by decide

/-- the callbacks waiting for one counter are independent of each other: every invocation of a registered RESPONSE
    callback is performed by a goroutine of its own (regenerated: a `go` statement on the callback itself, or a spawned
    function that reaches the invocation outside every loop). This is the `.spawn i` per callback of `Spine.CBR`'s
    delivery thread — the model's assumption that a callback which does not return delays no other callback is read
    off the tree under test, not assumed (round 7: one goroutine serving all callbacks of a response in a loop turns
    this false). -/
theorem c14_each_response_callback_has_its_own_goroutine :
    Generated.Callbacks.responseCallbacksOwnGoroutine = true ∧ 0 < Generated.Callbacks.responseInvocationSites := by decide

/-- the member of `Spine.CBR` the tree under test is -/
def invocationMode (asyncOrUnlocked : Bool) : CBR.Mode := if asyncOrUnlocked then .outsideLock else .inlineUnderLock

/-- THE RE-ENTRANCY CLAUSE for the code AS REGENERATED, all schedules: n callbacks waiting for the counter, each
    calling back into the feature as often as it likes (`body`), `regs` goroutines registering at the same time — in
    every reachable state either everything has returned (delivery, callbacks, registrations) or a step is possible,
    and the number of steps is bounded: delivery is never blocked by a callback. (If the fact turns false this no
    longer type-checks; `c14_inline_under_lock_refuted` shows what then happens.) -/
theorem c14_reentrant_callbacks_never_block_delivery (body : Nat → List CBR.CAct) (n regs : Nat) (ts : List CBR.Thr)
    (h : CBR.Reach body (CBR.init body (invocationMode Generated.Callbacks.invocationsAsyncOrUnlocked) n regs) ts) :
    ((∀ th ∈ ts, th.2 = []) ∨ ∃ ts', CBR.Step body ts ts') ∧
      CBR.wt body ts ≤ CBR.wt body (CBR.init body .outsideLock n regs) := by
  have hf : invocationMode Generated.Callbacks.invocationsAsyncOrUnlocked = .outsideLock := by decide
  rw [hf] at h
  exact CBR.outside_lock_never_blocks body n regs ts h

/-- non-vacuity: one callback that registers its follow-up callback, one concurrent registration: a complete schedule
    (Lock, go, Unlock by the delivery; Lock, Unlock by the callback; Lock, Unlock by the registration) is reachable and
    ends with everything returned -/
example :
    let body : Nat → List CBR.CAct := fun _ => [.reenter]
    CBR.Reach body (CBR.init body (invocationMode Generated.Callbacks.invocationsAsyncOrUnlocked) 1 1)
      [(false, []), (false, []), (false, [])] := by
  intro body
  have hf : invocationMode Generated.Callbacks.invocationsAsyncOrUnlocked = .outsideLock := by decide
  rw [hf]
  have s1 := CBR.Step.acq (body := body) [] [(false, [.acq, .rel])] [.spawn 0, .rel] (by simp)
  have s2 := CBR.Step.spawn (body := body) [] [(false, [.acq, .rel])] true 0 [.rel]
  have s3 := CBR.Step.rel (body := body) [] [(false, [.acq, .rel]), (false, [.acq, .rel])] true []
  have s4 := CBR.Step.acq (body := body) [(false, []), (false, [.acq, .rel])] [] [.rel] (by simp)
  have s5 := CBR.Step.rel (body := body) [(false, []), (false, [.acq, .rel])] [] true []
  have s6 := CBR.Step.acq (body := body) [(false, [])] [(false, [])] [.rel] (by simp)
  have s7 := CBR.Step.rel (body := body) [(false, [])] [(false, [])] true []
  exact (((((((CBR.Reach.refl.step s1).step s2).step s3).step s4).step s5).step s6).step s7)

/-- REFUTED for a callback invoked directly before the Unlock (the 'single waiter fast path'): one callback that
    registers its follow-up callback — after the delivery's Lock no thread can ever move again -/
theorem c14_inline_under_lock_refuted :
    let body : Nat → List CBR.CAct := fun _ => [.reenter]
    ∃ ts, CBR.Reach body (CBR.init body (invocationMode false) 1 1) ts ∧ CBR.Stuck body ts :=
  CBR.inline_under_lock_stuck

end Spine.Props.C14Gen
