import Spine.CallbacksConc
import Spine.Generated.Callbacks
/-!
# C14 — facts regenerated from spine/feature_local.go on every run (tie b1)

`Spine.CB` treats a registration (`AddResponseCallback`: duplicate check + insertion) and a delivery
(`processResponseMsgCallbacks`: lookup + asynchronous invocation + removal) as ONE event each. That is a fact about
the source: each is one exclusive critical section of one and the same mutex. The translator (generator `callbacks`,
go/cmd/translate/gen_callbacks.go) re-extracts it from the tree under test — the registry is found by its type
(the map-of-slices field of FeatureLocal), helpers are inlined, `defer` and explicit unlocks are the same — and these
theorems are re-checked by every `./check C14`.
-/
namespace Spine.Props.C14Gen
open Spine

/-- duplicate check and insertion are one exclusive critical section; the check comes first and can refuse -/
theorem c14_registration_is_one_critical_section :
    Generated.Callbacks.registerOneSection = true ∧ Generated.Callbacks.registerChecksFirst = true := by decide

/-- lookup, invocation and removal on delivery are one exclusive critical section of the same mutex: two arrivals
    for one counter cannot both find the registration -/
theorem c14_delivery_is_one_critical_section :
    Generated.Callbacks.deliverOneSection = true ∧ Generated.Callbacks.sameMutex = true := by decide

/-- "Registering the same callback twice for one counter is refused", for the code AS REGENERATED and ALL schedules:
    every event list admitted by the fact extracted from the tree under test — any number of goroutines registering
    concurrently with each other and with arrivals — never has the same function waiting twice for one counter of
    one feature. (If the fact turns false this no longer type-checks; `c14_check_then_act_refuted` shows what the
    split registration then admits.) -/
theorem c14_duplicate_refused_all_schedules (b : Bool) (evs : List CBC.Ev)
    (h : ∀ e ∈ evs, CBC.admitted Generated.Callbacks.registerOneSection e = true) :
    CBC.NoDupWaiting (CBC.run b evs).core.regs :=
  CBC.no_duplicate_waiting b evs (by
    have hf : Generated.Callbacks.registerOneSection = true := by decide
    rw [hf] at h; exact h)

/-- non-vacuity: eight concurrent registrations of one function for one counter, one is accepted; the reply invokes
    it once -/
example :
    let evs : List CBC.Ev := (List.replicate 8 (CBC.Ev.atomic (.register 1 5 7))) ++ [.atomic (.arrive 100 1 5 true true 3 2)]
    (∀ e ∈ evs, CBC.admitted Generated.Callbacks.registerOneSection e = true) ∧
    (CBC.run true evs).core.fired = [⟨0, 100, 3, 2⟩] := by decide

/-- REFUTED for a registration whose check and insertion are separate critical sections: one reply invokes the
    function twice (kernel-checked schedule; the harness races N registering goroutines on every run) -/
theorem c14_check_then_act_refuted :
    let evs : List CBC.Ev := [.regCheck 1 1 5 7, .regCheck 2 1 5 7, .regInsert 1, .regInsert 2,
      .atomic (.arrive 100 1 5 true true 3 2)]
    (∀ e ∈ evs, CBC.admitted false e = true) ∧ (CBC.run true evs).core.fired = [⟨0, 100, 3, 2⟩, ⟨1, 100, 3, 2⟩] :=
  CBC.split_registration_witness

end Spine.Props.C14Gen
