import Spine.TeardownThm
import Spine.ApprovalDrop
/-!
# C10 — teardown of one peer or entity never leaks into another

Property theorems only (lemmas: `Spine/RegistryThm.lean`, `Spine/RegistryMore.lean`, `Spine/TeardownThm.lean`,
`Spine/ApprovalDrop.lean`).

Models: `Spine.Td` — the composed world: the two registries (`Spine.Reg`), the connected peers
(`DeviceLocal.remoteDevices`), the writes pending application approval with their timers
(`FeatureLocal.pendingWriteApprovals`), the client-side bookkeeping of a local client feature
(`FeatureLocal.subscriptions / bindings`); `Spine.Reg` alone for the registry half (an entity is known through its announced features or, `Reg.St.bare`, without
any; `Reg.removeEntity` / `Td.removeEntity` are the operations — [0] kept, bare entities removed —, `dropEntity` the
cascade on its domain: announced with features, not [0]); `Spine.ApprDrop` (the first,
minimal timer model, kept because its theorem is stated over raw event lists). Family `Td.Cfg`:
`reg.dropBindsAnyPeer` (RemoveBindingsForEntity compares the entity address only), `timersSurvive`
(CleanWriteApprovalCaches forgets the timers without stopping them), `entityKeepsApprovals` (entity removal leaves
the approvals pending for writes of that entity's features). `Td.Cfg.clean` = all repairs, `{}` = the code as written.
All validated against the real code (both registry members earlier; `Td` as written in this round).

Status on the code as written: "all and only … disappear" is REFUTED three times — another peer's binding
disappears (`c10_drop_any_peer_refuted`, `c10_entity_any_peer_refuted`), the pending approval of a removed entity
does not (`c10_entity_keeps_approval_refuted`, found in this round) — and "no further datagram is written to the
removed connection" is REFUTED (`c10_silence_refuted`). Proved for every member: subscriptions, pending approvals,
bookkeeping and connection of every other peer are untouched, the device is unresolvable afterwards
(`c10_others_unchanged`, `c10_unresolvable`, `c10_drop_partial`), silence along histories whose drops are calm
(`c10_silence_partial`). Proved at full strength for the repaired member (`c10_device_exact`, `c10_entity_exact`,
`c10_others_bindings`, `c10_silence`). Not covered by a theorem (harness monitor only): the removal events (one per
removed entry, one per device / entity) and "continues to be served" beyond the state projections. "While messages
of other peers are being processed" is modelled at the granularity of the managers' critical sections (a teardown = a
sequence of passes, `c10_teardown_is_passes`; other peers' entries survive every pass, `c10_subs_pass_others`,
`c10_binds_pass_others`) and tied to the code by operations of another peer injected at the teardown's event points;
that each pass really is one critical section is what the injection run checks (a lost update shows up there), the
data race on `remoteDevices` itself is C17's subject.
-/
namespace Spine.Props.C10
open Spine

/-! ## example world for the non-vacuity checks: two peers with identical numbering -/
def loc : List Reg.Feat := [⟨[1], 1, 1, .server⟩, ⟨[1], 2, 2, .server⟩, ⟨[2], 1, 1, .server⟩]
def rem : Nat → List Reg.Feat := fun _ => [⟨[1], 1, 1, .client⟩, ⟨[1], 2, 2, .client⟩, ⟨[2], 1, 1, .client⟩, ⟨[1], 4, 1, .server⟩]
def s0 : Td.St :=
  { reg := { loc := loc, rem := rem }, alive := [1, 2], writable := [([1], 1), ([1], 2), ([2], 1)], approval := [([1], 1), ([1], 2)] }
/-- both peers bind and subscribe, both have a write pending approval, the local client remembers both -/
def hist : List Td.Op :=
  [.reg (.bind 1 [1] 1 [1] 1 1), .reg (.bind 2 [1] 2 [1] 2 2), .reg (.sub 1 [1] 1 [1] 1 1), .reg (.sub 2 [1] 1 [1] 1 1),
   .write 1 [1] 1 [1] 1 7 true, .write 2 [1] 2 [1] 2 8 true, .client false 1 [1] 4, .client false 2 [1] 4, .client true 2 [1] 4]

/-! ## clause 1: all and only what refers to the removed device disappears -/

/-- Repaired code: after the connection of peer `p` is removed, every registry, the pending approvals with their
    timers, the client-side bookkeeping and the set of connected peers are exactly the previous ones minus what
    refers to `p`. (`Reg.Sane`: every entry refers to an announced entity — holds along every history, see
    `c10_reachable`.) -/
theorem c10_device_exact (s : Td.St) (hs : Reg.Sane s.reg) (p : Nat) (hp : s.alive.contains p = true) :
    (Td.drop Td.Cfg.clean s p).reg.subs = s.reg.subs.filter (·.peer ≠ p) ∧
    (Td.drop Td.Cfg.clean s p).reg.binds = s.reg.binds.filter (·.peer ≠ p) ∧
    (Td.drop Td.Cfg.clean s p).pend = s.pend.filter (·.peer ≠ p) ∧
    (Td.drop Td.Cfg.clean s p).armed = s.armed.filter (·.peer ≠ p) ∧
    (Td.drop Td.Cfg.clean s p).csubs = s.csubs.filter (·.peer ≠ p) ∧
    (Td.drop Td.Cfg.clean s p).cbinds = s.cbinds.filter (·.peer ≠ p) ∧
    (Td.drop Td.Cfg.clean s p).alive = s.alive.filter (· ≠ p) ∧
    (Td.drop Td.Cfg.clean s p).tally = s.tally.filter (·.1 ≠ p) :=
  Td.drop_exact s hs p hp

/-- the hypothesis of `c10_device_exact` holds in every state the repaired stack reaches -/
theorem c10_reachable (s0 : Td.St) (h : Reg.Sane s0.reg) (hl : Td.EntriesAlive s0) (ops : List Td.Op) :
    Reg.Sane (Td.run Td.Cfg.clean s0 ops).reg :=
  Td.run_sane_clean s0 h hl ops

/-- non-vacuity: the example start state (empty registries) meets both hypotheses -/
example : Reg.Sane s0.reg ∧ Td.EntriesAlive s0 := ⟨⟨by simp [s0], by simp [s0]⟩, ⟨by simp [s0], by simp [s0]⟩⟩

/-- Repaired code: when the removed SKI connects again, nothing of the old connection is there — no subscription,
    binding, pending approval, timer, approval tally or client-side bookkeeping refers to it; the new connection starts
    from scratch ("teardown never leaks into the next connection"). -/
theorem c10_reconnect_fresh (s : Td.St) (hs : Reg.Sane s.reg) (p : Nat) (hp : s.alive.contains p = true) :
    Reg.subsOf (Td.reconnect (Td.drop Td.Cfg.clean s p) p).reg p = [] ∧
    Reg.bindsOf (Td.reconnect (Td.drop Td.Cfg.clean s p) p).reg p = [] ∧
    (Td.reconnect (Td.drop Td.Cfg.clean s p) p).pend.filter (·.peer = p) = [] ∧
    (Td.reconnect (Td.drop Td.Cfg.clean s p) p).armed.filter (·.peer = p) = [] ∧
    (Td.reconnect (Td.drop Td.Cfg.clean s p) p).tally.filter (·.1 = p) = [] ∧
    (Td.reconnect (Td.drop Td.Cfg.clean s p) p).csubs.filter (·.peer = p) = [] ∧
    (Td.reconnect (Td.drop Td.Cfg.clean s p) p).cbinds.filter (·.peer = p) = [] ∧
    (Td.reconnect (Td.drop Td.Cfg.clean s p) p).alive.contains p = true :=
  Td.reconnect_fresh s hs p hp

/-- The member that keeps the approval tallies of a removed connection (no committed tree is this member; the harness
    probes for it): feature [1]/1 has two approval callbacks; write 7 of the first connection gets one approval and
    times out; the connection is removed and comes back; its new write 7 (counters restart per connection) is applied
    after ONE approval — in the repaired member the same verdict has no effect yet. -/
theorem c10_tally_inherited_refuted :
    let c : Td.Cfg := { reg := Reg.Cfg.clean, timersSurvive := false, entityKeepsApprovals := false, tallySurvivesDrop := true }
    let s := Td.run c Td.w2 [.reg (.bind 1 [1] 1 [1] 1 1), .write 1 [1] 1 [1] 1 7 true, .verdict 1 7 true, .fire, .drop 1,
      .reconnect 1, .reg (.bind 1 [1] 1 [1] 1 1), .write 1 [1] 1 [1] 1 7 true]
    (Td.verdict s 1 7 true).2 = "applied" ∧
    (Td.verdict (Td.run Td.Cfg.clean Td.w2 [.reg (.bind 1 [1] 1 [1] 1 1), .write 1 [1] 1 [1] 1 7 true, .verdict 1 7 true, .fire,
      .drop 1, .reconnect 1, .reg (.bind 1 [1] 1 [1] 1 1), .write 1 [1] 1 [1] 1 7 true]) 1 7 true).2 = "-" :=
  Td.tally_inherited_witness

/-- non-vacuity: the example history, then peer 1 dropped — peer 2's identical entries all survive -/
example :
    let s := Td.drop Td.Cfg.clean (Td.run Td.Cfg.clean s0 hist) 1
    s.reg.binds.map Reg.key = [(2, [1], 2, [1], 2)] ∧ s.reg.subs.map Reg.key = [(2, [1], 1, [1], 1)] ∧
    s.pend.map (fun x => (x.peer, x.ctr)) = [(2, 8)] ∧ s.armed.map (fun x => (x.peer, x.ctr)) = [(2, 8)] ∧
    s.csubs.map (·.peer) = [2] ∧ s.cbinds.map (·.peer) = [2] ∧ s.alive = [2] := by decide

/-- the registry half alone (model `Reg`, repaired): dropping a peer removes all and only that peer's entries -/
theorem c10_drop_exact (s : Reg.St) (hs : Reg.Sane s) (p : Nat) :
    (Reg.removePeer Reg.Cfg.clean s p).subs = s.subs.filter (·.peer ≠ p) ∧
    (Reg.removePeer Reg.Cfg.clean s p).binds = s.binds.filter (·.peer ≠ p) :=
  Reg.c10_drop_exact s hs p

/-- REFUTED on the code as written (known finding `teardown-removes-other-peers-binding`): dropping peer 1 deletes
    peer 2's binding because both use entity [1]. -/
theorem c10_drop_any_peer_refuted :
    let fs : List Reg.Feat := [⟨[1], 1, 1, .client⟩]
    let s : Reg.St := { loc := [⟨[1], 1, 1, .server⟩], rem := fun _ => fs, binds := [⟨1, [1], 1, 2, [1], 1⟩] }
    (Reg.removePeer {} s 1).binds = [] :=
  Reg.c10_drop_any_peer_refutes

/-- … with the consequence in the composed world: peer 2 is no longer served — its write is denied. -/
theorem c10_drop_leaks_refuted :
    let s := Td.run {} Td.w0 [.reg (.bind 2 [1] 1 [1] 1 1), .drop 1]
    Reg.bindsOf s.reg 2 = [] ∧ (Td.write s 2 [1] 1 [1] 1 9 false).2 = "denied" ∧ s.alive = [2] :=
  Td.drop_leaks_witness

/-- PARTIAL, every member of the family: the subscription half of a teardown is exact, and a binding of another peer
    is lost only where `dropBindsAnyPeer` is on and that binding's client entity address is one the dropped peer
    announces too (the region of `c10_drop_any_peer_refuted`). -/
theorem c10_drop_partial (c : Reg.Cfg) (s : Reg.St) (hs : Reg.Sane s) (p : Nat) :
    (Reg.removePeer c s p).subs = s.subs.filter (·.peer ≠ p) ∧
    (Reg.removePeer c s p).binds = s.binds.filter
      (fun e => !(e.peer = p) && !(c.dropBindsAnyPeer && (Reg.knownEnts s p).contains e.cEnt)) :=
  Reg.removePeer_any_member c s hs p

/-! ## clause 1, entities -/

/-- Repaired code: after entity `ent` of peer `p` is announced as removed, registries, pending approvals with their
    timers and client-side bookkeeping are exactly the previous ones minus what refers to that entity of that peer;
    the connection stays. -/
theorem c10_entity_exact (s : Td.St) (p : Nat) (ent : List Nat) (hp : s.alive.contains p = true)
    (hex : ((s.reg.rem p).map (·.ent)).contains ent = true) :
    (Td.dropEntity Td.Cfg.clean s p ent).reg.subs = s.reg.subs.filter (fun e => !(e.peer = p && e.cEnt = ent)) ∧
    (Td.dropEntity Td.Cfg.clean s p ent).reg.binds = s.reg.binds.filter (fun e => !(e.peer = p && e.cEnt = ent)) ∧
    (Td.dropEntity Td.Cfg.clean s p ent).pend = s.pend.filter (fun x => !Td.ofEntity p ent x) ∧
    (Td.dropEntity Td.Cfg.clean s p ent).armed = s.armed.filter (fun x => !Td.ofEntity p ent x) ∧
    (Td.dropEntity Td.Cfg.clean s p ent).csubs = s.csubs.filter (fun b => !(b.peer = p && b.ent = ent)) ∧
    (Td.dropEntity Td.Cfg.clean s p ent).cbinds = s.cbinds.filter (fun b => !(b.peer = p && b.ent = ent)) ∧
    (Td.dropEntity Td.Cfg.clean s p ent).alive = s.alive :=
  Td.dropEntity_exact s p ent hp hex

/-- Every member: what one removal entry of a notification does (`Td.removeEntity`, the operation of the family) on
    the domain of the cascade `Td.dropEntity` — a connected peer, an entity other than [0] announced with features — is
    that cascade in every component; `c10_entity_exact` describes it for the repaired member. -/
theorem c10_removal_entry_is_cascade (c : Td.Cfg) (s : Td.St) (p : Nat) (ent : List Nat) (h0 : ent ≠ [0])
    (hp : s.alive.contains p = true) (hex : ((s.reg.rem p).map (·.ent)).contains ent = true) :
    (Td.removeEntity c s p ent).reg.subs = (Td.dropEntity c s p ent).reg.subs ∧
    (Td.removeEntity c s p ent).reg.binds = (Td.dropEntity c s p ent).reg.binds ∧
    (Td.removeEntity c s p ent).pend = (Td.dropEntity c s p ent).pend ∧
    (Td.removeEntity c s p ent).armed = (Td.dropEntity c s p ent).armed ∧
    (Td.removeEntity c s p ent).csubs = (Td.dropEntity c s p ent).csubs ∧
    (Td.removeEntity c s p ent).cbinds = (Td.dropEntity c s p ent).cbinds ∧
    (Td.removeEntity c s p ent).alive = (Td.dropEntity c s p ent).alive :=
  Td.removeEntity_eq_dropEntity c s p ent h0 hp hex

/-- Every member: a removal entry for the device information entity [0] is skipped — nothing changes, the peer keeps
    its node management and stays reachable (the code from repair 711ee79 on; `dropEntity` at [0] is outside its domain). -/
theorem c10_device_information_entity_kept (c : Td.Cfg) (s : Td.St) (p : Nat) : Td.removeEntity c s p [0] = s :=
  Td.removeEntity_zero c s p

/-- Repaired code: an entity that is known WITHOUT features (announced again by an `added` entry that lists none — the
    entries of its former features are stale but still registered) goes like any other: all and only what refers to
    that entity of that peer disappears. -/
theorem c10_bare_entity_exact (s : Td.St) (p : Nat) (ent : List Nat) (h0 : ent ≠ [0]) (hp : s.alive.contains p = true)
    (hex : ((s.reg.rem p).map (·.ent)).contains ent = false) (hb : (s.reg.bare p).contains ent = true) :
    (Td.removeEntity Td.Cfg.clean s p ent).reg.subs = s.reg.subs.filter (fun e => !(e.peer = p && e.cEnt = ent)) ∧
    (Td.removeEntity Td.Cfg.clean s p ent).reg.binds = s.reg.binds.filter (fun e => !(e.peer = p && e.cEnt = ent)) ∧
    (Td.removeEntity Td.Cfg.clean s p ent).pend = s.pend.filter (fun x => !Td.ofEntity p ent x) ∧
    (Td.removeEntity Td.Cfg.clean s p ent).armed = s.armed.filter (fun x => !Td.ofEntity p ent x) ∧
    (Td.removeEntity Td.Cfg.clean s p ent).csubs = s.csubs.filter (fun b => !(b.peer = p && b.ent = ent)) ∧
    (Td.removeEntity Td.Cfg.clean s p ent).cbinds = s.cbinds.filter (fun b => !(b.peer = p && b.ent = ent)) :=
  Td.removeEntity_bare_exact s p ent h0 hp hex hb

/-- non-vacuity (registry model): peer 1 subscribes from [1]/1, announces [1] again without features (the entry stays,
    a new request is refused), then as removed — the cascade `dropEntity` alone would leave the stale entry, the removal
    entry and the device teardown both remove it -/
example :
    let s : Reg.St := { loc := [⟨[1], 1, 1, .server⟩], rem := fun _ => [⟨[1], 1, 1, .client⟩, ⟨[2], 1, 1, .client⟩] }
    let s1 := Reg.bareEntity (Reg.addSub s 1 [1] 1 [1] 1 1).1 1 [1]
    s1.subs.map Reg.key = [(1, [1], 1, [1], 1)] ∧ (Reg.addSub s1 1 [1] 1 [1] 1 1).2 = false ∧
    (Reg.dropEntity Reg.Cfg.clean s1 1 [1]).subs.map Reg.key = [(1, [1], 1, [1], 1)] ∧
    (Reg.removeEntity Reg.Cfg.clean s1 1 [1]).subs = [] ∧ (Reg.removePeer Reg.Cfg.clean s1 1).subs = [] :=
  Reg.bare_entity_witness

/-- Every member: the announcement of an entity the peer does not have changes nothing. -/
theorem c10_entity_absent (c : Td.Cfg) (s : Td.St) (p : Nat) (ent : List Nat)
    (hex : ((s.reg.rem p).map (·.ent)).contains ent = false) : Td.dropEntity c s p ent = s :=
  Td.dropEntity_absent c s p ent hex

/-- non-vacuity: entity [1] of peer 2 removed — peer 1's entries on its own entity [1] survive, peer 2 stays connected -/
example :
    let s := Td.dropEntity Td.Cfg.clean (Td.run Td.Cfg.clean s0 hist) 2 [1]
    s.reg.binds.map Reg.key = [(1, [1], 1, [1], 1)] ∧ s.reg.subs.map Reg.key = [(1, [1], 1, [1], 1)] ∧
    s.pend.map (fun x => (x.peer, x.ctr)) = [(1, 7)] ∧ s.csubs.map (·.peer) = [1] ∧ s.cbinds = [] ∧ s.alive = [1, 2] := by
  decide

/-- REFUTED on the code as written (same defect, known finding `teardown-removes-other-peers-binding`): removing
    entity [1] of peer 1 deletes peer 2's binding from its own entity [1]. -/
theorem c10_entity_any_peer_refuted :
    let fs : List Reg.Feat := [⟨[1], 1, 1, .client⟩]
    let s : Reg.St := { loc := [⟨[1], 1, 1, .server⟩], rem := fun _ => fs, binds := [⟨1, [1], 1, 2, [1], 1⟩] }
    Reg.bindsOf (Reg.dropEntity {} s 1 [1]) 2 = [] ∧ Reg.bindsOf s 2 ≠ [] :=
  Reg.dropEntity_any_peer_witness

/-- REFUTED on the code as written (known finding `entity-removal-keeps-pending-approval`): the approval pending for a
    write of a removed entity's feature does not disappear — it is still there and a later approval applies the
    write, although the binding it relied on is gone. -/
theorem c10_entity_keeps_approval_refuted :
    let s := Td.run {} Td.w0 [.reg (.bind 1 [1] 1 [1] 1 1), .write 1 [1] 1 [1] 1 7 false, .dropEnt 1 [1]]
    s.pend.map (fun x => (x.peer, x.ctr, x.cEnt)) = [(1, 7, [1])] ∧ (Td.verdict s 1 7 true).2 = "applied" ∧
    s.reg.binds = [] :=
  Td.entity_keeps_approval_witness

/-! ## clause 2: every other peer keeps all of its state; the device can no longer be resolved -/

/-- Every member of the family: whatever peer is dropped, the subscriptions, the pending approvals and the
    client-side bookkeeping that refer to any other peer `q` are exactly as before, and `q` stays connected. -/
theorem c10_others_unchanged (c : Td.Cfg) (s : Td.St) (hs : Reg.Sane s.reg) (p q : Nat) (hq : q ≠ p) :
    Reg.subsOf (Td.drop c s p).reg q = Reg.subsOf s.reg q ∧
    (Td.drop c s p).pend.filter (·.peer = q) = s.pend.filter (·.peer = q) ∧
    (Td.drop c s p).csubs.filter (·.peer = q) = s.csubs.filter (·.peer = q) ∧
    (Td.drop c s p).cbinds.filter (·.peer = q) = s.cbinds.filter (·.peer = q) ∧
    (Td.drop c s p).alive.contains q = s.alive.contains q :=
  let h := Td.drop_others c s hs p q hq
  ⟨h.1, h.2.1, h.2.2.1, h.2.2.2, Td.drop_alive_others c s p q hq⟩

/-- Repaired code: … and so are the bindings of every other peer. -/
theorem c10_others_bindings (s : Td.St) (hs : Reg.Sane s.reg) (p q : Nat) (hq : q ≠ p) :
    Reg.bindsOf (Td.drop Td.Cfg.clean s p).reg q = Reg.bindsOf s.reg q :=
  Td.drop_others_binds s hs p q hq

/-- Every member: after the removal the peer is not among the connected ones (cannot be resolved by SKI or address). -/
theorem c10_unresolvable (c : Td.Cfg) (s : Td.St) (p : Nat) : (Td.drop c s p).alive.contains p = false :=
  Td.drop_unresolvable c s p

example : Reg.subsOf (Td.drop {} (Td.run {} s0 hist) 1).reg 2 ≠ [] ∧ (Td.drop {} (Td.run {} s0 hist) 1).alive = [2] := by
  decide

/-! ## "… including while messages of other peers are being processed" -/

/-- Every member: a teardown is a sequence of passes, each one critical section of a manager — for every entity of the
    peer a subscription pass, then for every entity a binding pass. Calls of other peers can be processed between any
    two passes; `Reg.Op` has the passes as operations of their own, so every interleaving of such calls with the passes
    of any number of teardowns is a history, and every history theorem (`C09.c09_at_most_one`, `C08.c08_ids_distinct`,
    `C08.c08_pairs_nodup_static`, …) covers it. -/
theorem c10_teardown_is_passes (c : Reg.Cfg) (s : Reg.St) (p : Nat) :
    let ents := Reg.knownEnts s p
    let s1 := ents.foldl (fun s e => Reg.subsPass s p e) s
    let s2 := ents.foldl (fun s e => Reg.bindsPass c s p e) s1
    (Reg.removePeer c s p).subs = s2.subs ∧ (Reg.removePeer c s p).binds = s2.binds :=
  Reg.removePeer_eq_passes c s p

/-- … and the removal of an entity is one subscription pass and one binding pass. -/
theorem c10_entity_is_passes (c : Reg.Cfg) (s : Reg.St) (p : Nat) (ent : List Nat)
    (hex : ((s.rem p).map (·.ent)).contains ent = true) :
    (Reg.dropEntity c s p ent).subs = (Reg.bindsPass c (Reg.subsPass s p ent) p ent).subs ∧
    (Reg.dropEntity c s p ent).binds = (Reg.bindsPass c (Reg.subsPass s p ent) p ent).binds :=
  Reg.dropEntity_eq_passes c s p ent hex

/-- Every member: whatever state a subscription pass of peer `p`'s teardown finds — in particular one in which another
    peer `q` has just been granted a subscription or a binding — it leaves the lists of `q` exactly as they are: nothing
    granted to `q` during a teardown is lost to a subscription pass. -/
theorem c10_subs_pass_others (s : Reg.St) (p q : Nat) (hq : q ≠ p) (ent : List Nat) :
    Reg.subsOf (Reg.subsPass s p ent) q = Reg.subsOf s q ∧ Reg.bindsOf (Reg.subsPass s p ent) q = Reg.bindsOf s q :=
  Reg.subsPass_others s p q hq ent

/-- Repaired code: the same for a binding pass. -/
theorem c10_binds_pass_others (s : Reg.St) (p q : Nat) (hq : q ≠ p) (ent : List Nat) :
    Reg.bindsOf (Reg.bindsPass Reg.Cfg.clean s p ent) q = Reg.bindsOf s q ∧
    Reg.subsOf (Reg.bindsPass Reg.Cfg.clean s p ent) q = Reg.subsOf s q :=
  Reg.bindsPass_others s p q hq ent

/-- REFUTED on the code as written (same defect, known finding `teardown-removes-other-peers-binding`): a binding
    granted to peer 2 while peer 1 is torn down is deleted by the binding pass for peer 1's entity [1]. -/
theorem c10_binds_pass_any_peer_refuted :
    let fs : List Reg.Feat := [⟨[1], 1, 1, .client⟩]
    let s : Reg.St := { loc := [⟨[1], 1, 1, .server⟩], rem := fun _ => fs }
    (Reg.addBind s 2 [1] 1 [1] 1 1).2 = true ∧
    Reg.bindsOf (Reg.bindsPass {} (Reg.addBind s 2 [1] 1 [1] 1 1).1 1 [1]) 2 = [] :=
  Reg.bindsPass_any_peer_witness

/-- non-vacuity: peer 2 subscribes between the two subscription passes of peer 1's teardown and keeps the entry -/
example :
    let s := Reg.run Reg.Cfg.clean loc rem [.sub 1 [1] 1 [1] 1 1, .sub 1 [2] 1 [1] 1 1, .subsPass 1 [1], .sub 2 [1] 1 [1] 1 1, .subsPass 1 [2]]
    s.subs.map Reg.key = [(2, [1], 1, [1], 1)] := by decide

/-! ## clause 3: no further datagram is written to the removed connection -/

/-- Repaired code (timers stopped by CleanWriteApprovalCaches), any registry member: along every history of calls,
    writes, verdicts, timer firings, client requests, drops and entity removals no approval timer ever writes to a
    removed connection. -/
theorem c10_silence (c : Td.Cfg) (hc : c.timersSurvive = false) (s : Td.St) (h : Td.ArmedAlive s) (ops : List Td.Op) :
    Td.lateAlong c s ops = [] :=
  Td.lateAlong_nil c s h ops (Or.inl hc)

/-- the same on the first, minimal timer model, over raw event lists -/
theorem c10_silence_events (evs : List ApprDrop.Ev) : (ApprDrop.run true evs).sentAfterDrop = [] :=
  ApprDrop.c10_silence evs

/-- non-vacuity: the start state satisfies the hypothesis, timers do fire to connected peers, and the repaired member
    stops the timer of the dropped peer -/
example : Td.ArmedAlive s0 := by intro x hx; simp [s0] at hx
example : (Td.fired (Td.run Td.Cfg.clean s0 hist)).map (fun x => (x.peer, x.ctr)) = [(1, 7), (2, 8)] ∧
    (Td.fired (Td.run Td.Cfg.clean s0 (hist ++ [.drop 1]))).map (fun x => (x.peer, x.ctr)) = [(2, 8)] := by decide

/-- REFUTED on the code as written (known finding `timer-write-after-teardown`): the timer of a write pending at
    disconnect fires later and writes an error result to the removed connection. -/
theorem c10_silence_refuted :
    (Td.lateAlong {} Td.w0 [.reg (.bind 1 [1] 1 [1] 1 1), .write 1 [1] 1 [1] 1 7 true, .drop 1, .fire]).map
      (fun x => (x.peer, x.ctr)) = [(1, 7)] :=
  Td.timer_after_drop_witness

/-- the same witness on the minimal timer model -/
theorem c10_timer_after_drop_refuted :
    (ApprDrop.run false [.arrive 1 7, .drop 1, .timeout 1 7]).sentAfterDrop = [(1, 7)] :=
  ApprDrop.timer_after_drop_witness

/-- PARTIAL, every member of the family (the code as written included): silence along every history in which no
    connection is dropped while an approval timer of that peer is running (`Td.calm`); the excluded region is where
    `c10_silence_refuted` lives. -/
theorem c10_silence_partial (c : Td.Cfg) (s : Td.St) (h : Td.ArmedAlive s) (ops : List Td.Op) (hc : Td.calm c s ops = true) :
    Td.lateAlong c s ops = [] :=
  Td.lateAlong_nil c s h ops (Or.inr hc)

/-- non-vacuity: a calm history of the code as written with a drop after the verdict, and timers that do fire -/
example : Td.calm {} s0 (hist ++ [.verdict 1 7 true, .drop 1, .fire]) = true ∧
    (Td.fired (Td.run {} s0 (hist ++ [.verdict 1 7 true, .drop 1]))).map (fun x => (x.peer, x.ctr)) = [(2, 8)] := by decide

end Spine.Props.C10
