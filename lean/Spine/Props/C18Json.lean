import Spine.Cmd
import Spine.SchemaLookup
import Spine.JsonThm
import Spine.JsonNorm
/-!
# C18, part 3 — encoding any data-model value and decoding it again yields an equivalent value

See `Spine/Props/C18.lean` for the overview. The generic theorem `Spine.Json.decode_encode` (mutual
induction over the schema type `Ty`, proved by hand in `Spine/JsonThm.lean`) is instantiated for every
struct type reachable from `model.Datagram` by DECIDING its side condition `wf` over the regenerated
schema (G5).
-/
namespace Spine.Props.C18
open Spine.Json Spine.Generated Spine.Cmd

/-! ## the data model's JSON -/

/-- The regenerated schema lies inside the fragment the model covers: no map, interface, float, array,
    byte slice, embedded or unexported field, `json:"-"`, tag option other than `omitempty`, recursive
    type; `TimePeriodType` is the only type with its own (un)marshaler. -/
theorem c18_schema_fragment : schemaOdd = [] ∧ schemaCustom = ["TimePeriodType"] := by decide

/-- The same from the SOURCES: the only (Un)MarshalJSON / (Un)MarshalText methods declared (go/ast over every
    non-test file) for a type of the wire schema are the pair of `TimePeriodType` — the pair `Spine.PeriodJson`
    models, both directions present — and the types they belong to are exactly the types reflection reports. -/
theorem c18_custom_marshalers_from_source :
    schemaCustomMethods = [("TimePeriodType", "MarshalJSON"), ("TimePeriodType", "UnmarshalJSON")] ∧
    (schemaCustomMethods.map (·.1)).eraseDups = schemaCustom := by decide

/-- Every struct type reachable from `model.Datagram` is well-formed: json names distinct per struct,
    pointers and slice elements of non-nullable type, `omitempty` only on pointer and slice fields. -/
theorem c18_schema_wf : ∀ p ∈ schema, wf p.2.2 = true := by decide +kernel

example : 0 < schema.length := by decide +kernel

def lowerKey : Nat → Key → Key
  | 0, _ => 0
  | fuel + 1, k =>
    if k = 0 then 0 else
      let b := k % 256
      lowerKey fuel (k / 256) * 256 + (if 65 ≤ b && b ≤ 90 then b + 32 else b)

/-- json names are distinct per struct even case-insensitively (encoding/json falls back to a
    case-insensitive match of object keys). -/
theorem c18_schema_names_ci :
    ∀ p ∈ schema, namesDistinct ((names (fieldsOf p.2.2)).map (lowerKey 128)) = true := by decide +kernel

example : lowerKey 128 0x416c61726d = 0x616c61726d := by decide +kernel

/-- Encoding any well-typed value of any type of the data model and decoding it again yields its
    normal form. -/
theorem c18_decode_encode : ∀ p ∈ schema, ∀ v : V, typed p.2.2 v = true →
    decode p.2.2 (encode p.2.2 v) = some (norm p.2.2 v) :=
  fun p hp v hv => decode_encode p.2.2 v (c18_schema_wf p hp) hv

/-- The normal form is equivalent to the value: it differs only where an `omitempty` list was empty and
    is now absent. -/
theorem c18_norm_equiv (t : Ty) (v : V) (ht : typed t v = true) : equivV (norm t v) v = true :=
  norm_equiv t v ht

/-- non-vacuity of the two theorems: a struct with an empty and a non-empty `omitempty` list -/
def exTy : Ty := .struct [(1, true, .slice .num), (2, true, .slice .num), (3, true, .ptr .str)]
def exV : V := .strct [.list [], .list [.num 7], .some (.str "x")]
example : wf exTy = true ∧ typed exTy exV = true ∧
    decode exTy (encode exTy exV) = some (.strct [.nil, .list [.num 7], .some (.str "x")]) ∧
    norm exTy exV ≠ exV := by
  refine ⟨by decide, by decide, ?_, ?_⟩
  · simp [exTy, exV, encode, encodeFields, encodeList, decode, decodeFields, decodeList, lookup, isEmptyV]
  · simp [exTy, exV, norm, normFields, normList, isEmptyV]

/-- "Absent and empty lists are not distinguished", made exact: for every type of the data model, the
    round trip returns the VERY SAME value if and only if the value holds no empty (non-nil) list in an
    `omitempty` field. (All other values change, and only there: `c18_norm_equiv`.) -/
theorem c18_roundtrip_identity_iff : ∀ p ∈ schema, ∀ v : V, typed p.2.2 v = true →
    (decode p.2.2 (encode p.2.2 v) = some v ↔ hasEmptyOmit p.2.2 v = false) :=
  fun p hp v hv => decode_encode_id_iff p.2.2 v (c18_schema_wf p hp) hv

/-- A value that has been through the wire once is stable: it is well typed, holds no empty `omitempty`
    list, and every further round trip returns it unchanged. So the equivalence of the property is
    needed only for values an application stored locally, never for what a peer sent. -/
theorem c18_roundtrip_stable : ∀ p ∈ schema, ∀ v : V, typed p.2.2 v = true →
    typed p.2.2 (norm p.2.2 v) = true ∧ hasEmptyOmit p.2.2 (norm p.2.2 v) = false ∧
    decode p.2.2 (encode p.2.2 (norm p.2.2 v)) = some (norm p.2.2 v) :=
  fun p hp v hv => ⟨typed_norm p.2.2 v hv, norm_clean p.2.2 v, decode_encode_twice p.2.2 v (c18_schema_wf p hp) hv⟩

/-- non-vacuity: `exV` holds an empty `omitempty` list and is changed; its normal form does not and is a
    fixed point; a value with a non-empty list only is returned as it is -/
example : hasEmptyOmit exTy exV = true ∧ hasEmptyOmit exTy (norm exTy exV) = false ∧
    hasEmptyOmit exTy (.strct [.nil, .list [.num 7], .some (.str "x")]) = false ∧
    norm exTy (norm exTy exV) = norm exTy exV := by
  refine ⟨?_, ?_, ?_, ?_⟩ <;>
    simp [exTy, exV, hasEmptyOmit, hasEmptyOmitFields, hasEmptyOmitList, norm, normFields, normList, isEmptyV]

/-- The payload, selectors and elements type of every registered function is a type of the schema (so
    `c18_decode_encode` speaks about its values). -/
theorem c18_function_types_in_schema :
    ∀ f ∈ functions, (schemaTy? f.payloadKey).isSome = true ∧
      (∀ k, selTy? f = some k → (schemaTy? k).isSome = true) ∧
      (∀ k, elTy? f = some k → (schemaTy? k).isSome = true) := by
  have h : (functions.all fun f => (schemaTy? f.payloadKey).isSome &&
      (match selTy? f with | some k => (schemaTy? k).isSome | none => true) &&
      (match elTy? f with | some k => (schemaTy? k).isSome | none => true)) = true := by decide +kernel
  intro f hf
  have := List.all_eq_true.mp h f hf
  simp only [Bool.and_eq_true] at this
  refine ⟨this.1.1, ?_, ?_⟩
  · intro k hk; have := this.1.2; rw [hk] at this; exact this
  · intro k hk; have := this.2; rw [hk] at this; exact this

end Spine.Props.C18
