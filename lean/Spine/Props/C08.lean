import Spine.RegistryMore
import Spine.RegObjThm
import Spine.RegData
import Spine.RegWire
import Spine.RegEvents
/-!
# C08 — subscriptions: exact registry and exactly-once notification fan-out

Property theorems only (lemmas: `Spine/RegistryThm.lean`, `Spine/RegistryMore.lean`, `Spine/RegObj.lean`,
`Spine/RegObjThm.lean`).

Two models, both validated against the real code in both members:

* `Spine.Reg` — the subscription / binding registries as seen through node-management calls of several peers with
  identical numbering over static announced trees (object identity = address identity). Family `Reg.Cfg`;
  relevant flag here: `delSubByDevice` (RemoveSubscription matches the device address *named in the request*
  instead of the connection). `Reg.Cfg.clean` = all repairs, `{}` = the code as written.
* `Spine.RegObj` — the duplicate check with object identity under repeated `added` announcements
  (`byObject = true`: the code as written, `reflect.DeepEqual` on feature objects; `false`: client compared by address).

Status on the code as written: the grant clause and the fan-out clause are REFUTED in the presence of a repeated
announcement after the client sent data (`c08_granted_iff_refuted`, `c08_double_subscription_refuted`) and proved
for histories without one (`…_partial`); the delete clause is REFUTED across peers (`c08_delete_by_device_refuted`)
and proved when the device part is omitted or the requester's own (`c08_delete_partial`). Everything is proved at full
strength for the repaired members. The three data-change paths (SetData, UpdateData, accepted remote write) are the
composed model `Spine.RegData` (function-data store + registry): `c08_change_*`; its static face is regenerated from
the source (`C08Gen.c08gen_three_paths_store_then_notify_once` etc.).
-/
namespace Spine.Props.C08
open Spine

/-! ## example world for the non-vacuity checks -/
def loc : List Reg.Feat := [⟨[1], 1, 1, .server⟩, ⟨[1], 2, 2, .server⟩, ⟨[1], 3, 1, .client⟩]
def rem : Nat → List Reg.Feat := fun _ => [⟨[1], 1, 1, .client⟩, ⟨[1], 3, 0, .client⟩, ⟨[1], 4, 1, .server⟩]
def s0 : Reg.St := { loc := loc, rem := rem }
/-- peers 1 and 2 both subscribed their client [1]/1 to the local server [1]/1; peer 1 also its Generic client -/
def hist : List Reg.Op := [.sub 1 [1] 1 [1] 1 1, .sub 2 [1] 1 [1] 1 1, .sub 1 [1] 3 [1] 2 2, .sub 1 [1] 1 [1] 1 1]

/-! ## clause 1: a request is granted exactly when … -/

/-- A subscription request is granted exactly when the request conditions hold and the same pair is not subscribed
    already (model `Reg`: every state, every member). -/
theorem c08_granted_iff (s : Reg.St) (p : Nat) (cEnt : List Nat) (cFeat : Nat) (sEnt : List Nat) (sFeat typ : Nat) :
    (Reg.addSub s p cEnt cFeat sEnt sFeat typ).2 = true ↔
      Reg.requestOk s p cEnt cFeat sEnt sFeat typ = true ∧ s.subs.any (·.is p cEnt cFeat sEnt sFeat) = false :=
  Reg.c08_granted_iff s p cEnt cFeat sEnt sFeat typ

/-- … where the request conditions are the property's: the addressed local feature exists with server (or special)
    role and the requested type (or Generic), the client feature is announced by that peer with client (or special)
    role and matching type. -/
theorem c08_request_conditions (s : Reg.St) (p : Nat) (cEnt : List Nat) (cFeat : Nat) (sEnt : List Nat) (sFeat typ : Nat) :
    Reg.requestOk s p cEnt cFeat sEnt sFeat typ = true ↔
      ∃ sv cl, Reg.findF s.loc sEnt sFeat = some sv ∧ Reg.findF (s.rem p) cEnt cFeat = some cl ∧
        (sv.role = .special ∨ sv.role = .server) ∧ (sv.typ = typ ∨ sv.typ = 0) ∧
        (cl.role = .special ∨ cl.role = .client) ∧ (cl.typ = typ ∨ cl.typ = 0) :=
  Reg.requestOk_iff s p cEnt cFeat sEnt sFeat typ

/-- A granted request adds exactly that pair with a fresh id; a refused one leaves the registry as it is. -/
theorem c08_add_effect (s : Reg.St) (p : Nat) (cEnt : List Nat) (cFeat : Nat) (sEnt : List Nat) (sFeat typ : Nat) :
    (Reg.addSub s p cEnt cFeat sEnt sFeat typ).1.subs =
      if (Reg.addSub s p cEnt cFeat sEnt sFeat typ).2 then s.subs ++ [⟨s.subNum + 1, sEnt, sFeat, p, cEnt, cFeat⟩]
      else s.subs :=
  Reg.c08_add_effect s p cEnt cFeat sEnt sFeat typ

/-- non-vacuity: granted, refused as duplicate, refused for the wrong type, refused for the wrong role, Generic client -/
example : (Reg.addSub s0 1 [1] 1 [1] 1 1).2 = true ∧
    (Reg.addSub (Reg.addSub s0 1 [1] 1 [1] 1 1).1 1 [1] 1 [1] 1 1).2 = false ∧
    (Reg.addSub s0 1 [1] 1 [1] 1 2).2 = false ∧ (Reg.addSub s0 1 [1] 4 [1] 1 1).2 = false ∧
    (Reg.addSub s0 1 [1] 3 [1] 2 2).2 = true := by decide

/-- REFUTED on the code as written (model `RegObj`, known finding `registered-pair-granted-again-after-reannouncement`): "… and the same
    pair is not subscribed already" — after the client sent data and its entity was announced again, the registered
    pair is granted a second time. -/
theorem c08_granted_iff_refuted :
    let s := RegObj.run true [.sub 1 (1, 1) (1, 1), .data 1 (1, 1) 5, .reannounce 1 1]
    RegObj.granted true s 1 (1, 1) (1, 1) = true ∧ ((1, 1), 1, (1, 1)) ∈ RegObj.pairs s :=
  RegObj.c08_granted_iff_refuted

/-- Repaired duplicate check (client compared by address), well-formed requests, every state of every history with
    re-announcements: a request is refused exactly when the pair is registered. -/
theorem c08_refused_only_if_registered (s : RegObj.St) (p : Nat) (c sv : RegObj.FAddr) :
    RegObj.granted false s p c sv = false ↔ (sv, p, c) ∈ RegObj.pairs s :=
  RegObj.c08_refused_only_if_registered s p c sv

/-- non-vacuity: the witness history on the repaired member refuses -/
example : RegObj.granted false (RegObj.run false [.sub 1 (1, 1) (1, 1), .data 1 (1, 1) 5, .reannounce 1 1]) 1 (1, 1) (1, 1)
    = false := by decide

/-- Repaired duplicate check: under every history of requests, deletions, client data and re-announcements no pair is
    subscribed twice. -/
theorem c08_pairs_nodup (evs : List RegObj.Ev) : (RegObj.pairs (RegObj.run false evs)).Nodup :=
  RegObj.c08_pairs_nodup evs

/-- PARTIAL, the code as written: no pair is subscribed twice under every history *without a repeated announcement*
    (the excluded region is exactly where `c08_granted_iff_refuted` lives). -/
theorem c08_pairs_nodup_partial (evs : List RegObj.Ev) (hn : ∀ e ∈ evs, e.isReannounce = false) :
    (RegObj.pairs (RegObj.run true evs)).Nodup :=
  RegObj.pairs_nodup_no_reannounce evs hn

/-- non-vacuity: a history with data and a refused duplicate -/
example : RegObj.pairs (RegObj.run true [.sub 1 (1, 1) (1, 1), .data 1 (1, 1) 5, .sub 1 (1, 1) (1, 1), .sub 1 (1, 2) (1, 1)])
    = [((1, 1), 1, (1, 1)), ((1, 1), 1, (1, 2))] := by decide

/-- Registry family, address identity (static trees), every member, every history of calls, drops and entity
    removals by any number of peers: no pair is in the registry twice. -/
theorem c08_pairs_nodup_static (c : Reg.Cfg) (loc : List Reg.Feat) (rem : Nat → List Reg.Feat) (ops : List Reg.Op) :
    ((Reg.run c loc rem ops).subs.map Reg.key).Nodup :=
  (Reg.history_subInv c loc rem ops).keys

example : (Reg.run {} loc rem hist).subs.map Reg.key =
    [(1, [1], 1, [1], 1), (2, [1], 1, [1], 1), (1, [1], 3, [1], 2)] := by decide

/-! ## clause 2: a delete request removes exactly the addressed pair and fails if it does not exist -/

/-- Repaired (`delSubByDevice` off): a delete request removes exactly the addressed pair of the requesting peer, or
    nothing. -/
theorem c08_delete_exact (s : Reg.St) (p cDev : Nat) (cEnt : List Nat) (cFeat : Nat) (sEnt : List Nat) (sFeat : Nat) :
    (Reg.delSub Reg.Cfg.clean s p cDev cEnt cFeat sEnt sFeat).1.subs = s.subs ∨
    (Reg.delSub Reg.Cfg.clean s p cDev cEnt cFeat sEnt sFeat).1.subs =
      s.subs.filter (fun e => !e.is p cEnt cFeat sEnt sFeat) :=
  Reg.c08_delete_exact s p cDev cEnt cFeat sEnt sFeat

/-- Repaired: the request succeeds exactly when both addressed features exist, the device part is omitted or the
    requester's own, and the requester holds the addressed pair — it fails if the pair does not exist. -/
theorem c08_delete_result (s : Reg.St) (p cDev : Nat) (cEnt : List Nat) (cFeat : Nat) (sEnt : List Nat) (sFeat : Nat) :
    (Reg.delSub Reg.Cfg.clean s p cDev cEnt cFeat sEnt sFeat).2 = true ↔
      (Reg.findF (s.rem p) cEnt cFeat).isSome = true ∧ (Reg.findF s.loc sEnt sFeat).isSome = true ∧
      (cDev = 0 ∨ cDev = p) ∧ s.subs.any (·.is p cEnt cFeat sEnt sFeat) = true :=
  Reg.c08_delete_result s p cDev cEnt cFeat sEnt sFeat

/-- Repaired: whatever peer `p` asks to delete, the list of every other peer stays as it is. -/
theorem c08_delete_other_peers (s : Reg.St) (p q cDev : Nat) (hq : q ≠ p) (cEnt : List Nat) (cFeat : Nat)
    (sEnt : List Nat) (sFeat : Nat) :
    Reg.subsOf (Reg.delSub Reg.Cfg.clean s p cDev cEnt cFeat sEnt sFeat).1 q = Reg.subsOf s q :=
  Reg.c08_delete_other_peers s p q cDev hq cEnt cFeat sEnt sFeat

/-- non-vacuity: an existing pair is removed, the other peer's identical pair stays; a missing pair fails -/
example :
    let s := Reg.run Reg.Cfg.clean loc rem hist
    (Reg.delSub Reg.Cfg.clean s 1 0 [1] 1 [1] 1).2 = true ∧
    (Reg.delSub Reg.Cfg.clean s 1 0 [1] 1 [1] 1).1.subs.map Reg.key = [(2, [1], 1, [1], 1), (1, [1], 3, [1], 2)] ∧
    (Reg.delSub Reg.Cfg.clean s 2 0 [1] 3 [1] 2).2 = false ∧
    (Reg.delSub Reg.Cfg.clean s 2 1 [1] 1 [1] 1).2 = false := by decide

/-- REFUTED on the code as written (known finding `delete-by-named-device`): peer 2 deletes peer 1's subscription by
    naming peer 1's device address. -/
theorem c08_delete_by_device_refuted :
    let fs : List Reg.Feat := [⟨[1], 1, 1, .client⟩]
    let s : Reg.St := { loc := [⟨[1], 1, 1, .server⟩], rem := fun _ => fs, subs := [⟨1, [1], 1, 1, [1], 1⟩] }
    Reg.subsOf (Reg.delSub {} s 2 1 [1] 1 [1] 1).1 1 ≠ Reg.subsOf s 1 := by decide

/-- PARTIAL, every member of the family (the code as written included): when the device part of the client address is
    omitted or the requester's own, a delete request behaves as the repaired code — exact, and failing on a missing
    pair. The excluded region (a foreign device part) is where `c08_delete_by_device_refuted` lives. -/
theorem c08_delete_partial (c : Reg.Cfg) (s : Reg.St) (p cDev : Nat) (hd : cDev = 0 ∨ cDev = p) (cEnt : List Nat)
    (cFeat : Nat) (sEnt : List Nat) (sFeat : Nat) :
    Reg.delSub c s p cDev cEnt cFeat sEnt sFeat = Reg.delSub Reg.Cfg.clean s p cDev cEnt cFeat sEnt sFeat :=
  Reg.delSub_own_device c s p cDev hd cEnt cFeat sEnt sFeat

example : (Reg.delSub {} (Reg.run {} loc rem hist) 1 1 [1] 1 [1] 1).2 = true := by decide

/-! ## clause 3: one notification to each subscribed remote feature and to nobody else -/

/-- The notifications sent for a change of a local server feature go exactly to the (peer, client feature) of the
    registry entries on that feature — nobody else (every state, every member). -/
theorem c08_fanout_exact (s : Reg.St) (sEnt : List Nat) (sFeat : Nat) (t : Nat × List Nat × Nat) :
    t ∈ Reg.notifyTargets s sEnt sFeat ↔
      ∃ e ∈ s.subs, e.sEnt = sEnt ∧ e.sFeat = sFeat ∧ t = (e.peer, e.cEnt, e.cFeat) :=
  Reg.mem_notifyTargets s sEnt sFeat t

/-- … one per entry … -/
theorem c08_fanout_one_per_entry (s : Reg.St) (sEnt : List Nat) (sFeat : Nat) :
    (Reg.notifyTargets s sEnt sFeat).length = (s.subs.filter fun e => e.sEnt = sEnt && e.sFeat = sFeat).length :=
  Reg.notifyTargets_length s sEnt sFeat

/-- … and, static trees, every member, every history: no (peer, client feature) is notified twice. -/
theorem c08_fanout_once_static (c : Reg.Cfg) (loc : List Reg.Feat) (rem : Nat → List Reg.Feat) (ops : List Reg.Op)
    (sEnt : List Nat) (sFeat : Nat) : (Reg.notifyTargets (Reg.run c loc rem ops) sEnt sFeat).Nodup :=
  Reg.notifyTargets_nodup _ (Reg.history_subInv c loc rem ops) sEnt sFeat

/-- non-vacuity: two peers with identical numbering are both notified, each once; the other feature's subscriber is not -/
example : Reg.notifyTargets (Reg.run {} loc rem hist) [1] 1 = [(1, [1], 1), (2, [1], 1)] ∧
    Reg.notifyTargets (Reg.run {} loc rem hist) [1] 2 = [(1, [1], 3)] := by decide

/-- Fan-out under FAILING peers (connections that cannot be written to), every state, every set of failing
    connections: what a healthy subscriber `q` is sent is exactly the registry's entries of `q` on the changed feature —
    a function of the subscription set only, independent of which other connections fail and of where their entries
    stand in the registry. (`Reg.delivered` is the loop of NotifySubscribers as the code has it: a failed send is
    ignored and the loop goes on.) -/
theorem c08_fanout_independent_of_other_failures (s : Reg.St) (f g : Nat → Bool) (sEnt : List Nat) (sFeat : Nat) (q : Nat)
    (hf : f q = false) (hg : g q = false) :
    (Reg.delivered s f sEnt sFeat).filter (·.1 = q) = (Reg.delivered s g sEnt sFeat).filter (·.1 = q) ∧
    (Reg.delivered s f sEnt sFeat).filter (·.1 = q) = (Reg.notifyTargets s sEnt sFeat).filter (·.1 = q) :=
  ⟨(Reg.delivered_healthy s f sEnt sFeat q hf).trans (Reg.delivered_healthy s g sEnt sFeat q hg).symm,
   Reg.delivered_healthy s f sEnt sFeat q hf⟩

/-- non-vacuity: peer 1 fails, peer 2 (registered after it) is notified once; nobody fails, both are -/
example : Reg.delivered (Reg.run {} loc rem hist) (fun p => p = 1) [1] 1 = [(2, [1], 1)] ∧
    Reg.delivered (Reg.run {} loc rem hist) (fun _ => false) [1] 1 = [(1, [1], 1), (2, [1], 1)] := by decide

/-- The member whose loop stops at the first failed send (no committed tree; seeded in the self-test): the healthy
    subscriber registered after a failing one gets nothing. -/
theorem c08_fanout_stop_at_failure_refuted :
    Reg.sendLoop true (fun p => p = 1) [(1, [1], 1), (2, [1], 1)] = [] ∧
    Reg.sendLoop false (fun p => p = 1) [(1, [1], 1), (2, [1], 1)] = [(2, [1], 1)] :=
  Reg.sendLoop_stop_witness

/-- With re-announcements, repaired duplicate check, every history: a change is notified at most once to each
    (peer, client feature) … -/
theorem c08_fanout_once (evs : List RegObj.Ev) (sv : RegObj.FAddr) : (RegObj.fanout (RegObj.run false evs) sv).Nodup :=
  RegObj.c08_fanout_once evs sv

/-- … and exactly to the registered pairs of that feature. -/
theorem c08_fanout_exact_obj (s : RegObj.St) (sv : RegObj.FAddr) (p : Nat) (c : RegObj.FAddr) :
    (p, c) ∈ RegObj.fanout s sv ↔ (sv, p, c) ∈ RegObj.pairs s :=
  RegObj.c08_fanout_exact s sv p c

/-- REFUTED on the code as written (known finding `twice-registered-pair-notified-twice`): after data and a repeated
    announcement the pair is subscribed twice and every change is notified twice. -/
theorem c08_double_subscription_refuted :
    RegObj.fanout (RegObj.run true [.sub 1 (1, 1) (1, 1), .data 1 (1, 1) 5, .reannounce 1 1, .sub 1 (1, 1) (1, 1)]) (1, 1)
      = [(1, (1, 1)), (1, (1, 1))] :=
  RegObj.double_subscription_witness

/-- PARTIAL, the code as written: at most one notification per (peer, client feature) under every history without a
    repeated announcement. -/
theorem c08_fanout_once_partial (evs : List RegObj.Ev) (hn : ∀ e ∈ evs, e.isReannounce = false) (sv : RegObj.FAddr) :
    (RegObj.fanout (RegObj.run true evs) sv).Nodup :=
  RegObj.fanout_once_no_reannounce evs hn sv

example : RegObj.fanout (RegObj.run false [.sub 1 (1, 1) (1, 1), .data 1 (1, 1) 5, .reannounce 1 1, .sub 1 (1, 1) (1, 1)]) (1, 1)
    = [(1, (1, 1))] := by decide

/-! ## clause 3, second half: "… carrying the changed function's data", "through SetData, UpdateData and accepted
    remote writes" — composed model `Spine.RegData` (function-data store × registry) -/

def d0 : RegData.St :=
  { reg := Reg.run {} loc rem (hist ++ [.bind 2 [1] 1 [1] 1 1]),
    store := [(⟨[1], 1, 7⟩, 0), (⟨[1], 2, 8⟩, 0)], writable := [⟨[1], 1, 7⟩] }

/-- On each of the three paths an ACCEPTED change of function `k.fn` of feature (`k.ent`, `k.feat`) is notified through
    the one fan-out — `Reg.delivered`, of which the fan-out theorems above speak: one notification per registry entry on
    that feature — from the changed feature, carrying the changed function and the data THE STORE HOLDS FOR IT AFTER
    THE CHANGE; the registry is untouched. -/
theorem c08_change_notifies_with_stored_data (d : RegData.St) (fails : Nat → Bool) (path : RegData.Path) (k : RegData.FKey)
    (nv : Nat) (h : (RegData.change d fails path k nv).2.1 = true) :
    (RegData.change d fails path k nv).2.2 =
      (Reg.delivered d.reg fails k.ent k.feat).map (fun t => ⟨t.1, t.2.1, t.2.2, k.ent, k.feat, k.fn, nv⟩) ∧
    RegData.lookup (RegData.change d fails path k nv).1.store k = some nv ∧
    (RegData.change d fails path k nv).1.reg = d.reg := by
  have := RegData.change_spec d fails path k nv
  exact ⟨(this.2.1 h).2, (this.2.1 h).1, this.1⟩

/-- … "and to nobody else", all connections healthy: a (connection, client feature) is sent a notification exactly when
    the registry holds an entry of it on the changed feature; every notification names the changed feature as source and
    carries the changed function with its stored data. -/
theorem c08_change_exactly_the_subscribers (d : RegData.St) (path : RegData.Path) (k : RegData.FKey) (nv : Nat)
    (h : (RegData.change d (fun _ => false) path k nv).2.1 = true) (n : RegData.Note) :
    n ∈ (RegData.change d (fun _ => false) path k nv).2.2 ↔
      (∃ e ∈ d.reg.subs, e.sEnt = k.ent ∧ e.sFeat = k.feat ∧ n.peer = e.peer ∧ n.cEnt = e.cEnt ∧ n.cFeat = e.cFeat) ∧
      n.sEnt = k.ent ∧ n.sFeat = k.feat ∧ n.fn = k.fn ∧ n.data = nv := by
  rw [(c08_change_notifies_with_stored_data d _ path k nv h).1]
  have hd : Reg.delivered d.reg (fun _ => false) k.ent k.feat = Reg.notifyTargets d.reg k.ent k.feat :=
    RegData.sendLoop_healthy _
  rw [hd]
  simp only [List.mem_map]
  constructor
  · rintro ⟨t, ht, rfl⟩
    obtain ⟨e, he, h1, h2, rfl⟩ := (Reg.mem_notifyTargets d.reg k.ent k.feat t).mp ht
    exact ⟨⟨e, he, h1, h2, rfl, rfl, rfl⟩, rfl, rfl, rfl, rfl⟩
  · rintro ⟨⟨e, he, h1, h2, hp, hce, hcf⟩, hs, hf, hfn, hdt⟩
    refine ⟨(e.peer, e.cEnt, e.cFeat), (Reg.mem_notifyTargets d.reg k.ent k.feat _).mpr ⟨e, he, h1, h2, rfl⟩, ?_⟩
    cases n; simp_all

/-- … one per registry entry on the feature (all connections healthy) … -/
theorem c08_change_one_per_entry (d : RegData.St) (path : RegData.Path) (k : RegData.FKey) (nv : Nat)
    (h : (RegData.change d (fun _ => false) path k nv).2.1 = true) :
    (RegData.change d (fun _ => false) path k nv).2.2.length =
      (d.reg.subs.filter fun e => e.sEnt = k.ent && e.sFeat = k.feat).length := by
  rw [(c08_change_notifies_with_stored_data d _ path k nv h).1, List.length_map, ← Reg.notifyTargets_length]
  unfold Reg.delivered
  rw [RegData.sendLoop_healthy]

/-- … and, for the registry reached by any history of any member of the family, nobody is notified twice. -/
theorem c08_change_nobody_twice (c : Reg.Cfg) (loc : List Reg.Feat) (rem : Nat → List Reg.Feat) (ops : List Reg.Op)
    (d : RegData.St) (hd : d.reg = Reg.run c loc rem ops) (fails : Nat → Bool) (path : RegData.Path) (k : RegData.FKey)
    (nv : Nat) : ((RegData.change d fails path k nv).2.2.map fun n => (n.peer, n.cEnt, n.cFeat)).Nodup := by
  have hs := RegData.change_spec d fails path k nv
  cases hok : (RegData.change d fails path k nv).2.1 with
  | false => rw [(hs.2.2 hok).2]; exact List.nodup_nil
  | true =>
    rw [(hs.2.1 hok).2, List.map_map]
    have : ((fun n : RegData.Note => (n.peer, n.cEnt, n.cFeat)) ∘ RegData.mkNote k.ent k.feat (k.fn, nv)) = id := by
      funext t; rfl
    rw [this, List.map_id, hd]
    have hn := Reg.notifyTargets_nodup _ (Reg.history_subInv c loc rem ops) k.ent k.feat
    exact List.Nodup.sublist (RegData.sendLoop_sublist fails _) hn

/-- The three paths ALIKE: whichever of the three paths a change comes by, once accepted the notifications are the
    same list (same subscribers, same order, same cmd) and the store holds the same data. -/
theorem c08_change_paths_alike (d : RegData.St) (fails : Nat → Bool) (p q : RegData.Path) (k : RegData.FKey) (nv : Nat)
    (hp : (RegData.change d fails p k nv).2.1 = true) (hq : (RegData.change d fails q k nv).2.1 = true) :
    (RegData.change d fails p k nv).2.2 = (RegData.change d fails q k nv).2.2 ∧
    RegData.lookup (RegData.change d fails p k nv).1.store k = RegData.lookup (RegData.change d fails q k nv).1.store k := by
  have a := c08_change_notifies_with_stored_data d fails p k nv hp
  have b := c08_change_notifies_with_stored_data d fails q k nv hq
  exact ⟨a.1.trans b.1.symm, a.2.1.trans b.2.1.symm⟩

/-- A change is accepted exactly when the feature has the function (and, for a remote write, the function is
    writable); a REFUSED change notifies nobody and leaves store and registry as they were. -/
theorem c08_change_accepted_iff (d : RegData.St) (fails : Nat → Bool) (path : RegData.Path) (k : RegData.FKey) (nv : Nat) :
    ((RegData.change d fails path k nv).2.1 = true ↔
      (RegData.lookup d.store k).isSome = true ∧ (path = .remoteWrite → d.writable.contains k = true)) ∧
    ((RegData.change d fails path k nv).2.1 = false →
      (RegData.change d fails path k nv).1 = d ∧ (RegData.change d fails path k nv).2.2 = []) := by
  refine ⟨?_, (RegData.change_spec d fails path k nv).2.2⟩
  have hs := (RegData.updateData_spec d path k nv).1
  unfold RegData.change
  generalize RegData.updateData d path k nv = u at hs
  obtain ⟨d', ok⟩ := u
  cases ok with
  | false => simpa using hs
  | true =>
    simp only at hs ⊢
    split <;> simpa using hs

/-- A write datagram is applied exactly when its source feature is announced by the sender, that very client is bound
    to the addressed server feature, the feature has the function and the function is writable; an applied write
    notifies exactly as `SetData` of the same data does; a write that is not applied notifies nobody and changes
    nothing. -/
theorem c08_remote_write (d : RegData.St) (fails : Nat → Bool) (p : Nat) (cEnt : List Nat) (cFeat : Nat) (k : RegData.FKey)
    (nv : Nat) :
    ((RegData.remoteWrite d fails p cEnt cFeat k nv).2.1 = .applied ↔
      (Reg.findF (d.reg.rem p) cEnt cFeat).isSome = true ∧ d.reg.binds.any (·.is p cEnt cFeat k.ent k.feat) = true ∧
      (RegData.lookup d.store k).isSome = true ∧ d.writable.contains k = true) ∧
    ((RegData.remoteWrite d fails p cEnt cFeat k nv).2.1 = .applied →
      (RegData.remoteWrite d fails p cEnt cFeat k nv).2.2 = (RegData.change d fails .setData k nv).2.2) ∧
    ((RegData.remoteWrite d fails p cEnt cFeat k nv).2.1 ≠ .applied →
      (RegData.remoteWrite d fails p cEnt cFeat k nv).1 = d ∧ (RegData.remoteWrite d fails p cEnt cFeat k nv).2.2 = []) := by
  have hacc := c08_change_accepted_iff d fails .remoteWrite k nv
  have hset := c08_change_accepted_iff d fails .setData k nv
  unfold RegData.remoteWrite
  by_cases h1 : (Reg.findF (d.reg.rem p) cEnt cFeat).isNone = true
  · have : (Reg.findF (d.reg.rem p) cEnt cFeat).isSome = false := by
      cases hx : Reg.findF (d.reg.rem p) cEnt cFeat <;> simp_all
    simp [h1, this]
  · have h1' : (Reg.findF (d.reg.rem p) cEnt cFeat).isSome = true := by
      cases hx : Reg.findF (d.reg.rem p) cEnt cFeat <;> simp_all
    by_cases h2 : d.reg.binds.any (·.is p cEnt cFeat k.ent k.feat) = true
    · simp only [h1, h2, Bool.false_eq_true, if_false, Bool.not_true]
      generalize hc : RegData.change d fails .remoteWrite k nv = r at hacc
      obtain ⟨d', ok, ns⟩ := r
      cases ok with
      | true =>
        have hw := hacc.1.mp rfl
        have hsok : (RegData.change d fails .setData k nv).2.1 = true := hset.1.mpr ⟨hw.1, by simp⟩
        have al := c08_change_paths_alike d fails .remoteWrite .setData k nv (by rw [hc]) hsok
        rw [hc] at al
        simp only at al
        have hwr := hw.2 rfl
        simp only [List.contains_iff_mem] at hwr
        simp [h1', hw.1, hwr, al.1]
      | false =>
        have hno := hacc.2 rfl
        simp only at hno
        have : ¬ ((RegData.lookup d.store k).isSome = true ∧ d.writable.contains k = true) := by
          intro hh; have := hacc.1.mpr ⟨hh.1, fun _ => hh.2⟩; simp at this
        simp only [h1', true_and, h2]
        refine ⟨⟨by simp, fun hh => (this hh).elim⟩, by simp, fun _ => ⟨hno.1, trivial⟩⟩
    · simp [h1, h2]

/-- non-vacuity (peers 1 and 2 subscribed to [1]/1, peer 1 also to [1]/2; peer 2 bound to [1]/1): SetData and UpdateData
    of function 7 notify both peers with the new data, a write of the bound client too; a write to the function that
    is not writable, a write of an unbound client, a change of a function the feature does not have notify nobody -/
example :
    (RegData.change d0 (fun _ => false) .setData ⟨[1], 1, 7⟩ 42).2.2 = [⟨1, [1], 1, [1], 1, 7, 42⟩, ⟨2, [1], 1, [1], 1, 7, 42⟩] ∧
    (RegData.change d0 (fun _ => false) .updateData ⟨[1], 1, 7⟩ 43).2.2 = [⟨1, [1], 1, [1], 1, 7, 43⟩, ⟨2, [1], 1, [1], 1, 7, 43⟩] ∧
    (RegData.remoteWrite d0 (fun _ => false) 2 [1] 1 ⟨[1], 1, 7⟩ 44).2 =
      (.applied, [⟨1, [1], 1, [1], 1, 7, 44⟩, ⟨2, [1], 1, [1], 1, 7, 44⟩]) ∧
    (RegData.remoteWrite d0 (fun _ => false) 1 [1] 1 ⟨[1], 1, 7⟩ 45).2 = (.denied, []) ∧
    (RegData.change d0 (fun _ => false) .remoteWrite ⟨[1], 2, 8⟩ 46).2 = (false, []) ∧
    (RegData.change d0 (fun _ => false) .setData ⟨[1], 1, 9⟩ 47).2 = (false, []) ∧
    (RegData.change d0 (fun p => p = 1) .setData ⟨[1], 1, 7⟩ 48).2.2 = [⟨2, [1], 1, [1], 1, 7, 48⟩] := by decide

/-! ## clause 4: the list reported for a peer contains exactly that peer's entries, each with a distinct id -/

/-- The list reported for a peer (`Subscriptions(peer)`, also what a read of the subscription data is answered
    with) contains exactly the registry entries of that peer's connection. -/
theorem c08_list_per_peer (s : Reg.St) (p : Nat) (e : Reg.Entry) : e ∈ Reg.subsOf s p ↔ e ∈ s.subs ∧ e.peer = p := by
  simp [Reg.subsOf]

/-- Every member, every history: the ids in the registry (hence in every peer's list) are pairwise distinct. -/
theorem c08_ids_distinct (c : Reg.Cfg) (loc : List Reg.Feat) (rem : Nat → List Reg.Feat) (ops : List Reg.Op) :
    ((Reg.run c loc rem ops).subs.map (·.id)).Nodup :=
  (Reg.history_subInv c loc rem ops).ids

/-- Ids are NEVER REUSED (every member, every history split at any point): whatever follows a history — requests,
    deletes, drops, entity removals —, a subscription whose id is not above the id counter reached by that history is
    one of the subscriptions registered at that point, the same entry with the same pair; a pair that is deleted and
    subscribed again gets a new id. -/
theorem c08_ids_never_reused (c : Reg.Cfg) (loc : List Reg.Feat) (rem : Nat → List Reg.Feat) (ops1 ops2 : List Reg.Op)
    (e : Reg.Entry) (he : e ∈ (Reg.run c loc rem (ops1 ++ ops2)).subs) (hid : e.id ≤ (Reg.run c loc rem ops1).subNum) :
    e ∈ (Reg.run c loc rem ops1).subs := by
  unfold Reg.run at he hid ⊢
  rw [List.foldl_append] at he
  exact Reg.old_id_old_entry c ops2 _ e he hid

/-- non-vacuity: peer 2's pair had id 2, is deleted and subscribed again: the counter stood at 4, the new entry has id 5 -/
example : (Reg.run {} loc rem hist).subNum = 4 ∧ (Reg.subsOf (Reg.run {} loc rem hist) 2).map (·.id) = [2] ∧
    (Reg.subsOf (Reg.run {} loc rem (hist ++ [.unsub 2 0 [1] 1 [1] 1, .sub 2 [1] 1 [1] 1 1])) 2).map (·.id) = [5] := by decide

/-- non-vacuity: ids after a refused duplicate (the id is drawn before the duplicate check) and a delete -/
example : ((Reg.run {} loc rem (hist ++ [.unsub 2 0 [1] 1 [1] 1, .sub 2 [1] 1 [1] 1 1])).subs.map (·.id)) = [1, 3, 5] ∧
    (Reg.subsOf (Reg.run {} loc rem hist) 2).map (·.id) = [2] := by decide

/-! ### … the list sent over the wire (reply to a read of the subscription data: `processReadSubscriptionData`) -/

/-- The list sent to peer `p` over the wire IS `Subscriptions(p)`: what the peer reads out of the reply is the
    manager's list of that peer — same length, same order, every wire entry carrying ITS OWN registry entry's id, server
    address and client address (model `Spine.RegWire`, the member the regenerated table `WireReply` selects). -/
theorem c08_wire_list_is_subscriptions (s : Reg.St) (p : Nat) :
    (RegWire.readSubs false s p).map RegWire.decode = Reg.subsOf s p ∧
    (∀ i : Nat, (RegWire.readSubs false s p)[i]? = ((Reg.subsOf s p)[i]?).map RegWire.entryOf) :=
  ⟨RegWire.wire_eq_list _, RegWire.wire_entrywise _⟩

/-- … exactly that peer's entries: every wire entry is an entry of the registry held by `p`'s connection, and every
    such entry is on the wire. -/
theorem c08_wire_list_exact (s : Reg.St) (p : Nat) (w : RegWire.WEntry) :
    w ∈ RegWire.readSubs false s p ↔ ∃ e ∈ s.subs, e.peer = p ∧ w = RegWire.entryOf e := by
  simp only [RegWire.readSubs, RegWire.buildReply, Bool.false_eq_true, if_false, List.mem_map, Reg.subsOf, List.mem_filter,
    decide_eq_true_eq]
  constructor
  · rintro ⟨e, ⟨he, hp⟩, rfl⟩; exact ⟨e, he, hp, rfl⟩
  · rintro ⟨e, he, hp, rfl⟩; exact ⟨e, ⟨he, hp⟩, rfl⟩

/-- … each with a distinct id, on the wire too (every member, every history). -/
theorem c08_wire_ids_distinct (c : Reg.Cfg) (loc : List Reg.Feat) (rem : Nat → List Reg.Feat) (ops : List Reg.Op) (p : Nat) :
    ((RegWire.readSubs false (Reg.run c loc rem ops) p).map (·.id)).Nodup := by
  rw [RegWire.readSubs, RegWire.wire_ids]
  exact List.Nodup.sublist (List.Sublist.map _ List.filter_sublist) (c08_ids_distinct c loc rem ops)

/-- REFUTED for the member that shares one id variable between the entries of the reply (a seeded regression; the
    regenerated table `WireReply` excludes it for the tree under test): two subscriptions go out under one id. -/
theorem c08_wire_aliased_id_refuted :
    (RegWire.buildReply true [⟨1, [1], 1, 1, [1], 1⟩, ⟨2, [1], 2, 1, [1], 2⟩]).map (·.id) = [2, 2] :=
  RegWire.wire_alias_refuted

/-- non-vacuity: peer 1 holds two subscriptions (ids 1 and 3), peer 2 one (id 2); each reads its own over the wire -/
example : RegWire.readSubs false (Reg.run {} loc rem hist) 1 = [⟨1, [1], 1, 1, [1], 1⟩, ⟨3, [1], 2, 1, [1], 3⟩] ∧
    RegWire.readSubs false (Reg.run {} loc rem hist) 2 = [⟨2, [1], 1, 2, [1], 1⟩] := by decide

/-! ## subscription-change events of the subscribe / unsubscribe calls (model `Spine.RegEv`) -/

/-- A subscribe call publishes an add event — naming the requesting device, the client feature and the server
    feature — exactly when it is granted, and then exactly that pair was appended to the registry under the new id; a
    refused call publishes nothing and changes nothing (every state, every member). -/
theorem c08_add_event_iff_granted (c : Reg.Cfg) (s : Reg.St) (p : Nat) (ce : List Nat) (cf : Nat) (se : List Nat) (sf t : Nat) :
    (RegEv.callEvents c s (.sub p ce cf se sf t) = [.add (p, ce, cf, se, sf)] ↔ (Reg.addSub s p ce cf se sf t).2 = true) ∧
    ((Reg.addSub s p ce cf se sf t).2 = true →
      ∃ e, (Reg.addSub s p ce cf se sf t).1.subs = s.subs ++ [e] ∧ Reg.key e = (p, ce, cf, se, sf) ∧ e.id = s.subNum + 1) ∧
    ((Reg.addSub s p ce cf se sf t).2 = false →
      RegEv.callEvents c s (.sub p ce cf se sf t) = [] ∧ (Reg.addSub s p ce cf se sf t).1.subs = s.subs) :=
  RegEv.add_event c s p ce cf se sf t

/-- Repaired member, the registry reached by ANY history: an unsubscribe call publishes a remove event exactly when it
    succeeds; exactly ONE entry left the registry then, the pair the event names; a call without event left the
    registry as it was. -/
theorem c08_remove_event_exact (loc : List Reg.Feat) (rem : Nat → List Reg.Feat) (ops : List Reg.Op) (p cd : Nat)
    (ce : List Nat) (cf : Nat) (se : List Nat) (sf : Nat) :
    let s := Reg.run Reg.Cfg.clean loc rem ops
    (RegEv.callEvents Reg.Cfg.clean s (.unsub p cd ce cf se sf) = [.remove (p, ce, cf, se, sf)] ↔
      (Reg.delSub Reg.Cfg.clean s p cd ce cf se sf).2 = true) ∧
    ((Reg.delSub Reg.Cfg.clean s p cd ce cf se sf).2 = true →
      (Reg.delSub Reg.Cfg.clean s p cd ce cf se sf).1.subs = s.subs.filter (fun e => Reg.key e ≠ (p, ce, cf, se, sf)) ∧
      (p, ce, cf, se, sf) ∈ s.subs.map Reg.key ∧
      (Reg.delSub Reg.Cfg.clean s p cd ce cf se sf).1.subs.length + 1 = s.subs.length) ∧
    ((Reg.delSub Reg.Cfg.clean s p cd ce cf se sf).2 = false →
      RegEv.callEvents Reg.Cfg.clean s (.unsub p cd ce cf se sf) = [] ∧
      (Reg.delSub Reg.Cfg.clean s p cd ce cf se sf).1.subs = s.subs) :=
  RegEv.remove_event _ (Reg.history_subInv Reg.Cfg.clean loc rem ops).keys p cd ce cf se sf

/-- non-vacuity: a granted request, a refused duplicate, a successful delete, a delete of a missing pair -/
example :
    RegEv.callEvents {} s0 (.sub 1 [1] 1 [1] 1 1) = [.add (1, [1], 1, [1], 1)] ∧
    RegEv.callEvents {} (Reg.run {} loc rem hist) (.sub 1 [1] 1 [1] 1 1) = [] ∧
    RegEv.callEvents Reg.Cfg.clean (Reg.run Reg.Cfg.clean loc rem hist) (.unsub 2 0 [1] 1 [1] 1) = [.remove (2, [1], 1, [1], 1)] ∧
    RegEv.callEvents Reg.Cfg.clean (Reg.run Reg.Cfg.clean loc rem hist) (.unsub 2 0 [1] 3 [1] 2) = [] := by decide

end Spine.Props.C08
