import Spine.HeapThm
import Spine.C04Thm
import Spine.C04Wit
/-!
# C04 — write-protected elements stay untouched and remote writes are all-or-nothing

Property theorems only (lemmas: `Spine/C04Thm.lean`, `Spine/HeapThm.lean`, `Spine/UpdateThm.lean`; kernel-checked
witnesses: `Spine/C04Wit.lean`).

Model: `Spine.updateListF` — `model.UpdateList` with `Merge`, `copyToSelectedData`, `copyToAllData`,
`deleteFilteredData`, as a family indexed by defect flags (`UCfg`; the member with all flags on is proved equal to
the transcription of the code as written, `c04_family_member_as_written`) — and `Spine.Heap.updateData`, i.e.
`FunctionData.UpdateData` on a store whose slice sharing is explicit (`Cfg.fastpathRemote`: the filter-less fast
path is taken by remote writes as well). An element is *writable* iff its `writecheck` flag is `true`
(`writeAllowed`); a remote write is `updateData c sh h true true …` (what `executeWrite` issues).

The four clauses of the statement and their status on the code as written:

1. unwritable elements untouched, no flag altered — REFUTED for the filter-less write (`c04_untouched_refuted`,
   finding `fastpath-full-remote-write`) and for flags on the in-place paths (`c04_flag_refuted`, findings
   `flag-altered:*`); PROVED for every write that goes through the engine, whatever its shape, in every member
   (`c04_unwritable_untouched_engine`), hence for ALL remote writes in the member with the fast path closed
   (`c04_unwritable_untouched_repaired`); flags: PROVED on the merge path (`c04_merge_protects`), for
   identifier-less writes that carry no flag (`c04_copyToAll_flag`), and for the overlay of the in-place paths in
   the member that puts the flag back (`c04_flag_kept_repaired`). Missing: the flag clause for a whole `UpdateList`
   call of the repaired member (delete elements included) as one theorem.
2. unaddressed elements neither change nor influence acceptance — REFUTED (`c04_unaddressed_refuted`, findings
   `unaddressed-unwritable-blocks:Merge`, `…:deleteFilteredData`); "do not change" PROVED for the merge path in every
   member (`c04_unaddressed_unchanged`); "do not influence" PROVED for the repaired `Merge`
   (`c04_unaddressed_irrelevant_repaired`). Missing: the analogous repair / theorem for `deleteFilteredData`.
3. error ⇒ data unchanged — REFUTED (`c04_error_unchanged_refuted`, findings `rejected-but-applied:*`); PROVED on
   the merge path as heap contents (`c04_error_unchanged_merge`); on lists without unwritable elements no write
   without delete-elements is rejected at all (`c04_all_writable_accepts`).
4. success ⇒ all changes applied — REFUTED (`c04_success_applied_refuted`, finding `success-but-not-applied:Merge`);
   PROVED for the addressed elements on the merge path (`c04_success_applied_merge`), and "nothing the write names is
   missing" for the repaired `Merge` (`c04_success_nothing_missing_repaired`). Missing: the selector and delete
   paths (monitored only).
-/
namespace Spine.Props.C04
open Spine Spine.Heap

/-- the member of the family with all defect flags on IS the transcription of `model.UpdateList` as written -/
theorem c04_family_member_as_written (sh : Shape) (remote : Bool) (ex nw : List Item) (fp fd : Option Filter) :
    updateListF .asWritten sh remote ex nw fp fd = updateList sh remote ex nw fp fd :=
  updateListF_asWritten sh remote ex nw fp fd

/-! ### clause 1: elements whose flag is not true are untouched, no flag is altered -/

/-- REFUTED on the code as written (finding `fastpath-full-remote-write`): "after any remote write every element
    whose flag is not true is identical" — the filter-less write replaces the unchangeable limit 1. -/
theorem c04_untouched_refuted :
    ∃ (h : H) (nw : List Item), h.WF ∧ ∃ e ∈ h.readStore, writeAllowed lc e = false ∧
      e ∉ (updateData .asWritten lc h true true nw .nil .nil).1.readStore :=
  ⟨storeOf [changeable0, fixed1], [[some 1, some 1, none, some 0, none]], wf_full wf_empty _,
    fixed1, by decide, by decide, by decide⟩

/-- PROVED, every member of the family, every write shape (delete with selector and / or elements, selector write,
    identifier-less, identifier-based, combinations), persisting or not: a remote write that goes through the
    engine keeps every element whose flag is not true, identical, in the stored data. -/
theorem c04_unwritable_untouched_engine (c : Cfg) (sh : Shape) (h : H) (hw : h.WF) (persist : Bool) (nw : List Item)
    (fp fd : FArg) (hnf : fastPath c (h.allocValue nw).1 true persist fp fd = false) :
    ∀ e ∈ h.readStore, writeAllowed sh e = false → e ∈ (updateData c sh h true persist nw fp fd).1.readStore :=
  remote_engine_write_protects c sh hw persist nw fp fd hnf

/-- non-vacuity: a selector write on a store with an unwritable element goes through the engine and changes the store -/
example : fastPath .asWritten ((storeOf [fixed1, changeable2]).allocValue [[none, none, none, some 2, none]]).1 true true
      (.data ⟨some selAll, none⟩) .nil = false ∧ writeAllowed lc fixed1 = false ∧
    (remoteWrite aw (storeOf [fixed1, changeable2]) [[none, none, none, some 2, none]] (.data ⟨some selAll, none⟩) .nil).1.readStore
      ≠ (storeOf [fixed1, changeable2]).readStore := by decide

/-- PROVED for the repaired member (fast path closed for remote writes, DESIGN §9 C04a): EVERY remote write to an
    existing store keeps every element whose flag is not true — the full clause 1a. -/
theorem c04_unwritable_untouched_repaired (c : Cfg) (hc : c.fastpathRemote = false) (sh : Shape) (h : H) (hw : h.WF)
    (hs : h.store.isSome = true) (persist : Bool) (nw : List Item) (fp fd : FArg) :
    ∀ e ∈ h.readStore, writeAllowed sh e = false → e ∈ (updateData c sh h true persist nw fp fd).1.readStore :=
  remote_engine_write_protects c sh hw persist nw fp fd
    (fastPath_repaired c _ persist fp fd hc (by rw [allocValue_store]; exact hs))

/-- non-vacuity: the witness of the refutation is protected in the repaired member -/
example : repaired.fastpathRemote = false ∧ (storeOf [changeable0, fixed1]).store.isSome = true ∧
    (remoteWrite repaired (storeOf [changeable0, fixed1]) [[some 1, some 1, none, some 0, none]] .nil .nil).1.readStore
      = [changeable0, fixed1] := by decide

/-- PROVED on the engine, position by position: after a remote `UpdateList` of any shape the caller's array (the
    stored backing array) has its length and carries every unwritable element unchanged at its position, and the
    returned list still contains each of them. -/
theorem c04_unwritable_untouched_inplace (c : UCfg) (sh : Shape) (ex nw : List Item) (fp fd : Option Filter) (r : Res)
    (h : updateListF c sh true ex nw fp fd = .ok r) :
    Prot sh ex r.inplace ∧ ∀ e ∈ ex, writeAllowed sh e = false → e ∈ r.out :=
  updateListF_remote_protects c sh ex nw fp fd r h

/-- REFUTED on the code as written (findings `flag-altered:copyToAllData`, `…:copyToSelectedData`,
    `…:deleteFilteredData`): "no remote write alters the flag of any element" — an identifier-less write and a
    selector write that carry a flag copy it onto changeable elements, a delete whose elements name the flag clears it. -/
theorem c04_flag_refuted :
    (remoteWrite aw (storeOf [changeable0, changeable2]) [[none, some 0, none, none, none]] .nodata .nil).1.readStore.map (·.get 1)
        ≠ (storeOf [changeable0, changeable2]).readStore.map (·.get 1) ∧
    (remoteWrite aw (storeOf [changeable0, changeable2]) [[none, some 0, none, none, none]] (.data ⟨some (selId 0), none⟩) .nil).1.readStore.map (·.get 1)
        ≠ (storeOf [changeable0, changeable2]).readStore.map (·.get 1) ∧
    (remoteWrite aw (storeOf [changeable0, changeable2]) [] .nil (.data ⟨some (selId 0), some elFlag⟩)).1.readStore.map (·.get 1)
        ≠ (storeOf [changeable0, changeable2]).readStore.map (·.get 1) := by decide

/-- PROVED for the member whose in-place paths put the flag back (candidate repair
    `patches/C04-flag-altered-candidate.patch`, flag `inplaceAltersFlag` off): the overlay a selector write or an
    identifier-less write applies to an item keeps the item's flag, whatever the write carries. -/
theorem c04_flag_kept_repaired (c : UCfg) (hc : c.inplaceAltersFlag = false) (sh : Shape) (f : Nat)
    (hf : sh.flag = some f) (nw x : Item) (hl : f < x.length) : (copyNonNilF c sh true nw x).get f = x.get f :=
  copyNonNilF_keeps_flag c hc sh f hf nw x hl

/-- non-vacuity: the writes of the refutation, in the repaired member, apply their values and leave the flags -/
example : (remoteWrite repaired (storeOf [changeable0, changeable2]) [[none, some 0, none, some 2, none]] .nodata .nil).1.readStore
      = [[some 0, some 1, none, some 2, none], [some 2, some 1, none, some 2, none]] := by decide

/-- PROVED (partial, every member): the merge path — identifier-based partial writes — never alters a flag and
    never touches an unwritable element, position by position. -/
theorem c04_merge_protects (c : UCfg) (sh : Shape) (f : Nat) (hf : sh.flag = some f) (s1 s2 : List Item)
    (hs2 : ∀ b ∈ s2, f < b.length) (i : Nat) (hi : i < s1.length) :
    ∃ h : i < (mergeF c sh true s1 s2).1.length,
      ((mergeF c sh true s1 s2).1[i]).get f = (s1[i]).get f ∧
      (writeAllowed sh s1[i] = false → (mergeF c sh true s1 s2).1[i] = s1[i]) := by
  have hm : (mergeF c sh true s1 s2).1 = (merge sh true s1 s2).1 := by rw [mergeF_fst]; simp [merge]
  obtain ⟨h, h1, h2⟩ := merge_remote_protects sh f hf s1 s2 hs2 i hi
  exact ⟨by rw [hm]; exact h, by simp only [hm]; exact h1, by simp only [hm]; exact h2⟩

/-- non-vacuity: a remote merge that changes a value and carries a (ignored) flag -/
example : (merge lc true [changeable0, fixed1] [[some 0, some 0, none, some 2, none]]).1 = [[some 0, some 1, none, some 2, none], fixed1] := by
  decide

/-- PROVED (partial): an identifier-less remote write whose item carries no flag alters no flag. -/
theorem c04_copyToAll_flag (sh : Shape) (f : Nat) (hf : sh.flag = some f) (ex : List Item) (nw : Item)
    (hnw : nw.get f = none) (i : Nat) (hi : i < ex.length) (hl : nw.length = ex[i].length) (hfl : f < ex[i].length) :
    ∃ h : i < (copyToAll sh true ex nw).1.length, ((copyToAll sh true ex nw).1[i]).get f = (ex[i]).get f :=
  copyToAll_remote_flag sh f hf ex nw hnw i hi hl hfl

/-! ### clause 2: unaddressed elements neither change nor influence acceptance -/

/-- REFUTED on the code as written (findings `unaddressed-unwritable-blocks:Merge`, `…:deleteFilteredData`): the
    same write, addressing only limit 0, gets different answers on two stores that differ only in limit 1. -/
theorem c04_unaddressed_refuted :
    (remoteWrite aw (storeOf [changeable0, fixed1]) [[some 0, none, none, some 2, none]] .nodata .nil).2
      ≠ (remoteWrite aw (storeOf [changeable0, changeable1]) [[some 0, none, none, some 2, none]] .nodata .nil).2 ∧
    (remoteWrite aw (storeOf [changeable0, fixed1]) [] .nil (.data ⟨some (selId 0), none⟩)).2
      ≠ (remoteWrite aw (storeOf [changeable0, changeable1]) [] .nil (.data ⟨some (selId 0), none⟩)).2 := by decide

/-- PROVED (every member, local and remote): an element the identifier-based write does not address passes through
    `Merge` unchanged. -/
theorem c04_unaddressed_unchanged (sh : Shape) (remote : Bool) (s2 : List Item) (a : Item)
    (hu : addressedBy sh s2 a = false) : mergeItem sh remote s2 a = a :=
  mergeItem_unaddressed sh remote s2 a hu

/-- PROVED for the repaired `Merge` (DESIGN §9 C04b, appendix C): the answer to a remote identifier-based write is a
    function of the addressed elements alone — two stores with the same addressed elements get the same verdict. -/
theorem c04_unaddressed_irrelevant_repaired (sh : Shape) (s1 s1' s2 : List Item)
    (h : s1.filter (addressedBy sh s2) = s1'.filter (addressedBy sh s2)) :
    (mergeFixed sh true s1 s2).2 = (mergeFixed sh true s1' s2).2 := by
  rw [mergeFixed_verdict_addressed sh s1 s2, mergeFixed_verdict_addressed sh s1' s2, h]

/-- non-vacuity: the two stores of the refutation have the same addressed elements and differ otherwise -/
example : [changeable0, fixed1].filter (addressedBy lc [[some 0, none, none, some 2, none]])
      = [changeable0, changeable1].filter (addressedBy lc [[some 0, none, none, some 2, none]]) ∧
    (mergeFixed lc true [changeable0, fixed1] [[some 0, none, none, some 2, none]]).2 = true ∧
    (merge lc true [changeable0, fixed1] [[some 0, none, none, some 2, none]]).2 = false := by decide

/-! ### clause 3: an error result leaves the data exactly as it was -/

/-- REFUTED on the code as written (findings `rejected-but-applied:copyToAllData`, `…:copyToSelectedData`,
    `…:deleteFilteredData`): writes answered with an error that changed the stored data. -/
theorem c04_error_unchanged_refuted :
    (∃ i, (remoteWrite aw (storeOf [changeable0, fixed1]) [[none, none, none, some 2, none]] .nodata .nil).2 = .done false i none) ∧
    (remoteWrite aw (storeOf [changeable0, fixed1]) [[none, none, none, some 2, none]] .nodata .nil).1.readStore
      ≠ (storeOf [changeable0, fixed1]).readStore ∧
    (∃ i, (remoteWrite aw (storeOf [fixed1, changeable2]) [[none, none, none, some 2, none]] (.data ⟨some selAll, none⟩) .nil).2 = .done false i none) ∧
    (remoteWrite aw (storeOf [fixed1, changeable2]) [[none, none, none, some 2, none]] (.data ⟨some selAll, none⟩) .nil).1.readStore
      ≠ (storeOf [fixed1, changeable2]).readStore ∧
    (∃ i, (remoteWrite aw (storeOf [changeable0, fixed1]) [] .nil (.data ⟨none, some elValue⟩)).2 = .done false i none) ∧
    (remoteWrite aw (storeOf [changeable0, fixed1]) [] .nil (.data ⟨none, some elValue⟩)).1.readStore
      ≠ (storeOf [changeable0, fixed1]).readStore :=
  ⟨⟨1, by decide⟩, by decide, ⟨1, by decide⟩, by decide, ⟨1, by decide⟩, by decide⟩

/-- PROVED (partial, every member, as heap contents): an identifier-based partial write (the merge path) that is
    answered with an error leaves the stored data exactly as it was. -/
theorem c04_error_unchanged_merge (c : Cfg) (sh : Shape) (h : H) (hw : h.WF) (nw : List Item) (fp fd : FArg)
    (hp : fp.toOpt = none) (hd : fd.toOpt = none) (hnw : MergeNw sh nw)
    (hnf : fastPath c (h.allocValue nw).1 true true fp fd = false)
    (herr : ∃ i o, (updateData c sh h true true nw fp fd).2 = .done false i o) :
    (updateData c sh h true true nw fp fd).1.readStore = h.readStore :=
  updateData_merge_noop c sh hw true true nw fp fd hp hd hnw hnf (Or.inr herr)

/-- non-vacuity: the rejected write of clause 2 -/
example : (remoteWrite aw (storeOf [changeable0, fixed1]) [[some 0, none, none, some 2, none]] .nodata .nil).2 = .done false 1 none ∧
    MergeNw lc [[some 0, none, none, some 2, none]] ∧
    fastPath aw ((storeOf [changeable0, fixed1]).allocValue [[some 0, none, none, some 2, none]]).1 true true .nodata .nil = false := by
  decide

/-- PROVED (code as written): on a list without unwritable elements every remote write whose delete filter names no
    elements is accepted — there the error clause is vacuous and acceptance depends on nothing. (With delete
    elements the flag itself can be deleted first, see `c04_flag_refuted`.) -/
theorem c04_all_writable_accepts (sh : Shape) (ex nw : List Item) (fp fd : Option Filter) (r : Res)
    (hall : ex.all (writeAllowed sh) = true) (hel : ∀ f, fd = some f → f.el = none)
    (h : updateList sh true ex nw fp fd = .ok r) : r.ok = true :=
  updateList_all_writable_accepts sh ex nw fp fd r hall hel (by rw [updateListF_asWritten]; exact h)

/-- non-vacuity: a delete-by-selector combined with an identifier-less write on two changeable limits -/
example : [changeable0, changeable2].all (writeAllowed lc) = true ∧
    (match updateList lc true [changeable0, changeable2] [[none, none, none, some 2, none]] none (some ⟨some (selId 0), none⟩) with
     | .ok r => decide (r.out = [[some 2, some 1, none, some 2, none]]) && r.ok
     | .panic _ => false) = true := by decide

/-! ### clause 4: success has applied all changes -/

/-- REFUTED on the code as written (finding `success-but-not-applied:Merge`): a partial remote write with an
    identifier that is not stored is answered with success and nothing was applied. -/
theorem c04_success_applied_refuted :
    (∃ i o, (remoteWrite aw (storeOf [changeable0]) [[some 5, none, none, some 2, none]] .nodata .nil).2 = .done true i o) ∧
    (remoteWrite aw (storeOf [changeable0]) [[some 5, none, none, some 2, none]] .nodata .nil).1.readStore = [changeable0] :=
  ⟨⟨1, some 2, by decide⟩, by decide⟩

/-- PROVED (partial, code as written): a remote merge answered with success has replaced every addressed element by
    the overlay of the incoming item, and the overlay carries every field the incoming item names except the flag. -/
theorem c04_success_applied_merge (sh : Shape) (s1 s2 : List Item) (hok : (merge sh true s1 s2).2 = true)
    (a : Item) (ha : a ∈ s1) (b : Item) (hl : lookupLast sh (hashKey sh a) s2 = some b) :
    mergeItem sh true s2 a ∈ (merge sh true s1 s2).1 ∧
      ∀ j, j < b.length → (b.get j).isSome = true → sh.flag ≠ some j → (mergeItem sh true s2 a).get j = b.get j := by
  obtain ⟨h1, h2⟩ := merge_success_applied sh s1 s2 hok a ha b hl
  exact ⟨h2, fun j hj hb hf => by rw [h1]; exact updateFields_remote_applied sh a b j hj hb hf⟩

/-- non-vacuity -/
example : (merge lc true [changeable0, changeable1] [[some 1, none, none, some 0, none]]).2 = true ∧
    lookupLast lc (hashKey lc changeable1) [[some 1, none, none, some 0, none]] = some [some 1, none, none, some 0, none] ∧
    mergeItem lc true [[some 1, none, none, some 0, none]] changeable1 = [some 1, some 1, none, some 0, none] := by decide

/-- PROVED for the repaired `Merge`: a remote write answered with success names no identifier that is not stored
    and no addressed element is unwritable — so, with `c04_success_applied_merge`'s overlay, everything it asked
    for was applied. -/
theorem c04_success_nothing_missing_repaired (sh : Shape) (s1 s2 : List Item) (hok : (mergeFixed sh true s1 s2).2 = true) :
    (∀ b ∈ s2, ∃ a ∈ s1, hashKey sh a = hashKey sh b) ∧
    (∀ a ∈ s1, addressedBy sh s2 a = true → writeAllowed sh a = true) := by
  have hb : (s1.any fun a => addressedBy sh s2 a && !writeAllowed sh a) = false ∧
      (s2.any fun b => !(s1.any fun a => hashKey sh a = hashKey sh b)) = false := by
    have : ((s1.any fun a => addressedBy sh s2 a && !writeAllowed sh a) ||
        (s2.any fun b => !(s1.any fun a => hashKey sh a = hashKey sh b))) = false := by
      simpa [mergeFixed] using hok
    exact Bool.or_eq_false_iff.mp this
  refine ⟨fun b hb' => ?_, fun a ha had => ?_⟩
  · have := List.any_eq_false.mp hb.2 b hb'
    simp only [Bool.not_eq_true, Bool.not_eq_false', List.any_eq_true, decide_eq_true_eq] at this
    exact this
  · have := List.any_eq_false.mp hb.1 a ha
    simp only [had, Bool.true_and, Bool.not_eq_true, Bool.not_eq_false'] at this
    exact this

/-- non-vacuity: accepted by the repaired `Merge` although limit 1 is not changeable -/
example : (mergeFixed lc true [changeable0, fixed1] [[some 0, none, none, some 2, none]]) = ([[some 0, some 1, none, some 2, none], fixed1], true) := by
  decide

end Spine.Props.C04
