import Spine.HeapThm
import Spine.C04Thm
import Spine.C04Wit
import Spine.ExtractFilter
import Spine.C04Applied
/-!
# C04 — write-protected elements stay untouched and remote writes are all-or-nothing

Property theorems only (lemmas: `Spine/C04Thm.lean`, `Spine/HeapThm.lean`, `Spine/UpdateThm.lean`; kernel-checked
witnesses: `Spine/C04Wit.lean`).

Model: `Spine.updateListF` — `model.UpdateList` with `Merge`, `copyToSelectedData`, `copyToAllData`,
`deleteFilteredData`, as a family indexed by defect flags (`UCfg`) — and `Spine.Heap.updateData`, i.e.
`FunctionData.UpdateData` on a store whose slice sharing is explicit (`Cfg`). An element is *writable* iff its
`writecheck` flag is `true` (`writeAllowed`); a remote write is `updateData c sh h true true …` (what
`executeWrite` issues). The probe phase of `TestHeap` selects the member the tree under test is.

**Which member is /repo.** After `fix:` c542973 (Merge), 5e272e0 (selector with an empty list) and e4eb02d
(SelectorMatch) /repo is `Heap.head`: `mergeStrict`, `emptySelPanics`, `selNilPanics` off; `fastpathRemote`,
`fastpathAdopts`, `inplaceAltersFlag`, `deleteStrict` on. With the series `fixes/c04` (01, 02, 04) it is `Heap.patched`:
additionally `inplaceAltersFlag`, `deleteStrict`, `fastpathAdopts` off. Every theorem below is stated for all
members that have the flag it needs off (hypotheses such as `c.mergeStrict = false`); `head` and `patched` satisfy
them by `rfl` (examples). The member with all flags on is the code at the pinned commit
(`c04_family_member_as_written`); its refutation witnesses are kept as the record of what the repairs removed.

The four clauses:

1. unwritable elements untouched, no flag altered.
   1a PROVED for every write through the engine, every shape, every member (`c04_unwritable_untouched_engine`,
   `…_inplace`). STILL REFUTED for the filter-less write on `head` and `patched` (`c04_untouched_refuted`, finding
   `fastpath-full-remote-write`, semantics debatable); full clause for members with the fast path closed
   (`c04_unwritable_untouched_fastpath_closed`).
   1b flags: PROVED on the merge path for every member (`c04_merge_protects`); PROVED for a WHOLE remote
   `UpdateList` call of any shape for members with `inplaceAltersFlag` off, i.e. `patched`
   (`c04_flags_unchanged_engine`); REFUTED on `head` (`c04_flag_refuted`, findings `flag-altered:*`, removed by
   fixes/c04/01).
2. unaddressed elements neither change nor influence acceptance.
   Merge path: PROVED at full strength for members with `mergeStrict` off, i.e. /repo now
   (`c04_unaddressed_irrelevant_merge`: same addressed elements ⇒ same verdict of the whole `UpdateList` call;
   `c04_unaddressed_unchanged`). Delete path: PROVED for members with `deleteStrict` off, i.e. `patched`
   (`c04_unaddressed_irrelevant_delete`, `c04_unaddressed_kept_delete`); REFUTED on `head`
   (`c04_unaddressed_delete_refuted`, finding `unaddressed-unwritable-blocks:deleteFilteredData`, removed by
   fixes/c04/02). The selector and identifier-less paths address every element they can fail on (nothing to prove).
   Record: `c04_unaddressed_merge_refuted_before_fix`.
3. error ⇒ data unchanged — REFUTED on every member incl. `head`, `patched` (`c04_error_unchanged_refuted`,
   findings `rejected-but-applied:*`; the in-place writes are codified by the repository's own tests); PROVED on the
   merge path as heap contents for every member (`c04_error_unchanged_merge`); on lists without unwritable elements
   no write without delete-elements is rejected (`c04_all_writable_accepts`, member as written).
4. success ⇒ all changes applied. Merge path: PROVED at full strength for members with `mergeStrict` off, i.e.
   /repo now (`c04_success_all_applied_merge`: every incoming item finds its element, every addressed element is the
   overlay, the overlay carries every named field but the flag). Record: `c04_success_applied_refuted_before_fix`.
   Selector / identifier-less / delete paths and their combinations: PROVED for every member, every shape
   (`c04_success_all_applied`: the list a successful `UpdateList` call returns is the COMPLETE application of the
   delete part and then of the partial part — the functions `delApplied`, `selApplied`, `allApplied` contain no
   writability test and skip nothing; `c04_success_all_applied_store`: the same for the data stored by
   `FunctionData.UpdateData`; `c04_success_selector_writable`, `c04_success_delete_addressed_writable`: a successful
   remote write addressed writable elements only; `c04_applied_fields_*`: what "applied" means field by field —
   every named field but the flag is carried resp. cleared, every hit element is gone).
3'. clause 3, exact region (`c04_error_unchanged_exact`, every member): an error answer leaves the data as it was
   whenever the delete filter names no elements and the partial part, on an in-place path, addresses no writable
   stored element (`partialTouches = false`; the merge path is always inside). The complement is where the three
   witnesses of `c04_error_unchanged_refuted` — the known findings `rejected-but-applied:*` — live, one per disjunct
   (`c04_error_unchanged_refuted_is_outside`).

**Which member is /repo NOW** (probed on every run): since the `fix:` series for C04 (flag kept on in-place paths,
delete fails only for addressed elements, fast path stores a copy) /repo probes to `patched`; `head` is the member
of the tree before that series and is kept as record.
-/
namespace Spine.Props.C04
open Spine Spine.Heap

/-- the member of the family with all defect flags on IS the transcription of `model.UpdateList` as written -/
theorem c04_family_member_as_written (sh : Shape) (remote : Bool) (ex nw : List Item) (fp fd : Option Filter) :
    updateListF .asWritten sh remote ex nw fp fd = updateList sh remote ex nw fp fd :=
  updateListF_asWritten sh remote ex nw fp fd

/-! ### the glue between the datagram and `UpdateData`: which filters a write is executed with -/

/-- PROVED: what `Cmd.ExtractFilter` hands to `UpdateData` as (filterPartial, filterDelete) is invariant under every
    permutation of the command's filter list, provided the list carries at most one partial and at most one delete
    filter (foreign entries — no or empty cmdControl — anywhere): a restricted write is executed with the same two
    restrictions whether the partial filter stands before or after the delete filter. The harness drives both
    orders through real write / notify / reply datagrams (`updl` of the driver runs this very function) and
    compares verdict and data of the two arrangements on the implementation (key `filter-order-dependent`). -/
theorem c04_filter_extraction_order_independent {α : Type} (l l' : List (FEntry α)) (h : AtMostOneEach l)
    (hp : l.Perm l') : extractFilter l = extractFilter l' :=
  extractFilter_perm l l' h hp

/-- … and it is the partial and the delete filter of the list, wherever they stand -/
theorem c04_filter_extraction_finds_both {α : Type} (l : List (FEntry α)) (h : AtMostOneEach l) :
    extractFilter l = ((partials l).head?, (deletes l).head?) :=
  extractFilter_eq l h

/-- non-vacuity: partial filter first, a foreign entry in between; with two filters of a kind the code takes the last -/
example : extractFilter [FEntry.part 1, .other, .del 2] = (some 1, some 2) ∧
    extractFilter [FEntry.del 2, .part 1, .other] = (some 1, some 2) ∧
    extractFilter [FEntry.part 1, .del 2, .part 3] = (some 3, some 2) := by decide

/-! ### clause 1: elements whose flag is not true are untouched, no flag is altered -/

/-- STILL REFUTED on /repo (`head`) and on the patched member (finding `fastpath-full-remote-write`): "after any
    remote write every element whose flag is not true is identical" — the filter-less write replaces the
    unchangeable limit 1. -/
theorem c04_untouched_refuted :
    ∀ c ∈ [head, patched], ∃ (h : H) (nw : List Item), h.WF ∧ ∃ e ∈ h.readStore, writeAllowed lc e = false ∧
      e ∉ (updateData c lc h true true nw .nil .nil).1.readStore := by
  intro c hc
  refine ⟨storeOf [changeable0, fixed1], [[some 1, some 1, none, some 0, none]], wf_full wf_empty _, fixed1, by decide, by decide, ?_⟩
  simp only [List.mem_cons, List.mem_nil_iff, or_false] at hc
  rcases hc with rfl | rfl <;> decide

/-- PROVED, every member of the family, every write shape (delete with selector and / or elements, selector write,
    identifier-less, identifier-based, combinations), persisting or not: a remote write that goes through the
    engine keeps every element whose flag is not true, identical, in the stored data. -/
theorem c04_unwritable_untouched_engine (c : Cfg) (sh : Shape) (h : H) (hw : h.WF) (persist : Bool) (nw : List Item)
    (fp fd : FArg) (hnf : fastPath c (h.allocValue nw).1 true persist fp fd = false) :
    ∀ e ∈ h.readStore, writeAllowed sh e = false → e ∈ (updateData c sh h true persist nw fp fd).1.readStore :=
  remote_engine_write_protects c sh hw persist nw fp fd hnf

/-- non-vacuity: a selector write on a store with an unwritable element goes through the engine and changes the store -/
example : fastPath .asWritten ((storeOf [fixed1, changeable2]).allocValue [[none, none, none, some 2, none]]).1 true true
      (.data ⟨some selAll, none⟩) .nil = false ∧ writeAllowed lc fixed1 = false ∧
    (remoteWrite aw (storeOf [fixed1, changeable2]) [[none, none, none, some 2, none]] (.data ⟨some selAll, none⟩) .nil).1.readStore
      ≠ (storeOf [fixed1, changeable2]).readStore := by decide

/-- PROVED for every member with the fast path closed for remote writes (DESIGN §9 C04a, not decided): EVERY
    remote write to an existing store keeps every element whose flag is not true — the full clause 1a. -/
theorem c04_unwritable_untouched_fastpath_closed (c : Cfg) (hc : c.fastpathRemote = false) (sh : Shape) (h : H) (hw : h.WF)
    (hs : h.store.isSome = true) (persist : Bool) (nw : List Item) (fp fd : FArg) :
    ∀ e ∈ h.readStore, writeAllowed sh e = false → e ∈ (updateData c sh h true persist nw fp fd).1.readStore :=
  remote_engine_write_protects c sh hw persist nw fp fd
    (fastPath_repaired c _ persist fp fd hc (by rw [allocValue_store]; exact hs))

/-- non-vacuity: the witness of the refutation is protected in the repaired member -/
example : repaired.fastpathRemote = false ∧ (storeOf [changeable0, fixed1]).store.isSome = true ∧
    (remoteWrite repaired (storeOf [changeable0, fixed1]) [[some 1, some 1, none, some 0, none]] .nil .nil).1.readStore
      = [changeable0, fixed1] := by decide

/-- PROVED on the engine, position by position: after a remote `UpdateList` of any shape the caller's array (the
    stored backing array) has its length and carries every unwritable element unchanged at its position, and the
    returned list still contains each of them. -/
theorem c04_unwritable_untouched_inplace (c : UCfg) (sh : Shape) (ex nw : List Item) (fp fd : Option Filter) (r : Res)
    (h : updateListF c sh true ex nw fp fd = .ok r) :
    Prot sh ex r.inplace ∧ ∀ e ∈ ex, writeAllowed sh e = false → e ∈ r.out :=
  updateListF_remote_protects c sh ex nw fp fd r h

/-- REFUTED on /repo (`head`; findings `flag-altered:copyToAllData`, `…:copyToSelectedData`,
    `…:deleteFilteredData`, removed by fixes/c04/01): "no remote write alters the flag of any element" — an
    identifier-less write and a selector write that carry a flag copy it onto changeable elements, a delete whose
    elements name the flag clears it. -/
theorem c04_flag_refuted :
    (remoteWrite head (storeOf [changeable0, changeable2]) [[none, some 0, none, none, none]] .nodata .nil).1.readStore.map (·.get 1)
        ≠ (storeOf [changeable0, changeable2]).readStore.map (·.get 1) ∧
    (remoteWrite head (storeOf [changeable0, changeable2]) [[none, some 0, none, none, none]] (.data ⟨some (selId 0), none⟩) .nil).1.readStore.map (·.get 1)
        ≠ (storeOf [changeable0, changeable2]).readStore.map (·.get 1) ∧
    (remoteWrite head (storeOf [changeable0, changeable2]) [] .nil (.data ⟨some (selId 0), some elFlag⟩)).1.readStore.map (·.get 1)
        ≠ (storeOf [changeable0, changeable2]).readStore.map (·.get 1) := by decide

/-- PROVED at full strength for every member with `inplaceAltersFlag` off (`patched`), for a WHOLE remote
    `UpdateList` call of any shape — delete with selector and / or elements, selector write, identifier-less,
    identifier-based, combinations: position by position the stored array keeps every flag (`FlagSame`), and the
    returned list corresponds one to one, up to `SortData`'s order, to a sub-list of the stored elements with the
    same flags (`FlagsKept`). `Wide`: the incoming items are values of the item type (wide enough to carry a flag). -/
theorem c04_flags_unchanged_engine (c : UCfg) (hc : c.inplaceAltersFlag = false) (sh : Shape) (f : Nat)
    (hf : sh.flag = some f) (ex nw : List Item) (hnw : Wide f nw) (fp fd : Option Filter) (r : Res)
    (h : updateListF c sh true ex nw fp fd = .ok r) :
    FlagSame f ex r.inplace ∧ FlagsKept f ex r.out :=
  updateListF_remote_flags c hc sh f hf ex nw hnw fp fd r h

/-- non-vacuity: `patched` has the flag off; the three writes of the refutation apply their values and leave the flags -/
example : patched.u.inplaceAltersFlag = false ∧
    (remoteWrite patched (storeOf [changeable0, changeable2]) [[none, some 0, none, some 2, none]] .nodata .nil).1.readStore
      = [[some 0, some 1, none, some 2, none], [some 2, some 1, none, some 2, none]] ∧
    (remoteWrite patched (storeOf [changeable0, changeable2]) [] .nil (.data ⟨some (selId 0), some [none, some 0, none, some 0, none]⟩)).1.readStore
      = [[some 0, some 1, none, none, none], changeable2] := by decide

/-- the item-level fact behind it: the overlay of the in-place paths keeps the item's flag -/
theorem c04_flag_kept_overlay (c : UCfg) (hc : c.inplaceAltersFlag = false) (sh : Shape) (f : Nat)
    (hf : sh.flag = some f) (nw x : Item) (hl : f < x.length) : (copyNonNilF c sh true nw x).get f = x.get f :=
  copyNonNilF_keeps_flag c hc sh f hf nw x hl

/-- PROVED (partial, every member): the merge path — identifier-based partial writes — never alters a flag and
    never touches an unwritable element, position by position. -/
theorem c04_merge_protects (c : UCfg) (sh : Shape) (f : Nat) (hf : sh.flag = some f) (s1 s2 : List Item)
    (hs2 : ∀ b ∈ s2, f < b.length) (i : Nat) (hi : i < s1.length) :
    ∃ h : i < (mergeF c sh true s1 s2).1.length,
      ((mergeF c sh true s1 s2).1[i]).get f = (s1[i]).get f ∧
      (writeAllowed sh s1[i] = false → (mergeF c sh true s1 s2).1[i] = s1[i]) := by
  have hm : (mergeF c sh true s1 s2).1 = (merge sh true s1 s2).1 := by rw [mergeF_fst]; simp [merge]
  obtain ⟨h, h1, h2⟩ := merge_remote_protects sh f hf s1 s2 hs2 i hi
  exact ⟨by rw [hm]; exact h, by simp only [hm]; exact h1, by simp only [hm]; exact h2⟩

/-- non-vacuity: a remote merge that changes a value and carries a (ignored) flag -/
example : (merge lc true [changeable0, fixed1] [[some 0, some 0, none, some 2, none]]).1 = [[some 0, some 1, none, some 2, none], fixed1] := by
  decide

/-- PROVED (partial): an identifier-less remote write whose item carries no flag alters no flag. -/
theorem c04_copyToAll_flag (sh : Shape) (f : Nat) (hf : sh.flag = some f) (ex : List Item) (nw : Item)
    (hnw : nw.get f = none) (i : Nat) (hi : i < ex.length) (hl : nw.length = ex[i].length) (hfl : f < ex[i].length) :
    ∃ h : i < (copyToAll sh true ex nw).1.length, ((copyToAll sh true ex nw).1[i]).get f = (ex[i]).get f :=
  copyToAll_remote_flag sh f hf ex nw hnw i hi hl hfl

/-! ### clause 2: unaddressed elements neither change nor influence acceptance -/

/-- PROVED at full strength for every member with `mergeStrict` off — /repo since c542973 — for the WHOLE
    `UpdateList` call of an identifier-based remote write: two stored lists with the same addressed elements get the
    same verdict. -/
theorem c04_unaddressed_irrelevant_merge (c : UCfg) (hc : c.mergeStrict = false) (sh : Shape) (ex ex' nw : List Item)
    (hnw : MergeNw sh nw) (h : ex.filter (addressedBy sh nw) = ex'.filter (addressedBy sh nw)) :
    ∃ r r', updateListF c sh true ex nw none none = .ok r ∧ updateListF c sh true ex' nw none none = .ok r' ∧
      r.ok = r'.ok := by
  refine ⟨_, _, updateListF_merge c sh true ex nw hnw, updateListF_merge c sh true ex' nw hnw, ?_⟩
  simp only [mergeF_fixed c hc, Bool.true_and]
  rw [mergeFixed_verdict_addressed sh ex nw, mergeFixed_verdict_addressed sh ex' nw, h]

/-- non-vacuity: `head` has the flag off; the two stores of the old refutation have the same addressed elements,
    differ otherwise, and are now both accepted -/
example : head.u.mergeStrict = false ∧ MergeNw lc [[some 0, none, none, some 2, none]] ∧
    [changeable0, fixed1].filter (addressedBy lc [[some 0, none, none, some 2, none]])
      = [changeable0, changeable1].filter (addressedBy lc [[some 0, none, none, some 2, none]]) ∧
    (remoteWrite head (storeOf [changeable0, fixed1]) [[some 0, none, none, some 2, none]] .nodata .nil).2 = .done true 1 (some 2) ∧
    (remoteWrite head (storeOf [changeable0, fixed1]) [[some 0, none, none, some 2, none]] .nodata .nil).1.readStore
      = [[some 0, some 1, none, some 2, none], fixed1] := by decide

/-- PROVED (every member, local and remote): an element the identifier-based write does not address passes through
    `Merge` unchanged. -/
theorem c04_unaddressed_unchanged (sh : Shape) (remote : Bool) (s2 : List Item) (a : Item)
    (hu : addressedBy sh s2 a = false) : mergeItem sh remote s2 a = a :=
  mergeItem_unaddressed sh remote s2 a hu

/-- RECORD (member before c542973; findings `unaddressed-unwritable-blocks:Merge`, fixed): the same write,
    addressing only limit 0, got different answers on two stores that differ only in limit 1. -/
theorem c04_unaddressed_merge_refuted_before_fix :
    (remoteWrite aw (storeOf [changeable0, fixed1]) [[some 0, none, none, some 2, none]] .nodata .nil).2
      ≠ (remoteWrite aw (storeOf [changeable0, changeable1]) [[some 0, none, none, some 2, none]] .nodata .nil).2 := by decide

/-- REFUTED on /repo (`head`; finding `unaddressed-unwritable-blocks:deleteFilteredData`, removed by fixes/c04/02):
    a delete that addresses only limit 0 gets different answers on two stores that differ only in limit 1. -/
theorem c04_unaddressed_delete_refuted :
    (remoteWrite head (storeOf [changeable0, fixed1]) [] .nil (.data ⟨some (selId 0), none⟩)).2
      ≠ (remoteWrite head (storeOf [changeable0, changeable1]) [] .nil (.data ⟨some (selId 0), none⟩)).2 := by decide

/-- PROVED for every member with `deleteStrict` off (`patched`): the verdict of a remote delete is "no unwritable
    element is hit by the filter" — two stored lists with the same addressed elements (`notHit` false: hit, or the
    selector cannot be evaluated on them) get the same verdict. -/
theorem c04_unaddressed_irrelevant_delete (c : UCfg) (hc : c.deleteStrict = false) (sh : Shape) (f : Filter)
    (ex ex' ip out ip' out' : List Item) (ok ok' : Bool)
    (h : deleteFilteredF.go c sh true f ex = .ok (ip, out, ok))
    (h' : deleteFilteredF.go c sh true f ex' = .ok (ip', out', ok'))
    (hsame : ex.filter (fun x => !notHit c sh f x) = ex'.filter (fun x => !notHit c sh f x)) : ok = ok' :=
  deleteFilteredF_fixed_irrelevant c hc sh f ex ex' ip out ip' out' ok ok' h h' hsame

/-- PROVED (every member): an element the delete filter does not hit is, unchanged, in the result of a delete that
    succeeded. -/
theorem c04_unaddressed_kept_delete (c : UCfg) (sh : Shape) (remote : Bool) (f : Filter) (ex ip out : List Item)
    (ok : Bool) (h : deleteFilteredF.go c sh remote f ex = .ok (ip, out, ok)) (hok : ok = true) :
    ∀ x ∈ ex, notHit c sh f x = true → x ∈ out :=
  deleteFilteredF_unaddressed_kept c sh remote f ex ip out ok h hok

/-- non-vacuity: `patched` accepts the delete of limit 0 and keeps the unchangeable limit 1; a delete that addresses
    limit 1 is still rejected -/
example : patched.u.deleteStrict = false ∧
    (remoteWrite patched (storeOf [changeable0, fixed1]) [] .nil (.data ⟨some (selId 0), none⟩)).1.readStore = [fixed1] ∧
    (remoteWrite patched (storeOf [changeable0, fixed1]) [] .nil (.data ⟨some (selId 1), none⟩)).2 = .done false 1 none := by decide

/-! ### clause 3: an error result leaves the data exactly as it was -/

/-- STILL REFUTED on /repo (`head`) and on the patched member (findings `rejected-but-applied:copyToAllData`,
    `…:copyToSelectedData`, `…:deleteFilteredData`; the in-place writes are codified by the repository's own tests):
    writes answered with an error that changed the stored data. -/
theorem c04_error_unchanged_refuted : ∀ c ∈ [head, patched],
    (∃ i, (remoteWrite c (storeOf [changeable0, fixed1]) [[none, none, none, some 2, none]] .nodata .nil).2 = .done false i none) ∧
    (remoteWrite c (storeOf [changeable0, fixed1]) [[none, none, none, some 2, none]] .nodata .nil).1.readStore
      ≠ (storeOf [changeable0, fixed1]).readStore ∧
    (∃ i, (remoteWrite c (storeOf [fixed1, changeable2]) [[none, none, none, some 2, none]] (.data ⟨some selAll, none⟩) .nil).2 = .done false i none) ∧
    (remoteWrite c (storeOf [fixed1, changeable2]) [[none, none, none, some 2, none]] (.data ⟨some selAll, none⟩) .nil).1.readStore
      ≠ (storeOf [fixed1, changeable2]).readStore ∧
    (∃ i, (remoteWrite c (storeOf [changeable0, fixed1]) [] .nil (.data ⟨none, some elValue⟩)).2 = .done false i none) ∧
    (remoteWrite c (storeOf [changeable0, fixed1]) [] .nil (.data ⟨none, some elValue⟩)).1.readStore
      ≠ (storeOf [changeable0, fixed1]).readStore := by
  intro c hc
  simp only [List.mem_cons, List.mem_nil_iff, or_false] at hc
  rcases hc with rfl | rfl <;>
    exact ⟨⟨1, by decide⟩, by decide, ⟨1, by decide⟩, by decide, ⟨1, by decide⟩, by decide⟩

/-- PROVED (partial, every member, as heap contents): an identifier-based partial write (the merge path) that is
    answered with an error leaves the stored data exactly as it was. -/
theorem c04_error_unchanged_merge (c : Cfg) (sh : Shape) (h : H) (hw : h.WF) (nw : List Item) (fp fd : FArg)
    (hp : fp.toOpt = none) (hd : fd.toOpt = none) (hnw : MergeNw sh nw)
    (hnf : fastPath c (h.allocValue nw).1 true true fp fd = false)
    (herr : ∃ i o, (updateData c sh h true true nw fp fd).2 = .done false i o) :
    (updateData c sh h true true nw fp fd).1.readStore = h.readStore :=
  updateData_merge_noop c sh hw true true nw fp fd hp hd hnw hnf (Or.inr herr)

/-- non-vacuity: on /repo a partial write that addresses the unchangeable limit 1 is rejected -/
example : (remoteWrite head (storeOf [changeable0, fixed1]) [[some 1, none, none, some 0, none]] .nodata .nil).2 = .done false 1 none ∧
    MergeNw lc [[some 1, none, none, some 0, none]] ∧
    fastPath head ((storeOf [changeable0, fixed1]).allocValue [[some 1, none, none, some 0, none]]).1 true true .nodata .nil = false := by
  decide

/-- PROVED (code as written): on a list without unwritable elements every remote write whose delete filter names no
    elements is accepted — there the error clause is vacuous and acceptance depends on nothing. (With delete
    elements the flag itself can be deleted first, see `c04_flag_refuted`.) -/
theorem c04_all_writable_accepts (sh : Shape) (ex nw : List Item) (fp fd : Option Filter) (r : Res)
    (hall : ex.all (writeAllowed sh) = true) (hel : ∀ f, fd = some f → f.el = none)
    (h : updateList sh true ex nw fp fd = .ok r) : r.ok = true :=
  updateList_all_writable_accepts sh ex nw fp fd r hall hel (by rw [updateListF_asWritten]; exact h)

/-- non-vacuity: a delete-by-selector combined with an identifier-less write on two changeable limits -/
example : [changeable0, changeable2].all (writeAllowed lc) = true ∧
    (match updateList lc true [changeable0, changeable2] [[none, none, none, some 2, none]] none (some ⟨some (selId 0), none⟩) with
     | .ok r => decide (r.out = [[some 2, some 1, none, some 2, none]]) && r.ok
     | .panic _ => false) = true := by decide

/-! ### clause 4: success has applied all changes -/

/-- PROVED at full strength on the merge path for every member with `mergeStrict` off — /repo since c542973: an
    identifier-based remote write answered with success (i) names no identifier that is not stored, (ii) has
    replaced every addressed element by the overlay of the incoming item (the last one with that identifier), which
    is in the result, and (iii) the overlay carries every field the incoming item names except the flag. -/
theorem c04_success_all_applied_merge (c : UCfg) (hc : c.mergeStrict = false) (sh : Shape) (s1 s2 : List Item)
    (hok : (mergeF c sh true s1 s2).2 = true) :
    (∀ b ∈ s2, ∃ a ∈ s1, hashKey sh a = hashKey sh b) ∧
    ∀ a ∈ s1, ∀ b, lookupLast sh (hashKey sh a) s2 = some b →
      mergeItem sh true s2 a ∈ (mergeF c sh true s1 s2).1 ∧
      ∀ j, j < b.length → (b.get j).isSome = true → sh.flag ≠ some j → (mergeItem sh true s2 a).get j = b.get j := by
  rw [mergeF_fixed c hc] at hok ⊢
  obtain ⟨h1, h2⟩ := mergeFixed_success_applied sh s1 s2 hok
  refine ⟨h1, fun a ha b hl => ?_⟩
  obtain ⟨e, hm⟩ := h2 a ha b hl
  exact ⟨hm, fun j hj hb hf => by rw [e]; exact updateFields_remote_applied sh a b j hj hb hf⟩

/-- non-vacuity: accepted on /repo although limit 1 is not changeable; an unknown identifier is rejected now -/
example : head.u.mergeStrict = false ∧
    mergeF head.u lc true [changeable0, fixed1] [[some 0, none, none, some 2, none]] = ([[some 0, some 1, none, some 2, none], fixed1], true) ∧
    (remoteWrite head (storeOf [changeable0]) [[some 5, none, none, some 2, none]] .nodata .nil).2 = .done false 1 none := by
  decide

/-- the same for the member before the repair, where success means "no element is unwritable" (kept because
    `updateList` as written is what C02's theorems speak about) -/
theorem c04_success_applied_merge_as_written (sh : Shape) (s1 s2 : List Item) (hok : (merge sh true s1 s2).2 = true)
    (a : Item) (ha : a ∈ s1) (b : Item) (hl : lookupLast sh (hashKey sh a) s2 = some b) :
    mergeItem sh true s2 a ∈ (merge sh true s1 s2).1 ∧
      ∀ j, j < b.length → (b.get j).isSome = true → sh.flag ≠ some j → (mergeItem sh true s2 a).get j = b.get j := by
  obtain ⟨h1, h2⟩ := merge_success_applied sh s1 s2 hok a ha b hl
  exact ⟨h2, fun j hj hb hf => by rw [h1]; exact updateFields_remote_applied sh a b j hj hb hf⟩

/-- RECORD (member before c542973; finding `success-but-not-applied:Merge`, fixed): a partial remote write with an
    identifier that is not stored was answered with success and nothing was applied. -/
theorem c04_success_applied_refuted_before_fix :
    (∃ i o, (remoteWrite aw (storeOf [changeable0]) [[some 5, none, none, some 2, none]] .nodata .nil).2 = .done true i o) ∧
    (remoteWrite aw (storeOf [changeable0]) [[some 5, none, none, some 2, none]] .nodata .nil).1.readStore = [changeable0] :=
  ⟨⟨1, some 2, by decide⟩, by decide⟩

/-! ### clause 4 on the selector, identifier-less and delete paths; clause 3, exact region -/

/-- PROVED (every member, every shape, local or remote, all seven filter shapes): **a write answered with success
    has applied all of its changes** — the list a successful `UpdateList` call returns is the complete application
    of the partial part (`partialApplied`: overlay on the first matching item / on every item / merge) to the
    complete application of the delete part (`delPhaseApplied`: every hit item removed resp. stripped of the named
    elements). Neither function contains a writability test or a skip. -/
theorem c04_success_all_applied (c : UCfg) (sh : Shape) (remote : Bool) (ex nw : List Item) (fp fd : Option Filter)
    (r : Res) (h : updateListF c sh remote ex nw fp fd = .ok r) (hok : r.ok = true) :
    r.out = partialApplied c sh remote nw fp (delPhaseApplied c sh remote fd ex) :=
  updateListF_success_applied c sh remote ex nw fp fd r h hok

/-- non-vacuity on the member /repo probes to: delete limit 0 by selector and write value 2 to all remaining limits
    of [changeable0, changeable2]; a selector write on [fixed1, changeable2] selecting limit 2 -/
example : (match updateListF patched.u lc true [changeable0, changeable2] [[none, none, none, some 2, none]] none (some ⟨some (selId 0), none⟩) with
      | .ok r => r.ok && decide (r.out = [[some 2, some 1, none, some 2, none]]) | .panic _ => false) = true ∧
    partialApplied patched.u lc true [[none, none, none, some 2, none]] none
      (delPhaseApplied patched.u lc true (some ⟨some (selId 0), none⟩) [changeable0, changeable2]) = [[some 2, some 1, none, some 2, none]] ∧
    (match updateListF patched.u lc true [fixed1, changeable2] [[none, none, none, some 7, none]] (some ⟨some (selId 2), none⟩) none with
      | .ok r => r.ok && decide (r.out = [fixed1, [some 2, some 1, none, some 7, none]]) | .panic _ => false) = true := by
  decide

/-- PROVED on the stored data (every member): a remote persisting write through the engine that is answered with
    success leaves as the function's data exactly the complete application of its delete part and its partial
    part to the data stored before. -/
theorem c04_success_all_applied_store (c : Cfg) (sh : Shape) (h : H) (hw : h.WF) (nw : List Item) (fp fd : FArg)
    (hnf : fastPath c (h.allocValue nw).1 true true fp fd = false)
    (hsucc : ∃ i o, (updateData c sh h true true nw fp fd).2 = .done true i o) :
    (updateData c sh h true true nw fp fd).1.readStore =
      partialApplied c.u sh true nw fp.toOpt (delPhaseApplied c.u sh true fd.toOpt h.readStore) :=
  updateData_success_applied c sh hw nw fp fd hnf hsucc

example : (remoteWrite patched (storeOf [fixed1, changeable2]) [[none, none, none, some 7, none]] (.data ⟨some (selId 2), none⟩) .nil).2
      = .done true 1 (some 2) ∧
    (remoteWrite patched (storeOf [fixed1, changeable2]) [[none, none, none, some 7, none]] (.data ⟨some (selId 2), none⟩) .nil).1.readStore
      = [fixed1, [some 2, some 1, none, some 7, none]] := by decide

/-- PROVED: in a successful REMOTE selector write the element the overlay went to — the first one the selector
    matches — is writable, and the result is the stored list with exactly that element overlaid. -/
theorem c04_success_selector_writable (c : UCfg) (sh : Shape) (sel nw : Item) (pre : List Item) (x : Item)
    (post r : List Item) (h : copyToSelectedF c sh true (pre ++ x :: post) sel nw = .ok (r, true))
    (hpre : ∀ y ∈ pre, selectorMatchF c sh sel y = .ok false) (hx : selectorMatchF c sh sel x = .ok true) :
    writeAllowed sh x = true ∧ r = pre ++ copyNonNilF c sh true nw x :: post := by
  refine ⟨copyToSelectedF_success_writable c sh sel nw pre x post r h hpre hx, ?_⟩
  rw [copyToSelectedF_success c sh true sel nw _ r h]
  exact selApplied_first_match c sh true sel nw pre x post hpre hx

/-- PROVED: a successful remote identifier-less write found every element writable and overlaid every element; a
    successful remote delete hit writable elements only (on members with `deleteStrict` on: found no unwritable
    element at all) and its result is the complete application of the filter. -/
theorem c04_success_delete_addressed_writable (c : UCfg) (sh : Shape) (f : Filter) (ex ip out : List Item)
    (h : deleteFilteredF c sh true ex f = .ok (ip, out, true)) :
    out = delApplied c sh true f ex ∧
    ∀ x ∈ ex, writeAllowed sh x = false → c.deleteStrict = false ∧ hitOf c sh f x = .ok false := by
  obtain ⟨h1, h2⟩ := deleteFilteredF_success c sh true f ex ip out h
  exact ⟨h1, h2 rfl⟩

theorem c04_success_identifierless_all_writable (c : UCfg) (sh : Shape) (ex : List Item) (nw : Item)
    (h : (copyToAllF c sh true ex nw).2 = true) :
    (copyToAllF c sh true ex nw).1 = allApplied c sh true nw ex ∧ ∀ x ∈ ex, writeAllowed sh x = true := by
  obtain ⟨h1, h2⟩ := copyToAllF_success c sh true ex nw h
  exact ⟨h1, h2 rfl⟩

example : (copyToAllF patched.u lc true [changeable0, changeable2] [none, none, none, some 2, none]).2 = true ∧
    (match deleteFilteredF patched.u lc true [changeable0, fixed1] ⟨some (selId 0), none⟩ with
     | .ok (_, out, ok) => ok && decide (out = [fixed1]) | .panic _ => false) = true := by decide

/-- PROVED, what "applied" means field by field: (i) the overlay of the selector and identifier-less paths carries
    every field the written item names, except — on members that keep the flag on remote writes — the flag;
    (ii) a delete with a selector alone keeps exactly the elements the selector does not hit; (iii) a delete with
    elements keeps every element and clears, in every hit one, every field an element names, except the flag on
    those members. -/
theorem c04_applied_fields_overlay (c : UCfg) (sh : Shape) (remote : Bool) (nw x : Item) (hl : nw.length = x.length)
    (j : Nat) (hj : j < x.length) (hb : (nw.get j).isSome = true) (hf : sh.flag ≠ some j) :
    (copyNonNilF c sh remote nw x).get j = nw.get j :=
  copyNonNilF_applied c sh remote nw x hl j hj hb hf

theorem c04_applied_fields_delete_selector (c : UCfg) (sh : Shape) (remote : Bool) (sel : Item) (ex : List Item) :
    delApplied c sh remote ⟨some sel, none⟩ ex = ex.filter fun x => !hitB c sh ⟨some sel, none⟩ x :=
  delApplied_selector c sh remote sel ex

theorem c04_applied_fields_delete_elements (c : UCfg) (sh : Shape) (remote : Bool) (fs : Option Item) (el : Item)
    (ex : List Item) :
    delApplied c sh remote ⟨fs, some el⟩ ex
      = ex.map (fun x => delItem c sh remote ⟨fs, some el⟩ (hitB c sh ⟨fs, some el⟩ x) x) ∧
    ∀ x, sh.elN = x.length → ∀ j i, j < el.length → (el.get j).isSome = true → (sh.elMap[j]?).join = some i →
      i < x.length → sh.flag ≠ some i → (delItem c sh remote ⟨fs, some el⟩ true x).get i = none :=
  ⟨delApplied_elements c sh remote fs el ex,
   fun x hn j i hj hel hm hi hf => delItem_cleared c sh remote fs el x hn j i hj hel hm hi hf⟩

example : delApplied patched.u lc true ⟨none, some elValue⟩ [changeable0, changeable2]
      = [[some 0, some 1, none, none, none], [some 2, some 1, none, none, none]] ∧
    (copyNonNilF patched.u lc true [none, some 0, none, some 7, none] changeable2) = [some 2, some 1, none, some 7, none] := by
  decide

/-- PROVED, clause 3 in its exact region (every member, every shape): a remote persisting write through the
    engine whose delete filter names no elements and whose partial part, on an in-place path (selector,
    identifier-less), addresses no WRITABLE stored element — the merge path always qualifies — and that is answered
    with an error leaves the function's data exactly as it was. -/
theorem c04_error_unchanged_exact (c : Cfg) (sh : Shape) (h : H) (hw : h.WF) (nw : List Item) (fp fd : FArg)
    (hnf : fastPath c (h.allocValue nw).1 true true fp fd = false)
    (hel : ∀ f, fd.toOpt = some f → f.el = none)
    (ht : partialTouches c.u sh true nw fp.toOpt h.readStore = false)
    (herr : ∃ i o, (updateData c sh h true true nw fp fd).2 = .done false i o) :
    (updateData c sh h true true nw fp fd).1.readStore = h.readStore :=
  updateData_error_unchanged c sh hw nw fp fd hnf hel ht herr

/-- non-vacuity: a selector write to the unchangeable limit 1 alone, and a delete by selector that hits it, are
    rejected on the member /repo probes to and lie inside the region -/
example : (remoteWrite patched (storeOf [changeable0, fixed1]) [[none, none, none, some 7, none]] (.data ⟨some (selId 1), none⟩) .nil).2
      = .done false 1 none ∧
    partialTouches patched.u lc true [[none, none, none, some 7, none]] (some ⟨some (selId 1), none⟩) (storeOf [changeable0, fixed1]).readStore = false ∧
    (remoteWrite patched (storeOf [changeable0, fixed1]) [] .nil (.data ⟨some (selId 1), none⟩)).2 = .done false 1 none := by
  decide

/-- the region is exact: each of the three refutation witnesses of `c04_error_unchanged_refuted` violates exactly
    one hypothesis of `c04_error_unchanged_exact` — the identifier-less and the selector write address a writable
    element on an in-place path, the delete names elements -/
theorem c04_error_unchanged_refuted_is_outside : ∀ c ∈ [head, patched],
    partialTouches c.u lc true [[none, none, none, some 2, none]] none (storeOf [changeable0, fixed1]).readStore = true ∧
    partialTouches c.u lc true [[none, none, none, some 2, none]] (some ⟨some selAll, none⟩) (storeOf [fixed1, changeable2]).readStore = true ∧
    (⟨none, some elValue⟩ : Filter).el ≠ none := by
  intro c hc
  simp only [List.mem_cons, List.mem_nil_iff, or_false] at hc
  rcases hc with rfl | rfl <;> exact ⟨by decide, by decide, by decide⟩

end Spine.Props.C04
